"""Co-simulation of the SymGlue model (lean/FparserModel/SymGlue.lean) against the real parser.

Generated program skeletons (modules with contained subprograms, internal procedures, BLOCK
constructs under f2008, submodules, main programs with and without PROGRAM statement; USE
statements with every kind of entry -- names, renames, operator renames, OPERATOR(..) /
ASSIGNMENT(=) entries before and after names, DTIO entries --; type declarations of scalars and
arrays named like intrinsics, with and without initialisation, in outer / intermediate / inner
scopes; statements that record nothing; references with various argument counts and shapes,
generic and specific intrinsic names) are rendered to Fortran, parsed by the REAL parser under
f2003 and f2008 and handed as skeleton text to the model (`symglue.run`).  Compared:

  (i)   the forest of symbol tables after the parse (names, nesting, data symbols with types,
        module uses with only / rename sets, local->module map, wildcard flags, submodule
        flag; BLOCK names renumbered) with `populate`;
  (ii)  for every reference node, in source order, whether it is an
        Intrinsic_Function_Reference / Part_Ref / Structure_Constructor with the model's log;
  (iii) when the model predicts an abort (FortranSyntaxError for a wrong argument count without
        wildcard import, a BLOCK under f2003) the real parser must raise exactly that and leave
        no table behind; a USE statement never aborts (a DTIO entry in an only-list is skipped
        since repo commit bf50e4e: directed regression cases expect `ok`);
  (iv)  the generated call-site facts (Generated/SymGlueSites.lean, as served by the driver)
        equal a fresh inspection of the live source.

Negative controls: two in-process mutants of the real code (initialised entities not recorded;
lookup jumping straight to the root table) and one mutant of the expectation must each be
DETECTED on the directed cases, otherwise the run fails.

    timeout 300 /venv/bin/python -m fv.cosim_symglue --seed 0 --n 200
"""
import argparse
import os
import random
import re
import sys
import time

from fv import repo
repo.activate()

from fv import model as _model            # noqa: E402
from fv import cosim_symtree as CS         # noqa: E402

try:
    from fv import extract_symglue
except ImportError:          # development copy outside the package
    import extract_symglue


def _hex(s):
    return s.encode("utf-8").hex()


# --------------------------------------------------------------------------- skeleton objects

INTR_ARITY = {  # name -> (min, max or None): used only to bias the generator towards valid counts
    "sin": (1, 1), "cos": (1, 1), "tan": (1, 1), "abs": (1, 1), "max": (2, None), "min": (2, None),
    "size": (1, 3), "dsin": (1, 1), "alog": (1, 1), "iabs": (1, 1), "amax0": (2, None),
    "sqrt": (1, 1), "erf": (1, 1), "shiftl": (2, 2), "mod": (2, 2), "dim": (2, 2), "idim": (2, 2),
}
INTR = sorted(INTR_ARITY)
PLAIN = ["foo", "bar", "Baz", "x1", "q", "only_q", "ONLYX"]
MODS = ["m1", "M2", "mod_a", "Mod_A", "iso_x"]
TYPES = {  # source text -> str(result[0])
    "integer": "INTEGER", "real": "REAL", "REAL(kind=8)": "REAL(KIND = 8)",
    "double precision": "DOUBLE PRECISION", "character(len=5)": "CHARACTER(LEN = 5)",
    "logical": "LOGICAL", "Complex": "COMPLEX",
}
DERIVED = ["type(tq)", "class(tq)"]
SHAPE_SRC = {"s": ["x", "1", "x+1", "n"], "n": ["1.0", '"a"', ".true."], "k": ["a=1", "b=x"]}


def casing(rng, s):
    r = rng.random()
    if r < 0.6:
        return s
    if r < 0.8:
        return s.upper()
    return s.capitalize()


class Ref:
    def __init__(self, name, shapes):
        self.name, self.shapes = name, shapes

    def src(self, rng):
        return "%s(%s)" % (self.name, ", ".join(rng.choice(SHAPE_SRC[c]) for c in self.shapes))

    def model(self):
        return "%s %s" % (self.name, self.shapes or "-")


class Stmt:
    """kind in use / decl / assign / silent; `lines` = Fortran text, `model` = skeleton line"""
    def __init__(self, lines, model):
        self.lines, self.model = lines, model


class Scope:
    def __init__(self, kind, name):
        self.kind, self.name = kind, name
        self.spec, self.execs, self.kids = [], [], []   # execs: Stmt or Scope(block)


class Gen:
    def __init__(self, rng, std):
        self.rng, self.std = rng, std
        self.k = 0
        self.expect_abort_possible = False

    def uid(self, p):
        self.k += 1
        return "%s%d" % (p, self.k)

    def name(self, intr_p=0.6):
        rng = self.rng
        pool = INTR if rng.random() < intr_p else PLAIN
        return casing(rng, rng.choice(pool))

    def ref(self):
        rng = self.rng
        nm = self.name(0.8)
        ar = INTR_ARITY.get(nm.lower())
        if ar and rng.random() < 0.9:
            lo, hi = ar
            n = rng.randint(lo, hi if hi is not None else lo + 2)
        else:
            n = rng.randint(0, 3)
        q = rng.random()
        if q < 0.6:
            shapes = "s" * n
        else:
            shapes = "".join(rng.choice("ssnk") for _ in range(n))
        return Ref(nm, shapes)

    # -- statements
    def use_stmt(self):
        rng = self.rng
        mod = rng.choice(MODS)
        nat = rng.choice(["", "", "", " ::", ", intrinsic ::", ", non_intrinsic ::"])
        head = "use%s %s" % (nat, mod)
        r = rng.random()
        if r < 0.25:
            return Stmt([head], "U %s plain" % mod)
        if r < 0.32:
            return Stmt([head + ", only:"], "U %s onlynone" % mod)
        if r < 0.75:
            ents_src, ents_mod = [], []
            for _ in range(rng.randint(1, 5)):
                q = rng.random()
                if q < 0.4:
                    n = self.name()
                    ents_src.append(n)
                    ents_mod.append("n:" + n)
                elif q < 0.6:
                    l, u = self.name(), self.name(0.3)
                    ents_src.append("%s => %s" % (l, u))
                    ents_mod.append("r:%s:%s" % (l, u))
                elif q < 0.7:
                    ents_src.append("operator(.%s.) => operator(.%s.)" % ("pa", "pb"))
                    ents_mod.append("o:pa:pb")
                elif q < 0.99:
                    g = rng.choice(["operator(+)", "OPERATOR(.foo.)", "assignment(=)", "operator (==)",
                                    "operator(.sin.)"])
                    ents_src.append(g)
                    ents_mod.append("g:" + _hex(g))
                else:
                    g = rng.choice(["read(formatted)", "write(unformatted)"])
                    ents_src.append(g)
                    ents_mod.append("d:" + _hex(g))
            return Stmt([head + ", only: " + ", ".join(ents_src)],
                        "U %s only %s" % (mod, " ".join(ents_mod)))
        ents_src, ents_mod = [], []
        for _ in range(rng.randint(1, 4)):
            if rng.random() < 0.7:
                l, u = self.name(), self.name(0.3)
                ents_src.append("%s => %s" % (l, u))
                ents_mod.append("r:%s:%s" % (l, u))
            else:
                ents_src.append("operator(.pa.) => operator(.pb.)")
                ents_mod.append("o:pa:pb")
        return Stmt([head + ", " + ", ".join(ents_src)], "U %s ren %s" % (mod, " ".join(ents_mod)))

    def decl_stmt(self):
        rng = self.rng
        if rng.random() < 0.85:
            tsrc = rng.choice(sorted(TYPES))
            tmod = "i:" + _hex(TYPES[tsrc])
        else:
            tsrc = rng.choice(DERIVED)
            tmod = "d:" + _hex(tsrc)
        attrs = rng.choice(["", "", "", ", dimension(3)", ", save", ", target"])
        ents_src, ents_mod = [], []
        need_colons = bool(attrs)
        for _ in range(rng.randint(1, 3)):
            n = self.name(0.65)
            s = n
            m = n
            q = rng.random()
            if q < 0.25:
                s += "(3)"
            elif q < 0.3:
                s += "(2, 0:4)"
            q = rng.random()
            if q < 0.2:
                s += " = 1"
                need_colons = True
            elif q < 0.4:
                r = self.ref()
                s += " = " + r.src(rng)
                m += "@%s:%s" % (r.name, r.shapes or "-")
                need_colons = True
            ents_src.append(s)
            ents_mod.append(m)
        sep = " :: " if need_colons or rng.random() < 0.6 else " "
        return Stmt([tsrc + attrs + sep + ", ".join(ents_src)], "D %s %s" % (tmod, " ".join(ents_mod)))

    def silent_stmt(self, exec_part=False):
        rng = self.rng
        n = self.name(0.7)
        if exec_part:
            return Stmt(["%s = 1" % n], "Q implicit %s" % n)
        k = rng.choice(["component", "parameter", "dimension", "external"])
        if k == "component":
            t = self.uid("tq")
            return Stmt(["type %s" % t, "  integer :: %s" % n, "  real, dimension(2) :: %s_b = 0.0" % n,
                         "end type %s" % t], "Q component %s" % n)
        if k == "parameter":
            return Stmt(["parameter (%s = 3)" % n], "Q parameter %s" % n)
        if k == "dimension":
            return Stmt(["dimension %s(3)" % n], "Q dimension %s" % n)
        return Stmt(["external %s" % n], "Q external %s" % n)

    def assign_stmt(self):
        r = self.ref()
        return Stmt(["%s = %s" % (self.uid("r"), r.src(self.rng))], "A " + r.model())

    # -- scopes
    def fill_spec(self, sc, nmax=4):
        rng = self.rng
        items = []
        for _ in range(rng.randint(0, nmax)):
            q = rng.random()
            if q < 0.35:
                items.append((0 if rng.random() < 0.8 else 1, self.use_stmt()))
            elif q < 0.85:
                items.append((1, self.decl_stmt()))
            else:
                items.append((1, self.silent_stmt()))
        # mostly USE first (as the standard wants), sometimes not: the parser accepts both
        if rng.random() < 0.8:
            items.sort(key=lambda e: e[0])
        sc.spec = [s for _, s in items]
        if sc.kind not in ("module", "submodule", "block") and rng.random() < 0.1:
            n = self.name(0.7)
            sc.spec.append(Stmt(["%s(zq) = zq + 1" % n], "Q stmtfunction %s" % n))

    def fill_exec(self, sc, depth, bdepth):
        rng = self.rng
        for _ in range(rng.randint(0, 4)):
            q = rng.random()
            if q < 0.65:
                sc.execs.append(self.assign_stmt())
            elif q < 0.75:
                sc.execs.append(self.silent_stmt(exec_part=True))
            elif bdepth < 2 and (self.std == "f2008" or rng.random() < 0.03):
                b = Scope("block", casing(rng, self.uid("blk")) if rng.random() < 0.5 else None)
                self.fill_spec(b, 3)
                self.fill_exec(b, depth, bdepth + 1)
                sc.execs.append(b)
            else:
                sc.execs.append(self.assign_stmt())

    def subprogram(self, depth, name=None):
        rng = self.rng
        k = rng.choice(["subroutine", "function"])
        nm = name or (self.name(0.3) if rng.random() < 0.3 else self.uid("p"))
        sc = Scope(k, nm)
        self.fill_spec(sc)
        self.fill_exec(sc, depth, 0)
        if depth < 2 and rng.random() < 0.35:
            for _ in range(rng.randint(1, 2)):
                sc.kids.append(self.subprogram(depth + 1))
        return sc

    def unit(self, name):
        rng = self.rng
        kinds = ["module", "module", "program", "subroutine", "function"]
        if self.std == "f2008":
            kinds.append("submodule")
        k = rng.choice(kinds)
        if k in ("subroutine", "function"):
            sc = self.subprogram(0, name)
            sc.kind = k
            return sc
        sc = Scope(k, name)
        self.fill_spec(sc, 5)
        if k == "program":
            self.fill_exec(sc, 0, 0)
        if rng.random() < 0.7:
            for _ in range(rng.randint(1, 3)):
                sc.kids.append(self.subprogram(1))
        return sc

    def program(self):
        rng = self.rng
        units = []
        if rng.random() < 0.08:
            sc = Scope("main0", "main0")
            self.fill_spec(sc, 3)
            self.fill_exec(sc, 0, 0)
            if not sc.spec and not sc.execs:
                sc.execs.append(self.assign_stmt())
            return [sc]
        names = []
        for _ in range(rng.randint(1, 3)):
            if names and rng.random() < 0.1:
                nm = casing(rng, rng.choice(names))       # a second unit of the same name
            else:
                nm = self.uid("u") if rng.random() < 0.8 else self.name(1.0)
            names.append(nm)
            units.append(self.unit(nm))
        # at most one main program
        seen = False
        for u in units:
            if u.kind == "program":
                if seen:
                    u.kind = "subroutine"
                seen = True
        return units


# --------------------------------------------------------------------------- rendering

def render_fortran(units, rng):
    out = []

    def emit(ind, s):
        out.append("  " * ind + s)

    def body(sc, ind):
        for s in sc.spec:
            for l in s.lines:
                emit(ind, l)
        for e in sc.execs:
            if isinstance(e, Scope):
                emit(ind, (e.name + ": " if e.name else "") + "block")
                body(e, ind + 1)
                emit(ind, "end block" + (" " + e.name if e.name else ""))
            else:
                for l in e.lines:
                    emit(ind, l)
        if sc.kids:
            emit(ind - 1 if ind else 0, "contains")
            for k in sc.kids:
                scope(k, ind)

    def scope(sc, ind):
        if sc.kind == "main0":
            body(sc, ind + 1)
            emit(ind, "end")
            return
        if sc.kind == "submodule":
            emit(ind, "submodule (anc) %s" % sc.name)
        elif sc.kind == "function":
            pre = rng.choice(["", "", "integer ", "pure "])
            emit(ind, "%sfunction %s(a1)" % (pre, sc.name))
        elif sc.kind == "subroutine":
            emit(ind, "subroutine %s%s" % (sc.name, rng.choice(["", "()", "(a1, a2)"])))
        else:
            emit(ind, "%s %s" % (sc.kind, sc.name))
        body(sc, ind + 1)
        emit(ind, rng.choice(["end %s %s" % (sc.kind, sc.name), "end %s" % sc.kind]))

    for u in units:
        scope(u, 0)
    return "\n".join(out) + "\n"


def render_model(units):
    out = []

    def scope(sc):
        nm = sc.name if sc.name else "block:#"
        out.append("S %s %s" % (sc.kind, nm))
        for s in sc.spec:
            out.append(s.model)
        for e in sc.execs:
            if isinstance(e, Scope):
                scope(e)
            else:
                out.append(e.model)
        for k in sc.kids:
            scope(k)
        out.append("E")

    for u in units:
        scope(u)
    return "\n".join(out)


# --------------------------------------------------------------------------- the real side

_BLK = re.compile(r"block:\d+")


def real_run(src, std):
    """-> (status, forest, cur, log); status = ok | abort:<ExceptionName>"""
    from fparser.two.parser import ParserFactory
    from fparser.common.readfortran import FortranStringReader
    from fparser.two.symbol_table import SYMBOL_TABLES
    from fparser.two import Fortran2003 as F
    from fparser.two.utils import walk
    parser = ParserFactory().create(std=std)
    try:
        tree = parser(FortranStringReader(src, ignore_comments=False))
    except SystemExit:
        return ("abort:SystemExit", _left(), "", "")
    except Exception as e:        # noqa: BLE001
        return ("abort:" + type(e).__name__, _left(), "", "")
    rt = CS.RealTabs.__new__(CS.RealTabs)
    rt.st = SYMBOL_TABLES
    forest = _BLK.sub("block:#", rt.render_forest())
    cur = rt.path_of(SYMBOL_TABLES.current_scope)
    letters = []
    for n in walk(tree, (F.Intrinsic_Function_Reference, F.Part_Ref, F.Structure_Constructor,
                         F.Function_Reference)):
        par = getattr(n, "parent", None)
        if isinstance(par, F.Assignment_Stmt) and par.items[0] is n:
            # `f(zq) = …` taken as an assignment to an array element: not a Primary
            continue
        letters.append({"Intrinsic_Function_Reference": "I", "Part_Ref": "P",
                        "Structure_Constructor": "S"}.get(type(n).__name__, "F"))
    return ("ok", forest, cur, ",".join(letters))


def _left():
    from fparser.two.symbol_table import SYMBOL_TABLES
    names = list(SYMBOL_TABLES._symbol_tables.keys())
    return "" if not names and SYMBOL_TABLES.current_scope is None else "LEFT:" + ",".join(names)


ABORT_MAP = {"abort:NoMatch": "abort:FortranSyntaxError"}


def check_case(m, std, src, skel, label):
    """-> (list of problems, status)"""
    ms = m.ask("symglue.run", std, skel)
    rs = real_run(src, std)
    mstat = ABORT_MAP.get(ms[0], ms[0])
    probs = []
    if mstat != rs[0]:
        probs.append("status: model %s real %s" % (ms[0], rs[0]))
    elif mstat == "ok":
        if ms[1] != rs[1]:
            probs.append("forest:\n      model %s\n      real  %s" % (ms[1], rs[1]))
        if ms[2] != rs[2]:
            probs.append("current scope: model %s real %s" % (ms[2], rs[2]))
        if ms[3] != rs[3]:
            probs.append("reference kinds: model %s real %s" % (ms[3], rs[3]))
    else:
        if rs[1]:
            probs.append("failed parse left tables behind: %s" % rs[1])
    return (["%s [%s]: %s" % (label, std, p) for p in probs], ms[0])


# --------------------------------------------------------------------------- directed cases

def directed():
    """(label, std list, source, skeleton[, expected model status])"""
    g = lambda s: "g:" + _hex(s)       # noqa: E731
    i = lambda s: "i:" + _hex(s)       # noqa: E731
    out = []
    out.append(("only-list entries of every kind", ["f2003", "f2008"],
                "module m\n use b, only: operator(+), x, assignment(=), y => z, operator(.p.) => operator(.q.), Sin, operator(.f.)\n"
                " use c, r1 => u1, operator(.p.) => operator(.q.), cos => u2\n use d, only:\n use e, only: operator(*)\n"
                " use f, operator(.p.) => operator(.q.)\n use b, w => v\nend module m\n",
                "S module m\nU b only %s n:x %s r:y:z o:p:q n:Sin %s\nU c ren r:r1:u1 o:p:q r:cos:u2\nU d onlynone\n"
                "U e only %s\nU f ren o:p:q\nU b ren r:w:v\nE" % (g("operator(+)"), g("assignment(=)"), g("operator(.f.)"),
                                                               g("operator(*)"))))
    out.append(("rename local names shadow, use names do not", ["f2003", "f2008"],
                "subroutine s\n use b, only: sin => cos\n r1 = sin(x)\n r2 = cos(x)\n r3 = DSIN(x)\nend subroutine s\n",
                "S subroutine s\nU b only r:sin:cos\nA sin s\nA cos s\nA DSIN s\nE"))
    out.append(("specific vs generic names", ["f2003", "f2008"],
                "subroutine s\n real :: dsin(3), abs\n r1 = dsin(1)\n r2 = sin(x)\n r3 = iabs(1)\n r4 = abs(1)\n r5 = alog(x)\nend subroutine s\n",
                "S subroutine s\nD %s dsin abs\nA dsin s\nA sin s\nA iabs s\nA abs s\nA alog s\nE" % i("REAL")))
    out.append(("outer / intermediate / inner declarations, BLOCK", ["f2008"],
                "module m\n real :: sin(3)\ncontains\n subroutine s\n  integer :: cos(2)\n  r1 = sin(1)\n  r2 = cos(1)\n  r3 = tan(x)\n"
                "  block\n   real :: tan(3)\n   r4 = tan(1)\n   b2: block\n    r5 = tan(1)\n    r6 = abs(1)\n   end block b2\n  end block\n  r7 = tan(x)\n"
                " end subroutine s\n subroutine t\n  r8 = cos(x)\n  r9 = sin(1)\n end subroutine t\nend module m\n",
                "S module m\nD %s sin\nS subroutine s\nD %s cos\nA sin s\nA cos s\nA tan s\nS block block:#\nD %s tan\nA tan s\n"
                "S block b2\nA tan s\nA abs s\nE\nE\nA tan s\nE\nS subroutine t\nA cos s\nA sin s\nE\nE"
                % (i("REAL"), i("INTEGER"), i("REAL"))))
    out.append(("initialised entities are recorded; reference inside the declaration comes first", ["f2003", "f2008"],
                "subroutine s\n real :: cos = cos(1.0), w(3) = 1.0, v = sin(x)\n real :: sin\n r1 = cos(1.0)\n r2 = sin(x)\nend subroutine s\n",
                "S subroutine s\nD %s cos@cos:n w v@sin:s\nD %s sin\nA cos n\nA sin s\nE" % (i("REAL"), i("REAL"))))
    out.append(("wildcard import: valid count stays intrinsic, wrong count is refused silently", ["f2003", "f2008"],
                "subroutine s\n use a\n r1 = sin(x)\n r2 = sin(x, 2)\n r3 = sin()\nend subroutine s\n",
                "S subroutine s\nU a plain\nA sin s\nA sin ss\nA sin -\nE"))
    out.append(("wrong count without wildcard import is a syntax error", ["f2003", "f2008"],
                "module m\n integer :: k\nend module m\nsubroutine s\n r2 = sin(x, 2)\nend subroutine s\n",
                "S module m\nD %s k\nE\nS subroutine s\nA sin ss\nE" % i("INTEGER")))
    out.append(("DTIO entry in an only-list", ["f2003", "f2008"],
                "module m\n use b, only: x, read(formatted), y\nend module m\n",
                "S module m\nU b only n:x d:%s n:y\nE" % _hex("read(formatted)"), "ok"))
    out.append(("DTIO entries alone / first / last, with operators and renames", ["f2003", "f2008"],
                "subroutine s\n use b, only: write(unformatted)\n use c, only: read(unformatted), sin, operator(+), cos => z, WRITE (FORMATTED)\n"
                " r1 = sin(x)\n r2 = cos(x)\n r3 = tan(x)\n r4 = sin(x, 2)\nend subroutine s\n",
                "S subroutine s\nU b only d:%s\nU c only d:%s n:sin g:%s r:cos:z d:%s\nA sin s\nA cos s\nA tan s\nA sin ss\nE"
                % (_hex("write(unformatted)"), _hex("read(unformatted)"), _hex("operator(+)"), _hex("WRITE (FORMATTED)")), "ok"))
    out.append(("rename list whose first local name begins with `only`", ["f2003", "f2008"],
                "subroutine s\n use b, only_n => n\n use c, ONLYSIN => cos, sin => q, operator(.p.) => operator(.q.)\n use d, only1 => z\n"
                " use e, Only_ => w, tan => only\n r1 = sin(x)\n r2 = cos(x)\n r3 = tan(x)\n r4 = onlysin(x)\n r5 = abs(x, 2)\nend subroutine s\n",
                "S subroutine s\nU b ren r:only_n:n\nU c ren r:ONLYSIN:cos r:sin:q o:p:q\nU d ren r:only1:z\nU e ren r:Only_:w r:tan:only\n"
                "A sin s\nA cos s\nA tan s\nA onlysin s\nA abs ss\nE", "ok"))
    out.append(("`only` as keyword next to names beginning with `only`", ["f2003", "f2008"],
                "module m\n use b, only : only_n => n, only2\n use c, ONLY:only\n use d, only:\n use e, ONLY :\n use f, a => b, only => g\nend module m\n",
                "S module m\nU b only r:only_n:n n:only2\nU c only n:only\nU d onlynone\nU e onlynone\nU f ren r:a:b r:only:g\nE", "ok"))
    out.append(("what records nothing", ["f2003", "f2008"],
                "subroutine s(sin, a2)\n type(tq) :: cos\n parameter (tan = 3)\n dimension abs(3)\n external max\n type tz\n  integer :: min\n end type tz\n"
                " sqrt(zq) = zq + 1\n dim = 1\n r1 = sin(x)\n r2 = cos(x)\n r3 = tan(x)\n r4 = abs(1)\n r5 = max(1, 2)\n r6 = min(1, 2)\n r7 = sqrt(x)\n r8 = dim(1, 2)\n"
                "contains\n function mod(a1)\n end function mod\nend subroutine s\n",
                "S subroutine s\nD d:%s cos\nQ parameter tan\nQ dimension abs\nQ external max\nQ component min\nQ stmtfunction sqrt\nQ implicit dim\n"
                "A sin s\nA cos s\nA tan s\nA abs s\nA max ss\nA min ss\nA sqrt s\nA dim ss\nS function mod\nE\nE" % _hex("type(tq)")))
    out.append(("a contained procedure does not shadow in its host or siblings", ["f2003", "f2008"],
                "module m\ncontains\n function abs(a1)\n  real :: abs\n  r1 = abs(1)\n end function abs\n subroutine t\n  r2 = abs(1)\n end subroutine t\nend module m\n",
                "S module m\nS function abs\nD %s abs\nA abs s\nE\nS subroutine t\nA abs s\nE\nE" % i("REAL")))
    out.append(("two program units of one name share a table", ["f2003", "f2008"],
                "module a\n real :: sin(3)\nend module a\nsubroutine A\n r1 = sin(1)\nend subroutine A\n",
                "S module a\nD %s sin\nE\nS subroutine A\nA sin s\nE" % i("REAL")))
    out.append(("main program without PROGRAM statement", ["f2003", "f2008"],
                "integer :: cos(3)\nr1 = cos(1)\nr2 = sin(x)\nend\n",
                "S main0 main0\nD %s cos\nA cos s\nA sin s\nE" % i("INTEGER")))
    out.append(("BLOCK is not Fortran 2003", ["f2003"],
                "subroutine s\n block\n  real :: tan(3)\n end block\nend subroutine s\n",
                "S subroutine s\nS block block:#\nD %s tan\nE\nE" % i("REAL")))
    out.append(("f2008 intrinsics are ordinary names under f2003", ["f2003", "f2008"],
                "subroutine s\n r1 = erf(x)\n r2 = shiftl(1, 2)\n r3 = erf(1.0)\nend subroutine s\n",
                "S subroutine s\nA erf s\nA shiftl ss\nA erf n\nE"))
    out.append(("submodule: wrong count is refused silently", ["f2008"],
                "submodule (anc) sm\ncontains\n subroutine s\n  r1 = sin(x, 2)\n  r2 = sin(x)\n end subroutine s\nend submodule sm\n",
                "S submodule sm\nS subroutine s\nA sin ss\nA sin s\nE\nE"))
    return out


# --------------------------------------------------------------------------- negative controls

def negative_controls(m, cases):
    """each mutant must be detected on the directed cases; returns list of failures"""
    from fparser.two import Fortran2003 as F
    from fparser.two import symbol_table as ST
    from fparser.two.utils import walk
    fails = []
    det = {}

    def run_all():
        n = 0
        for case in cases:
            label, stds, src, skel = case[:4]
            for std in stds:
                pr, _ = check_case(m, std, src, skel, label)
                n += 1 if pr else 0
        return n

    # mutant 1: entities with an initialisation are not recorded
    orig = F.Type_Declaration_Stmt.__dict__["add_to_symbol_table"]

    def mut_add(result):
        if result:
            table = ST.SYMBOL_TABLES.current_scope
            if table and isinstance(result[0], F.Intrinsic_Type_Spec):
                for decl in walk(result, F.Entity_Decl):
                    if decl.items[3] is not None:
                        continue
                    table.add_data_symbol(decl.items[0].string, str(result[0]))
    F.Type_Declaration_Stmt.add_to_symbol_table = staticmethod(mut_add)
    try:
        det["initialised entities skipped"] = run_all()
    finally:
        F.Type_Declaration_Stmt.add_to_symbol_table = orig

    # mutant 2: lookup jumps straight to the root table
    orig_lookup = ST.SymbolTable.lookup

    def mut_lookup(self, name):
        lname = name.lower()
        if lname in self._data_symbols:
            return self._data_symbols[lname]
        for module in self._modules.values():
            try:
                return module.lookup(lname)
            except KeyError:
                pass
        root = self.root
        if root is not self:
            return orig_lookup(root, name)
        raise KeyError(name)
    ST.SymbolTable.lookup = mut_lookup
    try:
        det["lookup jumps to the root"] = run_all()
    finally:
        ST.SymbolTable.lookup = orig_lookup

    # mutant 3: the only-list loop stops at the first OPERATOR / ASSIGNMENT entry
    orig_add_use = ST.SymbolTable.add_use_symbols
    orig_match = F.Use_Stmt.__dict__["match"]

    def mut_match(string):
        result = F.Use_Stmt._match(string)
        if result:
            table = ST.SYMBOL_TABLES.current_scope
            if table:
                only_list = None
                rename_list = None
                if "only" in result[3].lower():
                    only_list = []
                if isinstance(result[4], F.Only_List):
                    for child in result[4].children:
                        if isinstance(child, F.Name):
                            only_list.append((child.string, None))
                        elif isinstance(child, F.Rename):
                            if not child.children[0]:
                                only_list.append((child.children[1].string, child.children[2].string))
                        elif isinstance(child, (F.Generic_Spec, F.Dtio_Generic_Spec)):
                            break
                elif isinstance(result[4], F.Rename_List):
                    rename_list = []
                    for rename in walk(result[4], F.Rename):
                        if rename.children[0] is None:
                            rename_list.append((rename.children[1].string, rename.children[2].string))
                table.add_use_symbols(str(result[2]), only_list, rename_list)
        return result
    F.Use_Stmt.match = staticmethod(mut_match)
    try:
        det["only-list loop breaks at an operator entry"] = run_all()
    finally:
        F.Use_Stmt.match = orig_match
    assert ST.SymbolTable.add_use_symbols is orig_add_use

    # mutant 4: of the expectation (a declaration dropped from the skeleton)
    label, stds, src, skel = cases[2][:4]
    pr, _ = check_case(m, stds[0], src, skel.replace(" dsin abs", " abs"), label)
    det["expectation mutated"] = len(pr)

    for k, v in det.items():
        if v == 0:
            fails.append("negative control NOT detected: " + k)
    # and the unmutated code passes again
    if run_all() != 0:
        fails.append("directed cases fail after the mutants were removed")
    return fails, det


# --------------------------------------------------------------------------- sites

def check_sites(m):
    f = extract_symglue.facts()
    got = m.ask("symglue.sites")
    probs = []
    live_sites = "\n".join("%s:%s:%s" % e for e in f["callSites"])
    if got[0] != live_sites:
        probs.append("Generated/SymGlueSites.lean callSites stale:\n   generated %r\n   live      %r" % (got[0], live_sites))
    for idx, key in ((1, "scoping2003"), (2, "scoping2008"), (3, "onlyAlternatives"), (4, "primaryAlternatives")):
        if got[idx] != ",".join(f[key]):
            probs.append("Generated/SymGlueSites.lean %s stale: generated %r live %r" % (key, got[idx], f[key]))
    live_br = ",".join("%s:%s" % e for e in f["onlyLoopBranches"])
    if len(got) < 6 or got[5] != live_br:
        probs.append("Generated/SymGlueSites.lean onlyLoopBranches stale: generated %r live %r" % (got[5:6], live_br))
    return probs, f


# --------------------------------------------------------------------------- main

def main(argv=None):
    ap = argparse.ArgumentParser()
    ap.add_argument("--seed", type=int, default=0)
    ap.add_argument("--n", type=int, default=200)
    ap.add_argument("--verbose", action="store_true")
    ap.add_argument("--exe", default=os.environ.get("FV_MODEL_EXE"))
    ap.add_argument("--dump", type=int, default=None, help="print generated case number K and stop")
    args = ap.parse_args(argv)
    rng = random.Random(args.seed)
    t0 = time.time()
    m = _model.Model(args.exe) if args.exe else _model.get_model()
    failures = []
    stats = {"cases": 0, "ok": 0, "aborts": {}, "refs": 0, "intrinsic": 0, "partref": 0, "structcons": 0,
             "tables": 0, "uses": 0, "syms": 0}

    pr, f = check_sites(m)
    failures += pr
    stats["call_sites"] = len(f["callSites"])

    cases = directed()
    for case in cases:
        label, stds, src, skel = case[:4]
        for std in stds:
            pr, status = check_case(m, std, src, skel, "directed: " + label)
            failures += pr
            if len(case) > 4 and status != case[4]:
                failures.append("directed: %s [%s]: expected status %s, model says %s" % (label, std, case[4], status))
            stats["cases"] += 1
    ndirected = stats["cases"]

    for k in range(args.n):
        std = "f2008" if rng.random() < 0.6 else "f2003"
        g = Gen(rng, std)
        units = g.program()
        src = render_fortran(units, rng)
        skel = render_model(units)
        if args.dump is not None:
            if k == args.dump:
                print(src)
                print(skel)
                print(m.ask("symglue.run", std, skel))
                print(real_run(src, std))
                return 0
            continue
        pr, status = check_case(m, std, src, skel, "seed %d case %d" % (args.seed, k))
        if pr:
            failures.append(pr[0] + "\n----- source\n" + src + "----- skeleton\n" + skel)
        stats["cases"] += 1
        if status == "ok":
            stats["ok"] += 1
            ms = m.ask("symglue.run", std, skel)
            letters = [x for x in ms[3].split(",") if x]
            stats["refs"] += len(letters)
            stats["intrinsic"] += letters.count("I")
            stats["partref"] += letters.count("P")
            stats["structcons"] += letters.count("S")
            stats["tables"] += ms[1].count("{syms:")
            stats["uses"] += ms[1].count("(w=")
            stats["syms"] += len(re.findall(r"[,:]([a-z0-9_]+):\1:", ms[1]))
        else:
            stats["aborts"][status] = stats["aborts"].get(status, 0) + 1

    # informational probe (text level, outside this model): a rename list whose FIRST local name is
    # exactly `only` is still taken for the keyword by Use_Stmt._match
    probe = real_run("module m\n use f, only => g\nend module m\n", "f2003")[0]
    nfail, det = negative_controls(m, cases)
    failures += nfail

    print("cosim_symglue: seed %d, %d directed + %d generated cases, %.1f s" %
          (args.seed, ndirected, stats["cases"] - ndirected, time.time() - t0))
    print("  generated: parsed ok %d, aborts %s" % (stats["ok"], stats["aborts"]))
    print("  tables %d, data symbols %d, module uses %d" % (stats["tables"], stats["syms"], stats["uses"]))
    print("  references %d: intrinsic %d, Part_Ref %d, Structure_Constructor %d" %
          (stats["refs"], stats["intrinsic"], stats["partref"], stats["structcons"]))
    print("  call sites %d (generated == live)" % stats["call_sites"])
    print("  negative controls (disagreements provoked): %s" % det)
    print("  note (not part of the verdict): `use f, only => g` (first local name exactly `only`) -> %s" % probe)
    if stats["cases"] - ndirected > 20 and (stats["intrinsic"] == 0 or stats["partref"] == 0 or stats["uses"] == 0):
        failures.append("vacuous run: no intrinsic / shadowed reference or no USE was exercised")
    for fl in failures[:10]:
        print("DISAGREEMENT " + fl)
    if len(failures) > 10:
        print("... %d more" % (len(failures) - 10))
    print("RESULT: %s" % ("PASS" if not failures else "FAIL"))
    return 0 if not failures else 1


if __name__ == "__main__":
    sys.exit(main())
