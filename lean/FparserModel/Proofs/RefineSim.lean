import FparserModel.Proofs.RefineReader

/-!
# RefineSim — the simulation: `getItem` ~ `Stream.get`, `putItem` ~ `Stream.put`
-/
namespace Fp.Refine
open Fp Fp.Reader

variable {dir : Item → Bool} {d : Nat} {fs : Fs} {st0 : List Rd} {xs0 : List Item} {fin0 : List Rd}

/-! ### lists -/

theorem drop_cons_getElem {α} : ∀ (l : List α) (k : Nat) (y : α) (ys : List α),
    l.drop k = y :: ys → l[k]? = some y ∧ l.drop (k + 1) = ys ∧ l.take (k + 1) = l.take k ++ [y]
  | [], k, y, ys, h => by simp at h
  | a :: l, 0, y, ys, h => by
    simp only [List.drop_zero, List.cons.injEq] at h
    obtain ⟨rfl, rfl⟩ := h
    simp
  | a :: l, k + 1, y, ys, h => by
    simp only [List.drop_succ_cons] at h
    obtain ⟨h1, h2, h3⟩ := drop_cons_getElem l k y ys h
    refine ⟨by simpa using h1, by simpa using h2, ?_⟩
    simp only [List.take_succ_cons, List.cons_append, h3]

theorem absItems_append (dir : Item → Bool) : ∀ (xs ys : List Item) (k : Nat),
    absItems dir k (xs ++ ys) = absItems dir k xs ++ absItems dir (k + xs.length) ys
  | [], ys, k => by simp [absItems]
  | x :: xs, ys, k => by
    simp only [List.cons_append, absItems, List.length_cons, absItems_append dir xs ys (k + 1)]
    rw [show k + 1 + xs.length = k + (xs.length + 1) from by omega]

theorem absItems_length (dir : Item → Bool) : ∀ (xs : List Item) (k : Nat),
    (absItems dir k xs).length = xs.length
  | [], _ => rfl
  | _ :: xs, k => by simp [absItems, absItems_length dir xs (k + 1)]

/-- the images of consecutive positions of `xs0` decode to those positions -/
theorem absItems_decode (dir : Item → Bool) (xs0 : List Item) : ∀ (ys : List Item) (k : Nat),
    (∀ j, ys[j]? = xs0[k + j]?) → (absItems dir k ys).map (decode xs0) = ys.map some
  | [], _, _ => rfl
  | y :: ys, k, h => by
    simp only [absItems, List.map_cons, List.cons.injEq]
    refine ⟨?_, absItems_decode dir xs0 ys (k + 1) (fun j => ?_)⟩
    · have := h 0
      simp only [List.getElem?_cons_zero, Nat.add_zero] at this
      simp only [decode, absItem]; exact this.symm
    · have := h (j + 1)
      simp only [List.getElem?_cons_succ] at this
      rw [this]; congr 1; omega

theorem absItems_drop_decode (dir : Item → Bool) (xs0 : List Item) (k : Nat) :
    (absItems dir k (xs0.drop k)).map (decode xs0) = (xs0.drop k).map some :=
  absItems_decode dir xs0 _ k (fun j => by simp)

/-! ### the initial state -/

/-- the abstraction function gives the items of the `Drains` future -/
theorem futureItems_of_drainEv {d : Nat} {fs : Fs} {fuel : Nat} {st : List Rd} {xs : List Item}
    {fin : List Rd} (h : drainEv d fs fuel st = some (evItems xs, fin)) :
    futureItems d fs fuel st = xs := by
  unfold futureItems
  rw [h]
  simp only [evItems, List.filterMap_map]
  clear h
  induction xs with
  | nil => rfl
  | cons x xs ih => simpa [Ev.item?] using ih

/-- a fresh reader chain (nothing delivered, nothing put back) is represented by the stream
    `St.init (absItems 0 xs0)` of the block model -/
theorem abs_init (h : Drains (d + 1) fs st0 (evItems xs0) fin0) (hne : st0 ≠ []) :
    Abs dir d fs st0 xs0 fin0 st0
      { buf := [], rest := absItems dir 0 xs0, pulled := 0, eof := false } := by
  obtain ⟨r, hr⟩ := innermost_isSome st0 hne
  refine ⟨[], st0, r, rfl, hr, (fun p hp => by cases hp), rfl, by simp, by simpa using h,
    (fun _ => by simp [getN]), (fun he => by cases he), Nat.zero_le _⟩

/-! ### one step -/

theorem cget_ok {rd rd' : List Rd} {x : Item} (h : getItem (d + 1) fs rd = (.ok x, rd')) :
    cget d fs rd = (some x, rd') := by
  unfold cget; rw [h]

theorem cget_none {rd : List Rd} (h : ∀ x, (getItem (d + 1) fs rd).1 ≠ .ok x) :
    cget d fs rd = (none, (getItem (d + 1) fs rd).2) := by
  unfold cget
  cases hp : getItem (d + 1) fs rd with
  | mk res rd' =>
    cases res with
    | ok x => rw [hp] at h; exact absurd rfl (h x)
    | stop => rfl
    | err => rfl
    | exit => rfl
    | unsup => rfl

/-- SIMULATION, `get`: one `get_item()` on the reader chain is one `Stream.get` on its
    abstraction, and both deliver the same item of `xs0` (or both `None`) -/
theorem abs_get {rd : List Rd} {s : Block.Stream} (h : Abs dir d fs st0 xs0 fin0 rd s) :
    Abs dir d fs st0 xs0 fin0 (cget d fs rd).2 s.get.2 ∧
    GetRel dir xs0 (cget d fs rd).1 s.get.1 := by
  obtain ⟨bx, hw, r, hrd, hi, hb, hbuf, hrest, hdr, he0, he1, hle⟩ := h
  cases bx with
  | cons p bx' =>
    obtain ⟨i, x⟩ := p
    -- the item put back most recently comes back; the chain below it is restored
    have hb' : ∀ p ∈ bx', returnable fs r p.2 = true ∧ xs0[p.1]? = some p.2 :=
      fun p hp => hb p (List.mem_cons_of_mem _ hp)
    obtain ⟨r', hi', hq, _⟩ := Drains_putMany d fs r (bx'.map Prod.snd) hw _ fin0 hi
      (fun y hy => by
        obtain ⟨p, hp, rfl⟩ := List.mem_map.mp hy
        exact (hb' p hp).1) hdr
    have hx := hb (i, x) List.mem_cons_self
    have hg : getItem (d + 1) fs rd = (.ok x, putMany (bx'.map Prod.snd) hw) := by
      rw [hrd]
      simp only [List.map_cons, putMany]
      exact getItem_putItem d fs _ r' x hi' (by rw [hq]; exact hx.1)
    have hsg : s.get = (some (absItem dir i x), { s with buf := bx'.map (fun p => absItem dir p.1 p.2) }) := by
      unfold Block.Stream.get
      rw [hbuf]; rfl
    rw [cget_ok hg, hsg]
    exact ⟨⟨bx', hw, r, rfl, hi, hb', rfl, hrest, hdr, he0, he1, hle⟩, rfl, hx.2⟩
  | nil =>
    simp only [List.map_nil, putMany] at hrd hbuf
    subst hrd
    cases hys : xs0.drop s.pulled with
    | cons y ys =>
      obtain ⟨hy, hdrop, htake⟩ := drop_cons_getElem xs0 s.pulled y ys hys
      rw [hys] at hdr hrest
      obtain ⟨rd', hg, hdr'⟩ := Drains_inv_cons (by simpa [evItems] using hdr)
      have hsg : s.get = (some (absItem dir s.pulled y),
          { s with rest := absItems dir (s.pulled + 1) ys, pulled := s.pulled + 1 }) := by
        unfold Block.Stream.get
        rw [hbuf, hrest]; rfl
      have hne' : rd' ≠ [] := by
        have := getItem_ne_nil (d + 1) fs rd (innermost_ne_nil hi)
        rw [hg] at this; exact this
      obtain ⟨r', hi'⟩ := innermost_isSome rd' hne'
      rw [cget_ok hg, hsg]
      refine ⟨⟨[], rd', r', rfl, hi', (fun p hp => by cases hp), hbuf, ?_, ?_, ?_, ?_, ?_⟩, rfl, hy⟩
      · simp only [hdrop]
      · simp only [hdrop]; exact hdr'
      · intro he
        simp only [htake]
        exact getN_snoc (d + 1) fs s.pulled st0 rd rd' _ y (he0 he) hg
      · intro he
        have := (he1 he).1
        have hl : (xs0.drop s.pulled).length = 0 := by simp; omega
        rw [hys] at hl; simp at hl
      · have hl : (xs0.drop s.pulled).length ≠ 0 := by rw [hys]; simp
        simp only [List.length_drop] at hl
        show s.pulled + 1 ≤ xs0.length
        omega
    | nil =>
      rw [hys] at hdr hrest
      obtain ⟨hfin, hex, hnok⟩ := Drains_inv_nil (by simpa [evItems] using hdr)
      have hsg : s.get = (none, { s with eof := true }) := by
        unfold Block.Stream.get
        rw [hbuf, hrest]; rfl
      have hne' : fin0 ≠ [] := by
        have := getItem_ne_nil (d + 1) fs rd (innermost_ne_nil hi)
        rw [hfin] at this; exact this
      obtain ⟨r', hi'⟩ := innermost_isSome fin0 hne'
      rw [cget_none hnok, hsg, hfin]
      refine ⟨⟨[], fin0, r', rfl, hi', (fun p hp => by cases hp), hbuf, ?_, ?_, ?_, ?_, hle⟩, trivial⟩
      · simp only [hys]; exact hrest
      · simp only [hys]; exact Drains_exhausted d fs fin0 hex
      · intro he; cases he
      · intro _
        exact ⟨by simpa using hys, hex⟩

/-- SIMULATION, `put`: `put_item x` of an item that may be put back, being the item at position
    `i` of the delivery order, is `Stream.put (absItem i x)` -/
theorem abs_put {rd : List Rd} {s : Block.Stream} (h : Abs dir d fs st0 xs0 fin0 rd s)
    (r1 : Rd) (x : Item) (i : Nat) (hi1 : innermost rd = some r1) (hr : returnable fs r1 x = true)
    (hx : xs0[i]? = some x) :
    Abs dir d fs st0 xs0 fin0 (putItem x rd) (s.put (absItem dir i x)) := by
  obtain ⟨bx, hw, r, hrd, hi, hb, hbuf, hrest, hdr, he0, he1, hle⟩ := h
  obtain ⟨r', hi', hq, _⟩ := Drains_putMany d fs r (bx.map Prod.snd) hw _ fin0 hi
    (fun y hy => by
      obtain ⟨p, hp, rfl⟩ := List.mem_map.mp hy
      exact (hb p hp).1) hdr
  have hrr : r' = r1 := by
    rw [← hrd, hi1] at hi'; exact (Option.some.inj hi').symm
  refine ⟨(i, x) :: bx, hw, r, by simp [putMany, hrd], hi, ?_, by simp [Block.Stream.put, hbuf],
    hrest, hdr, he0, he1, hle⟩
  intro p hp
  rcases List.mem_cons.mp hp with rfl | hp
  · exact ⟨by rw [← hq, hrr]; exact hr, hx⟩
  · exact hb p hp

/-- a represented chain is never empty: it has an innermost reader -/
theorem abs_innermost {rd : List Rd} {s : Block.Stream} (h : Abs dir d fs st0 xs0 fin0 rd s) :
    ∃ r, innermost rd = some r := by
  obtain ⟨bx, hw, r, hrd, hi, hb, _, _, hdr, _, _⟩ := h
  obtain ⟨r', hi', _, _⟩ := Drains_putMany d fs r (bx.map Prod.snd) hw _ fin0 hi
    (fun y hy => by
      obtain ⟨p, hp, rfl⟩ := List.mem_map.mp hy
      exact (hb p hp).1) hdr
  exact ⟨r', by rw [hrd]; exact hi'⟩

/-- any joint execution keeps the reader chain represented by the stream -/
theorem Sim.abs {rd rd' : List Rd} {s s' : Block.Stream} (hs : Sim dir d fs xs0 rd s rd' s')
    (h : Abs dir d fs st0 xs0 fin0 rd s) : Abs dir d fs st0 xs0 fin0 rd' s' := by
  induction hs with
  | refl => exact h
  | get _ ih => exact (abs_get ih).1
  | put r x i _ hi hr hx ih => exact abs_put ih r x i hi hr hx

/-! ### what a represented reader chain will deliver -/

/-- the `Drains` future of the reader chain is the decoded content of the stream -/
theorem abs_future {rd : List Rd} {s : Block.Stream} (h : Abs dir d fs st0 xs0 fin0 rd s) :
    ∃ fut, Drains (d + 1) fs rd (evItems fut) fin0 ∧ s.all.map (decode xs0) = fut.map some ∧
      s.all.length = fut.length := by
  obtain ⟨bx, hw, r, hrd, hi, hb, hbuf, hrest, hdr, he0, he1, hle⟩ := h
  obtain ⟨_, _, _, hd⟩ := Drains_putMany d fs r (bx.map Prod.snd) hw _ fin0 hi
    (fun y hy => by
      obtain ⟨p, hp, rfl⟩ := List.mem_map.mp hy
      exact (hb p hp).1) hdr
  refine ⟨bx.map Prod.snd ++ xs0.drop s.pulled, ?_, ?_, ?_⟩
  · rw [hrd]; simpa [evItems] using hd
  · simp only [Block.Stream.all, hbuf, hrest, List.map_append, List.map_map, absItems_drop_decode]
    congr 1
    apply List.map_congr_left
    intro p hp
    simp only [Function.comp, decode, absItem]
    exact (hb p hp).2
  · simp [Block.Stream.all, hbuf, hrest, absItems_length]

theorem map_some_inj {α} : ∀ {a b : List α}, a.map some = b.map some → a = b
  | [], [], _ => rfl
  | [], _ :: _, h => by simp at h
  | _ :: _, [], h => by simp at h
  | x :: a, y :: b, h => by
    simp only [List.map_cons, List.cons.injEq, Option.some.injEq] at h
    rw [h.1, map_some_inj h.2]

/-- two reader chains whose streams have the same content have the same future -/
theorem abs_same_future {rd rd' : List Rd} {s s' : Block.Stream}
    (h : Abs dir d fs st0 xs0 fin0 rd s) (h' : Abs dir d fs st0 xs0 fin0 rd' s')
    (hall : s'.all = s.all) :
    ∃ fut, Drains (d + 1) fs rd (evItems fut) fin0 ∧ Drains (d + 1) fs rd' (evItems fut) fin0 := by
  obtain ⟨fut, hd, hm, _⟩ := abs_future h
  obtain ⟨fut', hd', hm', _⟩ := abs_future h'
  rw [hall, hm] at hm'
  have : fut = fut' := map_some_inj hm'
  subst this
  exact ⟨fut, hd, hd'⟩

/-! ### walks -/

/-- SIMULATION of look-ahead walks: a `Reader.runWalk` on the reader chain is the same walk
    (`absWalk`) on the stream; end states and held items correspond -/
theorem walk_commutes : ∀ (w : List Op) (st st' : List Rd) (got got' : List Item) (s : Block.Stream)
    (held : List Block.Item), Abs dir d fs st0 xs0 fin0 st s → HeldRel dir xs0 got held →
    runWalk d fs w st got = some (st', got') →
    ∃ s' held', absWalk w s held = some (s', held') ∧ Abs dir d fs st0 xs0 fin0 st' s' ∧
      HeldRel dir xs0 got' held'
  | [], st, st', got, got', s, held, ha, hh, hw => by
    simp only [runWalk, Option.some.injEq, Prod.mk.injEq] at hw
    obtain ⟨rfl, rfl⟩ := hw
    exact ⟨s, held, rfl, ha, hh⟩
  | .g :: w, st, st', got, got', s, held, ha, hh, hw => by
    unfold runWalk at hw
    cases hg : getItem (d + 1) fs st with
    | mk res st1 =>
      rw [hg] at hw
      cases res with
      | ok x =>
        simp only [] at hw
        obtain ⟨ha1, hrel⟩ := abs_get ha
        rw [cget_ok hg] at ha1 hrel
        cases hsg : s.get with
        | mk o s1 =>
          rw [hsg] at ha1 hrel
          cases o with
          | none => exact absurd hrel (by simp [GetRel])
          | some a =>
            obtain ⟨s', held', h1, h2, h3⟩ := walk_commutes w st1 st' (x :: got) got' s1 (a :: held)
              ha1 ⟨hrel, hh⟩ hw
            exact ⟨s', held', by simp only [absWalk, hsg, h1], h2, h3⟩
      | stop => simp at hw
      | err => simp at hw
      | exit => simp at hw
      | unsup => simp at hw
  | .p :: w, st, st', [], got', s, held, ha, hh, hw => by simp [runWalk] at hw
  | .p :: w, st, st', x :: got, got', s, held, ha, hh, hw => by
    cases held with
    | nil => exact absurd hh (by simp [HeldRel])
    | cons a held =>
      obtain ⟨⟨ha1, ha2⟩, hh'⟩ := hh
      unfold runWalk at hw
      cases hi : innermost st with
      | none => rw [hi] at hw; simp at hw
      | some r =>
        rw [hi] at hw
        simp only [] at hw
        by_cases hr : returnable fs r x = true
        · simp only [hr, if_true] at hw
          have hap := abs_put ha r x a.id hi hr ha2
          rw [← ha1] at hap
          obtain ⟨s', held', h1, h2, h3⟩ := walk_commutes w (putItem x st) st' got got' (s.put a) held
            hap hh' hw
          exact ⟨s', held', by simp only [absWalk, h1], h2, h3⟩
        · simp [hr] at hw

end Fp.Refine
