/-!
# Incl08Pins - the fingerprints of the modules of the Fortran2008 package the Incl08 slice was validated against

Hand-maintained (written by `python -m fv.extract_incl08 --write-pins <lean dir>` AFTER the mirrors of an edited
module have been re-validated; never as part of a normal build).
-/
namespace Fp.Incl08

/-- `live = expected`; the message is part of the statement so that it shows in the error -/
def Pinned (_msg : String) (live expected : Option (String × String)) : Prop := live = expected
instance (m : String) (a b : Option (String × String)) : Decidable (Pinned m a b) :=
  inferInstanceAs (Decidable (a = b))

namespace Pins
def modules : List (String × String) := [
  ("Fortran2008.__init__", "116055839492a6d6"),
  ("Fortran2008.action_stmt_c201", "d0663e759fcb06be"),
  ("Fortran2008.action_stmt_c816", "8e10caec9a82bc02"),
  ("Fortran2008.action_stmt_c828", "75c773f3c85df8ed"),
  ("Fortran2008.action_stmt_r214", "abd27c9086c163cc"),
  ("Fortran2008.action_term_do_construct_r824", "705d43ff0d459079"),
  ("Fortran2008.alloc_opt_r627", "c05ba94b7818ca83"),
  ("Fortran2008.allocate_stmt_r626", "8a050434d472b4f6"),
  ("Fortran2008.attr_spec_r502", "30883330e1f9d8ae"),
  ("Fortran2008.block_construct_r807", "d4dfe23358de54b9"),
  ("Fortran2008.block_label_do_construct_r814_1", "319422efa85e67d6"),
  ("Fortran2008.block_nonlabel_do_construct_r814_2", "ff13175d342c5ac4"),
  ("Fortran2008.block_stmt_r808", "8e834943f18cf5e0"),
  ("Fortran2008.coarray_bracket_spec_r502d0", "0b7af40f3282d7fa"),
  ("Fortran2008.coarray_spec_r509", "62b62129eede6d41"),
  ("Fortran2008.codimension_attr_spec_r502d", "24cea1dd4d032fe5"),
  ("Fortran2008.component_attr_spec_r437", "adf1797f43a71c88"),
  ("Fortran2008.connect_spec_r905", "504d1e5be6d15046"),
  ("Fortran2008.coshape_spec_r511a", "703b826cef632bc8"),
  ("Fortran2008.critical_construct_r810", "c30c038a825da864"),
  ("Fortran2008.critical_stmt_r811", "e2fe62c37cb1286c"),
  ("Fortran2008.data_component_def_stmt_r436", "ff6794fe0e885d69"),
  ("Fortran2008.declaration_construct_c1112", "6d798a75a5626fb4"),
  ("Fortran2008.deferred_coshape_spec_r510", "90d23af18da96677"),
  ("Fortran2008.do_term_action_stmt_r826", "91fe30a3ee06367b"),
  ("Fortran2008.end_block_stmt_r809", "528cb5faefb2863a"),
  ("Fortran2008.end_critical_stmt_r812", "0fe843887543c08d"),
  ("Fortran2008.end_submodule_stmt_r1119", "fd788c7274b821ab"),
  ("Fortran2008.error_stop_stmt_r856", "d403edd0a8c85ab0"),
  ("Fortran2008.executable_construct_c201", "4783ba9ebc8d3968"),
  ("Fortran2008.executable_construct_r213", "bc31bb826441d238"),
  ("Fortran2008.explicit_coshape_spec_r511", "ef98328cce969464"),
  ("Fortran2008.format_item_r1003", "857a4ba4f645cb02"),
  ("Fortran2008.if_stmt_r837", "437b47d9ac5fd41d"),
  ("Fortran2008.implicit_part_c1112", "81e2bfa5caaa4cd8"),
  ("Fortran2008.implicit_part_stmt_c1112", "559d46425ed33a45"),
  ("Fortran2008.intrinsics_f08", "abe315659f24fe08"),
  ("Fortran2008.label_do_stmt_r816", "90d8dd419704dc6a"),
  ("Fortran2008.loop_control_r818", "644d00d211be11c3"),
  ("Fortran2008.lower_cobound_r512", "6c2e5c5bc38e8c3d"),
  ("Fortran2008.nonlabel_do_stmt_r817", "73129c0d6a924b8f"),
  ("Fortran2008.open_stmt_r904", "f9c6c64438d91380"),
  ("Fortran2008.parent_identifier_r1118", "ce240683ae281870"),
  ("Fortran2008.proc_decl_r1214", "dced2e8dd5cb9a15"),
  ("Fortran2008.procedure_stmt_r1206", "0259591b1c15a62f"),
  ("Fortran2008.program_unit_r202", "35a8382dd11fb266"),
  ("Fortran2008.specification_part_c1112", "bcbba6990d5b28ec"),
  ("Fortran2008.stop_code_r857", "ea8ecdef43d2e602"),
  ("Fortran2008.submodule_r1116", "27909396e99fd7fa"),
  ("Fortran2008.submodule_stmt_r1117", "f0ba433ba2e53c51"),
  ("Fortran2008.type_declaration_stmt_r501", "9f6b4fed63ea9361"),
  ("Fortran2008.upper_cobound_r513", "42e1b8cfbc38cc78")
]
end Pins
end Fp.Incl08
