import FparserModel.Reader

/-!
# ReaderPut — `put_item` / `get_item` round trip (property C12, look-ahead restore)

`putItem x st` pushes `x` on the FIFO of the innermost reader of the chain `st`;
`getItem` then walks down the chain, pops it, and re-runs the `_next` filters on it:
the comment filter, the `;` resolution and the INCLUDE detection of `next`. `returnable`
says that these three leave the item alone.
-/
namespace Fp.Reader
open Fp

def Resolved.isMissing : Resolved → Bool
  | .missing => true
  | _ => false

/-- `x` passes unchanged through `_next`/`next` of reader `r` when it is popped from the FIFO -/
def returnable (fs : Fs) (r : Rd) (x : Item) : Bool :=
  !(x.isComment && r.ignoreComments) &&
  match x.lineView with
  | none => true
  | some (text, _, _, _, _) =>
    !((stringReplaceMap text true).1.contains ';') &&
    (!(includeRe text).isSome || (resolveInclude fs r text).isMissing)

def Rd.push (r : Rd) (x : Item) : Rd := { r with fifo := x :: r.fifo }

theorem Rd.push_pop (r : Rd) (x : Item) : { r.push x with fifo := r.fifo } = r := by
  cases r; rfl

theorem nextRaw_push (r : Rd) (x : Item) (n : Nat)
    (h : (x.isComment && r.ignoreComments) = false) :
    nextRaw (n + 1) (r.push x) = (.ok x, r) := by
  have hp := Rd.push_pop r x
  simp only [nextRaw, popOrRead, Rd.push] at *
  simp [h]

theorem nextRawFuel_pos (r : Rd) : ∃ n, nextRawFuel r = n + 1 := ⟨_, rfl⟩

theorem splitSemicolon_stable (x : Item) (r : Rd)
    (h : ∀ text l n s e, x.lineView = some (text, l, n, s, e) →
      (stringReplaceMap text true).1.contains ';' = false) :
    splitSemicolon x r = some (.ok x, r) := by
  unfold splitSemicolon
  cases hv : x.lineView with
  | none => rfl
  | some v =>
    obtain ⟨text, l, n, s, e⟩ := v
    have := h text l n s e hv
    have hm : ¬ (';' ∈ (stringReplaceMap text true).1) := by simpa using this
    simp [hm]

/-- `_next` = one round of the comment-skipping loop plus the `;` resolution, when the latter
    produces something -/
theorem next1_of_nextRaw (r r' : Rd) (it : Item) (q : Res Item × Rd)
    (h : nextRaw (nextRawFuel r) r = (.ok it, r')) (hs : splitSemicolon it r' = some q) :
    next1 r = q := by
  obtain ⟨n, hn⟩ := nextRawFuel_pos r
  unfold next1
  rw [show next1Loop (nextRawFuel r) r = next1Loop (n + 1) r from by rw [hn]]
  unfold next1Loop
  simp only [h, hs]

theorem next1_of_nextRaw_other (r : Rd) (h : ∀ it, (nextRaw (nextRawFuel r) r).1 ≠ .ok it) :
    next1 r = nextRaw (nextRawFuel r) r := by
  obtain ⟨n, hn⟩ := nextRawFuel_pos r
  unfold next1
  rw [show next1Loop (nextRawFuel r) r = next1Loop (n + 1) r from by rw [hn]]
  unfold next1Loop
  simp only []

/-- no `;` in the tokenised text of the `Line` view of an item -/
def NoSemi (it : Item) : Prop :=
  ∀ text l n s e, it.lineView = some (text, l, n, s, e) →
    (stringReplaceMap text true).1.contains ';' = false

/-- an item produced by `get_source_item` (FIFO empty) that is not an ignored comment and has no
    `;` is what `_next` returns -/
theorem next1_of_getSourceItem (r r' : Rd) (it : Item) (hfifo : r.fifo = [])
    (hg : getSourceItem r = (.ok it, r'))
    (hc : (it.isComment && r'.ignoreComments) = false) (hsemi : NoSemi it) :
    next1 r = (.ok it, r') := by
  obtain ⟨n, hn⟩ := nextRawFuel_pos r
  have hraw : nextRaw (nextRawFuel r) r = (.ok it, r') := by
    rw [hn]
    unfold nextRaw popOrRead
    simp only [hfifo, hg, hc, Bool.false_eq_true, if_false]
  exact next1_of_nextRaw r r' it _ hraw (splitSemicolon_stable it r' hsemi)

theorem next1_push (fs : Fs) (r : Rd) (x : Item) (h : returnable fs r x = true) :
    next1 (r.push x) = (.ok x, r) := by
  unfold returnable at h
  simp only [Bool.and_eq_true, Bool.not_eq_true'] at h
  obtain ⟨hc, hl⟩ := h
  obtain ⟨n, hn⟩ := nextRawFuel_pos (r.push x)
  refine next1_of_nextRaw (r.push x) r x _ (by rw [hn]; exact nextRaw_push r x n hc) ?_
  apply splitSemicolon_stable
  intro text l nm s e hv
  rw [hv] at hl
  simp only [Bool.and_eq_true, Bool.not_eq_true'] at hl
  exact hl.1

theorem nextMain_push (newNext : List Rd → Res Item × List Rd) (fs : Fs) (r : Rd) (x : Item)
    (h : returnable fs r x = true) :
    nextMain newNext fs (r.push x) = (.ok x, [r]) := by
  unfold nextMain
  rw [next1_push fs r x h]
  unfold returnable at h
  simp only [Bool.and_eq_true, Bool.not_eq_true'] at h
  obtain ⟨_, hl⟩ := h
  cases hv : x.lineView with
  | none => simp only [hv]
  | some v =>
    obtain ⟨text, l, n, s, e⟩ := v
    rw [hv] at hl
    simp only [Bool.and_eq_true, Bool.not_eq_true', Bool.or_eq_true] at hl
    simp only [hv]
    cases hi : (includeRe text).isSome with
    | false => simp
    | true =>
      have hm : (resolveInclude fs r text).isMissing = true := by
        rcases hl.2 with h1 | h1
        · rw [hi] at h1; cases h1
        · exact h1
      cases hr : resolveInclude fs r text with
      | missing => simp
      | unsup => rw [hr] at hm; cases hm
      | reader nr => rw [hr] at hm; cases hm

/-- the innermost reader of a chain -/
def innermost : List Rd → Option Rd
  | [] => none
  | [r] => some r
  | _ :: r2 :: rest => innermost (r2 :: rest)

theorem putItem_single (x : Item) (r : Rd) : putItem x [r] = [r.push x] := rfl

/-- `put_item x` followed by `next` gives `x` back and restores the whole chain -/
theorem nextChain_putItem (newNext : List Rd → Res Item × List Rd) (fs : Fs) (x : Item) :
    ∀ (st : List Rd) (r : Rd), innermost st = some r → returnable fs r x = true →
      nextChain newNext fs (putItem x st) = (.ok x, st)
  | [], _, h, _ => by cases h
  | [r0], r, h, hr => by
    simp only [innermost, Option.some.injEq] at h
    subst h
    simp only [putItem_single, nextChain]
    exact nextMain_push newNext fs r0 x hr
  | r0 :: r2 :: rest, r, h, hr => by
    have ih := nextChain_putItem newNext fs x (r2 :: rest) r h hr
    cases hp : putItem x (r2 :: rest) with
    | nil =>
      cases rest <;> simp [putItem] at hp
    | cons a as =>
      simp only [putItem, hp, nextChain]
      rw [hp] at ih
      cases as with
      | nil => simp only [nextChain] at ih ⊢; rw [ih]
      | cons b bs => rw [ih]

end Fp.Reader
