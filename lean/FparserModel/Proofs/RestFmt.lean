import FparserModel.Proofs.RestPlain
/-!
Token theorems of the edit-descriptor classes of the Rest slice:
Position_Edit_Desc, Data_Edit_Desc, Data_Edit_Desc_C1002, Format_Item_C1002, Hollerith_Item.
-/
set_option linter.unusedSimpArgs false

namespace Fp.Rest
open Fp Fp.Splitline Fp.IoStmt
open Fp.Combi (noBlank)

variable {Node : Type}

/-! ## Position_Edit_Desc -/

theorem endsC_len1 {c : Char} {u : Str} (h : endsC c u = true) (hl : u.length = 1) : u = [c] := by
  match u, hl with
  | [x], _ =>
    have : x = c := by simpa [endsC] using h
    rw [this]

theorem endsC_dropLast {c : Char} {u : Str} (h : endsC c u = true) : u = u.dropLast ++ [c] := by
  obtain ⟨p, hp⟩ := endsC_snoc h
  rw [hp, List.dropLast_concat]

/-- `Tn` / `TLn` / `TRn` / `nX` / `X`: the text is stripped and upper-cased, the tokens are kept -/
theorem positionEditDesc_tostr_match_tokens (o : Oracle Node) (ho : OracleTok o) (s : Str)
    (items : List (Item Node)) (hm : (planPositionEditDesc s).bind (runSlots o) = .ok items) :
    ∃ t, tostrPositionEditDesc o items = .ok t ∧ toks t = toks s ∧
      ((∀ i ∈ items, net (i.text o) = 0) → net t = 0) := by
  obtain ⟨slots, hp, hr⟩ := Res.bind_eq_ok hm
  unfold planPositionEditDesc at hp
  split at hp
  · cases hp
  have e0 : toks s = toks (upper (strip s)) := by rw [toks_upper, toks_strip]
  dsimp only at hp
  split at hp
  · cases hp
  · rename_i rest hu
    split at hp
    · cases hp
    rename_i c1 rest2
    split at hp
    · cases hp
      obtain ⟨i, j, rfl, hi, hj⟩ := run2 hr
      have := runSlot_str_ok hi; subst this
      have hj' := child_toks ho hj
      obtain ⟨n, rfl, _⟩ := runSlot_child_ok hj
      refine ⟨_, rfl, ?_, ?_⟩
      · rw [e0, hu]
        have e : 'T' :: c1 :: rest2 = ['T', c1] ++ rest2 := rfl
        rw [e]
        simp only [Item.text, toks_append, toks_lstrip] at hj' ⊢
        rw [hj']
      · intro hb
        have h1 := hb (.str ['T', c1]) (by simp)
        have h2 := hb (.node n) (by simp)
        simp only [net_append, h1, h2]; rfl
    · cases hp
      obtain ⟨i, j, rfl, hi, hj⟩ := run2 hr
      have := runSlot_str_ok hi; subst this
      have hj' := child_toks ho hj
      obtain ⟨n, rfl, _⟩ := runSlot_child_ok hj
      refine ⟨_, rfl, ?_, ?_⟩
      · rw [e0, hu]
        have e : 'T' :: c1 :: rest2 = ['T'] ++ (c1 :: rest2) := rfl
        rw [e]
        simp only [Item.text, toks_append, toks_lstrip] at hj' ⊢
        rw [hj']
      · intro hb
        have h1 := hb (.str ['T']) (by simp)
        have h2 := hb (.node n) (by simp)
        simp only [net_append, h1, h2]; rfl
  · split at hp
    · rename_i hx
      split at hp
      · rename_i hl
        cases hp
        obtain ⟨i, j, rfl, hi, hj⟩ := run2 hr
        have := runSlot_none_ok hi; subst this
        have := runSlot_str_ok hj; subst this
        have hl' : (upper (strip s)).length = 1 := by simpa [xFormatExt] using hl
        refine ⟨_, rfl, ?_, ?_⟩
        · rw [e0, endsC_len1 hx hl']; rfl
        · intro _; exact (by decide : net "X".toList = 0)
      · cases hp
        obtain ⟨i, j, rfl, hi, hj⟩ := run2 hr
        have := runSlot_str_ok hj; subst this
        have hi' := child_toks ho hi
        obtain ⟨n, rfl, _⟩ := runSlot_child_ok hi
        refine ⟨_, rfl, ?_, ?_⟩
        · rw [e0]
          conv => rhs; rw [endsC_dropLast hx]
          simp only [Item.text, toks_append, toks_rstrip] at hi' ⊢
          rw [hi']; rfl
        · intro hb
          have h2 := hb (.node n) (by simp)
          have h3 : net "X".toList = 0 := by decide
          simp only [Item.text] at h2
          simp only [net_append, h2, Item.text, h3]; rfl
    · cases hp

/-! ## Data_Edit_Desc -/

theorem toks_upperC1 (c : Char) : toks [upperC c] = toks [c] := toks_upper [c]

theorem toks_cons1 (c : Char) (x : Str) : toks (c :: x) = toks [c] ++ toks x := toks_cons c x

theorem toks_lstrip_empty {x : Str} (h : (lstrip x).isEmpty = true) : toks x = [] := by
  rw [← toks_lstrip]; exact toks_isEmpty' h

def IsLetter6 (c : Char) : Prop := c = 'I' ∨ c = 'B' ∨ c = 'O' ∨ c = 'Z' ∨ c = 'A' ∨ c = 'L'

/-- `tostr` for the one-letter descriptors -/
theorem tostrDataEdit_letter (o : Oracle Node) {c : Char} (hc : IsLetter6 c) (i1 i2 : Item Node)
    (rest : List (Item Node)) :
    tostrDataEditDesc o (.str [c] :: i1 :: i2 :: rest) =
      (if i2.isNone then (if i1.isNone then .ok [c] else .ok ([c] ++ i1.text o))
       else .ok ([c] ++ i1.text o ++ ".".toList ++ i2.text o)) := by
  rcases hc with rfl | rfl | rfl | rfl | rfl | rfl <;> rfl

theorem tostrDataEdit_dt (o : Oracle Node) (i1 i2 : Item Node) (rest : List (Item Node)) :
    tostrDataEditDesc o (.str "DT".toList :: i1 :: i2 :: rest) =
      (if i1.isNone then
          (if i2.isNone then .ok "DT".toList else .ok ("DT".toList ++ "(".toList ++ i2.text o ++ ")".toList))
        else if i2.isNone then .ok ("DT".toList ++ i1.text o)
        else .ok ("DT".toList ++ i1.text o ++ "(".toList ++ i2.text o ++ ")".toList)) := rfl

/-- letter + `w`: `[.str [c], .child W line, .none, .none]` -/
theorem dataEdit_w (o : Oracle Node) (ho : OracleTok o) {c : Char} (hc : IsLetter6 c) (line : Str)
    (items : List (Item Node))
    (hr : runSlots o [.str [c], .child R.W line, .none, .none] = .ok items) :
    ∃ t, tostrDataEditDesc o (arrangeDataEdit items) = .ok t ∧ toks t = toks [c] ++ toks line ∧
      ((∀ i ∈ arrangeDataEdit items, net (i.text o) = 0) → net t = 0) := by
  obtain ⟨i, j, k, l, rfl, hi, hj, hk, hl⟩ := run4 hr
  have := runSlot_str_ok hi; subst this
  have := runSlot_none_ok hk; subst this
  have := runSlot_none_ok hl; subst this
  have hj' := child_toks ho hj
  obtain ⟨n, rfl, _⟩ := runSlot_child_ok hj
  refine ⟨[c] ++ o.str n, ?_, ?_, ?_⟩
  · show tostrDataEditDesc o [.str [c], .node n, .none, .none] = _
    rw [tostrDataEdit_letter o hc]; rfl
  · rw [toks_append]; exact congrArg _ hj'
  · intro hb
    have h1 := hb (.str [c]) (by simp [arrangeDataEdit])
    have h2 := hb (.node n) (by simp [arrangeDataEdit])
    simp only [Item.text] at h1 h2
    simp only [net_append, h1, h2]; rfl

theorem letter6_of_ibozU {c : Char} (h : (c == 'I' || c == 'B' || c == 'O' || c == 'Z') = true) :
    IsLetter6 c := by
  simp only [Bool.or_eq_true, beq_iff_eq] at h
  rcases h with ((h | h) | h) | h
  · exact .inl h
  · exact .inr (.inl h)
  · exact .inr (.inr (.inl h))
  · exact .inr (.inr (.inr (.inl h)))

/-- `I`/`B`/`O`/`Z` (`w[.m]`), `L w`, `A[w]`, `DT[char-literal][(v-list)]`: the tokens are kept -/
theorem dataEditDesc_tostr_match_tokens (o : Oracle Node) (ho : OracleTok o) (s : Str)
    (items : List (Item Node))
    (hm : ((planDataEditDesc s).bind (runSlots o)).map arrangeDataEdit = .ok items) :
    ∃ t, tostrDataEditDesc o items = .ok t ∧ toks t = toks s ∧
      ((∀ i ∈ items, net (i.text o) = 0) → net t = 0) := by
  obtain ⟨its, hb0, rfl⟩ := Res.map_eq_ok hm
  obtain ⟨slots, hp, hr⟩ := Res.bind_eq_ok hb0
  unfold planDataEditDesc at hp
  split at hp
  · cases hp
  rename_i c0 rest
  have e0 : toks (c0 :: rest) = toks [upperC c0] ++ toks rest := by
    rw [toks_cons1, toks_upperC1]
  dsimp only at hp
  split at hp
  · -- I B O Z
    rename_i hc
    have hc6 := letter6_of_ibozU hc
    split at hp
    · rename_i i1 i2 hcut
      cases hp
      obtain ⟨hs, _⟩ := Combi.cutFirst_spec _ _ _ hcut
      obtain ⟨i, is, rfl, hi, his⟩ := runSlots_cons_ok hr
      obtain ⟨j, k, l, m, rfl, hj, hk, hl, hm5⟩ := run4 his
      have := runSlot_str_ok hi; subst this
      have := runSlot_none_ok hl; subst this
      have := runSlot_str_ok hm5; subst this
      have hj' := child_toks ho hj
      have hk' := child_toks ho hk
      obtain ⟨n, rfl, _⟩ := runSlot_child_ok hj
      obtain ⟨n2, rfl, _⟩ := runSlot_child_ok hk
      refine ⟨[upperC c0] ++ o.str n ++ ".".toList ++ o.str n2, ?_, ?_, ?_⟩
      · show tostrDataEditDesc o [.str [upperC c0], .node n, .node n2, .none, .str classMarker] = _
        rw [tostrDataEdit_letter o hc6]; rfl
      · rw [e0, ← toks_lstrip rest, hs]
        have e : i1 ++ '.' :: i2 = i1 ++ ".".toList ++ i2 := by simp
        rw [e]
        simp only [Item.text, toks_rstrip, toks_lstrip] at hj' hk'
        simp only [toks_append, hj', hk', List.append_assoc]
      · intro hb
        have h1 := hb (.str [upperC c0]) (by simp [arrangeDataEdit])
        have h2 := hb (.node n) (by simp [arrangeDataEdit])
        have h3 := hb (.node n2) (by simp [arrangeDataEdit])
        simp only [Item.text] at h1 h2 h3
        simp only [net_append, h1, h2, h3]; rfl
    · cases hp
      obtain ⟨t, h1, h2, h3⟩ := dataEdit_w o ho hc6 _ _ hr
      exact ⟨t, h1, by rw [h2, e0, toks_lstrip], h3⟩
  · split at hp
    · -- L
      rename_i _ hc
      have hc6 : IsLetter6 (upperC c0) := by
        have : upperC c0 = 'L' := by simpa using hc
        exact .inr (.inr (.inr (.inr (.inr this))))
      split at hp
      · cases hp
      cases hp
      obtain ⟨t, h1, h2, h3⟩ := dataEdit_w o ho hc6 _ _ hr
      exact ⟨t, h1, by rw [h2, e0, toks_lstrip], h3⟩
    · split at hp
      · -- A
        rename_i _ _ hc
        have hc6 : IsLetter6 (upperC c0) := by
          have : upperC c0 = 'A' := by simpa using hc
          exact .inr (.inr (.inr (.inr (.inl this))))
        split at hp
        · rename_i hl
          cases hp
          obtain ⟨i, j, k, l, rfl, hi, hj, hk, hl4⟩ := run4 hr
          have := runSlot_str_ok hi; subst this
          have := runSlot_none_ok hj; subst this
          have := runSlot_none_ok hk; subst this
          have := runSlot_none_ok hl4; subst this
          refine ⟨[upperC c0], ?_, ?_, ?_⟩
          · show tostrDataEditDesc o [.str [upperC c0], .none, .none, .none] = _
            rw [tostrDataEdit_letter o hc6]; rfl
          · rw [e0, toks_lstrip_empty hl, List.append_nil]
          · intro hb
            exact hb (.str [upperC c0]) (by simp [arrangeDataEdit])
        · cases hp
          obtain ⟨t, h1, h2, h3⟩ := dataEdit_w o ho hc6 _ _ hr
          exact ⟨t, h1, by rw [h2, e0, toks_lstrip], h3⟩
      · -- DT
        split at hp
        · cases hp
        split at hp
        · rename_i hdt
          have hdt' : upper ((c0 :: rest).take 2) = "DT".toList := by simpa using hdt
          have e1 : toks (c0 :: rest) = toks "DT".toList ++ toks (lstrip ((c0 :: rest).drop 2)) := by
            conv => lhs; rw [← List.take_append_drop 2 (c0 :: rest)]
            rw [toks_append, ← toks_upper (List.take 2 (c0 :: rest)), hdt', toks_lstrip]
          rw [hdt'] at hp
          generalize lstrip ((c0 :: rest).drop 2) = line at hp e1
          split at hp
          · rename_i hl
            cases hp
            obtain ⟨i, j, k, l, rfl, hi, hj, hk, hl4⟩ := run4 hr
            have := runSlot_str_ok hi; subst this
            have := runSlot_none_ok hj; subst this
            have := runSlot_none_ok hk; subst this
            have := runSlot_none_ok hl4; subst this
            refine ⟨"DT".toList, rfl, ?_, ?_⟩
            · rw [e1, toks_isEmpty' hl, List.append_nil]
            · intro _; decide
          split at hp
          · rename_i hends
            split at hp
            · cases hp
            rename_i a b hcut
            obtain ⟨hs, _⟩ := Combi.cutLast_spec _ _ _ hcut
            have hb2 : endsC ')' b = true := by
              rw [hs] at hends
              exact endsC_append_cons hends (by decide)
            have hb3 := endsC_dropLast hb2
            have e2 : toks line = toks a ++ toks "(".toList ++ toks b.dropLast ++ toks ")".toList := by
              conv => lhs; rw [hs, hb3]
              have e : a ++ '(' :: (b.dropLast ++ [')']) = a ++ "(".toList ++ b.dropLast ++ ")".toList := by simp
              rw [e]
              simp only [toks_append]
            split at hp
            · cases hp
            split at hp
            · rename_i hl2
              cases hp
              obtain ⟨i, j, k, l, rfl, hi, hj, hk, hl4⟩ := run4 hr
              have := runSlot_str_ok hj; subst this
              have := runSlot_none_ok hk; subst this
              have := runSlot_none_ok hl4; subst this
              have hi' := child_toks ho hi
              obtain ⟨n, rfl, _⟩ := runSlot_child_ok hi
              have ha : toks a = [] := by rw [← toks_rstrip]; exact toks_isEmpty' hl2
              refine ⟨"DT".toList ++ "(".toList ++ o.str n ++ ")".toList, rfl, ?_, ?_⟩
              · rw [e1, e2, ha]
                simp only [Item.text, toks_strip] at hi'
                simp only [toks_append, hi', List.append_assoc, List.nil_append]
              · intro hb
                have h2 := hb (.node n) (by simp [arrangeDataEdit])
                simp only [Item.text] at h2
                simp only [net_append, h2]; decide
            · cases hp
              obtain ⟨i, j, k, l, rfl, hi, hj, hk, hl4⟩ := run4 hr
              have := runSlot_str_ok hj; subst this
              have := runSlot_none_ok hl4; subst this
              have hi' := child_toks ho hi
              have hk' := child_toks ho hk
              obtain ⟨n, rfl, _⟩ := runSlot_child_ok hi
              obtain ⟨n2, rfl, _⟩ := runSlot_child_ok hk
              refine ⟨"DT".toList ++ o.str n2 ++ "(".toList ++ o.str n ++ ")".toList, rfl, ?_, ?_⟩
              · rw [e1, e2]
                simp only [Item.text, toks_strip, toks_rstrip] at hi' hk'
                simp only [toks_append, hi', hk', List.append_assoc]
              · intro hb
                have h2 := hb (.node n) (by simp [arrangeDataEdit])
                have h3 := hb (.node n2) (by simp [arrangeDataEdit])
                simp only [Item.text] at h2 h3
                simp only [net_append, h2, h3]; decide
          · cases hp
            obtain ⟨i, j, k, l, rfl, hi, hj, hk, hl4⟩ := run4 hr
            have := runSlot_str_ok hi; subst this
            have := runSlot_none_ok hk; subst this
            have := runSlot_none_ok hl4; subst this
            have hj' := child_toks ho hj
            obtain ⟨n, rfl, _⟩ := runSlot_child_ok hj
            refine ⟨"DT".toList ++ o.str n, rfl, ?_, ?_⟩
            · rw [e1]
              simp only [Item.text] at hj'
              simp only [toks_append, hj']
            · intro hb
              have h2 := hb (.node n) (by simp [arrangeDataEdit])
              simp only [Item.text] at h2
              simp only [net_append, h2]; decide
        · cases hp

/-! ## Data_Edit_Desc_C1002 -/

def IsEG (n : Str) : Prop := n = "E".toList ∨ n = "EN".toList ∨ n = "ES".toList ∨ n = "G".toList

theorem tostrC1002_fd (o : Oracle Node) {c : Char} (hc : c = 'F' ∨ c = 'D') (w d : Node) :
    tostrDataEditDescC1002 o [.str [c], .node w, .node d, .none] =
      .ok ([c] ++ o.str w ++ ".".toList ++ o.str d) := by
  rcases hc with rfl | rfl <;> rfl

theorem tostrC1002_eg (o : Oracle Node) {n : Str} (hn : IsEG n) (w d : Node) (e : Item Node) :
    tostrDataEditDescC1002 o [.str n, .node w, .node d, e] =
      (if e.isNone then .ok (n ++ o.str w ++ ".".toList ++ o.str d)
       else .ok (n ++ o.str w ++ ".".toList ++ o.str d ++ "E".toList ++ e.text o)) := by
  rcases hn with rfl | rfl | rfl | rfl <;> rfl

theorem c1002_exp (o : Oracle Node) (ho : OracleTok o) {name : Str} (hn : IsEG name)
    {my2 l r0 m r : Str} (h1 : Combi.cutFirst '.' my2 = some (l, r0))
    (h2 : Combi.cutFirst 'E' (lstrip r0) = some (m, r)) (items : List (Item Node))
    (hr : runSlots o [.str name, .child R.W (rstrip l), .child R.D (rstrip m), .child R.E (lstrip r)]
            = .ok items) :
    ∃ t, tostrDataEditDescC1002 o items = .ok t ∧ toks t = toks name ++ toks my2 ∧
      ((∀ i ∈ items, net (i.text o) = 0) → net t = 0) := by
  obtain ⟨i, j, k, q, rfl, hi, hj, hk, hq⟩ := run4 hr
  have := runSlot_str_ok hi; subst this
  have hj' := child_toks ho hj
  have hk' := child_toks ho hk
  have hq' := child_toks ho hq
  obtain ⟨nw, rfl, _⟩ := runSlot_child_ok hj
  obtain ⟨nd, rfl, _⟩ := runSlot_child_ok hk
  obtain ⟨ne, rfl, _⟩ := runSlot_child_ok hq
  obtain ⟨hs1, _⟩ := Combi.cutFirst_spec _ _ _ h1
  obtain ⟨hs2, _⟩ := Combi.cutFirst_spec _ _ _ h2
  refine ⟨name ++ o.str nw ++ ".".toList ++ o.str nd ++ "E".toList ++ o.str ne, ?_, ?_, ?_⟩
  · rw [tostrC1002_eg o hn]; rfl
  · have e1 : toks my2 = toks l ++ toks ".".toList ++ toks r0 := by
      conv => lhs; rw [hs1]
      have e : l ++ '.' :: r0 = l ++ ".".toList ++ r0 := by simp
      rw [e]; simp only [toks_append]
    have e2 : toks r0 = toks m ++ toks "E".toList ++ toks r := by
      rw [← toks_lstrip r0, hs2]
      have e : m ++ 'E' :: r = m ++ "E".toList ++ r := by simp
      rw [e]; simp only [toks_append]
    simp only [Item.text, toks_rstrip, toks_lstrip] at hj' hk' hq'
    rw [e1, e2]
    simp only [toks_append, hj', hk', hq', List.append_assoc]
  · intro hb
    have b1 := hb (.str name) (by simp)
    have b2 := hb (.node nw) (by simp)
    have b3 := hb (.node nd) (by simp)
    have b4 := hb (.node ne) (by simp)
    simp only [Item.text] at b1 b2 b3 b4
    simp only [net_append, b1, b2, b3, b4]; decide

theorem c1002_noexp (o : Oracle Node) (ho : OracleTok o) {name : Str} (hn : IsEG name)
    {my2 l r0 : Str} (h1 : Combi.cutFirst '.' my2 = some (l, r0)) (items : List (Item Node))
    (hr : runSlots o [.str name, .child R.W (rstrip l), .child R.D (lstrip r0), .none] = .ok items) :
    ∃ t, tostrDataEditDescC1002 o items = .ok t ∧ toks t = toks name ++ toks my2 ∧
      ((∀ i ∈ items, net (i.text o) = 0) → net t = 0) := by
  obtain ⟨i, j, k, q, rfl, hi, hj, hk, hq⟩ := run4 hr
  have := runSlot_str_ok hi; subst this
  have := runSlot_none_ok hq; subst this
  have hj' := child_toks ho hj
  have hk' := child_toks ho hk
  obtain ⟨nw, rfl, _⟩ := runSlot_child_ok hj
  obtain ⟨nd, rfl, _⟩ := runSlot_child_ok hk
  obtain ⟨hs1, _⟩ := Combi.cutFirst_spec _ _ _ h1
  refine ⟨name ++ o.str nw ++ ".".toList ++ o.str nd, ?_, ?_, ?_⟩
  · rw [tostrC1002_eg o hn]; rfl
  · have e1 : toks my2 = toks l ++ toks ".".toList ++ toks r0 := by
      conv => lhs; rw [hs1]
      have e : l ++ '.' :: r0 = l ++ ".".toList ++ r0 := by simp
      rw [e]; simp only [toks_append]
    simp only [Item.text, toks_rstrip, toks_lstrip] at hj' hk'
    rw [e1]
    simp only [toks_append, hj', hk', List.append_assoc]
  · intro hb
    have b1 := hb (.str name) (by simp)
    have b2 := hb (.node nw) (by simp)
    have b3 := hb (.node nd) (by simp)
    simp only [Item.text] at b1 b2 b3
    simp only [net_append, b1, b2, b3]; decide

/-- the name and the remaining text of the `E`/`EN`/`ES`/`G` branch -/
theorem c1002_name {ch c2 : Char} (hc : (ch == 'E' || ch == 'G') = true) (my' : Str) :
    IsEG (if (ch == 'E' && (c2 == 'S' || c2 == 'N')) = true then [ch, c2] else [ch]) ∧
    toks (if (ch == 'E' && (c2 == 'S' || c2 == 'N')) = true then [ch, c2] else [ch]) ++
      toks (if (ch == 'E' && (c2 == 'S' || c2 == 'N')) = true then lstrip my' else c2 :: my') =
      toks [ch] ++ toks (c2 :: my') := by
  by_cases h : (ch == 'E' && (c2 == 'S' || c2 == 'N')) = true
  · rw [if_pos h, if_pos h]
    simp only [Bool.and_eq_true, Bool.or_eq_true, beq_iff_eq] at h
    obtain ⟨rfl, h2⟩ := h
    refine ⟨?_, ?_⟩
    · rcases h2 with rfl | rfl
      · exact .inr (.inr (.inl rfl))
      · exact .inr (.inl rfl)
    · rw [toks_lstrip, toks_cons1 c2 my', ← List.append_assoc]; rfl
  · rw [if_neg h, if_neg h]
    refine ⟨?_, rfl⟩
    simp only [Bool.or_eq_true, beq_iff_eq] at hc
    rcases hc with rfl | rfl
    · exact .inl rfl
    · exact .inr (.inr (.inr rfl))

/-- `F`/`D` `w.d`, `E`/`EN`/`ES`/`G` `w.d[Ee]`: the children receive the UPPER-CASED text; the tokens
    (case-insensitive) are kept -/
theorem dataEditDescC1002_tostr_match_tokens (o : Oracle Node) (ho : OracleTok o) (s : Str)
    (items : List (Item Node)) (hm : (planDataEditDescC1002 s).bind (runSlots o) = .ok items) :
    ∃ t, tostrDataEditDescC1002 o items = .ok t ∧ toks t = toks s ∧
      ((∀ i ∈ items, net (i.text o) = 0) → net t = 0) := by
  obtain ⟨slots, hp, hr⟩ := Res.bind_eq_ok hm
  unfold planDataEditDescC1002 at hp
  split at hp
  · cases hp
  split at hp
  · cases hp
  rename_i c0 rest hss
  have e0 : toks s = toks [upperC c0] ++ toks (upper (lstrip rest)) := by
    rw [← toks_strip s, hss, toks_cons1, toks_upperC1, toks_upper, toks_lstrip]
  dsimp only at hp
  split at hp
  · rename_i hc
    have hc' : upperC c0 = 'F' ∨ upperC c0 = 'D' := by simpa using hc
    split at hp
    · rename_i l r hcut
      cases hp
      obtain ⟨i, j, k, q, rfl, hi, hj, hk, hq⟩ := run4 hr
      have := runSlot_str_ok hi; subst this
      have := runSlot_none_ok hq; subst this
      have hj' := child_toks ho hj
      have hk' := child_toks ho hk
      obtain ⟨nw, rfl, _⟩ := runSlot_child_ok hj
      obtain ⟨nd, rfl, _⟩ := runSlot_child_ok hk
      obtain ⟨hs1, _⟩ := Combi.cutFirst_spec _ _ _ hcut
      refine ⟨[upperC c0] ++ o.str nw ++ ".".toList ++ o.str nd, tostrC1002_fd o hc' nw nd, ?_, ?_⟩
      · rw [e0, hs1]
        have e : l ++ '.' :: r = l ++ ".".toList ++ r := by simp
        rw [e]
        simp only [Item.text, toks_rstrip, toks_lstrip] at hj' hk'
        simp only [toks_append, hj', hk', List.append_assoc]
      · intro hb
        have b1 := hb (.str [upperC c0]) (by simp)
        have b2 := hb (.node nw) (by simp)
        have b3 := hb (.node nd) (by simp)
        simp only [Item.text] at b1 b2 b3
        simp only [net_append, b1, b2, b3]; decide
    · cases hp
  · split at hp
    · rename_i hc
      split at hp
      · cases hp
      rename_i c2 my' hmy
      obtain ⟨hn, ht⟩ := @c1002_name (upperC c0) c2 hc my'
      rw [e0, hmy, ← ht]
      split at hp
      · cases hp
      rename_i l r0 hcut
      rw [hmy] at hcut
      split at hp
      · rename_i m r hcut2
        cases hp
        exact c1002_exp o ho hn hcut hcut2 items hr
      · cases hp
        exact c1002_noexp o ho hn hcut items hr
    · cases hp

/-! ## Format_Item_C1002 -/

/-- two child calls printed `"%s, %s"`: a comma is invented between the two texts -/
theorem fmt_pair (o : Oracle Node) (ho : OracleTok o) {c1 c2 : ClassId} {x y : Str}
    (items : List (Item Node)) (hr : runSlots o [.child c1 x, .child c2 y] = .ok items) :
    ∃ t, tostrFormatItemC1002 o items = .ok t ∧ toks t = toks x ++ toks ",".toList ++ toks y ∧
      ((∀ i ∈ items, net (i.text o) = 0) → net t = 0) := by
  obtain ⟨i, j, rfl, hi, hj⟩ := run2 hr
  have hi' := child_toks ho hi
  have hj' := child_toks ho hj
  obtain ⟨n1, rfl, _⟩ := runSlot_child_ok hi
  obtain ⟨n2, rfl, _⟩ := runSlot_child_ok hj
  refine ⟨o.str n1 ++ ", ".toList ++ o.str n2, rfl, ?_, ?_⟩
  · have k : toks ", ".toList = toks ",".toList := by decide
    simp only [Item.text] at hi' hj'
    simp only [toks_append, hi', hj', k]
  · intro hb
    have b1 := hb (.node n1) (by simp)
    have b2 := hb (.node n2) (by simp)
    simp only [Item.text] at b1 b2
    simp only [net_append, b1, b2]; decide

/-- the conclusion of the Format_Item_C1002 theorem: the printed text is the input with ONE comma
    INVENTED between the two parts -/
def CommaInvented (o : Oracle Node) (s : Str) (items : List (Item Node)) : Prop :=
  ∃ t, tostrFormatItemC1002 o items = .ok t ∧
    (∃ a b, toks s = a ++ b ∧ toks t = a ++ toks ",".toList ++ b) ∧
    ((∀ i ∈ items, net (i.text o) = 0) → net t = 0)

theorem commaInvented_of_pair (o : Oracle Node) (ho : OracleTok o) {c1 c2 : ClassId} {s x y : Str}
    (items : List (Item Node)) (hr : runSlots o [.child c1 x, .child c2 y] = .ok items)
    (hs : toks s = toks x ++ toks y) : CommaInvented o s items := by
  obtain ⟨t, h1, h2, h3⟩ := fmt_pair o ho items hr
  exact ⟨t, h1, ⟨toks x, toks y, hs, h2⟩, h3⟩

/-- one separator branch of the tokenised fall-through: `<l> c <rt>` cut at the first `c` -/
theorem fmtC1002_cut (o : Oracle Node) (ho : OracleTok o) {ss : Str} (hs : SrmOK ss) {r : SrmResult}
    (hr : Combi.tokenise ss = some r) {c : Char} (hc : isWord c = false) {l rt : Str}
    (hcut : Combi.cutFirst c r.text = some (l, rt)) (items : List (Item Node))
    (hm : runSlots o [.child C.Format_Item (applyMap r.map (rstrip l)),
                     .child C.Format_Item (c :: applyMap r.map (lstrip rt))] = .ok items) :
    CommaInvented o ss items := by
  obtain ⟨sg, e1⟩ := seg_of_tokenise hs hr
  obtain ⟨hsp, _⟩ := Combi.cutFirst_spec _ _ _ hcut
  rw [hsp] at sg e1
  obtain ⟨sl, srt, e2⟩ := Seg.sep hc sg
  obtain ⟨_, e3⟩ := Seg.rstrip sl
  obtain ⟨_, e4⟩ := Seg.lstrip srt
  refine commaInvented_of_pair o ho items hm ?_
  rw [← toks_of_noBlank e1, e2]
  rw [toks_of_noBlank e3]
  have e5 : ∀ X Y : Str, X ++ c :: Y = X ++ ([c] ++ Y) := fun _ _ => rfl
  have e6 : ∀ Y : Str, c :: Y = [c] ++ Y := fun _ => rfl
  rw [e5, e6 (applyMap r.map (lstrip rt))]
  simp only [toks_append, toks_of_noBlank e4]

/-- the tokenised fall-through of `Format_Item_C1002.match` -/
theorem fmtC1002_fall (o : Oracle Node) (ho : OracleTok o) {ss : Str} (hs : SrmOK ss)
    (items : List (Item Node))
    (hm : ((tok ss).bind fun r =>
        match Combi.cutFirst '/' r.text with
        | some (l, rt) =>
          runSlots o [.child C.Format_Item (applyMap r.map (rstrip l)),
                      .child C.Format_Item ('/' :: applyMap r.map (lstrip rt))]
        | none =>
          match Combi.cutFirst ':' r.text with
          | some (l, rt) =>
            runSlots o [.child C.Format_Item (applyMap r.map (rstrip l)),
                        .child C.Format_Item (':' :: applyMap r.map (lstrip rt))]
          | none => .noMatch) = .ok items) :
    CommaInvented o ss items := by
  obtain ⟨r, hr, h2⟩ := Res.bind_eq_ok hm
  have hr' := tok_ok hr
  split at h2
  · rename_i l rt hcut
    exact fmtC1002_cut o ho hs hr' (by decide) hcut items h2
  · split at h2
    · rename_i l rt hcut
      exact fmtC1002_cut o ho hs hr' (by decide) hcut items h2
    · cases h2

/-- EXACT relation: `Format_Item_C1002` (`control-edit-desc format-item` without the comma) is printed
    `"%s, %s"`: the printed text is the input with ONE COMMA INVENTED between the two parts.
    (`hs` is needed only in the tokenised fall-through: the text contains a `/` or `:` that is neither
    first nor last and does not follow the leading digits.) -/
theorem formatItemC1002_tostr_match_tokens (k : Kinds Node) (o : Oracle Node) (ho : OracleTok o)
    (s : Str) (hs : SrmOK (strip s)) (items : List (Item Node))
    (hm : matchFormatItemC1002 k o s = .ok items) :
    ∃ t, tostrFormatItemC1002 o items = .ok t ∧
      (∃ a b, toks s = a ++ b ∧ toks t = a ++ toks ",".toList ++ b) ∧
      ((∀ i ∈ items, net (i.text o) = 0) → net t = 0) := by
  show CommaInvented o s items
  have hstrip : CommaInvented o (strip s) items → CommaInvented o s items := by
    intro ⟨t, h1, ⟨a, b, h2, h3⟩, h4⟩
    exact ⟨t, h1, ⟨a, b, by rw [← toks_strip, h2], h3⟩, h4⟩
  apply hstrip
  unfold matchFormatItemC1002 at hm
  split at hm
  · cases hm
  dsimp only at hm
  split at hm
  · cases hm
  split at hm
  · rename_i c0 rest0 cl hss hlast
    split at hm
    · -- leading `:` or `/`
      refine commaInvented_of_pair o ho items hm ?_
      rw [hss, toks_cons1, toks_lstrip]
    split at hm
    · -- trailing `:` or `/`
      refine commaInvented_of_pair o ho items hm ?_
      have e : strip s = (strip s).dropLast ++ [cl] := endsC_dropLast (by simpa [endsC] using hlast)
      conv => lhs; rw [e]
      rw [toks_append, toks_rstrip]
    have hpair : toks (strip s) =
        toks ((strip s).take ((skipDigits (strip s)).2 + 1)) ++
          toks (lstrip ((strip s).drop ((skipDigits (strip s)).2 + 1))) := by
      conv => lhs; rw [← List.take_append_drop ((skipDigits (strip s)).2 + 1) (strip s)]
      rw [toks_append, toks_lstrip]
    split at hm
    · split at hm
      · exact commaInvented_of_pair o ho items hm hpair
      split at hm
      · split at hm
        · rename_i l r heq
          split at hm
          · cases hm
            exact commaInvented_of_pair o ho _ heq hpair
          · cases hm
        · cases hm
        · cases hm
        · cases hm
      · exact fmtC1002_fall o ho hs items hm
    · exact fmtC1002_fall o ho hs items hm
  · cases hm

/-- witness: `Format_Item_C1002.match(":a")` gives `(":", "a")`, printed `":, a"`: the comma is not
    in the input -/
theorem formatItemC1002_invents_comma :
    matchFormatItemC1002 ⟨fun _ _ => false, fun _ => true⟩ echoOracle ":a".toList =
      .ok [.node ":".toList, .node "a".toList] ∧
    tostrFormatItemC1002 echoOracle [.node ":".toList, .node "a".toList] = .ok ":, a".toList ∧
    toks ":, a".toList ≠ toks ":a".toList := by decide

/-! ## Hollerith_Item -/

/-! ### decimal numerals: `str(int(ds)) == ds` for a digit string that starts with `1`-`9` -/

theorem natToStr_toDigits (n : Nat) : natToStr n = Nat.toDigits 10 n := by
  simp [natToStr, Nat.toList_repr]

theorem digit_range {d : Char} (h : isDigit d = true) : 48 ≤ d.toNat ∧ d.toNat ≤ 57 := by
  have h' : d.isDigit = true := h
  simp only [Char.isDigit, Bool.and_eq_true, decide_eq_true_eq] at h'
  exact ⟨UInt32.le_iff_toNat_le.mp h'.1, UInt32.le_iff_toNat_le.mp h'.2⟩

theorem digitChar_of_isDigit {d : Char} (h : isDigit d = true) :
    Nat.digitChar (d.toNat - '0'.toNat) = d := by
  obtain ⟨h1, h2⟩ := digit_range h
  have aux : ∀ m, m < 58 → 48 ≤ m → Nat.digitChar (m - 48) = Char.ofNat m := by decide
  have := aux d.toNat (by omega) h1
  rw [Char.ofNat_toNat] at this
  exact this

theorem toDigits_foldl : ∀ (ds : Str), (∀ d ∈ ds, isDigit d = true) → ∀ acc, 0 < acc →
    Nat.toDigits 10 (ds.foldl (fun n c => n * 10 + (c.toNat - '0'.toNat)) acc) =
      Nat.toDigits 10 acc ++ ds
  | [], _, acc, _ => by simp
  | d :: ds, h, acc, hacc => by
    have hd : isDigit d = true := h d (by simp)
    obtain ⟨h1, h2⟩ := digit_range hd
    have hv : d.toNat - '0'.toNat < 10 := by
      have : '0'.toNat = 48 := rfl
      omega
    rw [List.foldl_cons, toDigits_foldl ds (fun x hx => h x (by simp [hx])) _ (by omega)]
    rw [Nat.mul_comm acc 10, ← Nat.toDigits_append_toDigits (by decide) hacc hv,
      Nat.toDigits_of_lt_base hv, digitChar_of_isDigit hd]
    simp

/-- `str(int(ds)) == ds` -/
theorem natToStr_digitsToNat {c : Char} {ds : Str} (hc : isDigit c = true) (hc0 : c ≠ '0')
    (hds : ∀ d ∈ ds, isDigit d = true) : natToStr (digitsToNat (c :: ds)) = c :: ds := by
  obtain ⟨h1, h2⟩ := digit_range hc
  have h48 : '0'.toNat = 48 := rfl
  have hv : c.toNat - '0'.toNat < 10 := by omega
  have hpos : 0 < c.toNat - '0'.toNat := by
    have : c.toNat ≠ 48 := by
      intro e
      apply hc0
      have := congrArg Char.ofNat e
      rw [Char.ofNat_toNat] at this
      exact this
    omega
  rw [natToStr_toDigits]
  unfold digitsToNat
  rw [List.foldl_cons, Nat.zero_mul, Nat.zero_add, toDigits_foldl ds hds _ hpos,
    Nat.toDigits_of_lt_base hv, digitChar_of_isDigit hc]
  rfl

/-! ### the prefix -/

theorem drop_takeWhile_length (p : Char → Bool) : ∀ l : Str,
    l.drop (l.takeWhile p).length = l.dropWhile p
  | [] => rfl
  | a :: l => by
    by_cases h : p a = true
    · simp [List.takeWhile_cons, List.dropWhile_cons, h, drop_takeWhile_length p l]
    · simp [List.takeWhile_cons, List.dropWhile_cons, h]

/-- `^[1-9][0-9 ]*[hH]`: the matched text is a prefix of the string -/
theorem hollerithPrefix_full {ss m : Str} (h : hollerithPrefix ss = some m) :
    ∃ c run hh tail, ss = (c :: run ++ [hh]) ++ tail ∧ m = c :: run ++ [hh] ∧ '1' ≤ c ∧ c ≤ '9' ∧
      (∀ d ∈ run, isDigit d = true ∨ d = ' ') ∧ (hh = 'h' ∨ hh = 'H') := by
  unfold hollerithPrefix at h
  split at h
  · cases h
  · rename_i c cs
    split at h
    · rename_i hc
      simp only [Bool.and_eq_true, decide_eq_true_eq] at hc
      dsimp only at h
      split at h
      · rename_i hh rest hdrop
        split at h
        · rename_i hhh
          cases h
          rw [drop_takeWhile_length] at hdrop
          refine ⟨c, _, hh, rest, ?_, rfl, hc.1, hc.2, ?_, by simpa using hhh⟩
          · have := List.takeWhile_append_dropWhile (p := fun d => isDigit d || d == ' ') (l := cs)
            rw [hdrop] at this
            simp [this]
          · intro d hd
            have := mem_takeWhile_p _ _ _ hd
            simpa using this
        · cases h
      · cases h
    · cases h

theorem noBlank_noSpaces (x : Str) : noBlank (Combi.noSpaces x) = noBlank x := by
  induction x with
  | nil => rfl
  | cons c x ih =>
    by_cases hc : c = ' '
    · subst hc
      have e1 : Combi.noSpaces (' ' :: x) = Combi.noSpaces x := by simp [Combi.noSpaces]
      have e2 : noBlank (' ' :: x) = noBlank x := by
        unfold noBlank
        rw [List.filter_cons]
        simp [show isSpace ' ' = true by decide]
      rw [e1, e2, ih]
    · have h1 : (c != ' ') = true := by simpa using hc
      simp only [Combi.noSpaces, noBlank, List.filter_cons, h1, if_true] at ih ⊢
      rw [ih]

theorem toks_noSpaces (x : Str) : toks (Combi.noSpaces x) = toks x :=
  toks_of_noBlank (noBlank_noSpaces x)

theorem net_digitsF : ∀ (x : Str), (∀ d ∈ x, isDigit d = true) → net x = 0
  | [], _ => rfl
  | d :: x, h => by
    have hd := h d (by simp)
    have h1 : (d == '(') = false := by
      simp only [beq_eq_false_iff_ne, ne_eq]; intro e; subst e; revert hd; decide
    have h2 : (d == ')') = false := by
      simp only [beq_eq_false_iff_ne, ne_eq]; intro e; subst e; revert hd; decide
    simp only [net, h1, h2]
    rw [net_digitsF x (fun y hy => h y (by simp [hy]))]; rfl

/-- the count of the prefix: `int(m[:-1].replace(" ", ""))` and its decimal numeral -/
theorem hollerith_count {c : Char} {run : Str} {n : Nat} (hc1 : '1' ≤ c) (hc9 : c ≤ '9')
    (hrun : ∀ d ∈ run, isDigit d = true ∨ d = ' ')
    (hpy : pyInt (Combi.noSpaces (c :: run)) = some n) :
    natToStr n = Combi.noSpaces (c :: run) ∧ (∀ d ∈ natToStr n, isDigit d = true) ∧ 0 < n := by
  have hc : isDigit c = true := digit_of_range hc1 hc9
  have hc' : (c != ' ') = true := by
    simp only [bne_iff_ne, ne_eq]; intro e; subst e; revert hc; decide
  have hc0 : c ≠ '0' := by intro e; subst e; revert hc1; decide
  have hns : Combi.noSpaces (c :: run) = c :: run.filter (· != ' ') := by
    simp [Combi.noSpaces, List.filter_cons, hc']
  have hall' : ∀ d ∈ run.filter (· != ' '), isDigit d = true := by
    intro d e
    obtain ⟨h1, h2⟩ := List.mem_filter.mp e
    rcases hrun d h1 with h3 | h3
    · exact h3
    · subst h3; simp at h2
  have hall : ∀ d ∈ c :: run.filter (· != ' '), isDigit d = true := by
    intro d hd'
    rcases List.mem_cons.mp hd' with e | e
    · subst e; exact hc
    · exact hall' d e
  have hr : rstrip (c :: run.filter (· != ' ')) = c :: run.filter (· != ' ') :=
    rstrip_of_no_space (fun d hd' => isDigit_not_space (hall d hd'))
  rw [hns] at hpy ⊢
  unfold pyInt at hpy
  simp only [hr] at hpy
  have hA : (c :: run.filter (· != ' ')).all isDigit = true := List.all_eq_true.mpr hall
  simp only [hA, List.isEmpty_cons, Bool.not_false, Bool.and_self, if_true, Option.some.injEq] at hpy
  subst hpy
  have e := natToStr_digitsToNat hc hc0 hall'
  refine ⟨e, by rw [e]; exact hall, ?_⟩
  rcases Nat.eq_zero_or_pos (digitsToNat (c :: run.filter (· != ' '))) with h0 | h0
  · rw [h0] at e
    have : c = '0' := by
      have e' : ['0'] = c :: run.filter (· != ' ') := e
      exact (List.cons.inj e').1.symm
    exact absurd this hc0
  · exact h0

/-- `nH<n characters>`: the count is re-computed from the length of the item; the blanks inside
    the count are lost (`toks` ignores them), nothing else changes -/
theorem hollerith_tostr_match_tokens (o : Oracle Node) (s : Str)
    (items : List (Item Node)) (hm : (planHollerith s).bind (runSlots o) = .ok items) :
    ∃ t, tostrHollerith o items = .ok t ∧ toks t = toks s ∧
      ((∀ i ∈ items, net (i.text o) = 0) → net t = 0) := by
  obtain ⟨slots, hp, hr⟩ := Res.bind_eq_ok hm
  unfold planHollerith at hp
  split at hp
  · cases hp
  split at hp
  · cases hp
  dsimp only at hp
  split at hp
  · cases hp
  rename_i m hpre
  split at hp
  · cases hp
  rename_i n hpy
  obtain ⟨c, run, hh, tail, hss, hmm, hc1, hc9, hrun, hhh⟩ := hollerithPrefix_full hpre
  have hdl : m.dropLast = c :: run := by
    rw [hmm, show c :: run ++ [hh] = (c :: run) ++ [hh] from rfl, List.dropLast_concat]
  rw [hdl] at hpy
  obtain ⟨hnum, hnd, hnpos⟩ := hollerith_count hc1 hc9 hrun hpy
  rw [← hmm] at hss
  have e0 : toks s = toks (lstrip s) := (toks_lstrip s).symm
  generalize lstrip s = ss at hp hss hpre e0
  subst hss
  split at hp
  · cases hp
  rename_i hlen
  split at hp
  · cases hp
  rename_i htail
  cases hp
  obtain ⟨i, rfl, hi⟩ := run1 hr
  have := runSlot_str_ok hi; subst this
  have hlen' : n ≤ tail.length := by
    simp only [List.length_append] at hlen
    omega
  have hd1 : (m ++ tail).drop m.length = tail := by simp
  have hd2 : (m ++ tail).drop (m.length + n) = tail.drop n := by
    rw [← List.drop_drop, hd1]
  rw [hd1]
  rw [hd2] at htail
  have hil : (tail.take n).length = n := by
    rw [List.length_take]; omega
  have hrest : toks (tail.drop n) = [] := by
    by_cases hgt : (m ++ tail).length > m.length + n
    · have : (strip (tail.drop n)).isEmpty = true := by
        cases h : (strip (tail.drop n)).isEmpty with
        | true => rfl
        | false =>
          exfalso; apply htail
          rw [decide_eq_true hgt, h]; rfl
      rw [← toks_strip]; exact toks_isEmpty' this
    · have : tail.drop n = [] := by
        apply List.drop_eq_nil_of_le
        simp only [List.length_append] at hgt
        omega
      rw [this]; rfl
  have hne : ¬ (tail.take n).isEmpty = true := by
    intro h
    have : (tail.take n).length = 0 := by
      have : tail.take n = [] := by simpa using h
      rw [this]; rfl
    omega
  refine ⟨natToStr (tail.take n).length ++ 'H' :: tail.take n, ?_, ?_, ?_⟩
  · simp only [tostrHollerith]
    rw [if_neg hne]
  · have hH : toks [hh] = toks ['H'] := by
      rcases hhh with rfl | rfl <;> rfl
    have e1 : toks tail = toks (tail.take n) := by
      conv => lhs; rw [← List.take_append_drop n tail]
      rw [toks_append, hrest, List.append_nil]
    have e2 : toks m = toks (c :: run) ++ toks ['H'] := by
      rw [hmm, show c :: run ++ [hh] = (c :: run) ++ [hh] from rfl, toks_append, hH]
    have lhs : toks (natToStr (tail.take n).length ++ 'H' :: tail.take n) =
        toks (c :: run) ++ (toks ['H'] ++ toks (tail.take n)) := by
      rw [toks_append, hil, hnum, toks_noSpaces, toks_cons1 'H']
    have rhs : toks (m ++ tail) = toks (c :: run) ++ (toks ['H'] ++ toks (tail.take n)) := by
      rw [toks_append, e1, e2, List.append_assoc]
    rw [lhs, e0, rhs]
  · intro hb
    have b1 := hb (.str (tail.take n)) (by simp)
    simp only [Item.text] at b1
    have e : natToStr (tail.take n).length ++ 'H' :: tail.take n =
        natToStr (tail.take n).length ++ ("H".toList ++ tail.take n) := rfl
    rw [e, hil, net_append, net_append, net_digitsF _ hnd, b1]; rfl

/-- the count is normalised: the blanks inside it are not printed -/
theorem hollerith_count_blanks_lost :
    (planHollerith "1 2Habcdefghijkl".toList).bind (runSlots echoOracle) = .ok [.str "abcdefghijkl".toList] ∧
    tostrHollerith echoOracle [.str "abcdefghijkl".toList] = .ok "12Habcdefghijkl".toList := by
  decide +kernel

/-- non-vacuity of `SrmOK (strip s)` in `formatItemC1002_tostr_match_tokens` on the fall-through -/
example : SrmOK (strip "a/b".toList) ∧
    matchFormatItemC1002 ⟨fun _ _ => false, fun _ => true⟩ echoOracle "a/b".toList =
      .ok [.node "a".toList, .node "/b".toList] := by decide +kernel

end Fp.Rest

#print axioms Fp.Rest.positionEditDesc_tostr_match_tokens
#print axioms Fp.Rest.dataEditDesc_tostr_match_tokens
#print axioms Fp.Rest.dataEditDescC1002_tostr_match_tokens
#print axioms Fp.Rest.formatItemC1002_tostr_match_tokens
#print axioms Fp.Rest.formatItemC1002_invents_comma
#print axioms Fp.Rest.natToStr_digitsToNat
#print axioms Fp.Rest.hollerith_tostr_match_tokens
