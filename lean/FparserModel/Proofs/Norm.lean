import FparserModel.Norm

/-! helper lemmas for `Props/Norm.lean` (no Mathlib) -/
namespace Fp.Norm
open Fp

/-! ### the deletion pass only deletes droppable tokens -/

theorem passGo_sublist (st : St) (ts : List Tok) : (passGo st ts).Sublist ts := by
  induction ts generalizing st with
  | nil => simp [passGo]
  | cons t rest ih =>
    simp only [passGo]
    split
    · exact (ih _).cons _
    · exact (ih _).cons_cons _

theorem pass_sublist (ts : List Tok) : (pass ts).Sublist ts := passGo_sublist _ _

theorem pass_eq_of_length (ts : List Tok) (h : (pass ts).length = ts.length) : pass ts = ts :=
  (pass_sublist ts).eq_of_length h

theorem pass_length_le (ts : List Tok) : (pass ts).length ≤ ts.length :=
  (pass_sublist ts).length_le

/-- any observation that ignores droppable tokens is unchanged by the pass -/
theorem passGo_filterMap {α} (f : Tok → Option α) (hf : ∀ t, droppable t = true → f t = none)
    (st : St) (ts : List Tok) : (passGo st ts).filterMap f = ts.filterMap f := by
  induction ts generalizing st with
  | nil => simp [passGo]
  | cons t rest ih =>
    simp only [passGo]
    split
    · rename_i h
      have hd : droppable t = true := by
        simp only [Bool.and_eq_true] at h
        exact h.1
      rw [ih, List.filterMap_cons, hf t hd]
    · rw [List.filterMap_cons, List.filterMap_cons, ih]

theorem pass_filterMap {α} (f : Tok → Option α) (hf : ∀ t, droppable t = true → f t = none)
    (ts : List Tok) : (pass ts).filterMap f = ts.filterMap f := passGo_filterMap f hf _ _

/-! ### the fixpoint iteration -/

theorem fixpass_sublist (n : Nat) (ts : List Tok) : (fixpass n ts).Sublist ts := by
  induction n generalizing ts with
  | zero => simp [fixpass]
  | succ n ih =>
    simp only [fixpass]
    split
    · exact List.Sublist.refl _
    · exact (ih _).trans (pass_sublist ts)

theorem fixpass_fixed (n : Nat) (ts : List Tok) (h : ts.length < n) :
    pass (fixpass n ts) = fixpass n ts := by
  induction n generalizing ts with
  | zero => omega
  | succ n ih =>
    simp only [fixpass]
    split
    · rename_i heq
      exact pass_eq_of_length ts (by simpa using heq)
    · rename_i hne
      have hle := pass_length_le ts
      have hne' : (pass ts).length ≠ ts.length := by simpa using hne
      exact ih (pass ts) (by omega)

theorem fixpass_of_fixed (n : Nat) (ts : List Tok) (h : pass ts = ts) : fixpass n ts = ts := by
  cases n with
  | zero => simp [fixpass]
  | succ n => simp [fixpass, h]

theorem fixpass_filterMap {α} (f : Tok → Option α) (hf : ∀ t, droppable t = true → f t = none)
    (n : Nat) (ts : List Tok) : (fixpass n ts).filterMap f = ts.filterMap f := by
  induction n generalizing ts with
  | zero => simp [fixpass]
  | succ n ih =>
    simp only [fixpass]
    split
    · rfl
    · rw [ih, pass_filterMap f hf]

/-! ### case folding and keyword splitting is a projection -/

theorem upperC_idem (c : Char) : upperC (upperC c) = upperC c := by
  unfold upperC
  by_cases h : 'a' ≤ c ∧ c ≤ 'z'
  · rw [if_pos h]
    have h1 : 97 ≤ c.toNat := by
      have := h.1; simpa [Char.le_def, UInt32.le_iff_toNat_le] using this
    have h2 : c.toNat ≤ 122 := by
      have := h.2; simpa [Char.le_def, UInt32.le_iff_toNat_le] using this
    have key : ∀ n, 97 ≤ n → n ≤ 122 →
        ¬ ('a' ≤ Char.ofNat (n - 32) ∧ Char.ofNat (n - 32) ≤ 'z') := by
      intro n a b
      have aux : ∀ m, m < 91 → 65 ≤ m →
          ¬ ('a' ≤ Char.ofNat m ∧ Char.ofNat m ≤ 'z') := by decide
      exact aux (n - 32) (by omega) (by omega)
    rw [if_neg (key _ h1 h2)]
  · rw [if_neg h, if_neg h]

theorem upper_idem (s : Str) : upper (upper s) = upper s := by
  simp [upper, List.map_map, Function.comp_def, upperC_idem]

/-- every part of a split keyword is upper case and is not itself split -/
theorem splitTbl_parts_ok :
    ∀ e ∈ splitTbl, ∀ p ∈ e.2, upper p = p ∧ lookupSplit p = none := by
  decide

theorem lookupSplit_mem {s : Str} {parts : List Str} (h : lookupSplit s = some parts) :
    ∃ e ∈ splitTbl, e.1 = s ∧ e.2 = parts := by
  unfold lookupSplit at h
  cases hf : splitTbl.find? (·.1 == s) with
  | none => simp [hf] at h
  | some e =>
    simp [hf] at h
    have hk := List.find?_some hf
    simp at hk
    exact ⟨e, List.mem_of_find?_eq_some hf, hk, h⟩

theorem pre1_fixed {t t' : Tok} (h : t' ∈ pre1 t) : pre1 t' = [t'] := by
  cases t with
  | name s =>
    simp only [pre1] at h
    cases hl : lookupSplit (upper s) with
    | some parts =>
      rw [hl] at h
      simp only [List.mem_map] at h
      obtain ⟨p, hp, rfl⟩ := h
      obtain ⟨e, he, _, rfl⟩ := lookupSplit_mem hl
      obtain ⟨hu, hn⟩ := splitTbl_parts_ok e he p hp
      simp [pre1, hu, hn]
    | none =>
      rw [hl] at h
      simp only [List.mem_singleton] at h
      subst h
      simp [pre1, upper_idem, hl]
  | num s => simp [pre1] at h; subst h; simp [pre1, upper_idem]
  | boz s => simp [pre1] at h; subst h; simp [pre1, upper_idem]
  | dot s => simp [pre1] at h; subst h; simp [pre1, upper_idem]
  | chr s => simp [pre1] at h; subst h; simp [pre1]
  | op s => simp [pre1] at h; subst h; simp [pre1]
  | label s => simp [pre1] at h; subst h; simp [pre1]
  | fch c => simp [pre1] at h; subst h; simp [pre1, upperC_idem]
  | eos => simp [pre1] at h; subst h; simp [pre1]

theorem pre_of_fixed (ts : List Tok) (h : ∀ t ∈ ts, pre1 t = [t]) : pre ts = ts := by
  induction ts with
  | nil => simp [pre]
  | cons t rest ih =>
    have h1 := h t (by simp)
    have h2 := ih (fun x hx => h x (by simp [hx]))
    simp only [pre, List.flatMap_cons] at h2 ⊢
    rw [h1, h2]; rfl

theorem pre_mem_fixed {ts : List Tok} {t : Tok} (h : t ∈ pre ts) : pre1 t = [t] := by
  simp only [pre, List.mem_flatMap] at h
  obtain ⟨t0, _, ht⟩ := h
  exact pre1_fixed ht

/-! ### character literals through `pre` -/

def chrOf : Tok → Option Str
  | .chr s => some s
  | .name _ => none | .num _ => none | .boz _ => none | .dot _ => none | .op _ => none
  | .label _ => none | .fch _ => none | .eos => none

theorem chrOf_droppable (t : Tok) (h : droppable t = true) : chrOf t = none := by
  cases t <;> simp_all [droppable, chrOf]

theorem pre1_chrs (t : Tok) : (pre1 t).filterMap chrOf = [t].filterMap chrOf := by
  cases t with
  | name s =>
    simp only [pre1]
    cases lookupSplit (upper s) with
    | some parts =>
      have : ∀ ps : List Str, (ps.map Tok.name).filterMap chrOf = [] := by
        intro ps; induction ps with
        | nil => rfl
        | cons p ps ih => simp [List.filterMap_cons, chrOf, ih]
      simp [this, List.filterMap_cons, chrOf]
    | none => simp [List.filterMap_cons, chrOf]
  | _ => simp [pre1, List.filterMap_cons, chrOf]

theorem pre_chrs (ts : List Tok) : (pre ts).filterMap chrOf = ts.filterMap chrOf := by
  induction ts with
  | nil => simp [pre]
  | cons t rest ih =>
    simp only [pre, List.flatMap_cons, List.filterMap_append] at ih ⊢
    rw [ih, pre1_chrs]
    simp [List.filterMap_cons]
    cases chrOf t <;> simp

end Fp.Norm
