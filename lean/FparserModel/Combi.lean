import FparserModel.Py
import FparserModel.Splitline
/-!
# Combi — executable mirror of the generic rule combinators of `fparser/two/utils.py`

`SequenceBase`, `BracketBase`, `CallBase`/`CALLBase`, `KeywordValueBase`, `WORDClsBase`,
`EndStmtBase`, `SeparatorBase`, `StringBase`/`STRINGBase`, `NumberBase`: the static `match`
and the inherited `tostr`, branch for branch, over `Fp.Str`.

Every `match` is modelled in two stages, which is exactly how the Python is organised:

1. `xSplit args string : Option (List Slot)` — the pure string processing (including
   `string_replace_map` and `repmap(...)` where the code uses them): which sub-strings are handed
   to which child class, in the order the code makes the calls.  `none` = `return None`.
2. `runSlots o slots` — the child calls, left to right, fail-fast: a `NoMatchError` raised by a
   child (`o.childMatch c s = none`) escapes from the static `match` and is turned into "no
   match" by `Base.__new__` of the class that called it.  `xMatch o args s = xSplit args s >>= runSlots o`.

The children are arbitrary rule classes: `Oracle.childMatch : ClassId → Str → Option Node`,
`Oracle.childStr : Node → Str` (`str(node)`).  The control flow of no combinator depends on a
child's value other than through "raised / did not raise" (rule objects are always truthy), with
one exception that is modelled: a list keyword of `WORDClsBase` catches the child's `NoMatchError`
and goes on with the next keyword (`wordAlts` / `firstAlt`).

Regex patterns (`pattern_tools.Pattern`) are oracles as well (`reMatch`, and the `(value, kind)`
groups handed to `numberItems`).  ASCII domain as in `Py.lean`.
-/
namespace Fp.Combi
open Fp Fp.Splitline

abbrev ClassId := Nat

/-! ## slots, items, oracle -/

/-- one entry of the tuple a static `match` is about to return, before the child calls -/
inductive Slot where
  | none                              -- `None`
  | str (s : Str)                     -- a Python `str`
  | child (c : ClassId) (s : Str)     -- `cls(s)`
  | crash                             -- calling a non-callable (`['TYPE','CLASS'](lhs)`): TypeError
  | fail                              -- `return None` reached AFTER the preceding child calls
deriving Repr, DecidableEq

/-- one entry of `self.items` -/
inductive Item (Node : Type) where
  | none
  | str (s : Str)
  | node (n : Node)
deriving Repr, DecidableEq

structure Oracle (Node : Type) where
  childMatch : ClassId → Str → Option Node
  childStr : Node → Str

variable {Node : Type}

def runSlot (o : Oracle Node) : Slot → Option (Item Node)
  | .none => some .none
  | .str s => some (.str s)
  | .child c s => (o.childMatch c s).map .node
  | .crash => Option.none
  | .fail => Option.none

/-- the child calls in tuple order, fail-fast -/
def runSlots (o : Oracle Node) : List Slot → Option (List (Item Node))
  | [] => some []
  | s :: ss =>
    match runSlot o s with
    | Option.none => Option.none
    | some i =>
      match runSlots o ss with
      | Option.none => Option.none
      | some is => some (i :: is)

/-- `"%s" % item` -/
def Item.text (o : Oracle Node) : Item Node → Str
  | .none => "None".toList
  | .str s => s
  | .node n => o.childStr n

/-! ## Python `str` helpers (structural, so that the proofs are plain inductions) -/

/-- `s.split(c, 1)` when `c in s`: the text before and after the first `c` -/
def cutFirst (c : Char) : Str → Option (Str × Str)
  | [] => Option.none
  | x :: xs =>
    if x == c then some ([], xs)
    else match cutFirst c xs with
      | some p => some (x :: p.1, p.2)
      | Option.none => Option.none

/-- `(s[:i], s[i+1:])` for `i = s.rfind(c)`, `none` when `i = -1` -/
def cutLast (c : Char) : Str → Option (Str × Str)
  | [] => Option.none
  | x :: xs =>
    match cutLast c xs with
    | some p => some (x :: p.1, p.2)
    | Option.none => if x == c then some ([], xs) else Option.none

/-- is `p` a prefix of `s` (`s.startswith(p)`) -/
def isPrefix : Str → Str → Bool
  | [], _ => true
  | _ :: _, [] => false
  | p :: ps, c :: cs => p == c && isPrefix ps cs

/-- `s.split(sep)` for a non-empty `sep`: scanning left to right; `k` = characters of an already
    recognised separator still to be skipped.  Always returns a non-empty list. -/
def splitGo (sep : Str) : Nat → Str → List Str
  | _, [] => [[]]
  | k+1, _ :: cs => splitGo sep k cs
  | 0, c :: cs =>
    if isPrefix sep (c :: cs) then [] :: splitGo sep (sep.length - 1) cs
    else match splitGo sep 0 cs with
      | h :: t => (c :: h) :: t
      | [] => [[c]]

/-- `s.split(sep)`; Python raises `ValueError` for an empty separator (`none`) -/
def splitStr (s sep : Str) : Option (List Str) :=
  if sep.isEmpty then Option.none else some (splitGo sep 0 s)

/-- `sep.join(parts)` -/
def joinStr (sep : Str) : List Str → Str
  | [] => []
  | [a] => a
  | a :: b :: rest => a ++ sep ++ joinStr sep (b :: rest)

/-- `s.replace(" ", "")` -/
def noSpaces (s : Str) : Str := s.filter (· != ' ')

/-- `s[n:-n]` for `2n ≤ len(s)`, `n ≥ 1` -/
def midSlice (s : Str) (n : Nat) : Str := (s.drop n).take (s.length - 2 * n)

/-- the module-level `isalnum(c)` of utils.py -/
def isAlnumU (c : Char) : Bool := c.isAlphanum || c == '_'

/-- `line, repmap = string_replace_map(string)`; a `KeyError` cannot escape at /repo HEAD, the
    `none` of the tokeniser model is propagated as "no result" all the same -/
def tokenise (s : Str) : Option SrmResult := stringReplaceMap s false

/-! ## SequenceBase -/

/-- `SequenceBase.match(separator, subcls, string)` up to the child calls.  The two
    `InternalError`s (non-`str` arguments) cannot occur for `str` inputs; the third
    (`separator == " "`) is `none` here. -/
def seqSplit (sep : Str) (cls : ClassId) (s : Str) : Option (List Slot) :=
  if sep == [' '] then Option.none else
  match tokenise s with
  | Option.none => Option.none
  | some r =>
    match splitStr r.text sep with
    | Option.none => Option.none
    | some pieces => some (pieces.map fun e => Slot.child cls (applyMap r.map (strip e)))

def seqMatch (o : Oracle Node) (sep : Str) (cls : ClassId) (s : Str) : Option (List (Item Node)) :=
  match seqSplit sep cls s with
  | Option.none => Option.none
  | some slots => runSlots o slots

/-- the separator as `tostr` writes it -/
def seqSepText (sep : Str) : Str :=
  if sep == [','] then [',', ' ']
  else if sep == [' '] then [' ']
  else ' ' :: sep ++ [' ']

/-- `SequenceBase.tostr` -/
def seqStr (o : Oracle Node) (sep : Str) (items : List (Item Node)) : Str :=
  joinStr (seqSepText sep) (items.map (Item.text o))

/-! ## BracketBase -/

/-- `BracketBase.match(brackets, cls, string, require_cls)`; `cls = none` is a falsy class -/
def bracketSplit (brackets : Str) (cls : Option ClassId) (requireCls : Bool) (s : Str) :
    Option (List Slot) :=
  if cls.isNone && requireCls then Option.none else
  if s.isEmpty then Option.none else
  let ss := strip s
  if brackets.isEmpty then Option.none else
  let bn := noSpaces brackets
  if bn.isEmpty then Option.none else
  if bn.length % 2 == 1 then Option.none else
  let bl := bn.length / 2
  let left := bn.take bl
  let right := bn.drop (bn.length - bl)
  if ss.length < bl * 2 then Option.none else
  if !(startsWith ss left && endsWith ss right) then Option.none else
  let line := lstrip (midSlice ss bl)
  if (line.isEmpty && cls.isSome && requireCls) || (!line.isEmpty && cls.isNone) then Option.none else
  if line.isEmpty && (cls.isNone || !requireCls) then some [.str left, .none, .str right] else
  match cls with
  | some c => some [.str left, .child c line, .str right]
  | Option.none => Option.none

def bracketMatch (o : Oracle Node) (brackets : Str) (cls : Option ClassId) (requireCls : Bool)
    (s : Str) : Option (List (Item Node)) :=
  match bracketSplit brackets cls requireCls s with
  | Option.none => Option.none
  | some slots => runSlots o slots

/-- `BracketBase.tostr` (`none` = one of the `InternalError`s) -/
def bracketStr (o : Oracle Node) : List (Item Node) → Option Str
  | [.str l, mid, .str r] =>
    if l.isEmpty || r.isEmpty then Option.none else
    match mid with
    | .none => some (l ++ r)
    | m => some (l ++ m.text o ++ r)
  | _ => Option.none

/-! ## CallBase / CALLBase -/

/-- an argument that is a keyword, a class, a non-callable non-`str` (a list), or `None` -/
inductive Arg where
  | kw (s : Str)
  | cls (c : ClassId)
  | bad
deriving Repr, DecidableEq

/-- `line[open_idx+1 : close_idx]` with `open_idx = line.rfind("(")` (`line = pre ++ "(" ++ post`)
    and `close_idx = line.rfind(")")` over the WHOLE line (`-1` drops the last character) -/
def callRhsRaw (pre post : Str) : Str :=
  match cutLast ')' post with
  | some p => p.1
  | Option.none => if pre.contains ')' then [] else post.dropLast

/-- `CallBase.match(lhs_cls, rhs_cls, string, upper_lhs, require_rhs)` -/
def callSplit (lhsA rhsA : Arg) (upperLhs requireRhs : Bool) (s : Str) : Option (List Slot) :=
  if (rstrip s).getLast? != some ')' then Option.none else
  match tokenise s with
  | Option.none => Option.none
  | some r =>
    match cutLast '(' r.text with
    | Option.none => Option.none
    | some (pre, post) =>
      let lhs0 := rstrip pre
      if lhs0.isEmpty then Option.none else
      let rhs0 := strip (callRhsRaw pre post)
      let lhs1 := applyMap r.map lhs0
      let lhs := if upperLhs then upper lhs1 else lhs1
      let rhs := applyMap r.map rhs0
      let lhsSlot : Option Slot :=
        match lhsA with
        | .kw k => if k != lhs then Option.none else some (.str lhs)
        | .cls c => some (.child c lhs)
        | .bad => some .crash
      match lhsSlot with
      | Option.none => Option.none
      | some ls =>
        let rs : Slot :=
          if !rhs.isEmpty then
            match rhsA with
            | .kw k => if k != rhs then .fail else .str rhs
            | .cls c => .child c rhs
            | .bad => .crash
          else if requireRhs then .fail else .none
        some [ls, rs]

def callMatch (o : Oracle Node) (lhsA rhsA : Arg) (upperLhs requireRhs : Bool) (s : Str) :
    Option (List (Item Node)) :=
  match callSplit lhsA rhsA upperLhs requireRhs s with
  | Option.none => Option.none
  | some slots => runSlots o slots

/-- `CallBase.tostr` -/
def callStr (o : Oracle Node) : List (Item Node) → Str
  | [l, .none] => l.text o ++ ['(', ')']
  | [l, r] => l.text o ++ '(' :: r.text o ++ [')']
  | _ => []

/-! ## KeywordValueBase -/

/-- `KeywordValueBase.match` for a non-list `lhs_cls` (the list/tuple form, used only by
    hand-written classes, is not modelled) -/
def kvSplit (lhsA : Arg) (rhsC : ClassId) (requireLhs upperLhs : Bool) (s : Str) :
    Option (List Slot) :=
  if requireLhs && !s.contains '=' then Option.none else
  -- pieces = string.split("=", 1)
  let lhsSlot : Option Slot :=          -- `none` = falsy lhs
    match cutFirst '=' s with
    | Option.none => Option.none
    | some (p0, _) =>
      let lhs := strip p0
      match lhsA with
      | .kw k =>
        let lhs' := if upperLhs then upper lhs else lhs
        if lhs' != k then Option.none
        else if lhs'.isEmpty then Option.none else some (.str lhs')
      | .cls c => some (.child c lhs)
      | .bad => some .crash
  let rhsText : Option Str :=
    match lhsSlot with
    | Option.none => if requireLhs then Option.none else some (strip s)
    | some _ =>
      match cutFirst '=' s with
      | some (_, p1) => some (strip p1)
      | Option.none => some (strip s)
  match rhsText with
  | Option.none => Option.none
  | some rhs =>
    let l := match lhsSlot with | some x => x | Option.none => Slot.none
    -- `if rhs: rhs = rhs_cls(rhs)` / `if not rhs: return None`
    some [l, if rhs.isEmpty then .fail else .child rhsC rhs]

def kvMatch (o : Oracle Node) (lhsA : Arg) (rhsC : ClassId) (requireLhs upperLhs : Bool)
    (s : Str) : Option (List (Item Node)) :=
  match kvSplit lhsA rhsC requireLhs upperLhs s with
  | Option.none => Option.none
  | some slots => runSlots o slots

/-- `KeywordValueBase.tostr` -/
def kvStr (o : Oracle Node) : List (Item Node) → Str
  | [.none, r] => r.text o
  | [l, r] => l.text o ++ " = ".toList ++ r.text o
  | _ => []

/-! ## WORDClsBase -/

/-- one `str` keyword: `none` = `return None`, otherwise `(pattern_value, slot)` -/
def wordSplit1 (kw : Str) (cls : Option ClassId) (colons requireCls : Bool) (s : Str) :
    Option (List Slot) :=
  let line := lstrip s
  if upper (line.take kw.length) != upper kw then Option.none else
  let line := line.drop kw.length
  match line with
  | [] => if requireCls then Option.none else some [.str kw, .none]
  | c :: _ =>
    if isAlnumU c then Option.none else
    let line := lstrip line
    let hasColons := colons && isPrefix [':', ':'] line
    let line := if hasColons then lstrip (line.drop 2) else line
    if line.isEmpty then
      if hasColons || requireCls then Option.none else some [.str kw, .none]
    else match cls with
      | Option.none => Option.none
      | some k => some [.str kw, .child k line]

/-- the alternatives of a list keyword, in order (`none` entries = that keyword returned `None`) -/
def wordAlts (kws : List Str) (cls : Option ClassId) (colons requireCls : Bool) (s : Str) :
    List (Option (List Slot)) :=
  kws.map fun kw => wordSplit1 kw cls colons requireCls s

/-- list keyword: the first alternative that returns a tuple AND whose child does not raise -/
def firstAlt (o : Oracle Node) : List (Option (List Slot)) → Option (List (Item Node))
  | [] => Option.none
  | Option.none :: rest => firstAlt o rest
  | some slots :: rest =>
    match runSlots o slots with
    | some items => some items
    | Option.none => firstAlt o rest

/-- `WORDClsBase.match(keyword, cls, string, colons, require_cls)`; `isList` = the keyword is a
    list/tuple (of `str`) -/
def wordMatch (o : Oracle Node) (kws : List Str) (isList : Bool) (cls : Option ClassId)
    (colons requireCls : Bool) (s : Str) : Option (List (Item Node)) :=
  if isList then firstAlt o (wordAlts kws cls colons requireCls s)
  else match kws with
    | [kw] =>
      match wordSplit1 kw cls colons requireCls s with
      | Option.none => Option.none
      | some slots => runSlots o slots
    | _ => Option.none

/-- `WORDClsBase.tostr` -/
def wordStr (o : Oracle Node) : List (Item Node) → Str
  | [w, .none] => w.text o
  | [w, x] =>
    let s := x.text o
    match s with
    | c :: _ => if c == '(' || c == '*' then w.text o ++ s else w.text o ++ ' ' :: s
    | [] => w.text o ++ ' ' :: s
  | _ => []

/-- `WORDClsBase.tostr_a` -/
def wordStrA (o : Oracle Node) : List (Item Node) → Str
  | [w, .none] => w.text o
  | [w, x] => w.text o ++ " :: ".toList ++ x.text o
  | _ => []

/-! ## EndStmtBase -/

/-- `EndStmtBase.match(stmt_type, stmt_name, string, require_stmt_type)` -/
def endSplit (ty : Str) (nameC : Option ClassId) (requireType : Bool) (s : Str) :
    Option (List Slot) :=
  if upper (s.take 3) != ['E', 'N', 'D'] then Option.none else
  let line := lstrip (s.drop 3)
  let start := upper (line.take ty.length)
  if !start.isEmpty then
    if noSpaces start != noSpaces ty then Option.none else
    let line := lstrip (line.drop ty.length)
    if !line.isEmpty then
      match nameC with
      | Option.none => Option.none
      | some c => some [.str ty, .child c line]
    else some [.str ty, .none]
  else
    if requireType then Option.none else some [.none, .none]

def endMatch (o : Oracle Node) (ty : Str) (nameC : Option ClassId) (requireType : Bool) (s : Str) :
    Option (List (Item Node)) :=
  match endSplit ty nameC requireType s with
  | Option.none => Option.none
  | some slots => runSlots o slots

/-- `EndStmtBase.tostr` -/
def endStr (o : Oracle Node) : List (Item Node) → Str
  | [t, .none] =>
    match t with
    | .none => "END".toList
    | t => "END ".toList ++ t.text o
  | [t, n] => "END ".toList ++ t.text o ++ ' ' :: n.text o
  | _ => []

/-! ## SeparatorBase -/

/-- `SeparatorBase.match(lhs_cls, rhs_cls, string, require_lhs, require_rhs)` -/
def sepSplit (lhsC rhsC : Option ClassId) (requireLhs requireRhs : Bool) (s : Str) :
    Option (List Slot) :=
  match tokenise s with
  | Option.none => Option.none
  | some r =>
    match cutFirst ':' r.text with
    | Option.none => Option.none
    | some (l0, r0) =>
      let lhs := rstrip l0
      let rhs := lstrip r0
      let lslot : Option Slot :=
        if !lhs.isEmpty then
          match lhsC with
          | Option.none => Option.none
          | some c => some (.child c (applyMap r.map lhs))
        else if requireLhs then Option.none else some .none
      match lslot with
      | Option.none => Option.none
      | some ls =>
        let rs : Slot :=
          if !rhs.isEmpty then
            match rhsC with
            | Option.none => .fail
            | some c => .child c (applyMap r.map rhs)
          else if requireRhs then .fail else .none
        some [ls, rs]

def sepMatch (o : Oracle Node) (lhsC rhsC : Option ClassId) (requireLhs requireRhs : Bool)
    (s : Str) : Option (List (Item Node)) :=
  match sepSplit lhsC rhsC requireLhs requireRhs s with
  | Option.none => Option.none
  | some slots => runSlots o slots

/-- `SeparatorBase.tostr` -/
def sepStr (o : Oracle Node) : List (Item Node) → Str
  | [l, r] =>
    (match l with
      | .none => [':']
      | l => l.text o ++ [' ', ':'])
    ++ (match r with
      | .none => []
      | r => ' ' :: r.text o)
  | _ => []

/-! ## StringBase / STRINGBase -/

/-- one leaf of the (flattened) pattern argument -/
inductive PatAtom where
  | lit (s : Str)       -- a `str`
  | re (id : Nat)       -- a compiled regex / `pattern_tools.Pattern`
deriving Repr, DecidableEq

/-- how the class hands `string` to the base `match` -/
inductive Pre where
  | id | strip | upper
deriving Repr, DecidableEq

def Pre.apply : Pre → Str → Str
  | .id, s => s
  | .strip, s => Fp.strip s
  | .upper, s => Fp.upper s

/-- does one atom accept `x` (`x` = the string compared / handed to the regex) -/
def atomOk (reMatch : Nat → Str → Bool) (x : Str) : PatAtom → Bool
  | .lit p => p.length == x.length && p == x
  | .re i => reMatch i x

/-- `StringBase.match(pattern, string)` (`upperCase = false`) and `STRINGBase.match` (`true`):
    `some x` = the 1-tuple `(x,)`.  A nested list/tuple pattern is first-match, and every leaf
    returns the same tuple, so the pattern is given flattened. -/
def stringMatch (reMatch : Nat → Str → Bool) (upperCase : Bool) (atoms : List PatAtom) (s : Str) :
    Option Str :=
  let x := if upperCase then upper s else s
  if atoms.any (atomOk reMatch x) then some x else Option.none

/-- `StringBase.tostr` -/
def stringStr (x : Str) : Str := x

/-! ## NumberBase -/

/-- `NumberBase.match(number_pattern, string)`: the regex (oracle `numRe`, returning the groups
    `value` and `kind_param`) sees `string.replace(" ", "")` -/
def numberMatch (numRe : Str → Option (Str × Option Str)) (s : Str) : Option (Str × Option Str) :=
  match numRe (noSpaces s) with
  | Option.none => Option.none
  | some (v, k) => some (upper v, k)

/-- `NumberBase.tostr` -/
def numberStr : Str × Option Str → Str
  | (v, Option.none) => v
  | (v, some k) => v ++ '_' :: k

/-! ## the generated class table: one `Spec` per rule class whose `match` is
    `return <Base>.match(<constants, class names, flags>, string)` -/

inductive Spec where
  | seq (sep : Str) (cls : ClassId)
  | bracket (brackets : Str) (cls : Option ClassId) (requireCls : Bool)
  | call (lhs rhs : Arg) (upperLhs requireRhs : Bool)
  | kv (lhs : Arg) (rhs : ClassId) (requireLhs upperLhs : Bool)
  | word (kws : List Str) (isList : Bool) (cls : Option ClassId) (colons requireCls : Bool)
      (printA : Bool)      -- `tostr = WORDClsBase.tostr_a`
  | endStmt (ty : Str) (name : Option ClassId) (requireType : Bool)
  | sep (lhs rhs : Option ClassId) (requireLhs requireRhs : Bool)
  | string (upperCase : Bool) (pre : Pre) (atoms : List PatAtom)
  | number (pre : Pre) (re : Nat)
deriving Repr, DecidableEq

/-- the split of the slot-producing combinators (for `word` with a list keyword: see `wordAlts`) -/
def Spec.split : Spec → Str → Option (List Slot)
  | .seq sp0 c, s => seqSplit sp0 c s
  | .bracket b c r, s => bracketSplit b c r s
  | .call l r u q, s => callSplit l r u q s
  | .kv l r q u, s => kvSplit l r q u s
  | .word [kw] false c co r _, s => wordSplit1 kw c co r s
  | .endStmt t n r, s => endSplit t n r s
  | .sep l r ql qr, s => sepSplit l r ql qr s
  | _, _ => Option.none

/-- `cls.match(string)` for a class with the given spec (slot-producing combinators) -/
def Spec.run (o : Oracle Node) : Spec → Str → Option (List (Item Node))
  | .word kws true c co r _, s => wordMatch o kws true c co r s
  | sp, s =>
    match sp.split s with
    | Option.none => Option.none
    | some slots => runSlots o slots

/-- the inherited `tostr` for a class with the given spec (`none`: `InternalError`, or a leaf base) -/
def Spec.str (o : Oracle Node) : Spec → List (Item Node) → Option Str
  | .seq sp0 _, items => some (seqStr o sp0 items)
  | .bracket _ _ _, items => bracketStr o items
  | .call _ _ _ _, items => some (callStr o items)
  | .kv _ _ _ _, items => some (kvStr o items)
  | .word _ _ _ _ _ a, items => some (if a then wordStrA o items else wordStr o items)
  | .endStmt _ _ _, items => some (endStr o items)
  | .sep _ _ _ _, items => some (sepStr o items)
  | _, _ => Option.none

/-- the argument-side hypotheses of the round-trip lemmas of `Props/Combi.lean`, as a Boolean
    check on a spec (evaluated over the generated table in `Generated/Combi.lean`) -/
def Spec.argsOk : Spec → Bool
  | .seq sp0 _ => sp0 == [',']
  | .bracket b c _ =>
    let l := b.take (b.length / 2)
    let r := b.drop (b.length / 2)
    c.isSome && !b.isEmpty && b.length % 2 == 0 && !b.contains ' ' && lstrip l == l && rstrip r == r
  | .call l r u _ =>
    (match l with
      | .kw k => !u || upper k == k
      | .cls _ => true
      | .bad => false)
    && (match r with | .cls _ => true | _ => false)
  | .kv l _ _ u =>
    (match l with
      | .kw k => !k.isEmpty && !k.contains '=' && lstrip k == k && rstrip k == k && (!u || upper k == k)
      | .cls _ => true
      | .bad => false)
  | .word kws _ _ colons _ printA =>
    kws.all (fun kw => !kw.isEmpty && lstrip kw == kw) && (!printA || colons)
  | .endStmt ty _ _ => !ty.isEmpty && lstrip ty == ty && upper ty == ty
  | _ => true

end Fp.Combi
