import FparserModel.Proofs.DeclData
/-!
# Decl — "tokens" theorems for the remaining classes that go through the tokeniser

`Data_Stmt_Value`, `Data_Stmt_Set`, `Entity_Decl`/`Component_Decl`, `Dimension_Stmt`,
`Equivalence_Set`, `Data_Stmt`.  Same style as `DeclData.lean`: the view of the tokeniser
(`View`) is an explicit hypothesis, the children are `Faithful`.
-/
namespace Fp.Decl
open Fp Fp.Splitline Fp.Combi

variable {A : Type}

/-! ## small lemmas: keywords, names, literals -/

theorem isSpace_upperC {c : Char} (h : isSpace c = true) : upperC c = c := by
  rcases isSpace_cases h with h | h | h | h | h | h | h | h | h | h <;> subst h <;> decide

/-- a text whose upper-case has no blank has no blank -/
theorem toks_of_upper_nonspace : ∀ (k : Str), (∀ c ∈ upper k, isSpace c = false) → toks k = k
  | [], _ => rfl
  | c :: k, h => by
    have hc : isSpace c = false := by
      cases hs : isSpace c with
      | false => rfl
      | true =>
        have := h (upperC c) (by simp [upper])
        rw [isSpace_upperC hs, hs] at this; cases this
    rw [toks_cons_nonspace _ hc, toks_of_upper_nonspace k (fun x hx => h x (by
      simp only [upper, List.map_cons, List.mem_cons] at hx ⊢; exact .inr hx))]

/-- `s[:n].upper() == kw`: the text splits into the keyword (in any case) and the rest -/
theorem kwAt_spec {kw : String} {s : Str} (h : kwAt kw s = true) (n : Nat) (hn : kw.length = n) :
    s = s.take n ++ s.drop n ∧ upper (s.take n) = kw.toList := by
  subst hn
  unfold kwAt at h
  exact ⟨(List.take_append_drop _ _).symm, by simpa using h⟩

/-- the keyword part contains no blank when the keyword has none -/
theorem kwAt_toks {kw : String} {s : Str} (h : kwAt kw s = true) (n : Nat) (hn : kw.length = n)
    (hk : ∀ c ∈ kw.toList, isSpace c = false) : toks (s.take n) = s.take n := by
  apply toks_of_upper_nonspace
  rw [(kwAt_spec h n hn).2]
  exact hk

/-- the view hypothesis in the form the theorems take it, from `srm_view` -/
theorem view_of_srm (s : Str) (hF : Free s)
    (hE : FoundsEndOK (expConsts (phase1Text discipline s false))) :
    ∀ r, tokenise s = some r → View s r := by
  obtain ⟨r0, h0, v⟩ := srm_view s hF hE
  intro r hr
  rw [h0] at hr
  cases hr
  exact v

theorem toks_c1 (x : Str) : toks ('(' :: x) = '(' :: toks x := toks_cons_nonspace _ (by decide)
theorem toks_c2 (x : Str) : toks (')' :: x) = ')' :: toks x := toks_cons_nonspace _ (by decide)
theorem toks_c3 (x : Str) : toks ('*' :: x) = '*' :: toks x := toks_cons_nonspace _ (by decide)
theorem toks_c4 (x : Str) : toks (' ' :: x) = toks x := toks_cons_space _ (by decide)
theorem toks_c5 (x : Str) : toks (',' :: x) = ',' :: toks x := toks_cons_nonspace _ (by decide)
theorem toks_c6 (x : Str) : toks (':' :: x) = ':' :: toks x := toks_cons_nonspace _ (by decide)
theorem toks_c7 (x : Str) : toks ('/' :: x) = '/' :: toks x := toks_cons_nonspace _ (by decide)

@[simp] theorem toks_m1 : toks " * ".toList = ['*'] := by decide
@[simp] theorem toks_m2 : toks " / ".toList = ['/'] := by decide
@[simp] theorem toks_m3 : toks " /".toList = ['/'] := by decide
@[simp] theorem toks_m4 : toks ", ".toList = [','] := by decide

/-! ## Data_Stmt_Value -/

/-- **Data_Stmt_Value, tokens** -/
theorem dataStmtValue_tokens_view (o : Leaves A) (hf : Faithful o) (s : Str) (n : DataValue A)
    (h : matchDataStmtValue o s = some n) (hv : ∀ r, tokenise s = some r → View s r) :
    toks (tostrDataStmtValue o n) = toks s := by
  unfold matchDataStmtValue at h
  cases ht : tokenise s with
  | none => simp [ht] at h
  | some r =>
    have v := hv r ht
    simp only [ht] at h
    cases h1 : cutFirst '*' r.text with
    | none => simp [h1] at h
    | some p1 =>
      obtain ⟨a, b⟩ := p1
      simp only [h1] at h
      split at h
      · exact absurd h (by simp)
      obtain ⟨e1, _⟩ := cutFirst_spec _ _ _ h1
      have hp := v.piece
      rw [e1] at hp
      obtain ⟨pa, pb, e2⟩ := nb_sep hp (by decide) (by decide)
      cases ha : o.leaf .dataStmtRepeat (applyMap r.map (rstrip a)) with
      | none => simp [ha] at h
      | some x =>
      cases hb : o.leaf .dataStmtConstant (applyMap r.map (lstrip b)) with
      | none => simp [ha, hb] at h
      | some y =>
        simp only [ha, hb, Option.map_some, Option.some.injEq] at h
        subst h
        have fa := hf _ _ _ ha
        have fb := hf _ _ _ hb
        have g1 := (nb_rstrip pa).2
        have g2 := (nb_lstrip pb).2
        have hwhole : toks s = nb r.map r.text := v.whole.symm
        rw [hwhole, e1, e2]
        unfold nb at g1 g2
        simp only [tostrDataStmtValue, toks_append, fa, fb, g1, g2, toks_m1]
        simp [nb]

example : matchDataStmtValue echo "3 * f(1, 'a*b')".toList
    = some ⟨"3".toList, "f(1, 'a*b')".toList⟩ := by decide +kernel
example : ∀ r, tokenise "3 * f(1, 'a*b')".toList = some r → View "3 * f(1, 'a*b')".toList r :=
  view_of_srm _ (by decide +kernel) (by decide +kernel)

/-! ## Data_Stmt_Set -/

/-- **Data_Stmt_Set, tokens.**  Two hypotheses beyond the view:
    * `hend` : the Python tests `string.endswith("/")` on the ORIGINAL text but cuts
      `line[i+1:-1]` on the TOKENISED one; that the tokenised text ends in `/` too does not follow
      from `View` (a placeholder could expand to a text ending in `/`);
    * `hne` : `Data_Stmt_Value_List("")` fails.  Without it the statement is false: for `a /` the
      only `/` is both the first one (`i`) and the last character, `line[i+1:-1]` is empty and the
      printed text has two slashes (`dataStmtSet_single_slash`). -/
theorem dataStmtSet_tokens_view (o : Leaves A) (hf : Faithful o) (s : Str) (n : DataSet A)
    (h : matchDataStmtSet o s = some n) (hv : ∀ r, tokenise s = some r → View s r)
    (hend : ∀ r, tokenise s = some r → ew r.text '/' = true)
    (hne : o.leaf .dataStmtValueList [] = none) :
    toks (tostrDataStmtSet o n) = toks s := by
  unfold matchDataStmtSet at h
  split at h
  · exact absurd h (by simp)
  cases ht : tokenise s with
  | none => simp [ht] at h
  | some r =>
    have v := hv r ht
    have hend' := hend r ht
    simp only [ht] at h
    cases h1 : cutFirst '/' r.text with
    | none => simp [h1] at h
    | some p1 =>
      obtain ⟨a, b⟩ := p1
      simp only [h1] at h
      obtain ⟨e1, _⟩ := cutFirst_spec _ _ _ h1
      cases ha : o.leaf .dataStmtObjectList (applyMap r.map (rstrip a)) with
      | none => simp [ha] at h
      | some ob =>
      cases hb : o.leaf .dataStmtValueList (applyMap r.map (strip b.dropLast)) with
      | none => simp [ha, hb] at h
      | some vl =>
        simp only [ha, hb, Option.map_some, Option.some.injEq] at h
        subst h
        -- `b` ends with the final `/`
        have hb' : b = b.dropLast ++ ['/'] := by
          cases b with
          | nil =>
            exfalso
            have : applyMap r.map (strip ([] : Str).dropLast) = [] := by
              simp [strip, lstrip, rstrip, applyMap, keyFindAll, keyFindAllAux]
            rw [this, hne] at hb
            cases hb
          | cons c b' =>
            have : ew (c :: b') '/' = true := by
              rw [e1] at hend'
              unfold ew at hend' ⊢
              simpa [List.getLast?_append, List.getLast?_cons_cons] using hend'
            exact ew_spec this
        have hp := v.piece
        rw [e1, hb'] at hp
        obtain ⟨pa, pb, e2⟩ := nb_sep hp (by decide) (by decide)
        obtain ⟨pb', e3⟩ := nb_snoc pb (by decide) (by decide)
        have fa := hf _ _ _ ha
        have fb := hf _ _ _ hb
        have g1 := (nb_rstrip pa).2
        have g2 := (nb_strip pb').2
        have hwhole : toks s = nb r.map r.text := v.whole.symm
        rw [hwhole, e1]
        conv => rhs; rw [hb', e2, e3]
        unfold nb at g1 g2
        simp only [tostrDataStmtSet, toks_append, fa, fb, g1, g2, toks_m2, toks_m3]
        simp [nb]

example : matchDataStmtSet echo "x(1), y / 3 * f(1, 'a/b'), 2 /".toList
    = some ⟨"x(1), y".toList, "3 * f(1, 'a/b'), 2".toList⟩ := by decide +kernel
example : (∀ r, tokenise "x(1), y / 3 * f(1, 'a/b'), 2 /".toList = some r →
      View "x(1), y / 3 * f(1, 'a/b'), 2 /".toList r) ∧
    (∀ r, tokenise "x(1), y / 3 * f(1, 'a/b'), 2 /".toList = some r → ew r.text '/' = true) :=
  ⟨view_of_srm _ (by decide +kernel) (by decide +kernel), by
    have : (tokenise "x(1), y / 3 * f(1, 'a/b'), 2 /".toList).map (fun r => ew r.text '/') = some true := by
      decide +kernel
    intro r hr; rw [hr] at this; simpa using this⟩

/-- the statement without `hne` is false: a single `/` serves as both delimiters, the printed
    text has two (reproduce: `Data_Stmt_Set.match("a /")` reaches `Data_Stmt_Value_List("")`,
    which fails in the real grammar — the opaque children hide that) -/
theorem dataStmtSet_single_slash :
    (matchDataStmtSet echo "a /".toList).map (fun n => toks (tostrDataStmtSet echo n))
      = some "a//".toList ∧ toks "a /".toList = "a/".toList := by decide +kernel

/-- an unterminated literal before the final `/`: the tokenised text still ends in `/` (the `/` is
    taken for the closing quote and put back), but the VALUE list handed on is `'x` -/
example : (tokenise "a / 'x y/".toList).map (fun r => (r.text, ew r.text '/'))
      = some ("a / '_F2PY_STRING_CONSTANT_1_/".toList, true) ∧
    matchDataStmtSet echo "a / 'x y/".toList = some ⟨"a".toList, "'x y".toList⟩ := by decide +kernel

/-! ## Entity_Decl / Component_Decl -/

theorem nameMatch_spec {s nm rest : Str} (h : nameMatch s = some (nm, rest)) : s = nm ++ rest := by
  cases s with
  | nil => simp [nameMatch] at h
  | cons c cs =>
    by_cases hc : isAlpha c = true
    · simp only [nameMatch, hc, if_true, Option.some.injEq, Prod.mk.injEq] at h
      obtain ⟨rfl, rfl⟩ := h
      simp [List.takeWhile_append_dropWhile]
    · simp [nameMatch, hc] at h

theorem piece_free {m : Map} {p : Str} (h : Piece m p) : Free (applyMap m p) := by
  obtain ⟨ts, h1, hw⟩ := h
  rw [← h1, applyMap_toks ts hw]
  exact hw.2

theorem lstrip_suffix (s : Str) : ∃ w, s = w ++ lstrip s := ⟨_, (List.takeWhile_append_dropWhile).symm⟩

theorem Free_lstrip {s : Str} (h : Free s) : Free (lstrip s) := by
  obtain ⟨w, hw⟩ := lstrip_suffix s
  rw [hw] at h
  exact Free_append_right _ _ h

theorem Free_rstrip {s : Str} (h : Free s) : Free (rstrip s) := by
  obtain ⟨w, hw, _⟩ := rstrip_decomp s
  rw [hw] at h
  exact Free_append_left _ _ h

theorem Free_strip {s : Str} (h : Free s) : Free (strip s) := Free_lstrip (Free_rstrip h)

theorem Free_drop {s : Str} (n : Nat) (h : Free s) : Free (s.drop n) := by
  rw [← List.take_append_drop n s] at h
  exact Free_append_right _ _ h

/-- cutting a piece in front of a separator character that stays with the right half -/
theorem nb_cut_right {m : Map} {a b : Str} {c : Char} (h : Piece m (a ++ c :: b)) (hw : isWord c = false) :
    Piece m a ∧ Piece m (c :: b) ∧ nb m (a ++ c :: b) = nb m a ++ nb m (c :: b) := by
  obtain ⟨pa, pb, e⟩ := h.cut (CutOK_right_nonword (b := c :: b) rfl hw)
  exact ⟨pa, pb, by unfold nb; rw [e, toks_append]⟩

/-- the `(`-block: `( array-spec ) rest` -/
theorem entityArrayPart_toks {nl t nl' : Str} (h : entityArrayPart nl = some (t, nl'))
    (hv : ∀ r, tokenise nl = some r → View nl r)
    (hh : ∀ r, tokenise nl = some r → sw r.text "(" = true) :
    toks nl = '(' :: toks t ++ ')' :: toks nl' ∧ Free nl' := by
  unfold entityArrayPart at h
  cases ht : tokenise nl with
  | none => simp [ht] at h
  | some r =>
    have v := hv r ht
    have hs := sw_spec (hh r ht)
    simp only [ht] at h
    cases h1 : cutFirst ')' r.text with
    | none => simp [h1] at h
    | some p1 =>
      obtain ⟨a, b⟩ := p1
      simp only [h1, Option.some.injEq, Prod.mk.injEq] at h
      obtain ⟨e1, _⟩ := cutFirst_spec _ _ _ h1
      cases a with
      | nil => rw [e1] at hs; simp at hs
      | cons c a' =>
        have hc : c = '(' := by rw [e1] at hs; simpa using hs
        subst hc
        simp only [List.drop_succ_cons, List.drop_zero] at h
        obtain ⟨rfl, rfl⟩ := h
        have hp : Piece r.map ('(' :: (a' ++ ')' :: b)) := by
          have := v.piece; rw [e1] at this; exact this
        obtain ⟨hp1, e2⟩ := nb_cons hp (by decide) (by decide)
        obtain ⟨pa, pb, e3⟩ := nb_sep hp1 (by decide) (by decide)
        have g1 := (nb_strip pa).2
        have g2 := (nb_lstrip pb).2
        refine ⟨?_, piece_free (nb_lstrip pb).1⟩
        have hwhole : toks nl = nb r.map r.text := v.whole.symm
        rw [hwhole, e1, List.cons_append, e2, e3]
        unfold nb at g1 g2 ⊢
        rw [g1, g2]
        rfl

/-- the `*`-block: `* char-length [= ...]` -/
theorem entityCharPart_toks {nl t nl' : Str} (h : entityCharPart nl = some (t, nl'))
    (hv : ∀ r, tokenise nl = some r → View nl r)
    (hh : ∀ r, tokenise nl = some r → sw r.text "*" = true)
    (hs : sw nl "*" = true) (hfree : Free nl) :
    toks nl = '*' :: toks t ++ toks nl' := by
  unfold entityCharPart at h
  cases ht : tokenise nl with
  | none => simp [ht] at h
  | some r =>
    have v := hv r ht
    have hs' := sw_spec (hh r ht)
    simp only [ht] at h
    cases h1 : cutFirst '=' r.text with
    | none =>
      simp only [h1, Option.some.injEq, Prod.mk.injEq] at h
      obtain ⟨rfl, rfl⟩ := h
      rw [applyMap_noF _ _ (Free_strip (Free_drop 1 hfree)), toks_strip]
      have e := sw_spec hs
      conv => lhs; rw [e]
      simp only [toks_nil, List.append_nil]
      exact toks_cons_nonspace _ (by decide)
    | some p1 =>
      obtain ⟨a, b⟩ := p1
      simp only [h1, Option.some.injEq, Prod.mk.injEq] at h
      obtain ⟨e1, _⟩ := cutFirst_spec _ _ _ h1
      cases a with
      | nil => rw [e1] at hs'; simp at hs'
      | cons c a' =>
        have hc : c = '*' := by rw [e1] at hs'; simpa using hs'
        subst hc
        simp only [List.drop_succ_cons, List.drop_zero] at h
        obtain ⟨rfl, rfl⟩ := h
        have hp : Piece r.map ('*' :: (a' ++ '=' :: b)) := by
          have := v.piece; rw [e1] at this; exact this
        obtain ⟨hp1, e2⟩ := nb_cons hp (by decide) (by decide)
        obtain ⟨pa, pb, e3⟩ := nb_cut_right hp1 (by decide)
        have g1 := (nb_strip pa).2
        have g2 := (nb_lstrip pb).2
        have hwhole : toks nl = nb r.map r.text := v.whole.symm
        rw [hwhole, e1, List.cons_append, e2, e3]
        unfold nb at g1 g2 ⊢
        rw [g1, g2]
        rfl

/-- the printed array-spec / char-length parts of `Entity_Decl.tostr` -/
def arrTxt (o : Leaves A) : Option A → Str
  | some a => '(' :: o.render a ++ [')']
  | none => []
def clTxt (o : Leaves A) : Option A → Str
  | some a => '*' :: o.render a
  | none => []

/-- the (up to two) texts that `Entity_Decl.match` hands to `string_replace_map`: what follows the
    name, and what follows the array-spec -/
def entityTokenised (s : Str) : List Str :=
  match nameMatch s with
  | none => []
  | some (_, rest) =>
    lstrip rest ::
      (if sw (lstrip rest) "(" then
        match entityArrayPart (lstrip rest) with
        | some (_, nl1) => [nl1]
        | none => []
      else [])

/-- **Entity_Decl / Component_Decl, tokens.**  Hypotheses beyond the view (`hv`, for the texts of
    `entityTokenised`, because up to two different texts are tokenised):
    * `hh` : a text starting with `(` (resp. `*`) is tokenised into one starting with `(` (resp.
      `*`): the Python slices `line[1:i]` trusting that `line[0]` is the character it saw in
      `newline`; not a consequence of `View` (which is modulo blanks and placeholder expansion);
    * `hfree` : no `F2PY` in the text: the branch `repmap(newline[1:].strip())` applies `repmap` to
      UN-mapped text, which is the identity on `F2PY`-free text (`applyMap_noF`). -/
theorem entityDecl_tokens_view (o : Leaves A) (hf : Faithful o) (nameC arrC initC : Cls) (s : Str)
    (n : EntityDecl A) (h : matchEntityLike o nameC arrC initC s = some n)
    (hv : ∀ t ∈ entityTokenised s, ∀ r, tokenise t = some r → View t r)
    (hh : ∀ t ∈ entityTokenised s, ∀ r, tokenise t = some r →
      (sw t "(" = true → sw r.text "(" = true) ∧ (sw t "*" = true → sw r.text "*" = true))
    (hfree : Free s) :
    toks (tostrEntityDecl o n) = toks s := by
  unfold matchEntityLike at h
  cases hn : nameMatch s with
  | none => simp [hn] at h
  | some p0 =>
    obtain ⟨nm, rest⟩ := p0
    simp only [hn] at h
    have es := nameMatch_spec hn
    cases hnm : o.leaf nameC nm with
    | none => simp [hnm] at h
    | some name =>
      simp only [hnm] at h
      have fn := hf _ _ _ hnm
      have hfr : Free (lstrip rest) := by
        rw [es] at hfree; exact Free_lstrip (Free_append_right _ _ hfree)
      have hs0 : toks s = toks nm ++ toks (lstrip rest) := by
        conv => lhs; rw [es]
        rw [toks_append, toks_lstrip]
      have m0 : lstrip rest ∈ entityTokenised s := by simp [entityTokenised, hn]
      have m1 : ∀ t nl', sw (lstrip rest) "(" = true → entityArrayPart (lstrip rest) = some (t, nl') →
          nl' ∈ entityTokenised s := by
        intro t nl' h1 h2
        simp [entityTokenised, hn, h1, h2]
      generalize lstrip rest = nl0 at h hfr hs0 m0 m1
      rw [hs0]
      split at h
      · rename_i he
        simp only [Option.some.injEq] at h
        subst h
        have : nl0 = [] := by simpa using he
        subst this
        simp [tostrEntityDecl, fn]
      split at h
      · exact absurd h (by simp)
      rename_i arr nl1 hst1
      -- the array-spec block
      have k1 : toks nl0 = toks (arrTxt o arr)
          ++ toks nl1 ∧ Free nl1 := by
        by_cases hp : sw nl0 "(" = true
        · simp only [hp, if_true] at hst1
          cases hap : entityArrayPart nl0 with
          | none => simp [hap] at hst1
          | some q =>
            obtain ⟨t, nl'⟩ := q
            simp only [hap] at hst1
            cases hl : o.leaf arrC t with
            | none => simp [hl] at hst1
            | some a =>
              simp only [hl, Option.map_some, Option.some.injEq, Prod.mk.injEq] at hst1
              obtain ⟨rfl, rfl⟩ := hst1
              obtain ⟨e, fr⟩ := entityArrayPart_toks hap (hv nl0 m0) (fun r hr => (hh nl0 m0 r hr).1 hp)
              refine ⟨?_, fr⟩
              have fa := hf _ _ _ hl
              rw [e]
              simp only [arrTxt, toks_cons_nonspace _ (show isSpace '(' = false by decide), toks_append,
                fa, toks_l3]
              simp
        · simp only [hp] at hst1
          simp only [Bool.false_eq_true, if_false, Option.some.injEq, Prod.mk.injEq] at hst1
          obtain ⟨rfl, rfl⟩ := hst1
          exact ⟨by simp [arrTxt], hfr⟩
      have m2 : nl1 ∈ entityTokenised s := by
        by_cases hp : sw nl0 "(" = true
        · simp only [hp, if_true] at hst1
          cases hap : entityArrayPart nl0 with
          | none => simp [hap] at hst1
          | some q =>
            obtain ⟨t, nl'⟩ := q
            simp only [hap] at hst1
            cases hl : o.leaf arrC t with
            | none => simp [hl] at hst1
            | some a =>
              simp only [hl, Option.map_some, Option.some.injEq, Prod.mk.injEq] at hst1
              obtain ⟨rfl, rfl⟩ := hst1
              exact m1 _ _ hp hap
        · simp only [hp] at hst1
          simp only [Bool.false_eq_true, if_false, Option.some.injEq, Prod.mk.injEq] at hst1
          obtain ⟨rfl, rfl⟩ := hst1
          exact m0
      split at h
      · exact absurd h (by simp)
      rename_i cl nl2 hst2
      -- the char-length block
      have k2 : toks nl1 = toks (clTxt o cl)
          ++ toks nl2 := by
        by_cases hp : sw nl1 "*" = true
        · simp only [hp, if_true] at hst2
          cases hcp : entityCharPart nl1 with
          | none => simp [hcp] at hst2
          | some q =>
            obtain ⟨t, nl'⟩ := q
            simp only [hcp] at hst2
            cases hl : o.leaf .charLength t with
            | none => simp [hl] at hst2
            | some a =>
              simp only [hl, Option.map_some, Option.some.injEq, Prod.mk.injEq] at hst2
              obtain ⟨rfl, rfl⟩ := hst2
              have e := entityCharPart_toks hcp (hv nl1 m2) (fun r hr => (hh nl1 m2 r hr).2 hp) hp k1.2
              have fa := hf _ _ _ hl
              rw [e]
              simp only [clTxt, toks_cons_nonspace _ (show isSpace '*' = false by decide), fa]
        · simp only [hp] at hst2
          simp only [Bool.false_eq_true, if_false, Option.some.injEq, Prod.mk.injEq] at hst2
          obtain ⟨rfl, rfl⟩ := hst2
          simp [clTxt]
      rw [k1.1, k2]
      split at h
      · cases hi : o.leaf initC nl2 with
        | none => simp [hi] at h
        | some i =>
          simp only [hi, Option.map_some, Option.some.injEq] at h
          subst h
          have fi := hf _ _ _ hi
          cases arr <;> cases cl <;>
            simp [tostrEntityDecl, arrTxt, clTxt, toks_append, fn, toks_c1, toks_c2, toks_c3, toks_c4, fi]
      · split at h
        · exact absurd h (by simp)
        rename_i he
        have : nl2 = [] := by simpa using he
        subst this
        simp only [Option.some.injEq] at h
        subst h
        cases arr <;> cases cl <;>
          simp [tostrEntityDecl, arrTxt, clTxt, toks_append, fn, toks_c1, toks_c2, toks_c3]

/-- decidable form of the hypothesis `hh` for one text -/
def headKept (t : Str) : Bool :=
  match tokenise t with
  | none => true
  | some r => (!sw t "(" || sw r.text "(") && (!sw t "*" || sw r.text "*")

theorem headKept_spec {t : Str} (h : headKept t = true) : ∀ r, tokenise t = some r →
    (sw t "(" = true → sw r.text "(" = true) ∧ (sw t "*" = true → sw r.text "*" = true) := by
  intro r hr
  simp only [headKept, hr, Bool.and_eq_true, Bool.or_eq_true, Bool.not_eq_true'] at h
  refine ⟨fun h1 => ?_, fun h2 => ?_⟩
  · rcases h.1 with h' | h'
    · rw [h1] at h'; cases h'
    · exact h'
  · rcases h.2 with h' | h'
    · rw [h2] at h'; cases h'
    · exact h'

example : matchEntityDecl echo "x(2, f('a)b')) * (len('u=v')) = g(1, 'c=d')".toList
    = some ⟨"x".toList, some "2, f('a)b')".toList, some "(len('u=v'))".toList,
        some "= g(1, 'c=d')".toList⟩ := by decide +kernel
/-- the `repmap(newline[1:].strip())` branch (no `=`) -/
example : matchComponentDecl echo "x(2, f('a)b')) * (len('u v'))".toList
    = some ⟨"x".toList, some "2, f('a)b')".toList, some "(len('u v'))".toList, none⟩ := by
  decide +kernel
example :
    (∀ t ∈ entityTokenised "x(2, f('a)b')) * (len('u=v')) = g(1, 'c=d')".toList,
      ∀ r, tokenise t = some r → View t r) ∧
    (∀ t ∈ entityTokenised "x(2, f('a)b')) * (len('u=v')) = g(1, 'c=d')".toList,
      ∀ r, tokenise t = some r →
        (sw t "(" = true → sw r.text "(" = true) ∧ (sw t "*" = true → sw r.text "*" = true)) ∧
    Free "x(2, f('a)b')) * (len('u=v')) = g(1, 'c=d')".toList := by
  have e : entityTokenised "x(2, f('a)b')) * (len('u=v')) = g(1, 'c=d')".toList
      = ["(2, f('a)b')) * (len('u=v')) = g(1, 'c=d')".toList, "* (len('u=v')) = g(1, 'c=d')".toList] := by
    decide +kernel
  rw [e]
  refine ⟨?_, ?_, by decide +kernel⟩
  · intro t ht
    simp only [List.mem_cons, List.not_mem_nil, or_false] at ht
    rcases ht with rfl | rfl
    · exact view_of_srm _ (by decide +kernel) (by decide +kernel)
    · exact view_of_srm _ (by decide +kernel) (by decide +kernel)
  · intro t ht
    simp only [List.mem_cons, List.not_mem_nil, or_false] at ht
    rcases ht with rfl | rfl
    · exact headKept_spec (by decide +kernel)
    · exact headKept_spec (by decide +kernel)

/-! ## Dimension_Stmt -/

theorem toks_commaJoin : ∀ xs : List Str, toks (commaJoin xs) = joinStr [','] (xs.map toks)
  | [] => rfl
  | [a] => by simp [commaJoin, joinStr]
  | a :: b :: rest => by
    have ih := toks_commaJoin (b :: rest)
    simp only [commaJoin, joinStr, List.map_cons, toks_append] at ih ⊢
    rw [ih, toks_l1]

/-- one `array-name ( array-spec )` -/
theorem dimensionDecl_toks {m : Map} {p ta tb : Str} (hp : Piece m p)
    (h : dimensionDecl m p = some (ta, tb)) : nb m p = toks ta ++ '(' :: toks tb ++ [')'] := by
  unfold dimensionDecl at h
  simp only at h
  split at h
  · exact absurd h (by simp)
  rename_i hw
  have hw' : ew (strip p) ')' = true := by simpa using hw
  cases h1 : cutFirst '(' (strip p) with
  | none => simp [h1] at h
  | some q =>
    obtain ⟨a, b⟩ := q
    simp only [h1, Option.some.injEq, Prod.mk.injEq] at h
    obtain ⟨rfl, rfl⟩ := h
    obtain ⟨e1, _⟩ := cutFirst_spec _ _ _ h1
    have hb : b = b.dropLast ++ [')'] := by
      cases b with
      | nil =>
        exfalso
        rw [e1] at hw'
        simp [ew] at hw'
      | cons c b' =>
        have : ew (c :: b') ')' = true := by
          rw [e1] at hw'
          unfold ew at hw' ⊢
          simpa [List.getLast?_append, List.getLast?_cons_cons] using hw'
        exact ew_spec this
    obtain ⟨ps, es⟩ := nb_strip hp
    rw [← es, e1]
    rw [e1] at ps
    obtain ⟨pa, pb, e2⟩ := nb_sep ps (by decide) (by decide)
    rw [e2]
    rw [hb] at pb
    obtain ⟨pb', e3⟩ := nb_snoc pb (by decide) (by decide)
    conv => lhs; rw [hb, e3]
    have g1 := (nb_rstrip pa).2
    have g2 := (nb_strip pb').2
    unfold nb at g1 g2 ⊢
    rw [g1, g2]
    simp

theorem dimension_list (o : Leaves A) (hf : Faithful o) {m : Map} :
    ∀ (ps : List Str) (ds : List (Str × Str)) (items : List (A × A)),
      dimensionDecls m ps = some ds → leafPairs o .arrayName .arraySpec ds = some items →
      (∀ p ∈ ps, Piece m p) →
      ps.map (nb m) = items.map (fun p => toks (o.render p.1 ++ '(' :: o.render p.2 ++ [')']))
  | [], ds, items, h1, h2, _ => by
    simp only [dimensionDecls, Option.some.injEq] at h1
    subst h1
    simp only [leafPairs, Option.some.injEq] at h2
    subst h2
    rfl
  | p :: ps, ds, items, h1, h2, hp => by
    unfold dimensionDecls at h1
    cases hd : dimensionDecl m p with
    | none => simp [hd] at h1
    | some d =>
      obtain ⟨ta, tb⟩ := d
      simp only [hd] at h1
      cases hr : dimensionDecls m ps with
      | none => simp [hr] at h1
      | some ds' =>
        simp only [hr, Option.some.injEq] at h1
        subst h1
        unfold leafPairs at h2
        cases ha : o.leaf .arrayName ta with
        | none => simp [ha] at h2
        | some x =>
        cases hb : o.leaf .arraySpec tb with
        | none => simp [ha, hb] at h2
        | some y =>
        cases hl : leafPairs o .arrayName .arraySpec ds' with
        | none => simp [ha, hb, hl] at h2
        | some r =>
          simp only [ha, hb, hl, Option.some.injEq] at h2
          subst h2
          have ih := dimension_list o hf ps ds' r hr hl (fun q hq => hp q (by simp [hq]))
          have e := dimensionDecl_toks (hp p (by simp)) hd
          have fa := hf _ _ _ ha
          have fb := hf _ _ _ hb
          simp only [List.map_cons, ih, e, toks_append, toks_c1, fa, fb, toks_l3]

theorem toks_m5 : toks "DIMENSION :: ".toList = "DIMENSION::".toList := by decide

/-- **Dimension_Stmt, tokens.**  The keyword may be in any case, the `::` is optional in the input
    and always printed; everything after it is kept. -/
theorem dimensionStmt_tokens_view (o : Leaves A) (hf : Faithful o) (s : Str) (n : List (A × A))
    (h : matchDimensionStmt o s = some n)
    (hv : ∀ r, tokenise (lstrip (s.drop 9)) = some r → View (lstrip (s.drop 9)) r) :
    ∃ k x, upper k = "DIMENSION".toList ∧
      (toks s = k ++ x ∨ toks s = k ++ "::".toList ++ x) ∧
      toks (tostrDimensionStmt o n) = "DIMENSION::".toList ++ x := by
  unfold matchDimensionStmt at h
  cases hd : dimensionTexts s with
  | none => simp [hd] at h
  | some ds =>
    simp only [hd] at h
    unfold dimensionTexts at hd
    split at hd
    · exact absurd hd (by simp)
    rename_i hk
    have hk' : kwAt "DIMENSION" s = true := by simpa using hk
    obtain ⟨es, eu⟩ := kwAt_spec hk' 9 (by decide)
    have ek := kwAt_toks hk' 9 (by decide) (by decide)
    cases ht : tokenise (lstrip (s.drop 9)) with
    | none => simp [ht] at hd
    | some r =>
      have v := hv r ht
      simp only [ht] at hd
      have hs0 : toks s = s.take 9 ++ nb r.map r.text := by
        conv => lhs; rw [es]
        rw [toks_append, ek, ← toks_lstrip (s.drop 9)]
        congr 1
        exact v.whole.symm
      -- the text after the optional `::`
      have key : ∀ line, Piece r.map line → dimensionDecls r.map (splitGo [','] 0 line) = some ds →
          toks (tostrDimensionStmt o n) = "DIMENSION::".toList ++ nb r.map line := by
        intro line pl hdd
        have hj : joinStr [','] (splitGo [','] 0 line) = line := by
          simpa using joinStr_splitGo [','] (by simp) line 0
        obtain ⟨px, ex⟩ := nb_split_comma _ _ pl hj (splitGo_ne_nil _ _ _)
        have := dimension_list o hf _ _ _ hdd h px
        rw [ex, this]
        unfold tostrDimensionStmt
        rw [toks_append, toks_m5, toks_commaJoin, List.map_map]
        rfl
      refine ⟨s.take 9, ?_⟩
      by_cases hc : sw r.text "::" = true
      · simp only [hc, if_true] at hd
        have e := sw_spec hc
        have hp : Piece r.map (':' :: ':' :: r.text.drop 2) := by
          have := v.piece; rw [e] at this; exact this
        obtain ⟨p1, e1⟩ := nb_cons hp (by decide) (by decide)
        obtain ⟨p2, e2⟩ := nb_cons p1 (by decide) (by decide)
        obtain ⟨p3, e3⟩ := nb_lstrip p2
        refine ⟨nb r.map (lstrip (r.text.drop 2)), eu, .inr ?_, key _ p3 hd⟩
        rw [hs0, e3, List.append_assoc]
        congr 1
        conv => lhs; rw [e]
        exact e1.trans (by rw [e2]; rfl)
      · simp only [hc] at hd
        exact ⟨nb r.map r.text, eu, .inl hs0, key _ v.piece hd⟩

example : matchDimensionStmt echo "Dimension :: a(n, f('x,y')), b ( 3 )".toList
    = some [("a".toList, "n, f('x,y')".toList), ("b".toList, "3".toList)] := by decide +kernel
example : ∀ r, tokenise (lstrip ("Dimension :: a(n, f('x,y')), b ( 3 )".toList.drop 9)) = some r →
    View (lstrip ("Dimension :: a(n, f('x,y')), b ( 3 )".toList.drop 9)) r :=
  view_of_srm _ (by decide +kernel) (by decide +kernel)

/-! ## Equivalence_Set -/

theorem leafAll_toks (o : Leaves A) (hf : Faithful o) (c : Cls) :
    ∀ (ts : List Str) (as : List A), leafAll o c ts = some as →
      as.map (fun a => toks (o.render a)) = ts.map toks
  | [], as, h => by
    simp only [leafAll, Option.some.injEq] at h
    subst h; rfl
  | t :: ts, as, h => by
    unfold leafAll at h
    cases ha : o.leaf c t with
    | none => simp [ha] at h
    | some a =>
      cases hr : leafAll o c ts with
      | none => simp [ha, hr] at h
      | some as' =>
        simp only [ha, hr, Option.some.injEq] at h
        subst h
        simp only [List.map_cons, hf _ _ _ ha, leafAll_toks o hf c ts as' hr]

theorem map_nb_strip {m : Map} : ∀ (ps : List Str), (∀ p ∈ ps, Piece m p) →
    (ps.map fun e => applyMap m (strip e)).map toks = ps.map (nb m)
  | [], _ => rfl
  | p :: ps, h => by
    have g := (nb_strip (h p (by simp))).2
    unfold nb at g
    simp only [List.map_cons, g, map_nb_strip ps (fun q hq => h q (by simp [hq]))]
    rfl

/-- **Equivalence_Set, tokens** -/
theorem equivalenceSet_tokens_view (o : Leaves A) (hf : Faithful o) (s : Str) (n : EquivSet A)
    (h : matchEquivalenceSet o s = some n)
    (hv : ∀ r, tokenise (strip (interior s)) = some r → View (strip (interior s)) r) :
    toks (tostrEquivalenceSet o n) = toks s := by
  unfold matchEquivalenceSet at h
  split at h
  · exact absurd h (by simp)
  rename_i hw
  have hw' : wrapped s = true := by
    cases h1 : wrapped s <;> simp [h1] at hw ⊢
  have hs := wrapped_spec hw'
  simp only at h
  split at h
  · exact absurd h (by simp)
  cases ht : tokenise (strip (interior s)) with
  | none => simp [ht] at h
  | some r =>
    have v := hv r ht
    simp only [ht] at h
    have hwhole : toks s = '(' :: (nb r.map r.text ++ [')']) := by
      have e0 : nb r.map r.text = toks (interior s) := by
        rw [show nb r.map r.text = toks (strip (interior s)) from v.whole, toks_strip]
      rw [e0]
      conv => lhs; rw [hs]
      rw [toks_c1, toks_append]
      rfl
    have hj : joinStr [','] (splitGo [','] 0 r.text) = r.text := by
      simpa using joinStr_splitGo [','] (by simp) r.text 0
    obtain ⟨px, ex⟩ := nb_split_comma _ _ v.piece hj (splitGo_ne_nil _ _ _)
    cases hl : leafAll o .equivalenceObject
        ((splitGo [','] 0 r.text).map fun e => applyMap r.map (strip e)) with
    | none => simp [hl] at h
    | some as =>
      have e1 := leafAll_toks o hf _ _ _ hl
      rw [map_nb_strip _ px] at e1
      rw [hwhole, ex, ← e1]
      simp only [hl] at h
      cases as with
      | nil => simp at h
      | cons a as' =>
      cases as' with
      | nil => simp at h
      | cons b rest =>
        simp only [Option.some.injEq] at h
        subst h
        unfold tostrEquivalenceSet
        rw [toks_append, toks_append, toks_append, toks_c1, toks_m4, toks_commaJoin, List.map_map]
        simp only [List.map_cons, joinStr, toks_l3, List.append_assoc, List.cons_append]
        rfl

example : matchEquivalenceSet echo "( a(1, 2), b, c('x,y') )".toList
    = some ⟨"a(1, 2)".toList, ["b".toList, "c('x,y')".toList]⟩ := by decide +kernel
example : ∀ r, tokenise (strip (interior "( a(1, 2), b, c('x,y') )".toList)) = some r →
    View (strip (interior "( a(1, 2), b, c('x,y') )".toList)) r :=
  view_of_srm _ (by decide +kernel) (by decide +kernel)

/-! ## Data_Stmt -/

/-- the further sets: in order, each optionally preceded by a comma -/
inductive DataRest : Str → List Str → Prop
  | nil : DataRest [] []
  | plain {x t : Str} {sets : List Str} : DataRest t sets → DataRest (x ++ t) (x :: sets)
  | comma {x t : Str} {sets : List Str} : DataRest t sets → DataRest (',' :: x ++ t) (x :: sets)

/-- `DataRel t sets`: `t` is the concatenation of the sets in order, each but the first optionally
    preceded by a comma -/
inductive DataRel : Str → List Str → Prop
  | first {x t : Str} {sets : List Str} : DataRest t sets → DataRel (x ++ t) (x :: sets)

/-- cutting a piece behind a separator character that stays with the left half -/
theorem nb_cut_left {m : Map} {a b : Str} {c : Char} (h : Piece m (a ++ b)) (hl : a.getLast? = some c)
    (hw : isWord c = false) : Piece m a ∧ Piece m b ∧ nb m (a ++ b) = nb m a ++ nb m b := by
  obtain ⟨pa, pb, e⟩ := h.cut (CutOK_left_nonword hl hw)
  exact ⟨pa, pb, by unfold nb; rw [e, toks_append]⟩

theorem getLast?_snoc (a : Str) (c : Char) : (a ++ [c]).getLast? = some c := by
  induction a with
  | nil => rfl
  | cons x a ih =>
    cases a with
    | nil => rfl
    | cons y a' => simpa [List.getLast?_cons_cons] using ih

/-- one `objects / values /` cut off the front of a piece -/
theorem dataSet_cut {m : Map} {line a r1 b r2 : Str} (hp : Piece m line)
    (h1 : cutFirst '/' line = some (a, r1)) (h2 : cutFirst '/' r1 = some (b, r2)) :
    Piece m (lstrip r2) ∧
      nb m line = toks (applyMap m (a ++ '/' :: b ++ ['/'])) ++ nb m (lstrip r2) ∧
      r2.length < line.length := by
  obtain ⟨e1, _⟩ := cutFirst_spec _ _ _ h1
  obtain ⟨e2, _⟩ := cutFirst_spec _ _ _ h2
  have e : line = (a ++ '/' :: b ++ ['/']) ++ r2 := by rw [e1, e2]; simp
  rw [e] at hp
  obtain ⟨_, p2, e3⟩ := nb_cut_left hp (c := '/') (by simpa using getLast?_snoc (a ++ '/' :: b) '/') (by decide)
  obtain ⟨p3, e4⟩ := nb_lstrip p2
  refine ⟨p3, ?_, ?_⟩
  · conv => lhs; rw [e]
    rw [e3, e4]; rfl
  · rw [e]; simp; omega

theorem dataMoreSets_rel {m : Map} : ∀ (fuel : Nat) (line : Str) (ts : List Str),
    dataMoreSets m fuel line = some ts → Piece m line → DataRest (nb m line) (ts.map toks)
  | 0, _, _, h, _ => by simp [dataMoreSets] at h
  | fuel + 1, line, ts, h, hp => by
    unfold dataMoreSets at h
    split at h
    · rename_i he
      have : line = [] := by simpa using he
      subst this
      simp only [Option.some.injEq] at h
      subst h
      rw [nb_nil]
      exact .nil
    simp only at h
    -- the optional comma
    have hc : ∀ line', Piece m line' →
        (match cutFirst '/' line' with
          | none => none
          | some (a, r1) =>
            match cutFirst '/' r1 with
            | none => none
            | some (b, r2) =>
              match dataMoreSets m fuel (lstrip r2) with
              | none => none
              | some ts => some (applyMap m (a ++ '/' :: b ++ ['/']) :: ts)) = some ts →
        ∃ x rest, ts.map toks = x :: rest ∧ ∃ t, nb m line' = x ++ t ∧ DataRest t rest := by
      intro line' hp' h'
      cases h1 : cutFirst '/' line' with
      | none => simp [h1] at h'
      | some q1 =>
        obtain ⟨a, r1⟩ := q1
        simp only [h1] at h'
        cases h2 : cutFirst '/' r1 with
        | none => simp [h2] at h'
        | some q2 =>
          obtain ⟨b, r2⟩ := q2
          simp only [h2] at h'
          cases h3 : dataMoreSets m fuel (lstrip r2) with
          | none => simp [h3] at h'
          | some ts' =>
            simp only [h3, Option.some.injEq] at h'
            subst h'
            obtain ⟨p3, e, _⟩ := dataSet_cut hp' h1 h2
            exact ⟨_, _, rfl, _, e, dataMoreSets_rel fuel _ _ h3 p3⟩
    by_cases hcm : sw line "," = true
    · simp only [hcm, if_true] at h
      have e := sw_spec hcm
      have hp0 : Piece m (',' :: line.drop 1) := by rw [e] at hp; exact hp
      obtain ⟨p1, e1⟩ := nb_cons hp0 (by decide) (by decide)
      obtain ⟨p2, e2⟩ := nb_lstrip p1
      obtain ⟨x, rest, ex, t, et, hr⟩ := hc _ p2 h
      rw [ex]
      have : nb m line = ',' :: x ++ t := by
        conv => lhs; rw [e]
        exact e1.trans (by rw [← e2, et]; rfl)
      rw [this]
      exact .comma hr
    · simp only [hcm] at h
      obtain ⟨x, rest, ex, t, et, hr⟩ := hc _ hp h
      rw [ex, et]
      exact .plain hr

theorem toks_m6 : toks "DATA ".toList = "DATA".toList := by decide

/-- **Data_Stmt, tokens.**  The printed text is `DATA` and the sets joined by `,`; the input may
    omit these commas. -/
theorem dataStmt_tokens_view (o : Leaves A) (hf : Faithful o) (s : Str) (n : List A)
    (h : matchDataStmt o s = some n)
    (hv : ∀ r, tokenise (lstrip (s.drop 4)) = some r → View (lstrip (s.drop 4)) r) :
    ∃ k x, upper k = "DATA".toList ∧ toks s = k ++ x ∧
      ∃ sets : List Str, toks (tostrDataStmt o n) = "DATA".toList ++ joinStr [','] sets ∧
        DataRel x sets := by
  unfold matchDataStmt at h
  cases hd : dataSetTexts s with
  | none => simp [hd] at h
  | some ts =>
    simp only [hd] at h
    unfold dataSetTexts at hd
    split at hd
    · exact absurd hd (by simp)
    rename_i hk
    have hk' : kwAt "DATA" s = true := by simpa using hk
    obtain ⟨es, eu⟩ := kwAt_spec hk' 4 (by decide)
    have ek := kwAt_toks hk' 4 (by decide) (by decide)
    cases ht : tokenise (lstrip (s.drop 4)) with
    | none => simp [ht] at hd
    | some r =>
      have v := hv r ht
      simp only [ht] at hd
      have hs0 : toks s = s.take 4 ++ nb r.map r.text := by
        conv => lhs; rw [es]
        rw [toks_append, ek, ← toks_lstrip (s.drop 4)]
        congr 1
        exact v.whole.symm
      cases h1 : cutFirst '/' r.text with
      | none => simp [h1] at hd
      | some q1 =>
        obtain ⟨a, r1⟩ := q1
        simp only [h1] at hd
        cases h2 : cutFirst '/' r1 with
        | none => simp [h2] at hd
        | some q2 =>
          obtain ⟨b, r2⟩ := q2
          simp only [h2] at hd
          cases h3 : dataMoreSets r.map (r2.length + 1) (lstrip r2) with
          | none => simp [h3] at hd
          | some ts' =>
            simp only [h3, Option.some.injEq] at hd
            subst hd
            obtain ⟨p3, e, _⟩ := dataSet_cut v.piece h1 h2
            have hr := dataMoreSets_rel _ _ _ h3 p3
            have e1 := leafAll_toks o hf _ _ _ h
            refine ⟨s.take 4, nb r.map r.text, eu, hs0,
              (applyMap r.map (a ++ '/' :: b ++ ['/']) :: ts').map toks, ?_, ?_⟩
            · unfold tostrDataStmt
              rw [toks_append, toks_m6, toks_commaJoin, List.map_map]
              exact congrArg (fun l => "DATA".toList ++ joinStr [','] l) e1
            · rw [e]
              exact .first hr

example : matchDataStmt echo "data a, b / 1, f(2, 'x/y') /, c / 3*0 / d(1) / 4 /".toList
    = some ["a, b / 1, f(2, 'x/y') /".toList, "c / 3*0 /".toList, "d(1) / 4 /".toList] := by
  decide +kernel
example : ∀ r, tokenise (lstrip ("data a, b / 1, f(2, 'x/y') /, c / 3*0 / d(1) / 4 /".toList.drop 4))
      = some r →
    View (lstrip ("data a, b / 1, f(2, 'x/y') /, c / 3*0 / d(1) / 4 /".toList.drop 4)) r :=
  view_of_srm _ (by decide +kernel) (by decide +kernel)

end Fp.Decl
