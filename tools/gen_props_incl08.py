"""writes FparserModel/Props/Incl08.lean and theorems/Incl08.json from one table
   python gen_props_incl08.py <lean dir>"""
import json
import os
import sys

SIM = "{N N' : Type} {f : N → N'} {o : Oracle N} {o' : Oracle N'}"
T = []


def thm(name, binders, stmt, proof, strength, note, serves=("C17",)):
    T.append(dict(name=name, binders=binders, stmt=stmt, proof=proof, strength=strength, note=note, serves=list(serves)))


thm("plan_incl", SIM + " (h : Sim id f o o') (p : Res (List Slot)) (items : List (Item N)) (hm : p.bind (runSlots o) = .ok items)",
    "p.bind (runSlots o') = .ok (items.map (Item.map f))", "plan_sim_id h p items hm", "full",
    "EVERY rule whose match is a plan (child calls that do not depend on the answers) run through runSlots and whose model "
    "has no standard parameter: the overrides that only redirect a hook to the same-named 2008 class (Allocate_Stmt, "
    "Label_Do_Stmt, Nonlabel_Do_Stmt, Type_Declaration_Stmt, Data_Component_Def_Stmt, the exec-generated *_List classes): "
    "accepted under the 2003 children ⇒ accepted under any 2008 children that extend them, same tuple up to f")
thm("plan_incl_renamed", "{N N' : Type} {ρ : ClassId → ClassId} {f : N → N'} {o : Oracle N} {o' : Oracle N'} (h : Sim ρ f o o') (p : Res (List Slot)) (items : List (Item N)) (hm : p.bind (runSlots o) = .ok items)",
    "(p.map (List.map (Slot.ren ρ))).bind (runSlots o') = .ok (items.map (Item.map f))", "plan_sim h p items hm", "full",
    "the same with child classes renamed by ρ (Action_Stmt_C802 ↦ Action_Stmt_C828)")
thm("text_incl", "{N N' : Type} {ρ : ClassId → ClassId} {f : N → N'} {o : Oracle N} {o' : Oracle N'} (h : Sim ρ f o o') (i : Item N)",
    "(Item.map f i).text o' = i.text o", "text_sim h i", "full", "an item of the 2008 tuple prints like the item of the 2003 tuple")
thm("Connect_Spec_incl", SIM + " (h : Sim id f o o') (s : Str) (items : List (Item N)) (hm : matchConnectSpec .f2003 o s = .ok items)",
    "matchConnectSpec .f2008 o' s = .ok (items.map (Item.map f)) ∧ kvStr o' (items.map (Item.map f)) = kvStr o items",
    "Fp.Incl08.Connect_Spec_incl h s items hm", "full",
    "uses that the keywords of the table are pairwise distinct: a 2008 child that accepts MORE cannot steal the text for an earlier row")
thm("Connect_Spec_only08", "{N : Type} (o : Oracle N) (s : Str) (items : List (Item N))",
    "(matchConnectSpec .f2008 o s = .ok items ∧ matchConnectSpec .f2003 o s = .noMatch) ↔ (s.contains '=' = true ∧ kvTable o true (connectTable .f2003) s = none ∧ ∃ sl, kvOne \"NEWUNIT\".toList C.File_Unit_Number s = some sl ∧ runSlots o sl = .ok items)",
    "Fp.Incl08.Connect_Spec_only08 o s items", "full", "EXACTLY what the 2008 Connect_Spec accepts in addition: the NEWUNIT row, after every 2003 row ran out")
thm("Connect_Spec_only08_shape", "{N : Type} (o : Oracle N) (s : Str) (items : List (Item N)) (h : matchConnectSpec .f2008 o s = .ok items ∧ matchConnectSpec .f2003 o s = .noMatch)",
    "∃ p, Combi.cutFirst '=' s = some p ∧ upper (strip p.1) = \"NEWUNIT\".toList", "Fp.Incl08.Connect_Spec_only08_shape o s items h", "full",
    "… i.e. the text before the first `=` is NEWUNIT (any case, blanks around)")
thm("Alloc_Opt_incl", SIM + " (h : Sim id f o o') (s : Str) (items : List (Item N)) (hm : matchAllocOpt .f2003 o s = .ok items)",
    "matchAllocOpt .f2008 o' s = .ok (items.map (Item.map f)) ∧ kvStr o' (items.map (Item.map f)) = kvStr o items",
    "Fp.Incl08.Alloc_Opt_incl h s items hm", "full", "")
thm("Alloc_Opt_only08", "{N : Type} (o : Oracle N) (s : Str) (items : List (Item N))",
    "(matchAllocOpt .f2008 o s = .ok items ∧ matchAllocOpt .f2003 o s = .noMatch) ↔ (kvTable o false (allocOptTable .f2003) s = none ∧ ∃ sl, kvOne \"MOLD\".toList C.Source_Expr s = some sl ∧ runSlots o sl = .ok items)",
    "Fp.Incl08.Alloc_Opt_only08 o s items", "full", "EXACTLY the MOLD= row")
thm("Alloc_Opt_only08_shape", "{N : Type} (o : Oracle N) (s : Str) (items : List (Item N)) (h : matchAllocOpt .f2008 o s = .ok items ∧ matchAllocOpt .f2003 o s = .noMatch)",
    "∃ p, Combi.cutFirst '=' s = some p ∧ upper (strip p.1) = \"MOLD\".toList", "Fp.Incl08.Alloc_Opt_only08_shape o s items h", "full", "")
thm("keyword_tables_extend", "",
    "connectTable .f2008 = connectTable .f2003 ++ [(\"NEWUNIT\".toList, C.File_Unit_Number)] ∧ allocOptTable .f2008 = allocOptTable .f2003 ++ [(\"MOLD\".toList, C.Source_Expr)] ∧ ((connectTable .f2008).map (·.1)).Nodup ∧ ((allocOptTable .f2008).map (·.1)).Nodup",
    "⟨connectTable_ext, allocOptTable_ext, connect08_nodup, allocOpt08_nodup⟩", "full",
    "the model tables (pinned to the live ones by IoStmtTables.table_* and Incl08Tables.kw_*_model): 2008 = 2003 + one row, value classes unchanged, keywords distinct")
thm("Open_Stmt_incl_partial", SIM + " (h : Sim id f o o') (s : Str) (items : List (Item N)) (hm : matchOpen .f2003 o s = .ok items) (hc : OpenOK o items = true)",
    "matchOpen .f2008 o' s = .ok (items.map (Item.map f)) ∧ combiStr o' specOpen (items.map (Item.map f)) = combiStr o specOpen items",
    "Fp.Incl08.Open_Stmt_incl_partial h s items hm hc", "partial",
    "FULL STATEMENT FALSE (Open_Stmt_incl_fails): the 2008 override ADDS the constraints C903/C904/C906 (keywords pairwise distinct, UNIT or NEWUNIT present, not both); hypothesis OpenOK = exactly those checks on the matched list (decidable)")
thm("Open_Stmt_incl_fails", "",
    "matchOpen .f2003 toy \"open(file='x')\".toList = .ok [.str \"OPEN\".toList, .node \"file='x'\".toList] ∧ matchOpen .f2008 toy \"open(file='x')\".toList = .noMatch ∧ matchOpen .f2003 toy \"open(10, err=1, err=2)\".toList = .ok [.str \"OPEN\".toList, .node \"10, err=1, err=2\".toList] ∧ matchOpen .f2008 toy \"open(10, err=1, err=2)\".toList = .noMatch",
    "Fp.Incl08.Open_Stmt_incl_fails", "witness",
    "DEFECT C17 (replayed on /repo: `open(file='x')`, `open(10, unit=10)`, `open(10, err=1, err=2)` parse under f2003, FortranSyntaxError under f2008)")
thm("Open_Stmt_no_addition", "{N : Type} (o : Oracle N) (s : Str) (items : List (Item N)) (hm : matchOpen .f2008 o s = .ok items)",
    "matchOpen .f2003 o s = .ok items", "Fp.Incl08.Open_Stmt_no_addition o s items hm", "full",
    "the 2008 Open_Stmt accepts NOTHING in addition at its own level (NEWUNIT= comes in through Connect_Spec)")
thm("Format_Item_incl", SIM + " (h : Sim id f o o') (s : Str) (items : List (Item N)) (hm : matchFormatItem .f2003 o s = .ok items)",
    "matchFormatItem .f2008 o' s = .ok (items.map (Item.map f)) ∧ tostrFormatItem o' (items.map (Item.map f)) = tostrFormatItem o items",
    "⟨Fp.Incl08.Format_Item_incl h s items hm, tostrFormatItem_sim h items⟩", "full", "the 2003 matcher is tried first inside try/except")
thm("Format_Item_only08", "{N : Type} (o : Oracle N) (s : Str) (items : List (Item N))",
    "(matchFormatItem .f2008 o s = .ok items ∧ matchFormatItem .f2003 o s = .noMatch) ↔ (s.isEmpty = false ∧ (planFormatItem s).bind (runSlots o) = .noMatch ∧ (planFormatItemStar s).bind (runSlots o) = .ok items)",
    "Fp.Incl08.Format_Item_only08 o s items", "full", "EXACTLY the unlimited repeat")
thm("Format_Item_only08_shape", "{N : Type} (o : Oracle N) (s : Str) (items : List (Item N)) (h : (planFormatItemStar s).bind (runSlots o) = .ok items)",
    "isStarItem s = true ∧ ∃ n, items = [.str \"*\".toList, .node n]", "Fp.Incl08.Format_Item_only08_shape o s items h", "full", "`*( … )`")
thm("If_Stmt_incl", "{N N' : Type} {f : N → N'} {o : Oracle N} {o' : Oracle N'} (h : Sim renIf f o o') (s : Str) (items : List (Item N)) (hm : (planIf .f2003 s).bind (runSlots o) = .ok items)",
    "(planIf .f2008 s).bind (runSlots o') = .ok (items.map (Item.map f)) ∧ tostrIf o' (items.map (Item.map f)) = tostrIf o items",
    "Fp.Incl08.If_Stmt_incl h s items hm", "full",
    "the child class is renamed (Action_Stmt_C802 ↦ Action_Stmt_C828: Sim renIf); the real alternative list of C828 extends the one of C802 (Incl08Tables.alts_Action_Stmt_C802)")
thm("If_Stmt_only08", "(s : Str)", "planIf .f2008 s = (planIf .f2003 s).map (List.map (Slot.ren renIf))", "planIf_ren s", "full",
    "the 2008 If_Stmt accepts nothing in addition at its own level: same plan, renamed action-statement class (ERROR STOP comes in through Action_Stmt_C828)")
thm("Loop_Control_incl", SIM + " (h : Sim id f o o') (s : Str) (items : List (Item N)) (t : Str) (hm : ((planLoopControl .f2003 s).bind (runSlots o)).map (groupLoop (loopTail .f2003)) = .ok items) (ht : tostrLoopControl .f2003 o items = .ok t)",
    "∃ items', ((planLoopControl .f2008 s).bind (runSlots o')).map (groupLoop (loopTail .f2008)) = .ok items' ∧ tostrLoopControl .f2008 o' items' = .ok t",
    "Fp.Incl08.Loop_Control_incl h s items t hm ht", "full",
    "the 2008 tuple is the 2003 tuple + None and prints the same; holds because the 2003 forms are tried FIRST (a 2008 matcher testing CONCURRENT first breaks the pin of loop_control_r818 and this mirror)")
thm("Loop_Control_only08", "{N : Type} (o : Oracle N) (s : Str) (flat : List (Item N))",
    "((planLoopControl .f2008 s).bind (runSlots o) = .ok flat ∧ (planLoopControl .f2003 s).bind (runSlots o) = .noMatch) ↔ (planLoopControl .f2003 s = .noMatch ∧ (planConcurrent s).bind (runSlots o) = .ok flat)",
    "Fp.Incl08.Loop_Control_only08 o s flat", "full",
    "EXACTLY the CONCURRENT form, and only for texts on which the 2003 matcher RETURNED None (not: a child raised NoMatchError)")
thm("Loop_Control_only08_shape", "{N : Type} (o : Oracle N) (s : Str) (flat : List (Item N)) (h : (planConcurrent s).bind (runSlots o) = .ok flat)",
    "isConcurrent s = true", "Fp.Incl08.Loop_Control_only08_shape o s flat h", "full", "`[,] CONCURRENT …`")
thm("Proc_Decl_incl", SIM + " (h : Sim id f o o') (s : Str) (items : List (Item N)) (hm : Header.matchProcDecl .f2003 o s = .ok items)",
    "Header.matchProcDecl .f2008 o' s = .ok (items.map (Item.map f)) ∧ Header.tostrBinary o' (items.map (Item.map f)) = Header.tostrBinary o items",
    "Fp.Incl08.Proc_Decl_incl h s items hm", "full", "")
thm("Proc_Decl_only08", "{N : Type} (o : Oracle N) (s : Str) (items : List (Item N))",
    "(Header.matchProcDecl .f2008 o s = .ok items ∧ Header.matchProcDecl .f2003 o s = .noMatch) ↔ (s.isEmpty = false ∧ (Header.planBinaryArrow Header.C.Procedure_Entity_Name Header.C.Null_Init s).bind (runSlots o) = .noMatch ∧ ((Header.planBinaryArrow Header.C.Procedure_Entity_Name Header.C.Name s).bind (runSlots o)).map List.reverse = .ok items)",
    "Fp.Incl08.Proc_Decl_only08 o s items", "full", "EXACTLY `name => Name` (initial target) after `name => null-init` RETURNED None")
thm("Procedure_Stmt_incl_partial", SIM + " (h : Sim id f o o') (s : Str) (items : List (Item N)) (hm : (Header.planProcedureStmt .f2003 s).bind (runSlots o) = .ok items) (hp : ProcStmtPlain s = true)",
    "∃ items', (Header.planProcedureStmt .f2008 s).bind (runSlots o') = .ok items' ∧ (kwIs \"MODULE\".toList s = true → Header.tostrProcedureStmt .f2008 o' items' = Header.tostrProcedureStmt .f2003 o items)",
    "Fp.Incl08.Procedure_Stmt_incl_partial h s items hm hp", "partial",
    "FULL STATEMENT FALSE for the TEXT (Procedure_Stmt_text_differs): the 2003 class always prints MODULE PROCEDURE; acceptance holds under ProcStmtPlain (no leading blank, the name list does not start with `::` - otherwise the two classes ask Procedure_Name_List different questions); same text exactly when the statement starts with MODULE")
thm("Procedure_Stmt_text_differs", "",
    "(Header.planProcedureStmt .f2003 \"procedure a\".toList).bind (runSlots toy) = .ok [.node \"a\".toList] ∧ Header.tostrProcedureStmt .f2003 toy [.node \"a\".toList] = .ok \"MODULE PROCEDURE a\".toList ∧ (Header.planProcedureStmt .f2008 \"procedure a\".toList).bind (runSlots toy) = .ok [.node \"a\".toList, .none, .none] ∧ Header.tostrProcedureStmt .f2008 toy [.node \"a\".toList, .none, .none] = .ok \"PROCEDURE a\".toList",
    "Fp.Incl08.Procedure_Stmt_text_differs", "witness",
    "DEFECT C17 (text; replayed on /repo: `procedure a` in an interface block regenerates to `MODULE PROCEDURE a` under f2003 and `PROCEDURE a` under f2008)")
thm("Procedure_Stmt_only08_witness", "",
    "(Header.planProcedureStmt .f2003 \"procedure :: a\".toList).bind (runSlots toy) = .ok [.node \":: a\".toList] ∧ (Header.planProcedureStmt .f2008 \"procedure :: a\".toList).bind (runSlots toy) = .ok [.node \"a\".toList, .none, .str \"::\".toList] ∧ (Header.planProcedureStmt .f2003 \" procedure a\".toList).bind (runSlots toy) = .noMatch ∧ (Header.planProcedureStmt .f2008 \" procedure a\".toList).bind (runSlots toy) = .ok [.node \"a\".toList, .none, .none]",
    "Fp.Incl08.Procedure_Stmt_only08_witness", "witness", "the 2008-only shapes: `PROCEDURE :: names` (the 2003 class hands `:: a` to Procedure_Name_List) and leading blanks")
thm("Attr_Spec_incl", "(s w : Str) (h : matchAttrSpec .f2003 s = some w)", "matchAttrSpec .f2008 s = some w", "Fp.Incl08.Attr_Spec_incl s w h", "full", "own match (word list); CODIMENSION[…] comes in through the appended alternative Codimension_Attr_Spec")
thm("Attr_Spec_only08", "(s w : Str)", "(matchAttrSpec .f2008 s = some w ∧ matchAttrSpec .f2003 s = none) ↔ (upper s = \"CONTIGUOUS\".toList ∧ w = \"CONTIGUOUS\".toList)",
    "Fp.Incl08.Attr_Spec_only08 s w", "full", "EXACTLY CONTIGUOUS")
thm("Component_Attr_Spec_incl", "(s w : Str) (h : matchComponentAttrSpec .f2003 s = some w)", "matchComponentAttrSpec .f2008 s = some w", "Fp.Incl08.Component_Attr_Spec_incl s w h", "full", "")
thm("Component_Attr_Spec_only08", "(s w : Str)", "(matchComponentAttrSpec .f2008 s = some w ∧ matchComponentAttrSpec .f2003 s = none) ↔ (upper s = \"CONTIGUOUS\".toList ∧ w = \"CONTIGUOUS\".toList)",
    "Fp.Incl08.Component_Attr_Spec_only08 s w", "full", "EXACTLY CONTIGUOUS")
thm("Intrinsic_Name_incl", "(s : Str) (slots : List Slot) (h : Primary.planIntrinsicName .f2003 s = .ok slots)", "Primary.planIntrinsicName .f2008 s = .ok slots",
    "Fp.Incl08.Intrinsic_Name_incl s slots h", "full",
    "from Registry.intr2003_subset_intr2008 over the generated live tables; the additional names are pinned by Incl08Tables.intr_only08 (ERF, GAMMA, SHIFTL, SHIFTR, SHIFTA)")
thm("choice_incl_append", "{N N' : Type} {ρ : ClassId → ClassId} {f : N → N'} {o : Oracle N} {o' : Oracle N'} (h : Sim ρ f o o') (a3 extra : List ClassId) (s : Str) (n : N) (hnm : ∀ c ∈ a3, o.call c s = .noMatch → o'.call (ρ c) s = .noMatch) (hm : choice o a3 s = .ok n)",
    "choice o' (a3.map ρ ++ extra) s = .ok (f n)", "Fp.Incl08.choice_incl_append h a3 extra s n hnm hm", "partial",
    "ordered choice of Base.__new__ for the rules of appendOnlyRules (Action_Stmt, Action_Stmt_C201, Attr_Spec, Component_Attr_Spec, Format_Item, Proc_Decl, Program_Unit, Action_Stmt_C802→C828: pinned by Incl08Tables.append_only_rules): APPENDED alternatives need no hypothesis; partial because ordered choice is not monotone: the 2008 children must keep the REJECTIONS of the 2003 alternatives tried before the accepting one (hnm)")
thm("choice_incl_sublist", "{N N' : Type} {ρ : ClassId → ClassId} {f : N → N'} {o : Oracle N} {o' : Oracle N'} (h : Sim ρ f o o') (a3 a8 : List ClassId) (s : Str) (n : N) (hs : List.Sublist (a3.map ρ) a8) (hd : a8.Nodup) (hnm : ∀ c ∈ a3, o.call c s = .noMatch → o'.call (ρ c) s = .noMatch) (hnew : ∀ c ∈ a8, c ∉ a3.map ρ → o'.call c s = .noMatch) (hm : choice o a3 s = .ok n)",
    "choice o' a8 s = .ok (f n)", "Fp.Incl08.choice_incl_sublist h a3 a8 s n hs hd hnm hnew hm", "partial",
    "INSERTED alternatives (Executable_Construct(_C201): Error_Stop_Stmt, Block_Construct, Critical_Construct - pinned by Incl08Tables.inserted_rules): additionally the new alternatives must reject the text (hnew); the sublist hypothesis is the kernel-checked table inclusion (alts_*, Registry.registry_f2008_covers_f2003_partial)")
thm("Stop_Code_incl_partial", SIM + " (h : Sim id f o o') (lvl3 : ClassId) (a3 a8 : List ClassId) (s : Str) (r : StopRes N) (hlv : o.call lvl3 s = .noMatch → o'.call lvl3 s = .noMatch) (hfb : ∀ n, choice o a3 s = .ok n → ∃ n', choice o' a8 s = .ok n' ∧ o'.str n' = o.str n) (hm : matchStopCode o lvl3 a3 s = .ok r)",
    "∃ r', matchStopCode o' lvl3 a8 s = .ok r' ∧ r'.text o' = r.text o", "Fp.Incl08.Stop_Code_incl_partial h lvl3 a3 a8 s r hlv hfb hm", "partial",
    "the ONE rule whose alternatives are replaced (subsExceptions): the 2003 class object's own match (label, Level_3_Expr) runs under BOTH standards (Stop_Stmt and the 2008 Error_Stop_Stmt name Fortran2003.Stop_Code directly); hypothesis hfb = the 2008 fallback [Default_Char_Expr, Int_Expr] accepts and prints alike what the 2003 fallback (literal constants, Name) accepted - co-simulated")

HEADER = '''import FparserModel.Proofs.Incl08Rules
/-!
# Props/Incl08 — class-level language inclusion of the Fortran 2008 overrides (C17)

GENERATED by fv/../tools/gen_props_incl08.py from one table (statement, proof term, registry entry).
For every overridden rule with a both-standard model: `<Rule>_incl` (accepted by the 2003 class under
children `o` ⇒ accepted by the 2008 class under ANY children `o'` that extend `o` — `Sim` — and printed
the same) and `<Rule>_only08` (EXACTLY what the 2008 class accepts in addition, same children).
Where the real code violates the natural statement: `_partial` under a decidable hypothesis + a
kernel-checked witness (`Open_Stmt_incl_fails`, `Procedure_Stmt_text_differs`).
The obligations over the LIVE tables are in Generated/Incl08Tables.lean.
-/
namespace Fp.Incl08.Props
open Fp Fp.IoStmt Fp.Incl08

'''

FOOTER = '''
/-! ## non-vacuity: concrete instances of the hypotheses (children: `toy` = echo, `toy8` = a 2008 side that
accepts strictly more and builds different nodes) -/

example : Sim id (fun s => (s, true)) toy toy8 := toy_sim8 id
example : Sim renIf (fun s => (s, true)) toy toy8 := toy_sim8 renIf
example : toy8.call 0 [] = .ok ([], true) ∧ toy.call 0 [] = .noMatch := by decide

example : matchConnectSpec .f2003 toy "unit = 10".toList = .ok [.str "UNIT".toList, .node "10".toList] := by
  decide +kernel
example : matchConnectSpec .f2008 toy8 "unit = 10".toList
    = .ok ([.str "UNIT".toList, .node "10".toList].map (Item.map fun s => (s, true))) :=
  (Connect_Spec_incl (toy_sim8 id) _ _ (by decide +kernel)).1
example : matchConnectSpec .f2008 toy "NewUnit = lun".toList = .ok [.str "NEWUNIT".toList, .node "lun".toList]
    ∧ matchConnectSpec .f2003 toy "NewUnit = lun".toList = .noMatch := by decide +kernel
example : matchAllocOpt .f2003 toy "stat=ierr".toList = .ok [.str "STAT".toList, .node "ierr".toList]
    ∧ matchAllocOpt .f2008 toy "mold = b".toList = .ok [.str "MOLD".toList, .node "b".toList]
    ∧ matchAllocOpt .f2003 toy "mold = b".toList = .noMatch := by decide +kernel
example : matchOpen .f2003 toy "open(unit=10, file='x')".toList = .ok [.str "OPEN".toList, .node "unit=10, file='x'".toList]
    ∧ OpenOK toy [.str "OPEN".toList, .node "unit=10, file='x'".toList] = true
    ∧ matchOpen .f2008 toy "open(unit=10, file='x')".toList = .ok [.str "OPEN".toList, .node "unit=10, file='x'".toList] := by
  decide +kernel
/-- children that reject a data edit descriptor starting with `*` -/
def toyD : Oracle Str :=
  { toy with call := fun c s => if c == C.Data_Edit_Desc && startsC '*' s then .noMatch else toy.call c s }
example : matchFormatItem .f2003 toyD "2(i5)".toList = .ok [.node "2".toList, .node "i5".toList]
    ∧ matchFormatItem .f2008 toyD "*(i5, 1x)".toList = .ok [.str "*".toList, .node "i5, 1x".toList]
    ∧ matchFormatItem .f2003 toyD "*(i5, 1x)".toList = .noMatch ∧ isStarItem "*(i5, 1x)".toList = true := by
  decide +kernel
example : (planIf .f2003 "if (a) x = 1".toList).bind (runSlots toy) = .ok [.node "a".toList, .node "x = 1".toList] := by
  decide +kernel
example : ((planLoopControl .f2003 "i = 1, n".toList).bind (runSlots toy)).map (groupLoop (loopTail .f2003))
      = .ok [.none, .node "i".toList, .nodes ["1".toList, "n".toList], .none]
    ∧ tostrLoopControl .f2003 toy [.none, .node "i".toList, .nodes ["1".toList, "n".toList], .none] = .ok "i = 1, n".toList
    ∧ ((planLoopControl .f2008 "i = 1, n".toList).bind (runSlots toy)).map (groupLoop (loopTail .f2008))
      = .ok [.none, .node "i".toList, .nodes ["1".toList, "n".toList], .none, .none]
    ∧ (planLoopControl .f2008 "concurrent (i=1:n)".toList).bind (runSlots toy)
      = .ok [.none, .none, .none, .node "(i=1:n)".toList]
    ∧ planLoopControl .f2003 "concurrent (i=1:n)".toList = .noMatch
    ∧ isConcurrent ", Concurrent (i=1:n)".toList = true := by
  decide +kernel
example : Header.matchProcDecl .f2003 toy "p => null()".toList = .ok [.node "p".toList, .str "=>".toList, .node "null()".toList] := by
  decide +kernel
example : ProcStmtPlain "module procedure a, b".toList = true ∧ ProcStmtPlain "procedure :: a".toList = false
    ∧ ProcStmtPlain " procedure a".toList = false
    ∧ (Header.planProcedureStmt .f2003 "module procedure a, b".toList).bind (runSlots toy) = .ok [.node "a, b".toList] := by
  decide +kernel
example : matchAttrSpec .f2003 "Pointer".toList = some "POINTER".toList
    ∧ matchAttrSpec .f2008 "contiguous".toList = some "CONTIGUOUS".toList
    ∧ matchAttrSpec .f2003 "contiguous".toList = none
    ∧ matchComponentAttrSpec .f2003 "allocatable".toList = some "ALLOCATABLE".toList
    ∧ matchComponentAttrSpec .f2008 "CONTIGUOUS".toList = some "CONTIGUOUS".toList := by decide +kernel
example : Primary.planIntrinsicName .f2003 "sin".toList = .ok [.str "SIN".toList]
    ∧ Primary.planIntrinsicName .f2008 "shiftl".toList = .ok [.str "SHIFTL".toList]
    ∧ Primary.planIntrinsicName .f2003 "shiftl".toList = .noMatch := by decide +kernel
/-- ordered choice is NOT monotone without `hnm`: a 2008 child that accepts more wins an earlier alternative -/
example : choice toy [3, 5] [] = .noMatch ∧ choice toy8 [3, 5] [] = .ok ([], true)
    ∧ choice toy [3, 5] "x".toList = .ok "x".toList ∧ choice toy8 ([3, 5] ++ [7]) "x".toList = .ok ("x".toList, true) := by
  decide
example : matchStopCode toy 9 [3] "12345".toList = .ok (.own "12345".toList)
    ∧ matchStopCode toy 9 [3] "123456".toList = .ok (.via "123456".toList)
    ∧ isLabel "123456".toList = false := by decide

'''


def main(root):
    L = [HEADER]
    for t in T:
        note = t["note"]
        if note:
            L.append("/-- %s -/" % note.replace("/-", "/ -").replace("-/", "- /"))
        b = (" " + t["binders"]) if t["binders"] else ""
        L.append("theorem %s%s :\n    %s :=\n  %s\n" % (t["name"], b, t["stmt"], t["proof"]))
    L.append(FOOTER)
    for t in T:
        L.append("#print axioms %s" % t["name"])
    L.append("\nend Fp.Incl08.Props\n")
    with open(os.path.join(root, "FparserModel", "Props", "Incl08.lean"), "w", encoding="utf-8") as fh:
        fh.write("\n".join(L))
    reg = []
    for t in T:
        st = (t["binders"] + " : " if t["binders"] else ": ") + t["stmt"]
        reg.append({"name": "Fp.Incl08.Props." + t["name"], "file": "FparserModel/Props/Incl08.lean", "statement": st,
                    "serves": t["serves"], "strength": t["strength"], "note": t["note"]})
    os.makedirs(os.path.join(root, "theorems"), exist_ok=True)
    with open(os.path.join(root, "theorems", "Incl08.json"), "w", encoding="utf-8") as fh:
        json.dump(reg, fh, indent=1, ensure_ascii=False)
        fh.write("\n")
    print(len(T), "theorems")


if __name__ == "__main__":
    main(sys.argv[1])
