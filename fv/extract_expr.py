"""Translator for model M-C: extract the expression precedence table from the REAL classes
and write it as a Lean literal (lean/FparserModel/Generated/ExprLevels.lean) of the same type
as `Fp.Expr.levels`; `Props/ExprTie.lean` then requires `Generated.… = Fp.Expr.levels` by
`decide`, so a repository change that alters precedence / associativity / the fall-through
order no longer builds.

What is read from the repository, per class of the chain (after ParserFactory().create(std)):
  * the arguments its `match` passes to BinaryOpBase.match / UnaryOpBase.match /
    BracketBase.match (recorded by temporarily wrapping those three static methods):
    lhs class, operator pattern, rhs class, `right`, `exclude_op_pattern`;
  * which named pattern of pattern_tools.py the operator pattern is, *and* that the regular
    expression of that pattern is the one the token model was written for (PATTERNS below);
  * `Base.subclasses[cls]` (the run-time fall-through order).
"""
import os

from fv import repo

CHAIN = [  # (class name, Lean level constructor)
    ("Expr", "expr"), ("Level_5_Expr", "l5"), ("Equiv_Operand", "equivOp"),
    ("Or_Operand", "orOp"), ("And_Operand", "andOp"), ("Level_4_Expr", "l4"),
    ("Level_3_Expr", "l3"), ("Level_2_Expr", "l2"), ("Level_2_Unary_Expr", "l2u"),
    ("Add_Operand", "addOp"), ("Mult_Operand", "multOp"), ("Level_1_Expr", "l1"),
    ("Primary", "prim"),
]
LV = dict(CHAIN)

# pattern_tools name -> (Lean OpCls constructor, the regular expression the model assumes)
PATTERNS = {
    "defined_binary_op": ("defined", r"[.]\s*[A-Z]+\s*[.]"),
    "defined_unary_op": ("defined", r"[.]\s*[A-Z]+\s*[.]"),
    "equiv_op": ("equiv", r"[.]\s*EQV\s*[.]|[.]\s*NEQV\s*[.]"),
    "or_op": ("or", r"[.]\s*OR\s*[.]"),
    "and_op": ("and", r"[.]\s*AND\s*[.]"),
    "not_op": ("not", r"[.]\s*NOT\s*[.]"),
    "rel_op": ("rel", r"[.]\s*EQ\s*[.]|[.]\s*NE\s*[.]|[.]\s*LT\s*[.]|[.]\s*LE\s*[.]|"
                      r"[.]\s*GT\s*[.]|[.]\s*GE\s*[.]|[=]{2}|/[=]|[<][=]|[<]|[>][=]|[>]"),
    "concat_op": ("concat", r"(?<![/])[/]\s*[/](?![/])"),
    "add_op": ("add", r"[+-]"),
    "mult_op": ("mult", r"(?<![*])[*](?![*])|(?<![/])[/](?![/])"),
    "power_op": ("power", r"(?<![*])[*]{2}(?![*])"),
}
# the regular expression behind exclude_op_pattern=non_defined_binary_op must still reject
# exactly the intrinsic dotted words and the logical literals (probed, not compared textually)
EXCLUDED_WORDS = [".EQ.", ".NE.", ".LT.", ".LE.", ".GT.", ".GE.", ".NOT.", ".AND.", ".OR.",
                  ".EQV.", ".NEQV.", ".TRUE.", ".FALSE."]
NOT_EXCLUDED_WORDS = [".X.", ".MYOP.", ".EQUAL.", ".T.", ".NOTX.", ".ANDALSO."]


class ExtractError(Exception):
    pass


def _pattern_name(pt, pat):
    """which public pattern of pattern_tools `pat` is (compared by regex text and flags)"""
    hits = []
    for name in PATTERNS:
        ref = getattr(pt, name)
        for cand in (ref, ref.named()):
            if cand.pattern == pat.pattern and cand._flags == pat._flags:  # pylint: disable=protected-access
                hits.append(name)
                break
    if not hits:
        raise ExtractError("operator pattern %r is none of %s" % (pat, sorted(PATTERNS)))
    name = hits[0]
    # defined_binary_op and defined_unary_op share one regex: both map to `defined`
    if len({PATTERNS[h][0] for h in hits}) != 1:
        raise ExtractError("ambiguous operator pattern %r: %s" % (pat, hits))
    ref = getattr(pt, name)
    if ref.pattern != PATTERNS[name][1]:
        raise ExtractError("regular expression of pattern_tools.%s changed: %r (model assumes %r)"
                           % (name, ref.pattern, PATTERNS[name][1]))
    return PATTERNS[name][0]


def extract(std):
    """list of rows (dicts) in CHAIN order for the given standard"""
    repo.activate()
    from fparser.two.parser import ParserFactory
    ParserFactory().create(std=std)
    from fparser.two import Fortran2003, utils, pattern_tools as pt

    rec = []
    saved = (utils.BinaryOpBase.__dict__["match"], utils.UnaryOpBase.__dict__["match"],
             utils.BracketBase.__dict__["match"])

    def bin_match(lhs_cls, op_pattern, rhs_cls, string, right=True, exclude_op_pattern=None):
        rec.append(("bin", lhs_cls, op_pattern, rhs_cls, right, exclude_op_pattern))

    def un_match(op_pattern, rhs_cls, string, exclude_op_pattern=None):
        rec.append(("un", None, op_pattern, rhs_cls, None, exclude_op_pattern))

    def br_match(brackets, cls, string, require_cls=True):
        rec.append(("br", brackets, cls, require_cls))

    utils.BinaryOpBase.match = staticmethod(bin_match)
    utils.UnaryOpBase.match = staticmethod(un_match)
    utils.BracketBase.match = staticmethod(br_match)
    try:
        rows = []
        prim_subs = utils.Base.subclasses.get("Primary", [])
        for cname, lv in CHAIN:
            cls = getattr(Fortran2003, cname)
            subs = list(utils.Base.subclasses.get(cname, []))
            row = {"lv": lv, "kind": None, "cls": "none", "lhs": None, "rhs": None,
                   "next": None, "excl": False, "subclass_names": list(cls.subclass_names)}
            match = getattr(cls, "match", None)
            if cname == "Primary":
                if match is not None:
                    raise ExtractError("Primary has a match method")
                if not subs or subs[-1].__name__ != "Parenthesis":
                    raise ExtractError("Parenthesis is not the last subclass of Primary: %s"
                                       % [c.__name__ for c in subs])
                if [c.__name__ for c in subs].count("Parenthesis") != 1:
                    raise ExtractError("Parenthesis appears more than once under Primary")
                del rec[:]
                subs[-1].match("(x)")
                if len(rec) != 1 or rec[0][0] != "br" or rec[0][1] != "()" or not rec[0][3]:
                    raise ExtractError("Parenthesis.match is not BracketBase.match('()', cls, s): %r" % rec)
                inner = rec[0][2]
                row.update(kind="prim", rhs=_lv(inner, Fortran2003))
                if utils.Base.subclasses.get("Parenthesis"):
                    raise ExtractError("Parenthesis has subclasses")
            else:
                del rec[:]
                match("x")
                if len(rec) != 1:
                    raise ExtractError("%s.match does not make exactly one generic match call: %r"
                                       % (cname, rec))
                tag, lhs, pat, rhs, right, excl = rec[0]
                if isinstance(pat, str):
                    raise ExtractError("%s: string operator pattern %r" % (cname, pat))
                row["cls"] = _pattern_name(pt, pat)
                row["rhs"] = _lv(rhs, Fortran2003)
                if tag == "bin":
                    row["kind"] = "binL" if right else "binR"
                    row["lhs"] = _lv(lhs, Fortran2003)
                elif tag == "un":
                    row["kind"] = "unary"
                else:
                    raise ExtractError("%s: unexpected base %s" % (cname, tag))
                if excl is not None:
                    if excl is not pt.non_defined_binary_op:
                        raise ExtractError("%s: unknown exclude pattern %r" % (cname, excl))
                    for w in EXCLUDED_WORDS:
                        if not excl.match(w):
                            raise ExtractError("exclude pattern no longer matches %s" % w)
                    for w in NOT_EXCLUDED_WORDS:
                        if excl.match(w):
                            raise ExtractError("exclude pattern now matches %s" % w)
                    row["excl"] = True
                # fall-through order
                if [c.__name__ for c in subs] == [c.__name__ for c in prim_subs] and prim_subs:
                    row["next"] = "prim"     # Base.subclasses flattens the match-less Primary
                    if row["subclass_names"] != ["Primary"]:
                        raise ExtractError("%s falls through to Primary's subclasses but declares %s"
                                           % (cname, row["subclass_names"]))
                elif len(subs) == 1 and subs[0].__name__ in LV:
                    if getattr(Fortran2003, subs[0].__name__) is not subs[0]:
                        raise ExtractError("%s: subclass %s replaced by %s" % (cname, subs[0].__name__, subs[0]))
                    row["next"] = LV[subs[0].__name__]
                else:
                    raise ExtractError("%s: subclasses %s are not one class of the chain"
                                       % (cname, [c.__name__ for c in subs]))
            rows.append(row)
        return rows
    finally:
        utils.BinaryOpBase.match, utils.UnaryOpBase.match, utils.BracketBase.match = saved


def _lv(cls, module):
    name = cls.__name__
    if name not in LV or getattr(module, name) is not cls:
        raise ExtractError("class %r is not one of the 13 classes of the chain" % cls)
    return LV[name]


_NAMES = {lv: cname for cname, lv in CHAIN}


def table_text(rows):
    """the canonical text form printed by the driver command `exprlevels`"""
    def nm(x):
        return _NAMES[x] if x else "-"
    return ";".join(" ".join([_NAMES[r["lv"]], r["kind"], r["cls"], nm(r["lhs"]), nm(r["rhs"]),
                              nm(r["next"]), "excl" if r["excl"] else "-"]) for r in rows)


def _opt(x):
    return "some .%s" % x if x else "none"


def lean_text():
    out = ["import FparserModel.Expr",
           "",
           "/-! GENERATED by fv/extract_expr.py from the fparser working tree - do not edit.",
           "The expression precedence table read from the real classes (match arguments,",
           "operator patterns, `right`, exclude pattern, Base.subclasses order). -/",
           "namespace Fp.Expr.Generated",
           "open Fp.Expr",
           ""]
    for std in ("f2003", "f2008"):
        rows = extract(std)
        out.append("/-- ParserFactory().create(std=%r) -/" % std)
        out.append("def exprLevels%s : List Row := [" % std[1:])
        lines = []
        for r in rows:
            lines.append("  ⟨.%s, .%s, .%s, %s, %s, %s, %s⟩" % (
                r["lv"], r["kind"], r["cls"], _opt(r["lhs"]), _opt(r["rhs"]), _opt(r["next"]),
                "true" if r["excl"] else "false"))
        out.append(",\n".join(lines) + " ]")
        out.append("")
        out.append("/-- declared `subclass_names` (before Base.subclasses flattening) -/")
        out.append("def subclassNames%s : List (String × List String) := [" % std[1:])
        out.append(",\n".join("  (\"%s\", [%s])" % (_NAMES[r["lv"]],
                   ", ".join('"%s"' % s for s in r["subclass_names"])) for r in rows) + " ]")
        out.append("")
    out.append("end Fp.Expr.Generated")
    return "\n".join(out) + "\n"


def generate(outdir):
    """write <outdir>/ExprLevels.lean (only when the content changes); returns the path"""
    text = lean_text()
    path = os.path.join(outdir, "ExprLevels.lean")
    old = None
    if os.path.exists(path):
        with open(path, encoding="utf-8") as f:
            old = f.read()
    if old != text:
        os.makedirs(outdir, exist_ok=True)
        tmp = path + ".tmp"
        with open(tmp, "w", encoding="utf-8") as f:
            f.write(text)
        os.replace(tmp, path)
    return path


if __name__ == "__main__":
    import sys
    print(generate(sys.argv[1] if len(sys.argv) > 1 else
                   os.path.join(os.path.dirname(os.path.dirname(os.path.abspath(__file__))),
                                "lean", "FparserModel", "Generated")))
