import FparserModel.Proofs.SplitlineSrm2Flat
/-!
Interface between the phases: what is known about the state and the text when the
`splitparen` loop (phase 3) starts.
-/
namespace Fp.Splitline
open Fp

/-- `k` is a string or real-constant placeholder (closed by `_`) -/
def ClosedKey (k : Str) : Prop := (∃ j, k = strKey j) ∨ (∃ j, k = realKey j)

/-- all keys of the token list are closed keys -/
def Closed : List Tok → Prop
  | [] => True
  | .chunk _ :: ts => Closed ts
  | .key k _ :: ts => ClosedKey k ∧ Closed ts

/-- the state handed to phase 3 -/
structure M2OK (st : SrmState) : Prop where
  closedKeys : ∀ k v, st.map.get? k = some v → ClosedKey k
  valsFree : ∀ k v, st.map.get? k = some v → Free v
  constKeys : ∀ k ∈ st.constKeys, ∃ v, st.map.get? k = some v
  exprKeys : st.exprKeys = []
  revParen : st.revParen = []

theorem phase1Step_vals (d : Discipline) (st : SrmState) (seg : Seg) (hF : Free seg.str)
    (hv : ∀ k v, st.map.get? k = some v → Free v) :
    ∀ k v, (phase1Step d st seg).1.map.get? k = some v → Free v := by
  cases seg with
  | plain s => exact hv
  | quoted s =>
    unfold phase1Step
    simp only
    split
    · split
      · exact hv
      · intro k v h
        simp only at h
        by_cases hk : strKey (st.strIdx + 1) = k
        · subst hk
          rw [Map.get?_set_self] at h
          cases h
          obtain ⟨a, b, hab⟩ := interior_infix s
          have hF' : Free s := hF
          rw [hab] at hF'
          exact Free_infix hF'
        · rw [Map.get?_set_ne _ _ _ _ hk] at h
          exact hv k v h
    · exact hv

theorem phase1_vals (d : Discipline) :
    ∀ (segs : List Seg) (st : SrmState), Free (segsJoin segs) →
      (∀ k v, st.map.get? k = some v → Free v) →
      ∀ k v, (phase1 d st segs).1.map.get? k = some v → Free v
  | [], _, _, hv => hv
  | seg :: segs, st, hF, hv => by
    rw [segsJoin_cons] at hF
    have h1 := Free_append_left _ _ hF
    have h2 := Free_append_right _ _ hF
    rw [phase1_cons]
    exact phase1_vals d segs _ h2 (phase1Step_vals d st seg h1 hv)

theorem Closed_of_str {m : Map} (hk : ∀ k v, m.get? k = some v → ∃ j, k = strKey j) :
    ∀ ts, WFk m ts → Closed ts
  | [], _ => trivial
  | .chunk _ :: ts, hw => Closed_of_str hk ts hw
  | .key k v :: ts, hw => ⟨.inl (hk k v hw.2.1), Closed_of_str hk ts hw.2.2⟩

/-- phase 1 establishes the interface (when phase 2 finds nothing to do it is also the state
    reaching phase 3) -/
theorem phase1_M2OK (d : Discipline) (hd : d.lookupTrimmed = true) (segs : List Seg)
    (hF : Free (segsJoin segs)) :
    ∃ ts, (phase1 d {} segs).2 = rawJoin ts ∧ valJoin ts = segsJoin segs ∧
      WF (phase1 d {} segs).1.map ts ∧ Closed ts ∧ M2OK (phase1 d {} segs).1 ∧
      P1Inv (phase1 d {} segs).1 ∧ (phase1 d {} segs).1.constKeys = [] ∧
      (phase1 d {} segs).1.constIdx = 0 := by
  obtain ⟨ts, h1, h2, h3', h4, _, h6, _⟩ := phase1_spec d hd segs {} P1Inv_init
  have h3 : WF (phase1 d {} segs).1.map ts := ⟨h3', by rw [h2]; exact hF⟩
  obtain ⟨a1, a2, _, a4, a5⟩ := h6
  have hk : ∀ k v, (phase1 d {} segs).1.map.get? k = some v → ∃ j, k = strKey j := by
    intro k v h
    obtain ⟨j, _, hj⟩ := h4.keys k v h
    exact ⟨j, hj⟩
  refine ⟨ts, h1, h2, h3, Closed_of_str hk ts h3', ⟨?_, ?_, ?_, a5, a1⟩, h4, a4, a2⟩
  · intro k v h; exact .inl (hk k v h)
  · exact phase1_vals d segs {} hF (by intro k v h; simp [Map.get?] at h)
  · intro k hk'; rw [a4] at hk'; simp at hk'

end Fp.Splitline
