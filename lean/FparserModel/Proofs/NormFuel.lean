import FparserModel.Proofs.NormScan

/-! fuel independence of the lexer on EVERY input: `lexF` never stops for lack of fuel -/
namespace Fp.Norm
open Fp

/-! one step of `lexGo` with the recursive call abstracted as `k`, branch by branch -/

def stepSep (k : Mode → Str → List Tok) (m : Mode) (c : Char) (cs : Str) : List Tok :=
  if m == .mid then .eos :: k .bol cs
  else if c == ';' && m == .cont then k .bol cs
  else k m cs

def stepAmp (k : Mode → Str → List Tok) (m : Mode) (cs : Str) : List Tok :=
  if m == .mid then
    match cs.dropWhile isBlank with
    | [] => k .cont cs
    | c2 :: _ => if c2 == '\n' || c2 == '!' then k .cont cs else k .mid cs
  else if m == .cont then k .mid cs
  else k m cs

def stepNum (k : Mode → Str → List Tok) (m : Mode) (c : Char) (cs : Str) : List Tok :=
  if m == .bol && c.isDigit then
    let d := (c :: cs).takeWhile isDigit
    .label d :: k .mid ((c :: cs).drop d.length)
  else
    let t := scanNum (c :: cs)
    match t.2 with
    | '_' :: q :: r' =>
      if isQuote q then
        let b := scanChr q (r'.length + 1) r' []
        .chr (t.1 ++ '_' :: q :: b.1) :: k .mid b.2
      else .num t.1 :: k .mid t.2
    | _ => .num t.1 :: k .mid t.2

def stepDot (k : Mode → Str → List Tok) (cs : Str) : List Tok :=
  match dottedLen cs with
  | some j =>
    let kd := scanKind (cs.drop (j + 1))
    .dot ('.' :: cs.take j ++ '.' :: kd.1) :: k .mid kd.2
  | none => .op ['.'] :: k .mid cs

def stepName (k : Mode → Str → List Tok) (c : Char) (cs : Str) : List Tok :=
  let w := (c :: cs).takeWhile isWord
  let r := (c :: cs).drop w.length
  match r with
  | q :: r' =>
    if isQuote q && (w.getLast? == some '_' || isBozLetter w) then
      let b := scanChr q (r'.length + 1) r' []
      (if isBozLetter w then Tok.boz (w ++ q :: b.1) else Tok.chr (w ++ q :: b.1))
        :: k .mid b.2
    else .name w :: k .mid r
  | [] => .name w :: k .mid r

def stepOp (k : Mode → Str → List Tok) (c : Char) (cs : Str) : List Tok :=
  match cs with
  | c2 :: cs2 =>
    if isOp2 c c2 then .op [c, c2] :: k .mid cs2 else .op [c] :: k .mid cs
  | [] => .op [c] :: k .mid cs

def stepF (k : Mode → Str → List Tok) (m : Mode) (c : Char) (cs : Str) : List Tok :=
  if isBlank c then k m cs
  else if c == '!' then k m (cs.dropWhile (· != '\n'))
  else if c == '\n' || c == ';' then stepSep k m c cs
  else if c == '&' then stepAmp k m cs
  else if isQuote c then
    let b := scanChr c (cs.length + 1) cs []
    .chr (c :: b.1) :: k .mid b.2
  else if c.isDigit || (c == '.' && (cs.head?.map Char.isDigit).getD false) then stepNum k m c cs
  else if c == '.' then stepDot k cs
  else if isNameStart c then stepName k c cs
  else stepOp k c cs

theorem lexGo_succ (n : Nat) (m : Mode) (c : Char) (cs : Str) :
    lexGo (n + 1) m (c :: cs) = stepF (lexGo n) m c cs := by
  unfold stepF stepSep stepAmp stepNum stepDot stepName stepOp
  rfl

/-! ### every scanner returns a suffix that is not longer than its input -/

theorem dropWhile_length_le (p : Char → Bool) (s : Str) : (s.dropWhile p).length ≤ s.length := by
  induction s with
  | nil => simp
  | cons c r ih =>
    simp only [List.dropWhile_cons]
    split
    · simp; omega
    · simp

theorem takeWhile_length_le (p : Char → Bool) (s : Str) : (s.takeWhile p).length ≤ s.length := by
  induction s with
  | nil => simp
  | cons c r ih =>
    simp only [List.takeWhile_cons]
    split
    · simp; omega
    · simp

theorem trailingAmp_length {s r : Str} (h : trailingAmp s = some r) : r.length < s.length := by
  unfold trailingAmp at h
  split at h
  · rename_i r' heq
    simp at h; subst h
    have := dropWhile_length_le isBlank s
    rw [heq] at this
    simp at this; omega
  · simp at h

theorem scanChr_length (q : Char) : ∀ (n : Nat) (s acc : Str),
    (scanChr q n s acc).2.length ≤ s.length := by
  intro n
  induction n with
  | zero => intro s acc; simp [scanChr]
  | succ n ih =>
    intro s acc
    cases s with
    | nil => simp [scanChr]
    | cons c cs =>
      simp only [scanChr]
      split
      · split
        · split
          · rename_i c2 cs2 _
            have := ih cs2 (q :: q :: acc)
            simp; omega
          · simp
        · simp
      · split
        · simp
        · split
          · split
            · rename_i r hta
              have hl := trailingAmp_length hta
              split
              · rename_i r' heq
                have h1 := ih r' acc
                have h2 := dropWhile_length_le isBlank r
                rw [heq] at h2
                simp at h2 ⊢; omega
              · have h1 := ih r acc
                simp; omega
            · have := ih cs (c :: acc)
              simp; omega
          · have := ih cs (c :: acc)
            simp; omega

theorem scanKind_length (s : Str) : (scanKind s).2.length ≤ s.length := by
  unfold scanKind
  split
  · rename_i r
    by_cases hk : (r.takeWhile isWord).isEmpty = true
    · simp [hk]
    · simp [hk]; omega
  · simp

theorem scanExp_length (s : Str) : (scanExp s).2.length ≤ s.length := by
  cases s with
  | nil => simp [scanExp]
  | cons e r =>
    unfold scanExp
    by_cases he : isExpLetter e = true
    · simp only [he, if_true]
      split
      · rename_i r'
        by_cases hd : (r'.takeWhile isDigit).isEmpty = true
        · simp [hd]
        · simp [hd]; omega
      · rename_i r'
        by_cases hd : (r'.takeWhile isDigit).isEmpty = true
        · simp [hd]
        · simp [hd]; omega
      · by_cases hd : (r.takeWhile isDigit).isEmpty = true
        · simp [hd]
        · simp [hd]; omega
    · simp [he]

theorem scanFrac_length (s : Str) : (scanFrac s).2.length ≤ s.length := by
  unfold scanFrac
  split
  · split
    · simp
    · simp; omega
  · simp

theorem scanNum_length (s : Str) : (scanNum s).2.length ≤ s.length := by
  rw [scanNum_eq]
  simp only
  have h1 := scanKind_length (scanExp (scanFrac (s.drop (s.takeWhile isDigit).length)).2).2
  have h2 := scanExp_length (scanFrac (s.drop (s.takeWhile isDigit).length)).2
  have h3 := scanFrac_length (s.drop (s.takeWhile isDigit).length)
  have h4 : (s.drop (s.takeWhile isDigit).length).length ≤ s.length := by simp
  omega

/-- a numeral consumes at least its first character -/
theorem scanNum_length_lt (c : Char) (cs : Str)
    (h : (c.isDigit || (c == '.' && (cs.head?.map Char.isDigit).getD false)) = true) :
    (scanNum (c :: cs)).2.length ≤ cs.length := by
  rw [scanNum_eq]
  simp only
  by_cases hd : c.isDigit = true
  · have hd' : isDigit c = true := hd
    have h1 := scanKind_length (scanExp (scanFrac ((c :: cs).drop ((c :: cs).takeWhile isDigit).length)).2).2
    have h2 := scanExp_length (scanFrac ((c :: cs).drop ((c :: cs).takeWhile isDigit).length)).2
    have h3 := scanFrac_length ((c :: cs).drop ((c :: cs).takeWhile isDigit).length)
    have h4 : ((c :: cs).drop ((c :: cs).takeWhile isDigit).length).length ≤ cs.length := by
      simp [hd']
    omega
  · have hd0 : c.isDigit = false := by simpa using hd
    have hd' : isDigit c = false := hd0
    simp only [hd0, Bool.false_or, Bool.and_eq_true, beq_iff_eq] at h
    obtain ⟨rfl, hnext⟩ := h
    have htw : ('.' :: cs).takeWhile isDigit = [] := by simp [hd']
    simp only [htw, List.length_nil, List.drop_zero]
    have hfr : (scanFrac ('.' :: cs)).2.length ≤ cs.length := by
      cases cs with
      | nil => simp at hnext
      | cons d r =>
        simp at hnext
        have : dottedLen (d :: r) = none :=
          dottedLen_none_of_head (by simp [headIs, digit_not_alpha hnext])
        simp [scanFrac, this]
    have h1 := scanKind_length (scanExp (scanFrac ('.' :: cs)).2).2
    have h2 := scanExp_length (scanFrac ('.' :: cs)).2
    omega

theorem nameStart_isWord {c : Char} (h : isNameStart c = true) : isWord c = true := by
  simp only [isNameStart, Bool.or_eq_true, beq_iff_eq] at h
  rcases h with h | h
  · exact alpha_isWord h
  · subst h; decide

/-! ### the step only calls its continuation on shorter text -/

section
variable (k k' : Mode → Str → List Tok)

theorem stepSep_congr (m : Mode) (c : Char) (cs : Str)
    (h : ∀ m' r, r.length ≤ cs.length → k m' r = k' m' r) :
    stepSep k m c cs = stepSep k' m c cs := by
  unfold stepSep
  rw [h _ _ (Nat.le_refl _), h _ _ (Nat.le_refl _)]

theorem stepAmp_congr (m : Mode) (cs : Str)
    (h : ∀ m' r, r.length ≤ cs.length → k m' r = k' m' r) :
    stepAmp k m cs = stepAmp k' m cs := by
  unfold stepAmp
  rw [h _ _ (Nat.le_refl _), h _ _ (Nat.le_refl _), h _ _ (Nat.le_refl _)]

theorem stepNum_congr (m : Mode) (c : Char) (cs : Str)
    (hnum : (c.isDigit || (c == '.' && (cs.head?.map Char.isDigit).getD false)) = true)
    (h : ∀ m' r, r.length ≤ cs.length → k m' r = k' m' r) :
    stepNum k m c cs = stepNum k' m c cs := by
  unfold stepNum
  split
  · rename_i hlab
    simp only
    rw [h _ _ (by
      simp only [Bool.and_eq_true] at hlab
      have : isDigit c = true := hlab.2
      simp [this])]
  · have hlen := scanNum_length_lt c cs hnum
    simp only
    split
    · rename_i q r' heq
      split
      · have := scanChr_length q (r'.length + 1) r' []
        rw [h _ _ (by rw [heq] at hlen; simp at hlen; omega)]
      · rw [h _ _ hlen]
    · rw [h _ _ hlen]

theorem stepDot_congr (cs : Str)
    (h : ∀ m' r, r.length ≤ cs.length → k m' r = k' m' r) :
    stepDot k cs = stepDot k' cs := by
  unfold stepDot
  split
  · rename_i j _
    simp only
    rw [h _ _ (by
      have := scanKind_length (cs.drop (j + 1))
      simp at this ⊢; omega)]
  · rw [h _ _ (Nat.le_refl _)]

theorem stepName_congr (c : Char) (cs : Str) (hns : isNameStart c = true)
    (h : ∀ m' r, r.length ≤ cs.length → k m' r = k' m' r) :
    stepName k c cs = stepName k' c cs := by
  have hw : isWord c = true := nameStart_isWord hns
  have hr : ((c :: cs).drop ((c :: cs).takeWhile isWord).length).length ≤ cs.length := by
    simp [hw]
  unfold stepName
  simp only
  split
  · rename_i q r' heq
    split
    · have := scanChr_length q (r'.length + 1) r' []
      rw [h _ _ (by rw [heq] at hr; simp at hr; omega)]
    · rw [h _ _ hr]
  · rw [h _ _ hr]

theorem stepOp_congr (c : Char) (cs : Str)
    (h : ∀ m' r, r.length ≤ cs.length → k m' r = k' m' r) :
    stepOp k c cs = stepOp k' c cs := by
  unfold stepOp
  split
  · rename_i c2 cs2
    rw [h _ _ (by simp : cs2.length ≤ (c2 :: cs2).length), h _ _ (Nat.le_refl _)]
  · rw [h _ _ (Nat.le_refl _)]

theorem stepF_congr (m : Mode) (c : Char) (cs : Str)
    (h : ∀ m' r, r.length ≤ cs.length → k m' r = k' m' r) :
    stepF k m c cs = stepF k' m c cs := by
  unfold stepF
  rw [h _ _ (Nat.le_refl _), h _ _ (dropWhile_length_le _ _), stepSep_congr k k' m c cs h,
    stepAmp_congr k k' m cs h, stepDot_congr k k' cs h, stepOp_congr k k' c cs h]
  simp only
  rw [h _ _ (scanChr_length _ _ _ _)]
  by_cases hnum : (c.isDigit || (c == '.' && (cs.head?.map Char.isDigit).getD false)) = true
  · rw [stepNum_congr k k' m c cs hnum h]
    by_cases hns : isNameStart c = true
    · rw [stepName_congr k k' c cs hns h]
    · simp [hns]
  · by_cases hns : isNameStart c = true
    · rw [stepName_congr k k' c cs hns h]
      simp [hnum]
    · simp [hnum, hns]

end

/-- fuel independence: any two fuels larger than the text give the same tokens -/
theorem lexGo_fuel : ∀ (b : Nat) (s : Str), s.length ≤ b → ∀ (m : Mode) (n n' : Nat),
    s.length < n → s.length < n' → lexGo n m s = lexGo n' m s := by
  intro b
  induction b with
  | zero =>
    intro s hs m n n' hn hn'
    have : s = [] := by cases s <;> simp_all
    subst this
    cases n with
    | zero => simp at hn
    | succ n =>
      cases n' with
      | zero => simp at hn'
      | succ n' => simp [lexGo]
  | succ b ih =>
    intro s hs m n n' hn hn'
    cases s with
    | nil =>
      cases n with
      | zero => simp at hn
      | succ n =>
        cases n' with
        | zero => simp at hn'
        | succ n' => simp [lexGo]
    | cons c cs =>
      cases n with
      | zero => simp at hn
      | succ n =>
        cases n' with
        | zero => simp at hn'
        | succ n' =>
          rw [lexGo_succ, lexGo_succ]
          apply stepF_congr (lexGo n) (lexGo n')
          intro m' r hr
          simp at hs hn hn'
          exact ih r (by omega) m' n n' (by omega) (by omega)

end Fp.Norm
