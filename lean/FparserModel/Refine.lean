import FparserModel.Reader
import FparserModel.Block
import FparserModel.Proofs.ReaderWalk

/-!
# Refine — the reader model M-B implements the abstract item stream of the block model M-D

`Fp.Block` runs over an abstract `Stream` (`buf` = items put back, `rest` = what the source will
still deliver, `pulled` = high-water mark of items taken from the source, `eof`).  `Fp.Reader`
is the model of `FortranReaderBase`.  This file holds the definitions of the refinement:

* `absItem` / `absItems`   a reader item seen by the block matcher: identity = its position in the
                           sequence of items the reader delivers, kind, "is a directive comment";
* `absStream`              the abstraction FUNCTION of a reader chain that has delivered `k` items
                           and holds no item that was put back: the items of its `drainEv` future;
* `Abs`                    the abstraction RELATION for every reachable situation: the reader chain
                           is `putMany (items put back) hw`, where `hw` (the high-water state) is
                           the chain after exactly `pulled` plain `get_item` calls;
* `cget`                   `get_item()` as the block matcher sees it (`None` for everything but an item);
* `Sim`                    joint executions: one `getItem` ~ one `Stream.get`, one `putItem` ~ one
                           `Stream.put`;
* `absWalk`, `HeldRel`     the abstract counterpart of `Reader.runWalk` (the look-ahead discipline:
                           `p` puts back the most recently read item that has not been put back yet);
* `Lifo`                   that discipline as a decidable predicate on the get/put events of a
                           block-model log.

No Mathlib.  Theorems: `Proofs/Refine*.lean`, `Props/Refine.lean` (simulation, existence of a
represented reader chain after every block-model run, C07 / C11 / C12 end to end).
-/
namespace Fp.Refine
open Fp Fp.Reader

/-- the block model's item kind of a reader item: `SyntaxErrorLine` is a `Line`;
    `CppDirective` is what `match_cpp_directive` looks for; `Comment` -/
def absKind : Item → Block.ItemKind
  | .line .. => .line
  | .synerr .. => .line
  | .cpp .. => .cpp
  | .comment .. => .comment

/-- the item with position `i` in the delivery order, as the block matcher sees it.
    `dir x` = `Directive.__new__` accepts the comment `x` (a property of the comment text only). -/
def absItem (dir : Item → Bool) (i : Nat) (x : Item) : Block.Item :=
  { id := i, kind := absKind x, directive := x.isComment && dir x }

/-- consecutive items, numbered from `k` -/
def absItems (dir : Item → Bool) : Nat → List Item → List Block.Item
  | _, [] => []
  | k, x :: xs => absItem dir k x :: absItems dir (k + 1) xs

/-- the items the reader chain will still deliver (`drainEv` with the given fuel) -/
def futureItems (d : Nat) (fs : Fs) (fuel : Nat) (st : List Rd) : List Item :=
  match drainEv d fs fuel st with
  | some (evs, _) => evs.filterMap Ev.item?
  | none => []

/-- ABSTRACTION FUNCTION: a reader chain that has delivered `k` items so far and holds no item
    that was put back, as a `Block.Stream` -/
def absStream (dir : Item → Bool) (d : Nat) (fs : Fs) (fuel : Nat) (st : List Rd) (k : Nat) :
    Block.Stream :=
  { buf := [], rest := absItems dir k (futureItems d fs fuel st), pulled := k, eof := false }

/-- `reader.get_item()` as the parser sees it: an item or `None` -/
def cget (d : Nat) (fs : Fs) (rd : List Rd) : Option Item × List Rd :=
  match getItem (d + 1) fs rd with
  | (.ok x, rd') => (some x, rd')
  | (_, rd') => (none, rd')

/-- the reader item an abstract item stands for: the item at that position of the delivery order -/
def decode (xs0 : List Item) (a : Block.Item) : Option Item := xs0[a.id]?

/-- ABSTRACTION RELATION.  `st0` is the reader chain at the start, `xs0` everything it delivers
    (`Drains st0 (evItems xs0) fin0`).  `rd` is represented by `s` when

    * `rd = putMany (the items put back, most recent first) hw` for the high-water chain `hw`;
    * every item put back may be put back (`returnable`, w.r.t. the innermost reader of `hw`) and
      carries the identity of a position of `xs0` holding that item;
    * `s.buf` is the image of the items put back, `s.rest` the image of `xs0` from position
      `s.pulled`, and that is also the `Drains` future of `hw`;
    * `hw` is the chain after exactly `s.pulled` successful `get_item` calls on `st0` — or, once
      a read has hit the end of the source (`s.eof`), the exhausted final chain;
    * no more than `|xs0|` items have been pulled. -/
def Abs (dir : Item → Bool) (d : Nat) (fs : Fs) (st0 : List Rd) (xs0 : List Item) (fin0 : List Rd)
    (rd : List Rd) (s : Block.Stream) : Prop :=
  ∃ (bx : List (Nat × Item)) (hw : List Rd) (r : Rd),
    rd = putMany (bx.map Prod.snd) hw ∧
    innermost hw = some r ∧
    (∀ p ∈ bx, returnable fs r p.2 = true ∧ xs0[p.1]? = some p.2) ∧
    s.buf = bx.map (fun p => absItem dir p.1 p.2) ∧
    s.rest = absItems dir s.pulled (xs0.drop s.pulled) ∧
    Drains (d + 1) fs hw (evItems (xs0.drop s.pulled)) fin0 ∧
    (s.eof = false → getN (d + 1) fs s.pulled st0 = some (xs0.take s.pulled, hw)) ∧
    (s.eof = true → xs0.length ≤ s.pulled ∧ exhausted hw = true) ∧
    s.pulled ≤ xs0.length

/-- result of a `get`: the reader's item and the stream's item are the same item of `xs0` -/
def GetRel (dir : Item → Bool) (xs0 : List Item) : Option Item → Option Block.Item → Prop
  | some x, some a => a = absItem dir a.id x ∧ xs0[a.id]? = some x
  | none, none => True
  | _, _ => False

/-- JOINT EXECUTIONS of a reader chain and a stream: any interleaving of
    `get_item` ~ `Stream.get` and `put_item x` ~ `Stream.put (absItem i x)`, where `x` may be put
    back (`returnable`) and is the item at position `i` of the delivery order. -/
inductive Sim (dir : Item → Bool) (d : Nat) (fs : Fs) (xs0 : List Item) :
    List Rd → Block.Stream → List Rd → Block.Stream → Prop where
  | refl (rd : List Rd) (s : Block.Stream) : Sim dir d fs xs0 rd s rd s
  | get {rd s rd1 s1} : Sim dir d fs xs0 rd s rd1 s1 →
      Sim dir d fs xs0 rd s (cget d fs rd1).2 s1.get.2
  | put {rd s rd1 s1} (r : Rd) (x : Item) (i : Nat) : Sim dir d fs xs0 rd s rd1 s1 →
      innermost rd1 = some r → returnable fs r x = true → xs0[i]? = some x →
      Sim dir d fs xs0 rd s (putItem x rd1) (s1.put (absItem dir i x))

/-- the abstract counterpart of `Reader.runWalk`: `g` = `Stream.get` (must deliver an item),
    `p` = `Stream.put` of the most recently read item that has not been put back yet -/
def absWalk : List Op → Block.Stream → List Block.Item → Option (Block.Stream × List Block.Item)
  | [], s, held => some (s, held)
  | .g :: w, s, held =>
    match s.get with
    | (some a, s') => absWalk w s' (a :: held)
    | (none, _) => none
  | .p :: _, _, [] => none
  | .p :: w, s, a :: held => absWalk w (s.put a) held

/-- the items held by a walk on the reader and by the same walk on the stream correspond -/
def HeldRel (dir : Item → Bool) (xs0 : List Item) : List Item → List Block.Item → Prop
  | [], [] => True
  | x :: xs, a :: as => (a = absItem dir a.id x ∧ xs0[a.id]? = some x) ∧ HeldRel dir xs0 xs as
  | _, _ => False

/-- THE GET/PUT DISCIPLINE of the block matcher as a predicate on the get/put events of a log
    (oldest event first): every `put i` gives back the most recently read item that has not been
    given back yet (`held` = identities of the items read and not given back, newest first).
    Items that end up in a returned tree simply stay held. -/
def Lifo : List Nat → List Block.Ev → Bool
  | _, [] => true
  | held, .get (some i) :: l => Lifo (i :: held) l
  | i' :: held, .put i :: l => i == i' && Lifo held l
  | [], .put _ :: _ => false
  | held, _ :: l => Lifo held l

/-- the `Reader.Op` walk of a log that satisfies `Lifo` (a `get` that returned `None` and all
    non-stream events are dropped) -/
def opsOfLog : List Block.Ev → List Op
  | [] => []
  | .get (some _) :: l => .g :: opsOfLog l
  | .put _ :: l => .p :: opsOfLog l
  | _ :: l => opsOfLog l

end Fp.Refine
