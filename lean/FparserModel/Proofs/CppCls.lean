import FparserModel.Proofs.CppScan

/-! # per-class evaluation lemmas for the Cpp slice, and "at most one class accepts" -/
namespace Fp.Cpp
open Fp

/-- the keywords of the `WORDClsBase` classes that are driven by a `^\s*#\s*KW\b` pattern -/
def kwsOf : Cls → List Str
  | .ifStmt => [kIf, kIfdef, kIfndef]
  | .elifStmt => [kElif]
  | .undefStmt => [kUndef]
  | .lineStmt => [kLine]
  | .errorStmt => [kError]
  | .warningStmt => [kWarning]
  | _ => []

/-- the payload class is `Cpp_Macro_Identifier` (else `Cpp_Pp_Tokens`) -/
def argOf (w : Str) : Str → Option Str := if identArg w then macroIdent else ppTokens
/-- `require_cls` -/
def requireCls (c : Cls) : Bool := !(c = .errorStmt || c = .warningStmt)

def allKws : List Str :=
  [kIf, kIfdef, kIfndef, kElif, kElse, kEndif, kInclude, kDefine, kUndef, kLine, kError, kWarning]

theorem allKws_KW : ∀ w ∈ allKws, KW w := by
  unfold KW; decide

theorem kwsOf_allKws {c : Cls} {w : Str} (h : w ∈ kwsOf c) : w ∈ allKws := by
  cases c <;> simp [kwsOf] at h <;> (try rcases h with h | h | h) <;> subst_vars <;> decide

theorem shape_ne_nil {s : Str} {x : Str × Str} (h : shape s = some x) : s ≠ [] := by
  intro h0; subst h0; cases h

/-- two keywords cannot both be the word after `#` -/
theorem kwPrefix_none_of_shape {s w line kw : Str} (hs : shape s = some (w, line)) (hk : KW kw)
    (hne : kw ≠ w) : kwPrefix kw s = none := by
  cases h : kwPrefix kw s with
  | none => rfl
  | some r =>
    have := kwPrefix_shape hk h
    rw [hs] at this
    simp only [Option.some.injEq, Prod.mk.injEq] at this
    exact absurd this.1.symm hne

theorem wordKw_none_of_shape {s w line kw : Str} (hs : shape s = some (w, line)) (hk : KW kw)
    (hne : kw ≠ w) (req : Bool) (am : Str → Option Str) : wordKw kw req am s = none := by
  simp [wordKw, kwPrefix_none_of_shape hs hk hne]

theorem wordKw_of_shape {s w line : Str} (hs : shape s = some (w, line)) (hk : KW w)
    (req : Bool) (am : Str → Option Str) : wordKw w req am s = wordTail ('#' :: w) req am line := by
  simp [wordKw, shape_kwPrefix hk hs]

theorem argOf_tokens {w : Str} (h : identArg w = false) : argOf w = ppTokens := by
  unfold argOf; simp [h]
theorem argOf_ident {w : Str} (h : identArg w = true) : argOf w = macroIdent := by
  unfold argOf; simp [h]

theorem KW_if : KW kIf := by unfold KW; decide
theorem KW_ifdef : KW kIfdef := by unfold KW; decide
theorem KW_ifndef : KW kIfndef := by unfold KW; decide
theorem KW_elif : KW kElif := by unfold KW; decide
theorem KW_else : KW kElse := by unfold KW; decide
theorem KW_endif : KW kEndif := by unfold KW; decide
theorem KW_include : KW kInclude := by unfold KW; decide
theorem KW_define : KW kDefine := by unfold KW; decide
theorem KW_undef : KW kUndef := by unfold KW; decide
theorem KW_line : KW kLine := by unfold KW; decide
theorem KW_error : KW kError := by unfold KW; decide
theorem KW_warning : KW kWarning := by unfold KW; decide

/-- evaluation of a keyword-driven `WORDClsBase` class on a line of known shape -/
theorem matchCls_word_eval {c : Cls} {s w line : Str} (hs : shape s = some (w, line))
    (hw : w ∈ kwsOf c) :
    matchCls c s = mkWord c (wordTail ('#' :: w) (requireCls c) (argOf w) line) := by
  have hne := shape_ne_nil hs
  cases c <;> simp only [kwsOf, List.mem_cons, List.not_mem_nil, or_false] at hw
  case ifStmt =>
    simp only [matchCls, matchIf, hne, if_false]
    have e1 : requireCls .ifStmt = true := rfl
    rw [e1]
    rcases hw with rfl | rfl | rfl
    · rw [wordKw_of_shape hs KW_if, argOf_tokens (by decide)]
      cases hh : wordTail ('#' :: kIf) true ppTokens line with
      | some r => rfl
      | none =>
        simp only []
        rw [wordKw_none_of_shape hs KW_ifdef (by decide), wordKw_none_of_shape hs KW_ifndef (by decide)]
    · rw [wordKw_none_of_shape hs KW_if (by decide), wordKw_of_shape hs KW_ifdef,
        argOf_ident (by decide)]
      simp only []
      cases hh : wordTail ('#' :: kIfdef) true macroIdent line with
      | some r => rfl
      | none =>
        simp only []
        rw [wordKw_none_of_shape hs KW_ifndef (by decide)]
    · rw [wordKw_none_of_shape hs KW_if (by decide), wordKw_none_of_shape hs KW_ifdef (by decide),
        wordKw_of_shape hs KW_ifndef, argOf_ident (by decide)]
  case elifStmt =>
    subst hw
    simp only [matchCls, matchElif, hne, if_false]
    rw [wordKw_of_shape hs KW_elif, argOf_tokens (by decide)]; rfl
  case undefStmt =>
    subst hw
    simp only [matchCls, matchUndef, hne, if_false]
    rw [wordKw_of_shape hs KW_undef, argOf_ident (by decide)]; rfl
  case lineStmt =>
    subst hw
    simp only [matchCls, matchLine, hne, if_false]
    rw [wordKw_of_shape hs KW_line, argOf_tokens (by decide)]; rfl
  case errorStmt =>
    subst hw
    simp only [matchCls, matchError, hne, if_false]
    rw [wordKw_of_shape hs KW_error, argOf_tokens (by decide)]; rfl
  case warningStmt =>
    subst hw
    simp only [matchCls, matchWarning, hne, if_false]
    rw [wordKw_of_shape hs KW_warning, argOf_tokens (by decide)]; rfl
  all_goals exact absurd hw (by simp)

theorem wordKw_some_shape {kw s : Str} {req : Bool} {am : Str → Option Str} {r : Str × Option Str}
    (hk : KW kw) (h : wordKw kw req am s = some r) : ∃ line, shape s = some (kw, line) := by
  unfold wordKw at h
  split at h
  · rename_i line hl; exact ⟨line, kwPrefix_shape hk hl⟩
  · cases h

theorem mkWord_some {c : Cls} {x : Option (Str × Option Str)} {n : Node} (h : mkWord c x = some n) :
    ∃ v a, x = some (v, a) ∧ n = .word c v a := by
  cases x with
  | none => cases h
  | some r => obtain ⟨v, a⟩ := r; simp only [mkWord, Option.some.injEq] at h; exact ⟨v, a, rfl, h.symm⟩

/-- a keyword-driven class accepts only lines whose word after `#` is one of its keywords -/
theorem matchCls_word_shape {c : Cls} {s : Str} {n : Node} (hc : kwsOf c ≠ [])
    (h : matchCls c s = some n) : ∃ w line, w ∈ kwsOf c ∧ shape s = some (w, line) := by
  cases c <;> simp only [kwsOf, ne_eq, not_true_eq_false] at hc
  case ifStmt =>
    simp only [matchCls, matchIf] at h
    split at h
    · cases h
    · split at h
      · rename_i r hr
        obtain ⟨line, hl⟩ := wordKw_some_shape KW_if hr
        exact ⟨kIf, line, by simp [kwsOf], hl⟩
      · split at h
        · rename_i r hr
          obtain ⟨line, hl⟩ := wordKw_some_shape (by unfold KW; decide) hr
          exact ⟨kIfdef, line, by simp [kwsOf], hl⟩
        · obtain ⟨v, a, hx, _⟩ := mkWord_some h
          obtain ⟨line, hl⟩ := wordKw_some_shape (by unfold KW; decide) hx
          exact ⟨kIfndef, line, by simp [kwsOf], hl⟩
  case elifStmt =>
    simp only [matchCls, matchElif] at h
    split at h
    · cases h
    · obtain ⟨v, a, hx, _⟩ := mkWord_some h
      obtain ⟨line, hl⟩ := wordKw_some_shape (by unfold KW; decide) hx
      exact ⟨kElif, line, by simp [kwsOf], hl⟩
  case undefStmt =>
    simp only [matchCls, matchUndef] at h
    split at h
    · cases h
    · obtain ⟨v, a, hx, _⟩ := mkWord_some h
      obtain ⟨line, hl⟩ := wordKw_some_shape (by unfold KW; decide) hx
      exact ⟨kUndef, line, by simp [kwsOf], hl⟩
  case lineStmt =>
    simp only [matchCls, matchLine] at h
    split at h
    · cases h
    · obtain ⟨v, a, hx, _⟩ := mkWord_some h
      obtain ⟨line, hl⟩ := wordKw_some_shape (by unfold KW; decide) hx
      exact ⟨kLine, line, by simp [kwsOf], hl⟩
  case errorStmt =>
    simp only [matchCls, matchError] at h
    split at h
    · cases h
    · obtain ⟨v, a, hx, _⟩ := mkWord_some h
      obtain ⟨line, hl⟩ := wordKw_some_shape (by unfold KW; decide) hx
      exact ⟨kError, line, by simp [kwsOf], hl⟩
  case warningStmt =>
    simp only [matchCls, matchWarning] at h
    split at h
    · cases h
    · obtain ⟨v, a, hx, _⟩ := mkWord_some h
      obtain ⟨line, hl⟩ := wordKw_some_shape (by unfold KW; decide) hx
      exact ⟨kWarning, line, by simp [kwsOf], hl⟩

/-! ## `WORDClsBase.match` after the keyword -/
theorem ppTokens_some {l t : Str} (h : ppTokens l = some t) : t = strip l ∧ t ≠ [] := by
  unfold ppTokens at h
  split at h
  · cases h
  · simp only at h
    split at h
    · cases h
    · rename_i hne; cases h; exact ⟨rfl, hne⟩

theorem ppTokens_intro {l : Str} (h : strip l ≠ []) : ppTokens l = some (strip l) := by
  have hl : l ≠ [] := by intro h0; subst h0; exact h rfl
  simp [ppTokens, hl, h]

theorem macroIdent_some {l t : Str} (h : macroIdent l = some t) : t = strip l ∧ absMacroName t = true := by
  unfold macroIdent at h
  simp only at h
  split at h
  · rename_i ha; cases h; exact ⟨rfl, ha⟩
  · cases h

theorem absMacroName_ne_nil {t : Str} (h : absMacroName t = true) : t ≠ [] := by
  intro h0; subst h0; cases h

theorem argOf_some {w l t : Str} (h : argOf w l = some t) :
    t = strip l ∧ t ≠ [] ∧ (identArg w = true → absMacroName t = true) := by
  unfold argOf at h
  split at h
  · obtain ⟨h1, h2⟩ := macroIdent_some h
    exact ⟨h1, absMacroName_ne_nil h2, fun _ => h2⟩
  · rename_i hi
    obtain ⟨h1, h2⟩ := ppTokens_some h
    exact ⟨h1, h2, fun hi' => absurd hi' hi⟩

theorem argOf_intro {w l : Str} (h : strip l ≠ []) (hi : identArg w = true → absMacroName (strip l) = true) :
    argOf w l = some (strip l) := by
  unfold argOf
  split
  · rename_i hw; simp [macroIdent, hi hw]
  · exact ppTokens_intro h

theorem isAlnumU_eq (c : Char) : isAlnumU c = isWord c := rfl

theorem wordTail_elim {v : Str} {req : Bool} {am : Str → Option Str} {line : Str} {r : Str × Option Str}
    (h : wordTail v req am line = some r) :
    r.1 = v ∧ ((r.2 = none ∧ req = false ∧ allSp line) ∨
      (∃ t, r.2 = some t ∧ am (lstrip line) = some t ∧ lstrip line ≠ [])) := by
  unfold wordTail at h
  split at h
  · split at h
    · cases h
    · rename_i hr; cases h; exact ⟨rfl, Or.inl ⟨rfl, by simpa using hr, allSp_nil⟩⟩
  · rename_i c rest
    split at h
    · cases h
    · simp only at h
      split at h
      · rename_i hl
        split at h
        · cases h
        · rename_i hr; cases h
          exact ⟨rfl, Or.inl ⟨rfl, by simpa using hr, lstrip_eq_nil hl⟩⟩
      · rename_i hl
        split at h
        · rename_i a ha; cases h; exact ⟨rfl, Or.inr ⟨a, rfl, ha, hl⟩⟩
        · cases h

/-- with a line that starts at a word boundary, the `isalnum` test never fires -/
theorem wordTail_arg {v : Str} {req : Bool} {am : Str → Option Str} {line t : Str}
    (hb : boundary line = true) (hne : lstrip line ≠ []) (ha : am (lstrip line) = some t) :
    wordTail v req am line = some (v, some t) := by
  unfold wordTail
  cases line with
  | nil => exact absurd rfl hne
  | cons c rest =>
    have : isAlnumU c = false := by rw [isAlnumU_eq]; simpa [boundary] using hb
    simp [this, hne, ha]

theorem wordTail_noarg {v : Str} {am : Str → Option Str} {line : Str}
    (hb : boundary line = true) (hsp : allSp line) :
    wordTail v false am line = some (v, none) := by
  unfold wordTail
  cases line with
  | nil => rfl
  | cons c rest =>
    have : isAlnumU c = false := by rw [isAlnumU_eq]; simpa [boundary] using hb
    simp [this, lstrip_allSp hsp]

theorem wordTail_reject {v : Str} {req : Bool} {am : Str → Option Str} {line : Str}
    (h : (allSp line ∧ req = true) ∨ (lstrip line ≠ [] ∧ am (lstrip line) = none)) :
    wordTail v req am line = none := by
  unfold wordTail
  cases line with
  | nil =>
    rcases h with ⟨_, hr⟩ | ⟨hl, _⟩
    · simp [hr]
    · exact absurd rfl hl
  | cons c rest =>
    by_cases hc : isAlnumU c = true
    · simp [hc]
    · simp only [hc]
      rcases h with ⟨hs, hr⟩ | ⟨hl, ha⟩
      · simp [lstrip_allSp hs, hr]
      · simp [hl, ha]

/-! ## the other classes -/
theorem matchElse_elim {s : Str} {n : Node} (h : matchCls .elseStmt s = some n) :
    n = .str .elseStmt s ∧ ∃ line, shape s = some (kElse, line) := by
  simp only [matchCls, matchElse] at h
  split at h
  · cases h
  · split at h
    · rename_i r hr; cases h; exact ⟨rfl, r, kwPrefix_shape (by unfold KW; decide) hr⟩
    · cases h

theorem matchEndif_elim {s : Str} {n : Node} (h : matchCls .endifStmt s = some n) :
    n = .str .endifStmt s ∧ ∃ line, shape s = some (kEndif, line) := by
  simp only [matchCls, matchEndif] at h
  split at h
  · cases h
  · split at h
    · rename_i r hr; cases h; exact ⟨rfl, r, kwPrefix_shape (by unfold KW; decide) hr⟩
    · cases h

theorem matchElse_intro {s line : Str} (h : shape s = some (kElse, line)) :
    matchCls .elseStmt s = some (.str .elseStmt s) := by
  simp [matchCls, matchElse, shape_ne_nil h, shape_kwPrefix (by unfold KW; decide) h]

theorem matchEndif_intro {s line : Str} (h : shape s = some (kEndif, line)) :
    matchCls .endifStmt s = some (.str .endifStmt s) := by
  simp [matchCls, matchEndif, shape_ne_nil h, shape_kwPrefix (by unfold KW; decide) h]

theorem matchInclude_eq (s : Str) (hne : s ≠ []) :
    matchCls .includeStmt s =
      match hashKw kInclude (strip s) with
      | none => none
      | some rest => (includeArg (strip rest)).map Node.include := by
  simp only [matchCls, matchInclude, hne, if_false]
  rfl

theorem includeArg_elim {rhs f : Str} (h : includeArg rhs = some f) :
    fileName f = true ∧ (rhs = '"' :: (f ++ ['"']) ∨ rhs = '<' :: (f ++ ['>'])) := by
  unfold includeArg at h
  split at h
  · cases h
  · rename_i hlen
    simp only at h
    split at h
    · cases h
    · rename_i hq
      unfold includeFilename at h
      split at h
      · rename_i hf
        cases h
        refine ⟨hf, ?_⟩
        -- rhs = a :: mid ++ [z]
        cases rhs with
        | nil => simp at hlen
        | cons a t =>
          have htne : t ≠ [] := by intro h0; subst h0; simp at hlen
          have ht : t = t.dropLast ++ [t.getLast htne] := (List.dropLast_concat_getLast htne).symm
          have hz : (a :: t).getLast? = some (t.getLast htne) := by
            rw [show a :: t = [a] ++ t from rfl, getLast?_append_ne htne]
            exact List.getLast?_eq_some_getLast htne
          simp only [List.head?_cons, Option.getD_some, hz, List.drop_succ_cons, List.drop_zero] at hq ⊢
          have hq' : (a = '"' ∧ t.getLast htne = '"') ∨ (a = '<' ∧ t.getLast htne = '>') := by
            by_cases h1 : a = '"' ∧ t.getLast htne = '"'
            · exact Or.inl h1
            · by_cases h2 : a = '<' ∧ t.getLast htne = '>'
              · exact Or.inr h2
              · exfalso; apply hq
                simp only [Bool.and_eq_true, Bool.not_eq_true', Bool.and_eq_false_iff]
                constructor
                · by_cases ha : a = '"'
                  · right; simpa using fun hh => h1 ⟨ha, hh⟩
                  · left; simpa using ha
                · by_cases ha : a = '<'
                  · right; simpa using fun hh => h2 ⟨ha, hh⟩
                  · left; simpa using ha
          rcases hq' with ⟨ha, hz'⟩ | ⟨ha, hz'⟩
          · left; rw [ha]; congr 1; rw [← hz']; exact ht
          · right; rw [ha]; congr 1; rw [← hz']; exact ht
      · cases h

end Fp.Cpp
