#!/bin/sh
# development aid: run every check's quick (or $1) tier, print one line each
tier=${1:-quick}
cd "$(dirname "$0")/.."
for i in 01 02 03 04 05 06 07 08 09 10 11 12 13 14 15 16 17 18 19 20; do
  out=$(timeout 3000 ./check C$i $tier 2>&1); rc=$?
  echo "rc=$rc $(echo "$out" | grep "^C$i $tier" | tail -1)"
  echo "$out" | grep "^VIOLATION\|^HARNESS" | head -3
done
