import FparserModel.Registry
import FparserModel.Generated.Classes2008
import FparserModel.Generated.Intrinsics
/-!
# Properties of the parser-factory model (C09, C17)

Unbounded: `create_overwrites` and friends (every history).
Closed statements over the GENERATED tables (the real class facts and the REAL
`Base.subclasses` of both standards, see `fv/extract_classes.py`) by `decide +kernel`.
-/
namespace Fp.Registry

/-! ## histories (C09) -/

/-- **create_overwrites** (C09).  After any history of `create` calls and symbol-table
    activity, a `create(std)` leaves exactly `setup (members std)` in `Base.subclasses`:
    the registry depends only on the last (valid) `create`. -/
theorem create_overwrites (w : World) (h : List Ev) (s : Std) :
    registryAfter w (h ++ [.create (.std s)]) = setup w (members w s) := by
  simp [registryAfter, run, List.foldl_append, step, StdArg.resolve]

/-- `create()` / `create(None)` is `create("f2003")` -/
theorem create_default (w : World) (h : List Ev) :
    registryAfter w (h ++ [.create .default]) = setup w (members w .f2003) := by
  simp [registryAfter, run, List.foldl_append, step, StdArg.resolve]

/-- every `create` (valid or not) clears the global symbol tables … -/
theorem create_clears_tables (w : World) (g : Global) (h : List Ev) (a : StdArg) :
    (run w g (h ++ [.create a])).tabs.tops = [] ∧ (run w g (h ++ [.create a])).tabs.cur = none := by
  cases ha : a.resolve <;> simp [run, List.foldl_append, step, ha, SymTab.Tables.clear]

/-- … but not the `_enable_checks` flag: it leaks from one parse to the next -/
theorem create_keeps_checks_flag (w : World) (g : Global) (h : List Ev) (a : StdArg) :
    (run w g (h ++ [.create a])).tabs.checks = (run w g h).tabs.checks := by
  cases ha : a.resolve <;> simp [run, List.foldl_append, step, ha, SymTab.Tables.clear]

/-- an invalid `std` raises `ValueError` AFTER the tables were cleared and leaves the
    registry of the previous `create` in place -/
theorem create_invalid_keeps_registry (w : World) (h : List Ev) :
    registryAfter w (h ++ [.create .invalid]) = registryAfter w h := by
  simp [registryAfter, run, List.foldl_append, step, StdArg.resolve]

/-- symbol-table activity (a parse) never touches the registry -/
theorem symtab_keeps_registry (w : World) (h : List Ev) (f : SymTab.Tables → SymTab.Tables) :
    registryAfter w (h ++ [.symtab f]) = registryAfter w h := by
  simp [registryAfter, run, List.foldl_append, step]

/-- corollary: two histories ending in the same valid `create` give the same registry -/
theorem registry_depends_only_on_last_create (w : World) (h1 h2 : List Ev) (s : Std) :
    registryAfter w (h1 ++ [.create (.std s)]) = registryAfter w (h2 ++ [.create (.std s)]) := by
  rw [create_overwrites, create_overwrites]

/-- non-vacuity: a two-class world where the 2008 class of the same name wins -/
example :
    let w : World := ⟨[⟨0, 0, 0, true, false, false, some [1], none, false, false, false, true, true, true⟩,
                        ⟨1, 1, 0, true, false, true, some [], none, false, false, false, true, true, true⟩,
                        ⟨2, 1, 1, true, false, true, some [], none, false, false, false, true, true, true⟩],
                       [(0, 0), (1, 1)], [(1, 2)]⟩
    registryAfter w [.create (.std .f2008), .create (.std .f2003)] = [(0, [1]), (1, [])]
    ∧ registryAfter w [.create (.std .f2003), .create .invalid, .create (.std .f2008)] = [(1, []), (0, [2])] := by
  decide

/-! ## the generated tables (C17) -/

open Fp.Generated

/-- everything `create` reads, as extracted from the real modules -/
def genWorld : World := ⟨allClasses, raw2003, raw2008⟩

/-- (2003 cid, 2008 cid) for every class of the Fortran2008 package that has the name of a
    Fortran2003 class: the class it replaces under `create("f2008")` -/
def overridePairs : List (Nat × Nat) :=
  classes2008.filterMap fun c8 =>
    if c8.mod == 1 && c8.isRule && !c8.endsBase then
      (classes2003.find? (fun c => c.name == c8.name && c.mod == 0)).map fun c => (c.cid, c8.cid)
    else none

/-- map an overridden class to the overriding one -/
def ov (cid : Nat) : Nat := (nGet overridePairs cid).getD cid

/-- the 2008 alternative list of rule `e.1` contains the (mapped) 2003 list as a subsequence -/
def coveredBy08 (e : Nat × List Nat) : Bool :=
  match nGet real2008 e.1 with
  | some l8 => isSubseq (e.2.map ov) l8
  | none => false

/-- name id of the one rule whose alternatives were *replaced* rather than extended -/
def stopCodeRule : Nat := (names.findIdx? (· == "Stop_Code")).getD 0

/- Full statement (FALSE on the pinned tree, see `registry_stop_code_witness`):
     theorem registry_f2008_covers_f2003 : ∀ e ∈ real2003, coveredBy08 e = true -/

/-- **registry_f2008_covers_f2003** (partial, C17).  For every rule name of the REAL f2003
    registry except `Stop_Code`, the REAL f2008 registry has that rule, and its alternative
    list contains the f2003 alternatives — overridden classes replaced by the overriding
    ones — in the same relative order: F2008 drops and reorders no alternative. -/
theorem registry_f2008_covers_f2003_partial :
    ∀ e ∈ real2003, e.1 ≠ stopCodeRule → coveredBy08 e = true := by
  decide +kernel

/-- the exception: the F2003 `Stop_Code` descends to the literal constants and `Name`
    (via `Scalar_Char_Constant`), the F2008 `Stop_Code` to `Default_Char_Expr` and `Int_Expr`
    (R857 generalises the stop code to an expression) -/
theorem registry_stop_code_witness :
    ∃ e ∈ real2003, e.1 = stopCodeRule ∧ coveredBy08 e = false
      ∧ (names.getD e.1 "" = "Stop_Code")
      ∧ ((nGet real2008 e.1).map fun l => l.map fun c => ((allClasses[c]?).map fun k => names.getD k.name ""))
          = some [some "Default_Char_Expr", some "Int_Expr"] := by
  decide +kernel

/-- **setup_matches_generated**, executable form: the model's `setup (members std)` over the
    generated class facts equals the generated REAL `Base.subclasses`, both standards.
    `decide +kernel` of `setup_matches_generated_check = true` needs ≈ 9 minutes, so this is
    NOT a kernel theorem: it is evaluated by the compiled driver (command `regcheck`) in every
    run of `fv.cosim_symtree`, which also compares the model registry with the live
    `Base.subclasses` after random `create` histories. -/
def setup_matches_generated_check : Bool :=
  (setup genWorld (members genWorld .f2003) == real2003)
  && (setup genWorld (members genWorld .f2008) == real2008)

/-- the generated `cid`s are positions, and no class listed with Fortran2003 belongs to the
    Fortran2008 package -/
theorem generated_cids_wellformed :
    ((allClasses.zipIdx).all fun p => p.1.cid == p.2) = true
    ∧ (classes2003.all fun c => c.mod != 1) = true := by
  decide +kernel

/-- **f2003_has_no_f2008_class** (C17/C09).  No class of the Fortran2008 package occurs in
    the REAL registry left by `create("f2003")` — also when it is called after
    `create("f2008")` (the cosim checks the real registry after arbitrary histories). -/
theorem f2003_has_no_f2008_class :
    ∀ e ∈ real2003, ∀ cid ∈ e.2, ∃ c, allClasses[cid]? = some c ∧ c.mod ≠ 1 := by
  have h : (real2003.all fun e => e.2.all fun cid =>
      match allClasses[cid]? with | some c => c.mod != 1 | none => false) = true := by decide +kernel
  intro e he cid hc
  have := (List.all_eq_true.1 h) e he
  have := (List.all_eq_true.1 this) cid hc
  cases hq : allClasses[cid]? with
  | none => simp [hq] at this
  | some c => exact ⟨c, rfl, by simpa [hq] using this⟩

/-- every rule name of the f2003 registry is a rule name of the f2008 registry -/
theorem f2008_has_every_f2003_rule :
    ∀ e ∈ real2003, (nGet real2008 e.1).isSome = true := by
  decide +kernel

/-- **intr2003_subset_intr2008** (C17).  Every F2003 intrinsic name is an F2008 intrinsic
    name, with the same argument range, and the specific→generic map is identical. -/
theorem intr2003_subset_intr2008 :
    (∀ n ∈ intrNames2003, n ∈ intrNames2008)
    ∧ (∀ g ∈ intrGeneric2003, g ∈ intrGeneric2008)
    ∧ intrSpecific2003 = intrSpecific2008 := by
  decide +kernel

/-- the arity test never hits a missing key: every listed name has an entry -/
theorem intr_tables_closed :
    (∀ n ∈ intrNames2008, (intrGeneric2008.any (·.1 == n) || intrSpecific2008.any (·.1 == n)) = true)
    ∧ (∀ p ∈ intrSpecific2008, intrGeneric2008.any (·.1 == p.2) = true)
    ∧ (∀ n ∈ intrNames2003, (intrGeneric2003.any (·.1 == n) || intrSpecific2003.any (·.1 == n)) = true)
    ∧ (∀ p ∈ intrSpecific2003, intrGeneric2003.any (·.1 == p.2) = true) := by
  decide +kernel

end Fp.Registry
