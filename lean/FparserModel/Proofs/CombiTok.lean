import FparserModel.Proofs.CombiBasic
/-!
The tokeniser on FLAT lines (no quotation mark, backslash, opening bracket, exponent constant):
`string_replace_map` is the identity and the map is empty.  Plus `split`/`join`.
(helper file of `Props/Combi.lean`)
-/
namespace Fp.Combi
open Fp Fp.Splitline

/-- a character that none of the three loops of `string_replace_map` reacts to -/
def plainChar (c : Char) : Bool :=
  !(c == '\'' || c == '"' || c == '\\' || c == '(' || c == '[')

/-- no quotation mark, backslash or opening bracket, and no exponent constant -/
def Flat (s : Str) : Prop := s.all plainChar = true ∧ expConsts s = []

instance (s : Str) : Decidable (Flat s) := inferInstanceAs (Decidable (_ ∧ _))

theorem spanPlain_plain : ∀ (s : Str), s.all plainChar = true → spanPlain s = (s, [])
  | [], _ => rfl
  | c :: cs, h => by
    simp only [List.all_cons, Bool.and_eq_true] at h
    have hq : isQuote c = false := by
      have := h.1
      simp only [plainChar, Bool.not_eq_true', Bool.or_eq_false_iff] at this
      simp [isQuote, this.1.1.1.1, this.1.1.1.2]
    simp [spanPlain, hq, spanPlain_plain cs h.2]

theorem splitquote_plain (s : Str) (h : s.all plainChar = true) :
    (splitquote s none false).1 = if s.isEmpty then [] else [.plain s] := by
  cases s with
  | nil => rfl
  | cons c cs =>
    simp only [splitquote, splitLoop, List.isEmpty_cons]
    rw [spanPlain_plain _ h]
    simp [lw]

theorem parenStep_plain (st : PState) (c : Char) (hc : plainChar c = true)
    (h1 : st.nb = false) (h2 : st.inq = none) (h3 : st.stack = []) :
    parenStep defaultPairs st c = { st with cur := c :: st.cur } := by
  simp only [plainChar, Bool.not_eq_true', Bool.or_eq_false_iff] at hc
  obtain ⟨⟨⟨⟨a, b⟩, c3⟩, d⟩, e⟩ := hc
  have hcl : closerOf defaultPairs c = none := by
    simp [closerOf, defaultPairs, d, e]
  unfold parenStep
  simp [c3, h1, h2, a, b, hcl, h3]

theorem foldl_parenStep_plain : ∀ (s : Str) (st : PState), s.all plainChar = true →
    st.nb = false → st.inq = none → st.stack = [] →
    s.foldl (parenStep defaultPairs) st = { st with cur := s.reverse ++ st.cur }
  | [], st, _, _, _, _ => by simp
  | c :: cs, st, h, h1, h2, h3 => by
    simp only [List.all_cons, Bool.and_eq_true] at h
    rw [List.foldl_cons, parenStep_plain st c h.1 h1 h2 h3]
    have := foldl_parenStep_plain cs { st with cur := c :: st.cur } h.2 h1 h2 h3
    rw [this]
    simp

theorem splitparen_plain (s : Str) (h : s.all plainChar = true) :
    splitparen s = if s.isEmpty then [] else [.plain s] := by
  unfold splitparen
  rw [foldl_parenStep_plain s {} h rfl rfl rfl]
  cases s with
  | nil => rfl
  | cons c cs => simp [parenFinish]

/-- **the tokeniser is the identity on flat lines** -/
theorem tokenise_flat (s : Str) (h : Flat s) : tokenise s = some { text := s, map := [] } := by
  obtain ⟨hp, he⟩ := h
  unfold tokenise stringReplaceMap stringReplaceMapWith
  rw [splitquote_plain s hp]
  cases s with
  | nil => rfl
  | cons c cs =>
    have h1 : phase1 discipline {} [Seg.plain (c :: cs)] = ({}, c :: cs) := by
      simp [phase1, phase1Step]
    simp only [List.isEmpty_cons, Bool.false_eq_true, if_false, h1]
    have h2 : phase2 {} (c :: cs) = ({}, c :: cs) := by
      simp [phase2, he]
    simp only [h2]
    rw [splitparen_plain _ hp]
    simp [phase3, phase3Step, unnest]

theorem applyMap_nil (s : Str) : applyMap [] s = s := by
  unfold applyMap
  induction keyFindAll s generalizing s with
  | nil => rfl
  | cons k ks ih => simpa [List.foldl_cons, Map.get?] using ih s

/-! ### `split` / `join` -/

theorem splitGo_ne_nil (sep : Str) : ∀ (s : Str) (k : Nat), splitGo sep k s ≠ []
  | [], k => by cases k <;> simp [splitGo]
  | c :: cs, k + 1 => by simpa [splitGo] using splitGo_ne_nil sep cs k
  | c :: cs, 0 => by
    unfold splitGo
    split
    · simp
    · split <;> simp

theorem isPrefix_spec : ∀ (p s : Str), isPrefix p s = true → s = p ++ s.drop p.length
  | [], s, _ => by simp
  | _ :: _, [], h => by simp [isPrefix] at h
  | a :: p, c :: s, h => by
    simp only [isPrefix, Bool.and_eq_true, beq_iff_eq] at h
    obtain ⟨rfl, h2⟩ := h
    have := isPrefix_spec p s h2
    simp only [List.length_cons, List.drop_succ_cons, List.cons_append, List.cons.injEq, true_and]
    exact this

theorem joinStr_cons_ne (sep a : Str) {rest : List Str} (h : rest ≠ []) :
    joinStr sep (a :: rest) = a ++ sep ++ joinStr sep rest := by
  cases rest with
  | nil => exact absurd rfl h
  | cons b r => rfl

/-- **nothing is dropped by `split`**: joining the pieces with the separator gives the text back
    (`k` = characters of a recognised separator still to be skipped) -/
theorem joinStr_splitGo (sep : Str) (hs : sep ≠ []) :
    ∀ (s : Str) (k : Nat), joinStr sep (splitGo sep k s) = s.drop k
  | [], k => by cases k <;> simp [splitGo, joinStr]
  | c :: cs, k + 1 => by simpa [splitGo] using joinStr_splitGo sep hs cs k
  | c :: cs, 0 => by
    unfold splitGo
    by_cases hp : isPrefix sep (c :: cs) = true
    · simp only [hp, if_true]
      rw [joinStr_cons_ne _ _ (splitGo_ne_nil _ _ _), joinStr_splitGo sep hs cs (sep.length - 1)]
      have h := isPrefix_spec sep (c :: cs) hp
      have hl : sep.length = (sep.length - 1) + 1 := by
        cases sep with
        | nil => exact absurd rfl hs
        | cons _ _ => simp
      conv => rhs; rw [List.drop_zero, h]
      rw [hl, List.drop_succ_cons]
      simp
    · simp only [hp]
      have ih := joinStr_splitGo sep hs cs 0
      cases hq : splitGo sep 0 cs with
      | nil => exact absurd hq (splitGo_ne_nil _ _ _)
      | cons h t =>
        rw [hq] at ih
        simp only [Bool.false_eq_true, if_false, List.drop_zero] at ih ⊢
        cases t with
        | nil => simp [joinStr] at ih ⊢; exact ih
        | cons b r =>
          simp only [joinStr] at ih ⊢
          rw [← ih]; simp

theorem joinStr_splitStr (s sep : Str) (pieces : List Str) (h : splitStr s sep = some pieces) :
    joinStr sep pieces = s := by
  unfold splitStr at h
  by_cases he : sep.isEmpty = true
  · simp [he] at h
  · simp only [he, Bool.false_eq_true, if_false, Option.some.injEq] at h
    subst h
    have hs : sep ≠ [] := by intro e; subst e; simp at he
    simpa using joinStr_splitGo sep hs s 0

/-- splitting at a one-character separator: a piece without the separator is cut off whole -/
theorem splitGo_char_append (c : Char) : ∀ (t rest : Str), c ∉ t →
    splitGo [c] 0 (t ++ c :: rest) = t :: splitGo [c] 0 rest
  | [], rest, _ => by simp [splitGo, isPrefix]
  | x :: t, rest, h => by
    simp only [List.mem_cons, not_or] at h
    have hx : (c == x) = false := by simpa using h.1
    have ih := splitGo_char_append c t rest h.2
    simp only [List.cons_append, splitGo, isPrefix, hx, Bool.false_and, Bool.false_eq_true,
      if_false, ih]

theorem splitGo_char_last (c : Char) : ∀ (t : Str), c ∉ t → splitGo [c] 0 t = [t]
  | [], _ => rfl
  | x :: t, h => by
    simp only [List.mem_cons, not_or] at h
    have hx : (c == x) = false := by simpa using h.1
    simp only [splitGo, isPrefix, hx, Bool.false_and, Bool.false_eq_true, if_false,
      splitGo_char_last c t h.2]

/-- the pieces of `", ".join(ts)` at `","` are the texts, each but the first with its blank -/
theorem splitGo_join_comma : ∀ (t : Str) (ts : List Str), (∀ u ∈ t :: ts, ',' ∉ u) →
    splitGo [','] 0 (joinStr [',', ' '] (t :: ts)) = t :: ts.map (' ' :: ·)
  | t, [], h => by simpa [joinStr] using splitGo_char_last ',' t (h t (by simp))
  | t, u :: ts, h => by
    have ht : ',' ∉ t := h t (by simp)
    have ih := splitGo_join_comma u ts (fun v hv => h v (List.mem_cons_of_mem _ hv))
    have e : joinStr [',', ' '] (t :: u :: ts) = t ++ ',' :: (' ' :: joinStr [',', ' '] (u :: ts)) := by
      simp [joinStr]
    rw [e, splitGo_char_append ',' t _ ht]
    have hsp : ',' ≠ ' ' := by decide
    -- the blank after the comma stays with the next piece
    have key : ∀ (w a : Str) (b : List Str), splitGo [','] 0 w = a :: b →
        splitGo [','] 0 (' ' :: w) = (' ' :: a) :: b := by
      intro w a b hw; simp [splitGo, isPrefix, hw]
    rw [key _ _ _ ih]
    simp

end Fp.Combi
