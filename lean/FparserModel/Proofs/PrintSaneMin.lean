import FparserModel.Proofs.BlockClosed

/-!
# PrintSane, part 1 (block-matcher side): the minimal length of the content of a matched block

`BlockBase.match` returns a content only when it is non-empty (`if not content: return`), the
start statement is its first non-comment element and — for a class with an `endcls` — the loop
was left by the `break` at the end statement (`if not had_match or endcls and not found_end`):
`nodeMin tbl c` is the number of elements these tests guarantee.  `Component_Part.match`
returns None on an empty content; `Outer/Inner_Shared_Do_Construct.match` return one element per
class of their sequence; `Program.match` returns whatever it collected — possibly NOTHING
(`nodeMin = 0`, witness `Props.program_empty_witness`).

`MOK R tbl t`: every node of `t` has a class in `R` that is a node class of the table, with at least
`nodeMin` elements.  `R` is any set of classes closed under "is called by" (`Closed`): with
`R = fun _ => True` the statement is about every class; with `R =` "not a `Program` class" it says
that no `Program` node is nested in a tree (on tables where no class calls a `Program` class).
-/
namespace Fp.Block

/-- the content length `BlockBase.match(cfg)` guarantees -/
def cfgMin (cfg : Cfg) : Nat := if cfg.start.isSome && cfg.end_.isSome then 2 else 1

/-- the minimal content length of a node of class `c` (`none`: `c` never is the class of a node) -/
def nodeMin (tbl : Table) (c : Cls) : Option Nat :=
  match tbl.kind c with
  | .block cfg _ => some (cfgMin cfg)
  | .main0 cfg _ _ => some (cfgMin cfg)
  | .many _ _ => some 1
  | .seqNR cs _ => some cs.length
  | .program _ _ _ => some 0
  | _ => none

/-- node predicate: `c` is a node class and `ks` has the guaranteed length -/
def NodeMin (tbl : Table) (c : Cls) (ks : List Tree) : Prop :=
  ∃ n, nodeMin tbl c = some n ∧ n ≤ ks.length

/-- the classes every `BlockBase.match` / `Program.match` tries besides its own -/
def stdCallees (tbl : Table) : List Cls := [tbl.directive, tbl.comment, tbl.includeStmt, tbl.cppFn]

def cfgCallees (tbl : Table) (cfg : Cfg) : List Cls :=
  cfg.start.toList ++ cfg.subs ++ cfg.end_.toList ++ stdCallees tbl

/-- the classes `cls(reader)` may call (`Base.__new__`: its `match`, then `Base.subclasses`) -/
def callees (tbl : Table) (c : Cls) : List Cls :=
  match tbl.kind c with
  | .alt subs => subs
  | .block cfg subs => cfgCallees tbl cfg ++ subs
  | .many item subs => item :: subs
  | .seqNR cs subs => cs ++ subs
  | .main0 cfg _ subs => cfgCallees tbl cfg ++ subs
  | .program unit main0 subs => unit :: main0 :: (stdCallees tbl ++ subs)
  | _ => []

/-- `R` is closed under calls -/
def Closed (R : Cls → Prop) (tbl : Table) : Prop := ∀ c, R c → ∀ d ∈ callees tbl c, R d

mutual
def MOK (R : Cls → Prop) (tbl : Table) : Tree → Prop
  | .leaf .. => True
  | .node c ks => (R c ∧ NodeMin tbl c ks) ∧ MOKL R tbl ks
def MOKL (R : Cls → Prop) (tbl : Table) : List Tree → Prop
  | [] => True
  | t :: ts => MOK R tbl t ∧ MOKL R tbl ts
end

section
variable {R : Cls → Prop} {tbl : Table}

theorem MOKL_cons {t : Tree} {ts : List Tree} :
    MOKL R tbl (t :: ts) ↔ MOK R tbl t ∧ MOKL R tbl ts := by simp [MOKL]

theorem MOKL_append (xs ys : List Tree) :
    MOKL R tbl (xs ++ ys) ↔ MOKL R tbl xs ∧ MOKL R tbl ys := by
  induction xs with
  | nil => simp [MOKL]
  | cons t ts ih => simp [MOKL, ih, and_assoc]

theorem MOKL_reverse (xs : List Tree) : MOKL R tbl xs.reverse ↔ MOKL R tbl xs := by
  induction xs with
  | nil => simp
  | cons t ts ih => simp [MOKL, MOKL_append, ih, and_comm]

theorem MOK_of_leaf {t : Tree} (h : isLeafT t) : MOK R tbl t := by
  cases t with
  | leaf => trivial
  | node => exact absurd h id

theorem MOKL_of_leaves {ts : List Tree} (h : ∀ t ∈ ts, isLeafT t) : MOKL R tbl ts := by
  induction ts with
  | nil => trivial
  | cons t ts ih =>
    exact ⟨MOK_of_leaf (h t (by simp)), ih (fun x hx => h x (by simp [hx]))⟩

theorem MOKL_mem {ts : List Tree} (h : MOKL R tbl ts) : ∀ t ∈ ts, MOK R tbl t := by
  induction ts with
  | nil => intro t ht; cases ht
  | cons a ts ih =>
    intro t ht
    rcases List.mem_cons.1 ht with rfl | ht
    · exact h.1
    · exact ih h.2 t ht
end

/-- the spec of calls: a returned tree satisfies `MOK` -/
def MinSpec (R : Cls → Prop) (tbl : Table) (o : Outcome) : Prop := ∀ t, o = .tree t → MOK R tbl t

/-- what is assumed of the recursive call: classes of `R` return `MOK` trees -/
def FMin (R : Cls → Prop) (tbl : Table) (f : F) : Prop := ∀ c s, R c → MinSpec R tbl (f c s).1
def GMin (R : Cls → Prop) (tbl : Table) (g : G) : Prop := ∀ c pc s, R c → MinSpec R tbl (g c pc s).1

variable {env : Env} {R : Cls → Prop}

theorem fresh_M {g : G} (hg : GMin R env.tbl g) : FMin R env.tbl (fresh g) := by
  intro c s hc; unfold fresh; exact hg c [] s hc

theorem callCatch_M {f : F} (hf : FMin R env.tbl f) {c : Cls} (hc : R c) {s : St} {t : Tree} {s' : St}
    (heq : callCatch f c s = (.tree t, s')) : MOK R env.tbl t := by
  unfold callCatch at heq
  split at heq
  · simp at heq
  · have := hf c s hc; rw [heq] at this; exact this t rfl

theorem addCID_MOKL {k : Nat} {rc : List Tree} {s : St} {rc' : List Tree} {s' : St}
    (hw : MOKL R env.tbl rc) (heq : addCID env k rc s = (.ok rc', s')) : MOKL R env.tbl rc' := by
  obtain ⟨new, hn, hl⟩ := addCID_E heq
  rw [hn]; exact (MOKL_append _ _).2 ⟨MOKL_of_leaves hl, hw⟩

theorem doHook_M {f : F} (hf : FMin R env.tbl f) {fuel : Nat} {cfg : Cfg}
    (hst : ∀ sc, cfg.start = some sc → R sc) {v : LoopVars} {s : St}
    {ts : List Tree} {s' : St} (heq : doHook env f fuel cfg v s = (.append ts, s')) :
    MOKL R env.tbl ts := by
  unfold doHook at heq
  split at heq
  · split at heq
    · simp at heq
    · rename_i lead s0 h0
      split at heq
      · simp at heq
      · rename_i sc hsc
        split at heq
        · simp at heq
        · simp at heq
        · rename_i t0 s1 h1
          split at heq
          · split at heq
            · simp at heq
            · split at heq
              · simp only [Prod.mk.injEq, HookRes.append.injEq] at heq
                have := hf sc s0 (hst sc hsc); rw [h1] at this
                rw [← heq.1]
                exact MOKL_cons.2 ⟨this t0 rfl, MOKL_of_leaves (hookLead_E h0)⟩
              · simp at heq
          · simp at heq
  · simp at heq

/-- the loop keeps `MOKL` of the content -/
theorem blockLoop_M {f : F} (hf : FMin R env.tbl f) {cfg : Cfg} {classes : List Cls}
    (hcl : ∀ d ∈ classes, R d) (hst : ∀ sc, cfg.start = some sc → R sc)
    {startT : Option Tree} {sn : Option (Option Name)} {k i : Nat} {v : LoopVars} {s : St}
    {v' : LoopVars} {fe : Bool} {s' : St} (hw : MOKL R env.tbl v.rc)
    (heq : blockLoop env f cfg classes startT sn k i v s = (.done v' fe, s')) :
    MOKL R env.tbl v'.rc := by
  induction k generalizing i v s with
  | zero => simp only [blockLoop] at heq; simp at heq
  | succ k ih =>
    simp only [blockLoop] at heq
    split at heq
    · simp only [Prod.mk.injEq, LoopRes.done.injEq] at heq
      obtain ⟨⟨rfl, rfl⟩, _⟩ := heq
      exact hw
    · rename_i cls hcls
      have hR : R cls := hcl cls (List.mem_of_getElem? hcls)
      split at heq
      · simp at heq
      · rename_i ts s1 h1
        have hwt := doHook_M hf hst h1
        exact ih (v := { v with rc := ts ++ v.rc }) ((MOKL_append _ _).2 ⟨hwt, hw⟩) heq
      · split at heq
        · simp at heq
        · exact ih hw heq
        · rename_i t sb h2
          have hwt := callCatch_M hf hR h2
          split at heq
          · simp at heq
          · simp at heq
          · rename_i v2 sc h3
            simp only [Prod.mk.injEq, LoopRes.done.injEq] at heq
            obtain ⟨⟨rfl, rfl⟩, _⟩ := heq
            have hrc := matchedStep_rc h3
            simp only at hrc
            rw [hrc]; exact ⟨hwt, hw⟩
          · rename_i i2 v2 sc h3
            have hrc := matchedStep_rc h3
            simp only at hrc
            exact ih (v := v2) (by rw [hrc]; exact ⟨hwt, hw⟩) heq

theorem blockStart_M {f : F} (hf : FMin R env.tbl f) {fuel : Nat} {cfg : Cfg}
    (hst : ∀ sc, cfg.start = some sc → R sc) {s : St}
    {rc0 : List Tree} {startT : Option Tree} {tn : Option Name} {sl : Option (Option Nat)}
    {sn : Option (Option Name)} {s1 : St}
    (heq : blockStart env f fuel cfg s = (.go rc0 startT tn sl sn, s1)) :
    MOKL R env.tbl rc0 := by
  unfold blockStart at heq
  split at heq
  · simp only [Prod.mk.injEq, StartRes.go.injEq] at heq
    obtain ⟨⟨rfl, _⟩, _⟩ := heq
    trivial
  · rename_i sc hsc
    split at heq
    · simp at heq
    · rename_i rc00 sa h1
      have hw0 : MOKL R env.tbl rc00 := addCID_MOKL (rc := []) trivial h1
      split at heq
      · simp at heq
      · simp at heq
      · rename_i t sb h2
        have hwt := callCatch_M hf (hst sc hsc) h2
        split at heq
        · simp at heq
        · split at heq
          · simp at heq
          · simp only [Prod.mk.injEq, StartRes.go.injEq] at heq
            obtain ⟨⟨rfl, _⟩, _⟩ := heq
            exact ⟨hwt, hw0⟩

/-- `BlockBase.match` returns a content only when it is not empty -/
theorem blockTail_ne {cfg : Cfg} {startT : Option Tree} {tn : Option Name} {v : LoopVars}
    {fe : Bool} {s3 : St} {content : List Tree} {s' : St}
    (heq : blockTail env cfg startT tn v fe s3 = (.tuple content, s')) : content ≠ [] := by
  unfold blockTail at heq
  split at heq
  · split at heq <;> simp at heq
  · split at heq
    · simp at heq
    · rename_i hne
      split at heq
      · simp only [Prod.mk.injEq, MRes.tuple.injEq] at heq
        rw [← heq.1]
        intro h
        apply hne
        have : v.rc = [] := by simpa using h
        simp [this]
      · simp at heq
      · split at heq
        · split at heq <;> simp at heq
        · simp at heq
      · split at heq
        · split at heq <;> simp at heq
        · simp at heq

theorem cfgOK_len {tbl : Table} {cfg : Cfg} {content : List Tree} (h : CfgOK tbl cfg content)
    (hne : content ≠ []) : cfgMin cfg ≤ content.length := by
  unfold cfgMin
  cases he : cfg.end_.isSome with
  | false =>
    simp only [Bool.and_false, Bool.false_eq_true, if_false]
    cases content with
    | nil => exact absurd rfl hne
    | cons a r => simp
  | true =>
    obtain ⟨pre, stO, mid, en, hk, _, hso, _⟩ := h he
    cases hs : cfg.start.isSome with
    | false =>
      simp only [Bool.false_and, Bool.false_eq_true, if_false]
      rw [hk]; simp; omega
    | true =>
      simp only [Bool.and_self, if_true]
      rw [hs] at hso
      cases stO with
      | none => simp at hso
      | some st => rw [hk]; simp; omega

theorem blockMatch_M {f : F} (hf : FMin R env.tbl f) (hfe : FE env.tbl f) {fuel : Nat} {cfg : Cfg}
    (hcal : ∀ d ∈ cfgCallees env.tbl cfg, R d) {s : St}
    {content : List Tree} {s' : St} (heq : blockMatch env f fuel cfg s = (.tuple content, s')) :
    MOKL R env.tbl content ∧ cfgMin cfg ≤ content.length := by
  have hcf := (blockMatch_E hfe heq).2
  have hst : ∀ sc, cfg.start = some sc → R sc := by
    intro sc h; apply hcal; simp [cfgCallees, h]
  have hcl : ∀ d ∈ blockClasses env cfg, R d := by
    intro d hd
    apply hcal
    simp only [blockClasses, List.mem_append, List.mem_cons, List.not_mem_nil, or_false] at hd
    simp only [cfgCallees, stdCallees, List.mem_append, List.mem_cons, List.not_mem_nil, or_false]
    rcases hd with (((hd | hd) | hd) | hd) | hd
    · exact Or.inl (Or.inl (Or.inr hd))
    · split at hd
      · simp at hd; exact Or.inr (Or.inl hd)
      · simp at hd
    · rcases hd with hd | hd
      · exact Or.inr (Or.inr (Or.inl hd))
      · exact Or.inr (Or.inr (Or.inr (Or.inl hd)))
    · exact Or.inl (Or.inr hd)
    · exact Or.inr (Or.inr (Or.inr (Or.inr hd)))
  unfold blockMatch at heq
  split at heq
  · rename_i r s1 h1
    exfalso
    simp only [Prod.mk.injEq] at heq
    obtain ⟨rfl, rfl⟩ := heq
    unfold blockStart at h1
    split at h1
    · simp at h1
    · split at h1
      · simp at h1
      · split at h1
        · simp at h1
        · simp at h1
        · split at h1
          · simp at h1
          · split at h1 <;> simp at h1
  · rename_i rc0 startT tn sl sn s1 h1
    simp only at heq
    have hw0 := blockStart_M hf hst h1
    generalize hlr : blockLoop env f cfg (blockClasses env cfg) startT sn fuel 0
      (loopVars0 cfg rc0 sl) s1 = lr at heq
    obtain ⟨res, sL⟩ := lr
    simp only at heq
    unfold blockFinish at heq
    split at heq
    · split at heq
      · unfold blockCleanup at heq
        split at heq
        · simp at heq
        · split at heq <;> simp at heq
      · simp at heq
    · simp at heq
    · rename_i v fe
      split at heq
      · simp at heq
      · rename_i s3 _
        have hne := blockTail_ne heq
        obtain ⟨hc, _⟩ := blockTail_E heq
        have hw := blockLoop_M hf hcl hst (v := loopVars0 cfg rc0 sl) hw0 hlr
        subst hc
        exact ⟨(MOKL_reverse _).2 hw, cfgOK_len hcf hne⟩

theorem manyLoop_M {f : F} (hf : FMin R env.tbl f) {c : Cls} (hc : R c) {k : Nat} {rc : List Tree}
    {s : St} {content : List Tree} {s' : St} (hw : MOKL R env.tbl rc)
    (heq : manyLoop f c k rc s = (.tuple content, s')) :
    MOKL R env.tbl content ∧ 1 ≤ content.length := by
  induction k generalizing rc s with
  | zero => simp only [manyLoop] at heq; simp at heq
  | succ k ih =>
    simp only [manyLoop] at heq
    split at heq
    · simp at heq
    · split at heq
      · simp at heq
      · rename_i hne
        simp only [Prod.mk.injEq, MRes.tuple.injEq] at heq
        rw [← heq.1]
        refine ⟨(MOKL_reverse _).2 hw, ?_⟩
        cases rc with
        | nil => simp at hne
        | cons a r => simp
    · rename_i t s1 h1
      exact ih (MOKL_cons.2 ⟨callCatch_M hf hc h1, hw⟩) heq

theorem seqNR_M {f : F} (hf : FMin R env.tbl f) {q : Quirks} {cs : List Cls} (hcs : ∀ d ∈ cs, R d)
    {rc : List Tree} {s : St} {content : List Tree} {s' : St} (hw : MOKL R env.tbl rc)
    (heq : seqNR q f cs rc s = (.tuple content, s')) :
    MOKL R env.tbl content ∧ content.length = rc.length + cs.length := by
  induction cs generalizing rc s with
  | nil =>
    simp only [seqNR, Prod.mk.injEq, MRes.tuple.injEq] at heq
    rw [← heq.1]; exact ⟨(MOKL_reverse _).2 hw, by simp⟩
  | cons c cs ih =>
    have hc : R c := hcs c (by simp)
    have hcs' : ∀ d ∈ cs, R d := fun d hd => hcs d (by simp [hd])
    simp only [seqNR] at heq
    split at heq
    · split at heq
      · simp at heq
      · simp at heq
      · rename_i t s1 h1
        have := ih hcs' (MOKL_cons.2 ⟨callCatch_M hf hc h1, hw⟩) heq
        exact ⟨this.1, by rw [this.2]; simp; omega⟩
    · split at heq
      · simp at heq
      · simp at heq
      · rename_i t s1 h1
        have h0 := hf c s hc; rw [h1] at h0
        have := ih hcs' (MOKL_cons.2 ⟨h0 t rfl, hw⟩) heq
        exact ⟨this.1, by rw [this.2]; simp; omega⟩

theorem main0Match_M {f : F} (hf : FMin R env.tbl f) (hfe : FE env.tbl f) {fuel : Nat} {cfg : Cfg}
    (hcal : ∀ d ∈ cfgCallees env.tbl cfg, R d) {scope : Name} {s : St}
    {content : List Tree} {s' : St}
    (heq : main0Match env f fuel cfg scope s = (.tuple content, s')) :
    MOKL R env.tbl content ∧ cfgMin cfg ≤ content.length := by
  unfold main0Match at heq
  generalize hb : blockMatch env f fuel cfg ((ghostIf (s.sym.clashes scope) Ghost.nameClash s).enter scope) = br at heq
  obtain ⟨r0, s2⟩ := br
  cases r0 with
  | raise e =>
    simp only at heq
    split at heq
    · simp at heq
    split at heq
    · split at heq
      · simp at heq
      · split at heq <;> simp at heq
    · simp at heq
  | none =>
    simp only at heq
    split at heq
    · simp at heq
    · split at heq <;> simp at heq
  | tuple c0 =>
    simp only at heq
    split at heq
    · simp at heq
    · simp only [Prod.mk.injEq, MRes.tuple.injEq] at heq
      rw [← heq.1]; exact blockMatch_M hf hfe hcal hb

theorem pushTree_M {o : Outcome} {rc : List Tree} (ho : MinSpec R env.tbl o)
    (hw : MOKL R env.tbl rc) : MOKL R env.tbl (pushTree o rc) := by
  unfold pushTree
  split
  · exact ⟨ho _ rfl, hw⟩
  · exact hw

theorem fallback_callees {unit main0 : Cls} {subs : List Cls}
    (hcal : ∀ d ∈ unit :: main0 :: (stdCallees env.tbl ++ subs), R d) :
    ∀ d ∈ cfgCallees env.tbl (fallbackCfg main0), R d := by
  intro d hd
  apply hcal
  simp only [cfgCallees, fallbackCfg, Option.toList, List.mem_append, List.mem_cons,
    List.not_mem_nil, or_false] at hd
  simp only [List.mem_cons, List.mem_append]
  rcases hd with hd | hd
  · exact Or.inr (Or.inl hd)
  · exact Or.inr (Or.inr (Or.inl hd))

theorem unitStep_M {f : F} (hf : FMin R env.tbl f) (hfe : FE env.tbl f) {fuel : Nat}
    {unit main0 : Cls} {subs : List Cls}
    (hcal : ∀ d ∈ unit :: main0 :: (stdCallees env.tbl ++ subs), R d) {rc : List Tree}
    {s : St} {rc1 : List Tree} {s' : St} (hw : MOKL R env.tbl rc)
    (heq : unitStep env f fuel unit main0 rc s = (.go rc1, s')) : MOKL R env.tbl rc1 := by
  unfold unitStep at heq
  split at heq
  · split at heq
    · split at heq
      · rename_i c0 s2 hb
        simp only [Prod.mk.injEq, UnitStep.go.injEq] at heq
        rw [← heq.1]
        exact (MOKL_append _ _).2
          ⟨(MOKL_reverse _).2 (blockMatch_M hf hfe (fallback_callees (subs := subs) hcal) hb).1, hw⟩
      · simp at heq
      · simp at heq
    · simp at heq
  · rename_i o s1 _ h1
    simp only [Prod.mk.injEq, UnitStep.go.injEq] at heq
    rw [← heq.1]
    have ho : MinSpec R env.tbl o := by
      have := hf unit s (hcal unit (by simp)); rw [h1] at this; exact this
    exact pushTree_M ho hw

theorem programLoop_M {f : F} (hf : FMin R env.tbl f) (hfe : FE env.tbl f) {unit main0 : Cls}
    {subs : List Cls} (hcal : ∀ d ∈ unit :: main0 :: (stdCallees env.tbl ++ subs), R d)
    {fuel k : Nat} {rc : List Tree} {s : St} {rc' : List Tree} {s' : St} (hw : MOKL R env.tbl rc)
    (heq : programLoop env f unit main0 fuel k rc s = (.done rc', s')) : MOKL R env.tbl rc' := by
  induction k generalizing rc s with
  | zero => simp only [programLoop] at heq; simp at heq
  | succ k ih =>
    simp only [programLoop] at heq
    split at heq
    · rename_i r1 s1 h1
      exfalso
      simp only [Prod.mk.injEq] at heq
      obtain ⟨rfl, _⟩ := heq
      unfold unitStep at h1
      split at h1
      · split at h1
        · split at h1 <;> simp at h1
        · simp at h1
      · simp at h1
    · rename_i rc1 s1 h1
      have hw1 := unitStep_M hf hfe hcal hw h1
      split at heq
      · simp at heq
      · rename_i rc2 s2 h2
        have hw2 := addCID_MOKL hw1 h2
        split at heq
        · simp only [Prod.mk.injEq, PRes.done.injEq] at heq
          rw [← heq.1]; exact hw2
        · exact ih hw2 heq

theorem programMatch_M {f : F} (hf : FMin R env.tbl f) (hfe : FE env.tbl f) {fuel : Nat}
    {unit main0 : Cls} {subs : List Cls}
    (hcal : ∀ d ∈ unit :: main0 :: (stdCallees env.tbl ++ subs), R d) {s : St}
    {content : List Tree} {s' : St}
    (heq : programMatch env f fuel unit main0 s = (.tuple content, s')) :
    MOKL R env.tbl content := by
  unfold programMatch at heq
  split at heq
  · simp at heq
  · rename_i rc0 s1 h1
    have hw0 : MOKL R env.tbl rc0 := addCID_MOKL (rc := []) trivial h1
    split at heq
    · rename_i rc s2 h2
      simp only [Prod.mk.injEq, MRes.tuple.injEq] at heq
      rw [← heq.1]; exact (MOKL_reverse _).2 (programLoop_M hf hfe hcal hw0 h2)
    · simp at heq
    · split at heq
      · exact (blockMatch_M hf hfe (fallback_callees (subs := subs) hcal) heq).1
      · simp at heq

theorem altLoop_M {g : G} (hg : GMin R env.tbl g) (ds : List Cls) (hds : ∀ d ∈ ds, R d)
    (pc : List Cls) (s : St) : MinSpec R env.tbl (altLoop env g ds pc s).1 := by
  induction ds generalizing pc s with
  | nil =>
    simp only [altLoop]
    intro t h
    unfold blankRule at h
    split at h <;> cases h
  | cons d ds ih =>
    have hds' : ∀ x ∈ ds, R x := fun x hx => hds x (by simp [hx])
    simp only [altLoop]
    split
    · exact ih hds' _ _
    · have := hg d pc s (hds d (by simp))
      split
      · rename_i t pc1 s1 h1; rw [h1] at this; exact this
      · exact ih hds' _ _
      · exact ih hds' _ _
      · intro t h; cases h

theorem finish_M {g : G} (hg : GMin R env.tbl g) {c : Cls} {subs : List Cls}
    (hsubs : ∀ d ∈ subs, R d) {r : MRes} {s1 : St} {pc : List Cls}
    (hr : ∀ content, r = .tuple content →
      MOKL R env.tbl content ∧ R c ∧ NodeMin env.tbl c content) :
    MinSpec R env.tbl (finish env g c subs (r, s1) pc).1 := by
  unfold finish
  split
  · rename_i content sa hh
    simp only [Prod.mk.injEq] at hh
    intro t h
    simp only [Outcome.tree.injEq] at h
    subst h
    have := hr content hh.1
    exact ⟨this.2, this.1⟩
  · exact altLoop_M hg _ hsubs _ _
  · exact altLoop_M hg _ hsubs _ _
  · intro t h; cases h

/-- the content of a `Program` node: `MOKL`, whatever the class of the program is -/
theorem program_content_M {g : G} (hg : GMin R env.tbl g) (hge : GE env.tbl g) {fuel : Nat}
    {c unit main0 : Cls} {subs : List Cls}
    (hcal : ∀ d ∈ unit :: main0 :: (stdCallees env.tbl ++ subs), R d) (s : St) (pc : List Cls) :
    ∀ t, (finish env g c subs (programMatch env (fresh g) fuel unit main0 s) pc).1 = .tree t →
      MOK R env.tbl t ∨ ∃ ks, t = .node c ks ∧ MOKL R env.tbl ks := by
  intro t h
  have hsubs : ∀ d ∈ subs, R d := fun d hd => hcal d (by simp [hd])
  generalize hpm : programMatch env (fresh g) fuel unit main0 s = pm at h
  obtain ⟨r, s1⟩ := pm
  cases r with
  | tuple content =>
    simp only [finish, Outcome.tree.injEq] at h
    subst h
    exact Or.inr ⟨content, rfl, programMatch_M (fresh_M hg) (fresh_E hge) (subs := subs) hcal hpm⟩
  | none =>
    simp only [finish] at h
    exact Or.inl (altLoop_M hg _ hsubs _ _ t h)
  | raise e =>
    cases e <;> simp only [finish] at h <;> first | exact Or.inl (altLoop_M hg _ hsubs _ _ t h) | cases h

theorem eval_M (env : Env) (R : Cls → Prop) (hcl : Closed R env.tbl) (fuel : Nat) :
    GMin R env.tbl (eval env fuel) := by
  induction fuel with
  | zero => intro c pc s _ t h; simp only [eval] at h; cases h
  | succ fuel ih =>
    intro c pc s hc
    have hf : FMin R env.tbl (fresh (eval env fuel)) := fresh_M ih
    have hfe : FE env.tbl (fresh (eval env fuel)) := fresh_E (eval_E env fuel)
    have hcal := hcl c hc
    simp only [eval]
    split
    · intro t h
      exact MOK_of_leaf (leafNew_E (o := (leafNew env c _ s).1) (pc' := (leafNew env c _ s).2.1)
        (s' := (leafNew env c _ s).2.2) rfl t h)
    · rename_i subs hk
      exact altLoop_M ih _ (fun d hd => hcal d (by simp [callees, hk, hd])) _ _
    · rename_i cfg subs hk
      apply finish_M ih (fun d hd => hcal d (by simp [callees, hk, hd]))
      intro content hcn
      have := blockMatch_M hf hfe (cfg := cfg) (s := s) (fuel := fuel)
        (fun d hd => hcal d (by simp [callees, hk, hd]))
        (s' := (blockMatch env (fresh (eval env fuel)) fuel cfg s).2) (content := content)
        (Prod.ext hcn rfl)
      exact ⟨this.1, hc, cfgMin cfg, by simp [nodeMin, hk], this.2⟩
    · rename_i item subs hk
      apply finish_M ih (fun d hd => hcal d (by simp [callees, hk, hd]))
      intro content hcn
      have := manyLoop_M hf (c := item) (hcal item (by simp [callees, hk])) (k := fuel) (rc := [])
        (s := s) (s' := (manyLoop (fresh (eval env fuel)) item fuel [] s).2) (content := content)
        trivial (Prod.ext hcn rfl)
      exact ⟨this.1, hc, 1, by simp [nodeMin, hk], this.2⟩
    · rename_i cs subs hk
      apply finish_M ih (fun d hd => hcal d (by simp [callees, hk, hd]))
      intro content hcn
      have := seqNR_M hf (q := env.tbl.quirks) (cs := cs)
        (fun d hd => hcal d (by simp [callees, hk, hd])) (rc := []) (s := s)
        (s' := (seqNR env.tbl.quirks (fresh (eval env fuel)) cs [] s).2) (content := content)
        trivial (Prod.ext hcn rfl)
      exact ⟨this.1, hc, cs.length, by simp [nodeMin, hk], by rw [this.2]; simp⟩
    · rename_i cfg scope subs hk
      apply finish_M ih (fun d hd => hcal d (by simp [callees, hk, hd]))
      intro content hcn
      have := main0Match_M hf hfe (cfg := cfg)
        (fun d hd => hcal d (by simp [callees, hk, hd])) (scope := scope) (s := s) (fuel := fuel)
        (s' := (main0Match env (fresh (eval env fuel)) fuel cfg scope s).2) (content := content)
        (Prod.ext hcn rfl)
      exact ⟨this.1, hc, cfgMin cfg, by simp [nodeMin, hk], this.2⟩
    · rename_i unit main0 subs hk
      have hcal' : ∀ d ∈ unit :: main0 :: (stdCallees env.tbl ++ subs), R d :=
        fun d hd => hcal d (by simpa [callees, hk] using hd)
      intro t h
      have h' : (finish env (eval env fuel) c subs
          (programMatch env (fresh (eval env fuel)) fuel unit main0 s) [c]).1 = .tree t := by
        generalize (finish env (eval env fuel) c subs
          (programMatch env (fresh (eval env fuel)) fuel unit main0 s) [c]).1 = o1 at h
        cases o1 with
        | tree t1 => exact h
        | none => cases h
        | raise e => cases e <;> cases h
      rcases program_content_M ih (eval_E env fuel) hcal' s [c] t h' with h1 | ⟨ks, rfl, hks⟩
      · exact h1
      · exact ⟨⟨hc, 0, by simp [nodeMin, hk], Nat.zero_le _⟩, hks⟩
    · intro t h
      exact MOK_of_leaf (commentNew_E (o := (commentNew env s).1) (s' := (commentNew env s).2) rfl t h)
    · intro t h
      exact MOK_of_leaf (directiveNew_E (o := (directiveNew env s).1)
        (s' := (directiveNew env s).2) rfl t h)
    · rename_i cs _
      intro t h
      exact MOK_of_leaf (cppNew_E (o := (cppNew env cs s).1) (s' := (cppNew env cs s).2) rfl t h)

/-- a `Program` class at the root whose callees are in `R` (the class itself need not be) -/
theorem eval_program_M (env : Env) (R : Cls → Prop) (hcl : Closed R env.tbl) (fuel : Nat)
    (c unit main0 : Cls) (subs : List Cls) (hk : env.tbl.kind c = .program unit main0 subs)
    (hcal : ∀ d ∈ callees env.tbl c, R d) (pc : List Cls) (s : St) (t : Tree)
    (h : (eval env fuel c pc s).1 = .tree t) :
    MOK R env.tbl t ∨ ∃ ks, t = .node c ks ∧ MOKL R env.tbl ks := by
  cases fuel with
  | zero => simp only [eval] at h; cases h
  | succ fuel =>
    have hcal' : ∀ d ∈ unit :: main0 :: (stdCallees env.tbl ++ subs), R d :=
      fun d hd => hcal d (by simpa [callees, hk] using hd)
    simp only [eval, hk] at h
    have h' : (finish env (eval env fuel) c subs
        (programMatch env (fresh (eval env fuel)) fuel unit main0 s) [c]).1 = .tree t := by
      generalize (finish env (eval env fuel) c subs
        (programMatch env (fresh (eval env fuel)) fuel unit main0 s) [c]).1 = o1 at h
      cases o1 with
      | tree t1 => exact h
      | none => cases h
      | raise e => cases e <;> cases h
    exact program_content_M (eval_M env R hcl fuel) (eval_E env fuel) hcal' s [c] t h'

end Fp.Block
