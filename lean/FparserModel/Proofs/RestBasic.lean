import FparserModel.Rest
import FparserModel.Proofs.IoStmtLayoutIo
import FparserModel.Proofs.IoStmtLayoutCtl
import FparserModel.Proofs.IoStmtLayoutMisc
import FparserModel.Proofs.IoStmtLayoutFmt
import FparserModel.Proofs.IoStmtTotal
/-!
Toolkit of the Rest proofs (on top of the IoStmt toolkit: `toks`, `net`, `OracleTok`, `runSlots`
inversion, `Seg`, `PlanTotal` / `rt_step`).
-/
namespace Fp.Rest
open Fp Fp.Splitline Fp.IoStmt
open Fp.Combi (noBlank)

variable {Node : Type}

theorem not_false_of {b : Bool} (h : (!b) = false) : b = true := by simpa using h

theorem toks_isEmpty' {x : Str} (h : x.isEmpty = true) : toks x = [] := by
  have : x = [] := by simpa using h
  subst this; rfl

theorem net_none (o : Oracle Node) : net ((Item.none : Item Node).text o) = 0 := by
  simp only [Item.text]; decide

theorem net_str_text (o : Oracle Node) (t : Str) : (Item.str t : Item Node).text o = t := rfl

/-- `line.startswith("(") and line.endswith(")")` -/
theorem paren_of {l : Str} (h1 : startsC '(' l = true) (h2 : endsC ')' l = true) :
    l = '(' :: inner l ++ [')'] :=
  paren_shapeC (by simp [h1, h2])

theorem toks_paren_inner {l : Str} (h1 : startsC '(' l = true) (h2 : endsC ')' l = true) :
    toks l = toks "(".toList ++ toks (strip (inner l)) ++ toks ")".toList := by
  conv => lhs; rw [paren_of h1 h2]
  rw [toks_paren, toks_strip]

theorem net_paren_inner {l : Str} (h1 : startsC '(' l = true) (h2 : endsC ')' l = true) :
    net l = net (strip (inner l)) := by
  have h := congrArg net (toks_paren_inner h1 h2)
  rw [net_toks, net_append, net_append, net_toks, net_toks, net_toks] at h
  have a : net "(".toList = 1 := by decide
  have b : net ")".toList = -1 := by decide
  rw [a, b] at h; omega

/-- the text of an item produced by a child slot keeps the tokens -/
theorem child_toks {o : Oracle Node} (ho : OracleTok o) {c : ClassId} {t : Str} {i : Item Node}
    (h : runSlot o (.child c t) = .ok i) : toks (i.text o) = toks t := toks_item_of_child ho h

theorem isNone_of_node {n : Node} : (Item.node n : Item Node).isNone = false := rfl

theorem child_not_none {o : Oracle Node} {c : ClassId} {t : Str} {i : Item Node}
    (h : runSlot o (.child c t) = .ok i) : i.isNone = false ∧ i.falsy = false := by
  obtain ⟨n, rfl, _⟩ := runSlot_child_ok h
  exact ⟨rfl, rfl⟩

/-- `toks` of a balanced-from-tokens argument: two texts with the same tokens have the same `net` -/
theorem balanced_of_toks {t s : Str} (h : toks t = toks s) (hn : net t = 0) : net s = 0 := by
  rw [← net_eq_of_toks h]; exact hn

end Fp.Rest
