import FparserModel.Proofs.IoStmtSeg
import FparserModel.Proofs.IoStmtHead
/-!
EXEMPLAR of a `*_tostr_match_tokens` proof for a class that goes through `string_replace_map`:
`Write_Stmt`.
-/
namespace Fp.IoStmt
open Fp Fp.Splitline
open Fp.Combi (noBlank)

variable {Node : Type}

theorem isWord_rparen : isWord ')' = false := by decide
theorem isWord_lparen : isWord '(' = false := by decide
theorem isWord_comma : isWord ',' = false := by decide
theorem isWord_eq : isWord '=' = false := by decide
theorem isWord_colon : isWord ':' = false := by decide

theorem startsC_cons {c : Char} {s : Str} (h : startsC c s = true) : ∃ t, s = c :: t := by
  cases s with
  | nil => simp [startsC] at h
  | cons d t => simp only [startsC, List.head?_cons, beq_iff_eq, Option.some.injEq] at h; exact ⟨t, by rw [h]⟩

/-- **Write_Stmt**: what is matched is printed with the same tokens — the control list, and the
    WHOLE text after the closing parenthesis of the control list -/
theorem write_tostr_match_tokens (o : Oracle Node) (ho : OracleTok o) (s : Str)
    (items : List (Item Node)) (hm : (planWrite s).bind (runSlots o) = .ok items)
    (hs : SrmOK (lstrip (s.drop 5))) :
    ∃ t, tostrWrite o items = .ok t ∧ toks t = toks s := by
  obtain ⟨slots, hp, hr⟩ := Res.bind_eq_ok hm
  unfold planWrite at hp
  split at hp
  · cases hp
  rename_i hkw
  have hkw' : kwIs "WRITE".toList s = true := by simpa using hkw
  dsimp only at hp
  split at hp
  · cases hp
  rename_i hst
  obtain ⟨line1, hline⟩ := startsC_cons (c := '(') (s := lstrip (s.drop 5)) (by simpa using hst)
  obtain ⟨r, htok, hp⟩ := Res.bind_eq_ok hp
  have htk := tok_ok htok
  obtain ⟨hseg, hexp⟩ := seg_of_tokenise hs htk
  have hhead : r.text.head? = some '(' :=
    srm_head htk (by decide) (by decide) (by rw [hline]; rfl)
  -- the shape of the line
  have hS : toks s = toks "WRITE".toList ++ toks (applyMap r.map r.text) := by
    rw [toks_of_kwIs hkw', toks_of_noBlank hexp, toks_lstrip]; rfl
  split at hp
  · cases hp
  rename_i pre post hcut
  obtain ⟨htext, _⟩ := Combi.cutFirst_spec _ _ _ hcut
  -- pre = '(' :: pre'
  have hpre : ∃ pre', pre = '(' :: pre' := by
    cases pre with
    | nil => rw [htext] at hhead; simp at hhead
    | cons d pre' => rw [htext] at hhead; simp at hhead; exact ⟨pre', by rw [hhead]⟩
  obtain ⟨pre', rfl⟩ := hpre
  rw [htext] at hseg hS
  obtain ⟨hsegPre, hsegPost, happ⟩ := Seg.sep isWord_rparen hseg
  obtain ⟨hsegPre', happ1⟩ := Seg.drop1 isWord_lparen hsegPre
  have hA : toks (applyMap r.map (strip pre')) = toks (applyMap r.map pre') :=
    toks_of_noBlank (Seg.strip hsegPre').2
  have hB : toks (applyMap r.map (lstrip post)) = toks (applyMap r.map post) :=
    toks_of_noBlank (Seg.lstrip hsegPost).2
  have e1 : ∀ X : Str, '(' :: X = "(".toList ++ X := fun _ => rfl
  have e2 : ∀ X : Str, ')' :: X = ")".toList ++ X := fun _ => rfl
  have hS' : toks s = toks "WRITE".toList ++ (toks "(".toList ++ (toks (applyMap r.map pre') ++
      (toks ")".toList ++ toks (applyMap r.map post)))) := by
    rw [hS, happ, happ1, e1, e2]
    simp only [toks_append, List.append_assoc]
  have k1 : toks "WRITE(".toList = toks "WRITE".toList ++ toks "(".toList := by decide
  have k2 : toks ") ".toList = toks ")".toList := by decide
  simp only [List.drop_succ_cons, List.drop_zero] at hp
  split at hp
  · cases hp
  split at hp
  · -- no output list
    rename_i hpost
    have hpost' : post = [] := by simpa using hpost
    cases hp
    obtain ⟨i, is, rfl, hi, his⟩ := runSlots_cons_ok hr
    obtain ⟨j, js, rfl, hj, hjs⟩ := runSlots_cons_ok his
    have := runSlots_nil_ok hjs; subst this
    have := runSlot_none_ok hj; subst this
    have hi' := toks_item_of_child ho hi
    obtain ⟨n, rfl, _⟩ := runSlot_child_ok hi
    refine ⟨_, rfl, ?_⟩
    rw [hS', hpost', applyMap_empty]
    simp only [toks_append, k1, hi', hA, toks_nil, List.append_assoc, List.append_nil]
  · cases hp
    obtain ⟨i, is, rfl, hi, his⟩ := runSlots_cons_ok hr
    obtain ⟨j, js, rfl, hj, hjs⟩ := runSlots_cons_ok his
    have := runSlots_nil_ok hjs; subst this
    have hi' := toks_item_of_child ho hi
    have hj' := toks_item_of_child ho hj
    obtain ⟨n, rfl, _⟩ := runSlot_child_ok hi
    obtain ⟨n2, rfl, _⟩ := runSlot_child_ok hj
    refine ⟨_, rfl, ?_⟩
    rw [hS']
    simp only [toks_append, k1, k2, hi', hj', hA, hB, List.append_assoc]

/-- the printed WRITE statement is balanced when the printed children are -/
theorem write_print_balanced (o : Oracle Node) (items : List (Item Node)) (t : Str)
    (ht : tostrWrite o items = .ok t) (hb : ∀ i ∈ items, net (i.text o) = 0) : net t = 0 := by
  unfold tostrWrite at ht
  split at ht
  · cases ht
    rename_i a
    have := hb a (by simp)
    simp only [net_append, this]
    decide
  · cases ht
    rename_i a b _
    have h1 := hb a (by simp)
    have h2 := hb b (by simp)
    simp only [net_append, h1, h2]
    decide
  · cases ht

end Fp.IoStmt
