"""C08 — ill-nested constructs and unbalanced parentheses are never accepted."""
import random
import re
from fv import real, gen, layout, engine, findings
from fv.props import util

RULE = ("for every generated valid program, every single structural mutation in turn (exhaustive per program): delete the opener "
        "of an inner construct / type / interface / enum; delete its END line; rename the name on an END; duplicate an END line "
        "(surplus END); delete the END of a program unit; delete or add one parenthesis/bracket in a statement (outside character "
        "context); oracle: the parse does not return a tree. non-trivial = the mutated construct is nested >= 1 deep or named")
ASSUMPTIONS = ["mutations that leave a valid program are excluded by construction: removing a PROGRAM statement; openers of program "
               "units; non-block DO (no END of its own); a label-DO closed by a labelled CONTINUE (the CONTINUE is a statement of its "
               "own); the END of a program unit in front of a main program without PROGRAM statement (that main program's END terminates the unit instead); a surplus END line of a program unit that the enclosing units absorb (the copy closes the enclosing unit, whose END closes the next, ...) and whose left-over is a bare END / END PROGRAM line (an empty main program without PROGRAM statement)"]
TIE_MODULES = ["FparserModel.Block", "FparserModel.Splitline", "FparserModel.Generated.Blocks2008", "FparserModel.IoStmt", "FparserModel.IoStmtPins", "FparserModel.Generated.IoStmtTables", "FparserModel.Header", "FparserModel.HeaderPins", "FparserModel.Generated.HeaderTables"]

UNITS = {"program", "module", "submodule", "subroutine", "function", "blockdata"}


def _paren_positions(text):
    """indices of ( ) [ ] outside character context"""
    out = []
    q = None
    for i, c in enumerate(text):
        if q:
            if c == q:
                q = None
        elif c in "'\"":
            q = c
        elif c == "!":
            break
        elif c in "()[]":
            out.append(i)
    return out


_END = re.compile(r"^END\s*(PROGRAM|MODULE|SUBMODULE|SUBROUTINE|FUNCTION|BLOCK\s*DATA)?\s*(\w+)?$")


def _end_parts(st):
    m = _END.match(" ".join(t.upper() for t in st.toks)) if st is not None else None
    return (m.group(1), m.group(2)) if m else None


def surplus_end_absorbed(b, parent_of):
    """A surplus copy of the END line of program unit `b` can leave a VALID program: the copy
    closes the enclosing unit when it fits that unit's END statement (bare END, or END <kind>
    [<name>] of the same kind and name), the enclosing unit's own END then closes the next
    one out, and so on; the END left over at top level is a complete (empty) main program when
    it is a bare END or END PROGRAM.  True when every step fits (over-approximated, so that a
    mutant that might be valid is never required to be rejected)."""
    cur = _end_parts(b.close)
    node = parent_of.get(id(b))
    while node is not None:
        if cur is None or node.cons not in UNITS or node.close is None:
            return False
        kind, name = cur
        if kind is not None and kind.replace(" ", "") != node.cons.upper():
            return False
        if name is not None and name.lower() not in [t.lower() for t in node.open.toks]:
            return False
        cur = _end_parts(node.close)
        node = parent_of.get(id(node))
    return cur is not None and cur[0] in (None, "PROGRAM")


def mutations(p, rng, max_paren=12):
    """yield (kind, cons, nontrivial, lines)"""
    flat = layout.flat_with_depth(p)
    lines = [("  " * d) + s.text() for s, d in flat]
    blocks = p.blocks()
    parent_of = {id(b): parent for b, depth, parent in blocks}
    # a main program without PROGRAM statement has no opener of its own: when the END of an
    # earlier program unit (or of a subprogram inside it) is removed, the END of that main
    # program terminates the unit instead, every unit is again opened, terminated and nested
    # (what remains wrong is the ORDER of statements inside the unit, which fparser does not
    # enforce by design and which is not what C08 is about)
    top = [b for b, depth, parent in blocks if depth == 0]
    headless_at = [i for i, b in enumerate(top) if b.cons == "program" and b.open is None]

    def top_index(b):
        while parent_of.get(id(b)) is not None:
            b = parent_of[id(b)]
        return next(i for i, t in enumerate(top) if t is b)
    for b, depth, parent in blocks:
        if b.cons == "nonblockdo":
            continue
        named = bool(b.open is not None and b.open.cname)
        nt = depth >= 1 or named
        oi = b.open.uid if b.open is not None else None
        ci = b.close.uid if b.close is not None else None
        ct0 = [t.upper() for t in b.close.toks] if b.close is not None else []
        # a labelled CONTINUE that closes a label-DO is a valid statement on its own: removing
        # the DO statement or repeating the CONTINUE leaves a (syntactically) valid program
        closer_is_stmt = b.cons == "labeldo" and ct0[:1] == ["CONTINUE"]
        # a surplus bare END / END PROGRAM [name] line is a main program without PROGRAM
        # statement, i.e. another (empty) program unit, not an ill-nested construct
        surplus_is_unit = b.cons in UNITS and surplus_end_absorbed(b, parent_of)
        if b.cons not in UNITS and oi is not None and not closer_is_stmt:
            yield ("del-opener", b.cons, nt, lines[:oi] + lines[oi + 1:])
        rebalanced = b.cons in UNITS and any(h > top_index(b) for h in headless_at)
        if ci is not None and not rebalanced:
            yield ("del-end", b.cons, nt, lines[:ci] + lines[ci + 1:])
        if ci is not None:
            if not closer_is_stmt and not surplus_is_unit:
                yield ("dup-end", b.cons, nt, lines[:ci + 1] + [lines[ci]] + lines[ci + 1:])
            ct = b.close.toks
            # rename the END name when there is one (last token is a name that equals the opener's)
            nm = b.open.cname if named else None
            if b.cons in UNITS or b.cons in ("type", "interface"):
                nm = ct[-1] if len(ct) >= 3 or (len(ct) == 2 and not gen.is_kw(ct[-1])) else None
                if nm is not None and not nm.replace("_", "a").isalnum():
                    nm = None    # `end interface operator(+)`: not a plain name
                if nm is not None and gen.is_kw(nm):
                    nm = None
            if nm and ct[-1] == nm:
                new = list(lines)
                new[ci] = new[ci][: len(new[ci]) - len(nm)] + nm + "_zz"
                yield ("rename-end", b.cons, True, new)
            elif named is False and b.cons not in UNITS and b.cons not in ("type", "interface", "enum", "labeldo") and ci is not None:
                # an END carrying a name although the opener has none
                new = list(lines)
                new[ci] = new[ci] + " stray_nm"
                yield ("name-on-unnamed-end", b.cons, nt, new)
    # parentheses
    cand = [(i, s) for i, (s, d) in enumerate(flat) if any(t in "()[]" for t in s.toks)]
    rng.shuffle(cand)
    for i, s in cand[:max_paren]:
        pos = _paren_positions(lines[i])
        if not pos:
            continue
        k = rng.choice(pos)
        new = list(lines)
        new[i] = lines[i][:k] + lines[i][k + 1:]
        yield ("del-paren", s.cons or util.stmt_kind(s.text()), True, new)
        new = list(lines)
        new[i] = lines[i][:k] + lines[i][k] + lines[i][k:]
        yield ("add-paren", s.cons or util.stmt_kind(s.text()), True, new)


def run_zoo(case):
    """single statements of every kind the program generator knows, each inside a subroutine:
    EVERY single deletion / duplication of a parenthesis or bracket outside character context
    (exhaustive per statement) must be rejected"""
    std = case["std"]
    res = {"key": ["zoo", case["seed"], std], "counts": {}, "findings": [], "nontrivial": True, "keys": []}
    g = gen.G(random.Random(case["seed"]), std=std, max_depth=1)
    zoo = [g.use_stmt()[0] for _ in range(4)] + [g.type_decl()[0] for _ in range(6)]
    zoo += [x for x in (g.spec_misc() for _ in range(10)) if isinstance(x, gen.St)]
    zoo += [g.io_stmt() for _ in range(8)] + [g.action() for _ in range(10)] + [g.format_stmt() for _ in range(2)]
    n = 0
    for st in zoo:
        if not isinstance(st, gen.St):
            continue
        line = st.text()
        if real.try_parse("subroutine s\n  %s\nend subroutine s\n" % line, std=std, free=True).kind != "tree":
            continue
        kind_ = util.stmt_kind(line)
        for k in _paren_positions(line):
            for kind, new in (("del-paren", line[:k] + line[k + 1:]), ("add-paren", line[:k] + line[k] + line[k:])):
                src = "subroutine s\n  %s\nend subroutine s\n" % new
                n += 1
                res["keys"].append("%d:%s:%d:%s" % (case["seed"], kind_, k, kind[0]))
                res["counts"]["zoo:" + kind_] = res["counts"].get("zoo:" + kind_, 0) + 1
                o = real.try_parse(src, std=std, free=True)
                if o.kind == "tree":
                    known = findings.classify("C08", src, {"std": std, "kind": kind, "cons": kind_})
                    res["findings"].append({"signature": known or ("accepted:%s/%s" % (kind, kind_)),
                                            "what": "ill-formed statement accepted (%s): %r printed as %r" % (kind, new, str(o.tree).split("\n")[1].strip()[:160]),
                                            "replay": {"case": case, "source": src, "mutation": kind, "cons": kind_}})
    res["evals"] = n
    res["nkeys"] = n
    return res


def run_case(case):
    if case.get("kind") == "zoo":
        return run_zoo(case)
    p = util.program_case(case)
    std = case["std"]
    res = {"key": [case["seed"], std], "counts": {}, "findings": [], "nontrivial": True}
    o = real.try_parse(p.text(), std=std, free=True)
    if o.kind != "tree":
        res["nontrivial"] = False
        return res
    rng = random.Random(case["seed"])
    n = nt_n = 0
    for kind, cons, nt, lines in mutations(p, rng):
        src = "\n".join(lines) + "\n"
        o2 = real.try_parse(src, std=std, free=True)
        n += 1
        nt_n += 1 if nt else 0
        if nt:
            res.setdefault("keys", []).append("%d:%d" % (case["seed"], n))
        k = "mut:%s/%s" % (kind, cons)
        res["counts"][k] = res["counts"].get(k, 0) + 1
        res["counts"]["outcome:" + o2.kind] = res["counts"].get("outcome:" + o2.kind, 0) + 1
        if n % 11 == 0:
            fs, info = util.block_cosim(src, std=std, case=case)
            res["findings"] += fs
            res["counts"]["block-cosim"] = res["counts"].get("block-cosim", 0) + 1
        if o2.kind != "tree" and kind == "rename-end":
            # the same ill-formed program with comments kept and a comment line in front of
            # every opening statement (the name check must not depend on what precedes the opener)
            src_c = "\n".join(("! c\n" + l) if re.match(r"(?i)^\s*(\w+\s*:\s*)?(program|module|subroutine|function|block\s*data|(pure|elemental|recursive)\b|if\s*\(.*\)\s*then|do\b|select|where|forall|associate|block\b|critical|type\b|interface)", l) else l
                              for l in lines) + "\n"
            o3 = real.try_parse(src_c, std=std, free=True, ignore_comments=False)
            res["counts"]["rename-end+comments"] = res["counts"].get("rename-end+comments", 0) + 1
            if o3.kind == "tree":
                o2, src, kind = o3, src_c, "rename-end+comments"
        if o2.kind == "tree":
            ctx = {"std": std, "kind": kind, "cons": cons}
            known = findings.classify("C08", src, ctx)
            res["findings"].append({"signature": known or ("accepted:%s/%s" % (kind, cons)),
                                    "what": "ill-formed program accepted (%s of %s); printed as %r" % (kind, cons, str(o2.tree)[:200]),
                                    "replay": {"case": case, "source": src, "mutation": kind, "cons": cons}})
    res["evals"] = n
    res["nkeys"] = nt_n
    res["sample"] = {"seed": case["seed"], "mutations": n}
    return res


def cases(tier, seed):
    n = util.tier_n(tier, 64, 600)
    out = [{"seed": s, "std": "f2008" if i % 3 else "f2003", "size": 0.8, "_timeout": 900}
           for i, s in enumerate(util.seeds(seed, n, 8))]
    out += [{"kind": "zoo", "seed": s, "std": "f2008" if i % 2 else "f2003", "_timeout": 900}
            for i, s in enumerate(util.seeds(seed, util.tier_n(tier, 16, 160), 88))]
    return out


def run(tier, rep, st):
    util.sub_cosim(rep, tier, "cosim_header", "Fp.Header", 60, 600)
    util.sub_cosim(rep, tier, "cosim_iostmt", "Fp.IoStmt", 50, 600)
    results = engine.run_cases(__name__, cases(tier, rep.seed), rep)
    rep.evaluations = sum(r.get("evals", 0) for r in results)
    rep.coverage["nontrivial_mutations"] = sum(r.get("nkeys", 0) for r in results)
