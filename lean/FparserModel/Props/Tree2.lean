import FparserModel.Proofs.TreeFrontier
import FparserModel.Props.Tree
/-!
# C10 / C18, second part: `walk` is the pre-order of the tree, statements come in frontier
order, `deepcopy` from the root yields a fresh isomorphic tree and leaves the original alone.

Vocabulary (Proofs/TreeWalk.lean, TreeShape.lean, TreeCopy.lean, TreeFrontier.lean):
* `RTree` - an ordinary inductive rose tree of node ids; `RTree.pre` its left-to-right
  pre-order (structural recursion; knows nothing of arenas, tuples, lists or fuel);
* `absNode a h n = some t` - abstraction function: `t` is the finite unfolding of arena `a`
  below node `n`, the children of a node being the nodes `_set_parent` sees in its child
  sequence (through nested tuples and lists); `none` if an id dangles or the child relation
  is cyclic / deeper than `h`;
* `TreeWF a root` - the well-formedness predicate of a tree: `root.parent is None`, every
  node listed under a reachable node `c` has `parent is c` (the conclusion of
  `parents_consistent`), no child sequence lists a node twice;
* `Reach a root n` - `n` is reachable from `root` through child sequences.
-/
namespace Fp.Tree

/-- **walk_preorder** (C10; the missing clause of `parents_consistent`; `walk` as of repo HEAD
    feeadef, which descends into tuples AND lists).  For every arena that represents a
    well-formed tree below `root`: `walk(root)` lists the nodes of the tree in left-to-right
    pre-order, every node exactly once, and the nodes listed are exactly the nodes reachable
    from `root`.  (The fuel built into `walk` is proved sufficient.) -/
theorem walk_preorder (a : Arena) (root h : Nat) (t : RTree)
    (ht : absNode a h root = some t) (wf : TreeWF a root) :
    walkIds a root = t.pre ∧ (walkIds a root).Nodup ∧ (∀ n, n ∈ walkIds a root ↔ Reach a root n) := by
  have hnd := wf_pre_nodup a root h t wf ht
  have hw : walkIds a root = t.pre :=
    walkIds_of_fuel a h root t ht (arena_fuel_walk a t.pre hnd (pre_alloc a h root t ht))
  refine ⟨hw, by rw [hw]; exact hnd, fun n => ?_⟩
  rw [hw]
  exact ⟨pre_reach a h root t ht n, reach_pre a h root t ht n⟩

/-- **walk_statement_order** (C10 ↔ block model): if `isLeaf` marks the statement nodes and no
    statement lies below another statement, the statements appear in `walk(root)` in frontier
    order, and — reading off each statement's source item — in exactly the order of
    `Fp.Block.Tree.frontier` of the corresponding block-model tree (`RTree.skel`: statement
    nodes ↦ leaves with their item, other nodes ↦ containers), i.e. in source order
    (`frontier_eq_consumed` of the block slice). -/
theorem walk_statement_order (a : Arena) (root h : Nat) (t : RTree)
    (ht : absNode a h root = some t) (wf : TreeWF a root)
    (isLeaf : Nat → Bool) (hs : t.stmtOK isLeaf = true)
    (clsOf : Nat → Block.Cls) (itemOf : Nat → Block.Item) (infoOf : Nat → Block.NodeInfo) :
    (walkIds a root).filter isLeaf = t.frontier isLeaf
    ∧ ((walkIds a root).filter isLeaf).map itemOf = (t.skel isLeaf clsOf itemOf infoOf).frontier := by
  have hw := (walk_preorder a root h t ht wf).1
  rw [hw, filter_pre isLeaf t hs, skel_frontier]
  exact ⟨rfl, rfl⟩

/-- **deepcopy_frame** (C18): whatever is copied (any start node, any arena, well-formed or
    not), a successful `copy.deepcopy` only ALLOCATES: every object of the original arena is
    unchanged — same class, same children, same parent. -/
theorem deepcopy_frame (facts : Nat → CopyFacts) (a a' : Arena) (n r : Nat)
    (h : deepcopy facts a n = .ok (a', r)) :
    a.length ≤ a'.length ∧ ∀ i, i < a.length → a'[i]? = a[i]? := by
  unfold deepcopy at h
  cases hc : copyNode facts a a.length (2 * arenaFuel a + 2) n {} with
  | error e => simp [hc] at h
  | ok p =>
    obtain ⟨y, st⟩ := p
    simp only [hc, Except.ok.injEq, Prod.mk.injEq] at h
    obtain ⟨rfl, rfl⟩ := h
    exact ⟨by simp, fun i hi => List.getElem?_append_left hi⟩

/-- **deepcopy_iso** (C18), copy started at the root of a well-formed tree all of whose
    classes are `CopyOK` (`(facts cls).ok`): `copy.deepcopy(root)` SUCCEEDS; the copies are
    fresh objects (ids `≥ |a|`, disjoint from every original id), one per node
    (`φ n = |a| + position of n in the pre-order`, injective); the copy of `n` has the same class
    and the same child sequence (same strings / `None`s / other objects, same tuple and list
    shape) with every node replaced by its copy; `parent` of the copy of `n` is the copy of
    `n.parent`, the copy of the root has no parent; the original objects are unchanged. -/
theorem deepcopy_iso (facts : Nat → CopyFacts) (a : Arena) (root h : Nat) (t : RTree)
    (ht : absNode a h root = some t) (wf : TreeWF a root)
    (hok : ∀ n ∈ t.pre, ∀ nd, a[n]? = some nd → (facts nd.cls).ok = true) :
    ∃ a', deepcopy facts a root = .ok (a', a.length)
      ∧ a'.length = a.length + t.pre.length
      ∧ (∀ i, i < a.length → a'[i]? = a[i]?)
      ∧ (∀ n ∈ t.pre, ∀ nd, a[n]? = some nd →
            a'[a.length + t.pre.idxOf n]? = some (expNode (fun m => a.length + t.pre.idxOf m) nd))
      ∧ (∀ n ∈ t.pre, a.length ≤ a.length + t.pre.idxOf n ∧ a.length + t.pre.idxOf n < a'.length)
      ∧ (∀ n ∈ t.pre, ∀ m ∈ t.pre, a.length + t.pre.idxOf n = a.length + t.pre.idxOf m → n = m)
      ∧ (∀ n ∈ t.pre, parentOf a' (a.length + t.pre.idxOf n)
            = (parentOf a n).map (fun m => a.length + t.pre.idxOf m))
      ∧ a.length + t.pre.idxOf root = a.length ∧ parentOf a' a.length = none := by
  obtain ⟨out, hd, hlen, hfill⟩ := deepcopy_root facts a root h t ht wf hok
  have hentry : ∀ n ∈ t.pre, ∀ nd, a[n]? = some nd →
      (a ++ out)[a.length + t.pre.idxOf n]? = some (expNode (fun m => a.length + t.pre.idxOf m) nd) := by
    intro n hn nd hnd
    have hi : t.pre.idxOf n < t.pre.length := List.idxOf_lt_length_of_mem hn
    have hget : t.pre[t.pre.idxOf n]? = some n := by
      rw [List.getElem?_eq_getElem hi]; simp
    rw [List.getElem?_append_right (by omega)]
    simpa using hfill _ n nd hget hnd
  have hroot : t.pre.idxOf root = 0 := by
    obtain ⟨_, _, kids, _, _, _, rfl⟩ := absNode_succ_some a h root t ht
    simp [RTree.pre]
  have hrootmem : root ∈ t.pre := by
    have := absNode_id a h root t ht; rw [← this]; exact id_mem_pre t
  have hpar : ∀ n ∈ t.pre, parentOf (a ++ out) (a.length + t.pre.idxOf n)
      = (parentOf a n).map (fun m => a.length + t.pre.idxOf m) := by
    intro n hn
    have hlt := pre_alloc a h root t ht n hn
    have hnd : a[n]? = some a[n] := List.getElem?_eq_getElem hlt
    simp [parentOf, hentry n hn _ hnd, hnd, expNode]
  refine ⟨a ++ out, hd, by simp [hlen], fun i hi => List.getElem?_append_left hi, hentry, ?_, ?_, hpar, ?_, ?_⟩
  · intro n hn
    have hi : t.pre.idxOf n < t.pre.length := List.idxOf_lt_length_of_mem hn
    simp only [List.length_append]; omega
  · intro n hn m hm he
    exact (List.idxOf_inj hn).1 (by omega)
  · omega
  · have := hpar root hrootmem
    rw [hroot, wf.root_parent] at this
    simpa using this

/-- **deepcopy_iso_tree** (C18): under the hypotheses of `deepcopy_iso` the copy is again a
    well-formed tree, of the same shape as the original with every node renamed by `φ`
    (`RTree.mapIds`), so `walk` of the copy lists the copies of the original nodes in the
    original order (and `parents_consistent` holds for the copy: `TreeWF`). -/
theorem deepcopy_iso_tree (facts : Nat → CopyFacts) (a : Arena) (root h : Nat) (t : RTree)
    (ht : absNode a h root = some t) (wf : TreeWF a root)
    (hok : ∀ n ∈ t.pre, ∀ nd, a[n]? = some nd → (facts nd.cls).ok = true) :
    ∃ a', deepcopy facts a root = .ok (a', a.length)
      ∧ absNode a' h a.length = some (t.mapIds (fun m => a.length + t.pre.idxOf m))
      ∧ TreeWF a' a.length
      ∧ walkIds a' a.length = t.pre.map (fun m => a.length + t.pre.idxOf m) := by
  obtain ⟨a', hd, _, _, hent, _, hinj, hpar, hroot, hrp⟩ := deepcopy_iso facts a root h t ht wf hok
  have habs := absNode_copy a a' (fun m => a.length + t.pre.idxOf m) t.pre hent h root t ht (fun _ hn => hn)
  simp only [hroot] at habs
  have hpre := pre_mapIds (fun m => a.length + t.pre.idxOf m) t
  have hwf : TreeWF a' a.length := by
    have back : ∀ c, Reach a' a.length c → ∃ n ∈ t.pre, c = a.length + t.pre.idxOf n := by
      intro c hc
      have := reach_pre a' h a.length _ habs c hc
      rw [hpre, List.mem_map] at this
      obtain ⟨n, hn, rfl⟩ := this
      exact ⟨n, hn, rfl⟩
    refine ⟨hrp, ?_, ?_⟩
    · intro c nd' m hc hnd' hm
      obtain ⟨n, hn, rfl⟩ := back c hc
      have hlt := pre_alloc a h root t ht n hn
      have hnd : a[n]? = some a[n] := List.getElem?_eq_getElem hlt
      rw [hent n hn _ hnd] at hnd'
      cases hnd'
      simp only [expNode, spList_mapItems, List.mem_map] at hm
      obtain ⟨m0, hm0, rfl⟩ := hm
      have hm0t := pre_closed a h root t ht n hn _ hnd m0 hm0
      rw [hpar m0 hm0t, wf.parent_ok n _ m0 (pre_reach a h root t ht n hn) hnd hm0]
      rfl
    · intro c nd' hc hnd'
      obtain ⟨n, hn, rfl⟩ := back c hc
      have hlt := pre_alloc a h root t ht n hn
      have hnd : a[n]? = some a[n] := List.getElem?_eq_getElem hlt
      rw [hent n hn _ hnd] at hnd'
      cases hnd'
      simp only [expNode, spList_mapItems]
      refine List.Nodup.map_on ?_ (wf.kids_nodup n _ (pre_reach a h root t ht n hn) hnd)
      intro x hx y hy hxy
      exact hinj x (pre_closed a h root t ht n hn _ hnd x hx) y (pre_closed a h root t ht n hn _ hnd y hy) hxy
  refine ⟨a', hd, habs, hwf, ?_⟩
  rw [(walk_preorder a' a.length h _ habs hwf).1, hpre]

/-! ## non-vacuity -/

/-- root 4 = `[n0, ([n1, "s"], None), [n3]]`, node 1 = `[n2]`; nodes 0, 1, 3 are statements,
    node 2 is the expression below statement 1.  (A COMMON statement has this shape: a tuple
    holding a list of tuples.) -/
def wA : Arena :=
  [⟨10, [], some 4⟩, ⟨11, [.node 2], some 4⟩, ⟨12, [], some 1⟩, ⟨13, [], some 4⟩,
   ⟨14, [.node 0, .tup [.lst [.node 1, .str "s"], .none], .lst [.node 3]], none⟩]

def wT : RTree := .mk 4 [.mk 0 [], .mk 1 [.mk 2 []], .mk 3 []]

def wLeaf : Nat → Bool := fun n => n == 0 || n == 1 || n == 3

theorem wA_abs : absNode wA 3 4 = some wT := rfl

theorem wA_wf : TreeWF wA 4 := treeWF_of_check wA 4 3 wT wA_abs (by decide)

/-- hypotheses of `walk_preorder` / `walk_statement_order` hold for `wA`, and the model
    really computes the stated result: the node in the nested list (1) and the one in the
    list-valued child (3) are visited, in order -/
example : walkIds wA 4 = [4, 0, 1, 2, 3] ∧ wT.pre = [4, 0, 1, 2, 3]
    ∧ Item.keyL (walk wA 4) = "n4 n0 ([n1 's' ] N ) n1 n2 's' N [n3 ] n3 " := by
  refine ⟨by decide, by decide, by decide⟩

example : walkIds wA 4 = wT.pre := (walk_preorder wA 4 3 wT wA_abs wA_wf).1

example : wT.stmtOK wLeaf = true ∧ (walkIds wA 4).filter wLeaf = [0, 1, 3]
    ∧ wT.frontier wLeaf = [0, 1, 3] := by
  refine ⟨by decide, by decide, by decide⟩

/-- `walk_statement_order` instantiated (items: the default item, tagged by nothing; any
    `itemOf` works) -/
example : ((walkIds wA 4).filter wLeaf).map (fun _ => (default : Block.Item))
    = (wT.skel wLeaf (fun n => n) (fun _ => default) (fun _ => default)).frontier :=
  (walk_statement_order wA 4 3 wT wA_abs wA_wf wLeaf (by decide) (fun n => n) (fun _ => default)
    (fun _ => default)).2

/-- the well-formedness hypotheses are needed: with a node listed twice (`[n0, n0]`) `walk`
    lists it twice; the unfolding still exists, `TreeWF.kids_nodup` fails -/
example : walkIds [⟨10, [], some 1⟩, ⟨11, [.node 0, .node 0], none⟩] 1 = [1, 0, 0] := by decide

/-- `deepcopy_iso` instantiated: all hypotheses hold for `wA` with `cpOk` -/
example : ∃ a', deepcopy cpOk wA 4 = .ok (a', 5) ∧ a'.length = 10 ∧ (∀ i, i < 5 → a'[i]? = wA[i]?) := by
  obtain ⟨a', h1, h2, h3, _⟩ := deepcopy_iso cpOk wA 4 3 wT wA_abs wA_wf (fun _ _ _ _ => rfl)
  exact ⟨a', h1, h2, h3⟩

/-- `deepcopy_iso_tree` instantiated on `wA` -/
example : ∃ a', deepcopy cpOk wA 4 = .ok (a', 5) ∧ TreeWF a' 5
    ∧ walkIds a' 5 = wT.pre.map (fun m => 5 + wT.pre.idxOf m) := by
  obtain ⟨a', h1, _, h3, h4⟩ := deepcopy_iso_tree cpOk wA 4 3 wT wA_abs wA_wf (fun _ _ _ _ => rfl)
  exact ⟨a', h1, h3, h4⟩

/-- the expected new nodes 5..9 (class, children, parent) -/
def wNew : List (Nat × String × Option Nat) :=
  [(14, "n6 ([n7 's' ] N ) [n9 ] ", none), (10, "", some 5), (11, "n8 ", some 5), (12, "", some 7),
   (13, "", some 5)]

/-- (id of the copy, original untouched, the new nodes are `wNew`, walk of the copy) -/
def wSum (r : Arena × Nat) : Nat × Bool × Bool × List Nat :=
  (r.2, (r.1.take 5).map Node.key == wA.map Node.key, (r.1.drop 5).map Node.key == wNew, walkIds r.1 r.2)

/-- … and the model really computes it: the copy (nodes 5..9) has the same shape with renamed
    nodes, consistent parents, and walks in the corresponding order -/
example : (okOf (deepcopy cpOk wA 4)).map wSum = some (5, true, true, [5, 6, 7, 8, 9]) := by
  decide

end Fp.Tree

#print axioms Fp.Tree.walk_preorder
#print axioms Fp.Tree.walk_statement_order
#print axioms Fp.Tree.deepcopy_frame
#print axioms Fp.Tree.deepcopy_iso
#print axioms Fp.Tree.deepcopy_iso_tree
