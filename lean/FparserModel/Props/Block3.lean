import FparserModel.Props.Block
import FparserModel.Proofs.Block3Eval
import FparserModel.Proofs.Block3Generated
import FparserModel.Proofs.Block3Sync
import FparserModel.Proofs.BlockGenerated

/-!
# M-D — property C16: the symbol tables mirror the scoping structure of the tree

"After a successful parse there is one top-level symbol table per module, submodule, main
program and external subprogram, and one nested table per contained subprogram or BLOCK
construct, nested as in the source."

* `scopeSkeleton tbl t` (Proofs/Block3Skel.lean) is the forest of scoping nodes of a result
  tree; `shapeL` forgets the identities of a forest of tables.
* `scopes_gained` is the invariant over `run`/`eval` for EVERY class of EVERY table, oracle and
  fuel; `tables_mirror_tree` / `tables_mirror_program` specialise it to an empty forest.
* Boundary predicate: `B st' = B st` — none of the nine event kinds `scopeLeak`, `main0Leak`,
  `emptyScopeName`, `abandon`, `nameClash`, `seqDrop`, `hookDrop`, `progDrop`, `noMatchDrop`
  was logged in the run.  Why each kind: a leak leaves a scope open (`main0_leaks_witness`,
  `internal_syntax_leaks_witness` in Props/Block.lean); `abandon`
  (`stale_table_skeleton_witness`) and the four drop kinds (`prog_drop_skeleton_witness`; the
  other three are the same situation in `Outer/Inner_Shared_Do_Construct.match` and the DO
  hook, not witnessed here) are exactly the places where a completed sub-tree — with its
  tables — is given back or thrown away while its tables stay; `nameClash` re-uses a top-level
  table (`name_clash_witness`, `clash_reuses_top`) or lets `remove` delete the wrong sibling.
  `fallback` and `sysExit` are NOT needed (the proof does not use them).
* Interface hypothesis `Discipline env S`: the statements that can be `ScopingRegionMixin`s are
  only ever asked for as the start class of a block.  Without it no function of the tree can
  give the tables (`discipline_needed_witness`: the same tree, different tables).  It is a
  kernel-checked fact of the generated tables (`discipline_2003`, `discipline_2008`) given the
  oracle fact "only the six scoping statement classes return scoping objects".

## `symtab_effects_confined` (interface, not a theorem)

The model's `SymTabs` is the name / nesting / identity skeleton of `SYMBOL_TABLES` ONLY.  What
leaf `match` methods do with the tables — `add_data_symbol`, `add_use_symbols`, `lookup`,
`Intrinsic_Function_Reference.match` consulting `current_scope` — is outside the model: the
oracle is a function of (item, class) alone.  The model therefore promises the leaves exactly
this: (a) a leaf call never changes the forest or the chain (`leaf_query_sees_entry_tables`);
(b) at every call boundary the names of the open chain are what the `enter`/`exit` events of
the log say (`open_chain_is_log_replay`), so the `current_scope` a leaf sees, and its
ancestors, are exactly the scoping constructs entered and not yet left at that point.  That
leaf effects on symbols stay inside `current_scope` is a hypothesis about the leaves, tested on
the Python side (C16 check), not proved here.
-/
namespace Fp.Block

/-! ## a. the invariant, for every class -/

/-- C16, general form.  For every class table, oracle, fuel, class `c` and state: if `c(reader)`
returns a tree and no boundary event was logged, the symbol tables gained exactly the tables
`scopeSkeleton t` (names and nesting, in order), appended as the last children of the scope
that was current at entry (as top-level tables if none was open); nothing else changed. -/
theorem scopes_gained (env : Env) (S : Cls → Bool) (hd : Discipline env S) (fuel : Nat) (c : Cls)
    (st st' : St) (t : Tree) (h : run env fuel c st = (.tree t, st')) (hb : B st' = B st) :
    Gain st st' (scopeSkeleton env.tbl t) := by
  unfold run fresh at h
  simp only [Prod.mk.injEq] at h
  have := (eval_T hd fuel).spec c [] st _ _ _ rfl
  rw [h.1, h.2] at this
  exact this hb t rfl

/-- `Gain` spelled out, no scope open: the new tables are the last top-level tables -/
theorem Gain.top {s s' : St} {sk : Forest} (h : Gain s s' sk) (h0 : s.sym.stack = []) :
    s'.sym.stack = [] ∧ ∃ new, s'.sym.tops = s.sym.tops ++ new ∧ shapeL new = sk := by
  obtain ⟨new, hn, h1, h2⟩ := h
  simp only [SymTabs.grow, h0] at h1 h2
  exact ⟨h2, new, h1, hn⟩

/-- `Gain` spelled out, scope `f` current: the new tables are its last children -/
theorem Gain.nested {s s' : St} {sk : Forest} {f : Frame} {fs : List Frame} (h : Gain s s' sk)
    (h0 : s.sym.stack = f :: fs) :
    s'.sym.tops = s.sym.tops ∧
    ∃ new, s'.sym.stack = { f with kids := f.kids ++ new } :: fs ∧ shapeL new = sk := by
  obtain ⟨new, hn, h1, h2⟩ := h
  simp only [SymTabs.grow, h0] at h1 h2
  exact ⟨h1, new, h2, hn⟩

/-- … and the chain of open scopes (identities) is the one at entry -/
theorem Gain.chain {s s' : St} {sk : Forest} (h : Gain s s' sk) : s'.sym.chain = s.sym.chain := by
  obtain ⟨new, _, _, h2⟩ := h
  unfold SymTabs.chain
  rw [h2]
  unfold SymTabs.grow
  split
  · rename_i h0; rw [h0]
  · rename_i f fs h0; rw [h0]; rfl

/-! ## b. from an empty forest -/

/-- C16 (`tables_mirror_tree`): a successful class call from a state without tables
(`SYMBOL_TABLES.clear()`), no boundary event logged: the final forest of symbol tables —
names and nesting, in order — IS the scope skeleton of the tree, and no scope is open. -/
theorem tables_mirror_tree (env : Env) (S : Cls → Bool) (hd : Discipline env S) (fuel : Nat)
    (c : Cls) (st st' : St) (t : Tree) (h : run env fuel c st = (.tree t, st'))
    (h0 : st.sym.tops = [] ∧ st.sym.stack = []) (hb : B st' = B st) :
    shapeL st'.sym.forest = scopeSkeleton env.tbl t ∧ st'.sym.chain = [] := by
  have g := scopes_gained env S hd fuel c st st' t h hb
  obtain ⟨hs, new, ht, hn⟩ := g.top h0.2
  refine ⟨?_, by simp [SymTabs.chain, hs]⟩
  simp [SymTabs.forest, hs, plug, ht, h0.1, hn]

/-- `Program(reader)` returns a `Program` node -/
theorem program_tree_is_node (env : Env) (fuel : Nat) (c unit main0 : Cls) (st st' : St)
    (t : Tree) (hk : env.tbl.kind c = .program unit main0 [])
    (h : run env (fuel + 1) c st = (.tree t, st')) : ∃ content, t = .node c content := by
  unfold run fresh at h
  simp only [eval, hk, Prod.mk.injEq] at h
  obtain ⟨ho, _⟩ := h
  generalize programMatch env (fresh (eval env fuel)) fuel unit main0 st = pm at ho
  obtain ⟨r, s1⟩ := pm
  cases r with
  | tuple content =>
    simp only [finish, programConvert, Outcome.tree.injEq] at ho
    exact ⟨content, ho.symm⟩
  | none =>
    simp only [finish, altLoop, blankRule] at ho
    split at ho <;> simp [programConvert] at ho
  | raise e =>
    cases e <;> simp only [finish, altLoop, blankRule] at ho
    · split at ho <;> simp [programConvert] at ho
    all_goals simp [programConvert] at ho

/-- C16 for `Program`: the top-level tables are, in order, the tables of the program units
(the children of the `Program` node), each with its contained subprograms / BLOCKs nested -/
theorem tables_mirror_program (env : Env) (S : Cls → Bool) (hd : Discipline env S) (fuel : Nat)
    (c unit main0 : Cls) (st st' : St) (t : Tree)
    (hk : env.tbl.kind c = .program unit main0 [])
    (h : run env (fuel + 1) c st = (.tree t, st'))
    (h0 : st.sym.tops = [] ∧ st.sym.stack = []) (hb : B st' = B st) :
    ∃ units, t = .node c units ∧ shapeL st'.sym.forest = skL env.tbl units ∧
      st'.sym.chain = [] := by
  obtain ⟨units, rfl⟩ := program_tree_is_node env fuel c unit main0 st st' t hk h
  have := tables_mirror_tree env S hd (fuel + 1) c st st' _ h h0 hb
  refine ⟨units, rfl, ?_, this.2⟩
  rw [this.1]; simp [scopeSkeleton, hk]

/-! ## c. the generated tables -/

/-- the discipline holds for the Fortran 2003 table of the working tree, for every oracle
whose scoping objects come from the scoping statement classes only -/
theorem discipline_2003 (env : Env) (ht : env.tbl = Generated.F2003.table)
    (horc : ∀ i c info, (env.orc i c).res = .matched info → info.scoping = true →
      S2003 c = true) : Discipline env S2003 :=
  Discipline.of_check (n := Generated.F2003.names.size) (by rw [ht]; exact discipline_check_2003)
    (by rw [ht]; exact leaf_beyond_2003) horc

theorem discipline_2008 (env : Env) (ht : env.tbl = Generated.F2008.table)
    (horc : ∀ i c info, (env.orc i c).res = .matched info → info.scoping = true →
      S2008 c = true) : Discipline env S2008 :=
  Discipline.of_check (n := Generated.F2008.names.size) (by rw [ht]; exact discipline_check_2008)
    (by rw [ht]; exact leaf_beyond_2008) horc

/-- C16 on the real class names (Fortran 2008 table of the working tree): after a successful
`Program(reader)` from cleared tables without boundary event, the forest of symbol tables is
the skeleton of the tree, whose scoping nodes are exactly the nodes of the classes
`scoping_blocks_2008`: `Main_Program`, `Main_Program0`, `Module`, `Submodule`,
`Function_Subprogram`, `Subroutine_Subprogram` (top level or nested under a
`Module_Subprogram_Part` / `Internal_Subprogram_Part`), `Function_Body`, `Subroutine_Body`
(interface bodies) and `Block_Construct`. -/
theorem tables_mirror_program_2008 (env : Env) (ht : env.tbl = Generated.F2008.table)
    (horc : ∀ i c info, (env.orc i c).res = .matched info → info.scoping = true →
      S2008 c = true)
    (fuel : Nat) (st st' : St) (t : Tree)
    (h : run env (fuel + 1) Generated.F2008.program st = (.tree t, st'))
    (h0 : st.sym.tops = [] ∧ st.sym.stack = []) (hb : B st' = B st) :
    ∃ units, t = .node Generated.F2008.program units ∧
      shapeL st'.sym.forest = skL env.tbl units ∧ st'.sym.chain = [] := by
  have hp := program_shape_2008
  unfold programShape at hp
  split at hp
  · rename_i u m hk
    exact tables_mirror_program env S2008 (discipline_2008 env ht horc) fuel _ u m st st' t
      (by rw [ht]; exact hk) h h0 hb
  · cases hp

/-! ## d. witnesses -/

/-- `enter_scope(n)` with no scope open and a top-level table `n` present (`nameClash`):
no table is created; the FIRST table of that name is re-opened with its identity and children,
and `exit_scope()` files it again as the last top-level table. -/
theorem clash_reuses_top (t : SymTabs) (n : Name) (sc : Scope) (hs : t.stack = [])
    (hf : findNamed n t.tops = some sc) :
    (t.enter n).exit = some { t with tops := eraseFirstNamed n t.tops ++ [.mk sc.id n sc.kids],
                                      stack := [] } := by
  simp [SymTabs.enter, hs, hf, SymTabs.exit, Frame.close]

namespace W
/-- class 30 = `Blk20 | Stmt` over the table of `stale_table_witness` -/
def kind3 : Cls → Kind
  | 30 => .alt [20, 5]
  | c => kind2 c
def tbl3 : Table := { tbl {} with kind := kind3 }
def resStale3 : Outcome × St :=
  run { env {} orcStale with tbl := tbl3 } 12 30 (St.init (items 3))

/-- `subroutine a / end subroutine a / subroutine a / end subroutine a` -/
def orcTwice : Oracle := fun i c =>
  match i, c with
  | 0, 3 => ans (.matched (subInfo 5))
  | 1, 4 => ans (.matched (endInfo (some 5)))
  | 2, 3 => ans (.matched (subInfo 5))
  | 3, 4 => ans (.matched (endInfo (some 5)))
  | _, _ => ans .none

def skOf (tbl : Table) : Outcome → Forest
  | .tree t => scopeSkeleton tbl t
  | _ => []
end W

open W in
/-- F-C16-1 against `scopeSkeleton`: the non-scoping block attempt `Stmt [Sub]… End_Sub` is
abandoned after the inner `subroutine a … end` was matched, the alternative `Stmt` then
matches the first line: the result is a tree (one statement) whose skeleton is empty, yet the
table `a` of the abandoned attempt is in the forest.  Only `abandon` was logged. -/
theorem stale_table_skeleton_witness :
    outKind resStale3.1 = 0 ∧ skOf tbl3 resStale3.1 = [] ∧
    shapeL resStale3.2.sym.forest = [.mk 5 []] ∧ resStale3.2.sym.chain = [] ∧
    B resStale3.2 = 1 ∧ resStale3.2.log.contains (.ghost .abandon) = true := by
  decide

open W in
/-- `nameClash`: two sibling units of the same name.  The tree has two `Sub` nodes, so its
skeleton has two tables `a`; the forest has ONE: the second unit re-used the table of the
first (identity 0), as `clash_reuses_top` says.  Only `nameClash` was logged. -/
theorem name_clash_witness :
    outKind (res {} orcTwice 0 4).1 = 0 ∧
    skOf (tbl {}) (res {} orcTwice 0 4).1 = [.mk 5 [], .mk 5 []] ∧
    shapeL (res {} orcTwice 0 4).2.sym.forest = [.mk 5 []] ∧
    (res {} orcTwice 0 4).2.sym.forest.map (·.id) = [0] ∧
    B (res {} orcTwice 0 4).2 = 1 ∧
    (res {} orcTwice 0 4).2.log.contains (.ghost .nameClash) = true := by
  decide

open W in
/-- `progDrop`: `subroutine a / end subroutine a / i = 1 / end` on the pinned `Program.match`:
the fall-back to `Main_Program0` drops the first unit from the tree, its table stays -/
theorem prog_drop_skeleton_witness :
    outKind (res {} orcDrop 0 4).1 = 0 ∧ skOf (tbl {}) (res {} orcDrop 0 4).1 = [.mk 1 []] ∧
    shapeL (res {} orcDrop 0 4).2.sym.forest = [.mk 5 [], .mk 1 []] ∧
    B (res {} orcDrop 0 4).2 = 1 ∧
    (res {} orcDrop 0 4).2.log.contains (.ghost .progDrop) = true := by
  decide

namespace W
/-- class 40: a block `Stmt [Sub_Stmt]…` (no end class) whose CONTENT class is the scoping
statement class 3; class 41: the block `Sub_Stmt …` -/
def kind4 : Cls → Kind
  | 40 => .block { start := some 5, subs := [3], end_ := none } []
  | 41 => .block { start := some 3, subs := [], end_ := none } []
  | c => kind c
def tbl4 : Table := { tbl {} with kind := kind4 }
def inc0 : NodeInfo := { cls := 5, isa := [5] }
/-- line 0 is an include line (answers with the info of a `Stmt`), line 1 a `subroutine a` -/
def orcIncl : Oracle := fun i c =>
  match i, c with
  | 0, 10 => ans (.matched inc0)
  | 1, 3 => ans (.matched (subInfo 5))
  | _, _ => ans .none
/-- line 0 is a `Stmt`, line 1 a `subroutine a` -/
def orcCont : Oracle := fun i c =>
  match i, c with
  | 0, 5 => ans (.matched inc0)
  | 1, 3 => ans (.matched (subInfo 5))
  | _, _ => ans .none
def resIncl : Outcome × St := run { env {} orcIncl with tbl := tbl4 } 12 41 (St.init (items 2))
def resCont : Outcome × St := run { env {} orcCont with tbl := tbl4 } 12 40 (St.init (items 2))
def leaves : Outcome → List (Cls × Nat × NodeInfo)
  | .tree (.node _ ks) => ks.filterMap fun
      | .leaf c i info => some (c, i.id, info)
      | _ => none
  | _ => []
end W

open W in
/-- why `Discipline` is needed: with a scoping statement class among the CONTENT classes of a
block, two runs without any event return trees with the same children (include line / statement,
then `subroutine a`), but the first opened a table for `a` (it was the start statement after a
leading include line) and the second did not (it was content).  No function of the children
can give both forests. -/
theorem discipline_needed_witness :
    outKind resIncl.1 = 0 ∧ outKind resCont.1 = 0 ∧ leaves resIncl.1 = leaves resCont.1 ∧
    (leaves resIncl.1).length = 2 ∧
    shapeL resIncl.2.sym.forest = [.mk 5 []] ∧ shapeL resCont.2.sym.forest = [] ∧
    B resIncl.2 = 0 ∧ B resCont.2 = 0 ∧ resIncl.2.sym.chain = [] ∧ resCont.2.sym.chain = [] := by
  decide

/-! ## e. non-vacuity: two units, a BLOCK nested in the first -/

namespace W5
/-- 0 Program, 1 Unit = Sub, 2 Sub (`Sub_Stmt (Stmt | BlockC)… End_Sub`), 3 Sub_Stmt, 4 End_Sub,
5 Stmt, 6 cpp, 7 Main0, 8 Comment, 9 Directive, 10 Include, 13 BlockC
(`Block_Stmt Stmt… End_Block`), 14 Block_Stmt, 15 End_Block -/
def kind : Cls → Kind
  | 0 => .program 1 7 []
  | 1 => .alt [2]
  | 2 => .block { start := some 3, subs := [5, 13], end_ := some 4, endAll := [4] } []
  | 6 => .cpp []
  | 7 => .main0 { start := none, subs := [5], end_ := some 4, endAll := [4] } 1 []
  | 8 => .comment
  | 9 => .directive
  | 13 => .block { start := some 14, subs := [5], end_ := some 15, endAll := [15] } []
  | _ => .leaf
def tbl : Table := { W.tbl {} with kind := kind }
def S : Cls → Bool := fun c => c == 3 || c == 14
def blkInfo (n : Name) : NodeInfo :=
  { cls := 14, isa := [14], scoping := true, scopeName := some n }
def endBlk : NodeInfo := { cls := 15, isa := [15] }
/-- `subroutine a / x=1 / b: block / x=1 / end block b / end subroutine a /
    subroutine c / end subroutine c`  (a = 5, b = 6, c = 7) -/
def orc : Oracle := fun i c =>
  match i, c with
  | 0, 3 => W.ans (.matched (W.subInfo 5))
  | 1, 5 => W.ans (.matched W.stmtInfo)
  | 2, 14 => W.ans (.matched (blkInfo 6))
  | 3, 5 => W.ans (.matched W.stmtInfo)
  | 4, 15 => W.ans (.matched endBlk)
  | 5, 4 => W.ans (.matched (W.endInfo (some 5)))
  | 6, 3 => W.ans (.matched (W.subInfo 7))
  | 7, 4 => W.ans (.matched (W.endInfo (some 7)))
  | _, _ => W.ans .none
def env : Env := { W.env {} orc with tbl := tbl }
def res : Outcome × St := run env 13 0 (St.init (W.items 8))

theorem orc_scoping (i : Nat) (c : Cls) (info : NodeInfo)
    (h : (orc i c).res = .matched info) (hs : info.scoping = true) : S c = true := by
  unfold orc at h
  split at h <;> simp only [W.ans, LeafRes.matched.injEq] at h <;>
    first
    | (subst h; first | rfl | exact absurd hs (by decide))
    | cases h

theorem discipline : Discipline env S := by
  refine Discipline.of_check (n := 16) (by decide) ?_ orc_scoping
  intro c hc
  show kind c = .leaf
  unfold kind
  split <;> first | rfl | omega
end W5

open W5 in
/-- the hypotheses of `tables_mirror_program` hold for this run (kind of class 0, `Discipline`,
empty forest at entry, a tree, no boundary event), the skeleton is `[a [b], c]` — and so is the
forest, by the theorem -/
example : env.tbl.kind 0 = .program 1 7 [] ∧ Discipline env S ∧
    W.outKind res.1 = 0 ∧ B res.2 = B (St.init (W.items 8)) ∧
    W.skOf env.tbl res.1 = [.mk 5 [.mk 6 []], .mk 7 []] :=
  ⟨rfl, discipline, by decide, by decide, by decide⟩

open W5 in
example : shapeL res.2.sym.forest = [.mk 5 [.mk 6 []], .mk 7 []] := by
  have hres : ∃ t, run env (12 + 1) 0 (St.init (W.items 8)) = (.tree t, res.2) := by
    have : W.outKind res.1 = 0 := by decide
    unfold res at this ⊢
    generalize run env 13 0 (St.init (W.items 8)) = r at this
    obtain ⟨o, s⟩ := r
    cases o with
    | tree t => exact ⟨t, rfl⟩
    | none => cases this
    | raise e => cases e <;> cases this
  obtain ⟨t, ht⟩ := hres
  obtain ⟨units, hu, hf, _⟩ := tables_mirror_program env S discipline 12 0 1 7 _ _ t rfl ht
    ⟨rfl, rfl⟩ (by decide)
  have hsk : W.skOf env.tbl res.1 = [.mk 5 [.mk 6 []], .mk 7 []] := by decide
  have hr1 : res.1 = .tree t := by
    have := congrArg Prod.fst ht
    exact this
  rw [hr1, hu] at hsk
  simp only [W.skOf, scopeSkeleton] at hsk
  rw [hf]
  exact hsk

/-- the oracle hypothesis of `discipline_2008` is satisfiable (and `Discipline` with it) -/
example : Discipline (Env.mk Generated.F2008.table (fun _ _ => W.ans .none) false
    (fun _ => false) false) S2008 :=
  discipline_2008 _ rfl (fun _ _ _ h => by cases h)

/-! ## f. what a leaf sees (`symtab_effects_confined`, see the header) -/

/-- for EVERY class call (every table, oracle, fuel, outcome): the log grows by some `new`, and
unless a `rollback` is among the new events the names of the chain of open scopes afterwards
(current scope first) are the `replay` of the `enter`/`exit` events of `new` on the names
before: scopes are opened and left only where the log says so. -/
theorem open_chain_is_log_replay (env : Env) (fuel : Nat) (c : Cls) (st : St) :
    ∃ new, (run env fuel c st).2.log = new ++ st.log ∧
      (new.any isRollback = false → (run env fuel c st).2.names = replay new st.names) :=
  run_rel (chainR_ok env) fuel c st

/-- … so a state whose chain is the replay of its whole log (`Sync`; e.g. the initial state)
stays so over every call without `rollback` -/
theorem sync_preserved (env : Env) (fuel : Nat) (c : Cls) (st : St) (hs : Sync st)
    (hr : ∀ new, (run env fuel c st).2.log = new ++ st.log → new.any isRollback = false) :
    Sync (run env fuel c st).2 :=
  (run_rel (chainR_ok env) fuel c st).sync hs hr

/-- the reader-level leaf branch of `Base.__new__` (the only place where the oracle is asked)
leaves the symbol tables exactly as they are and logs only reader / query events -/
theorem leaf_query_sees_entry_tables (env : Env) (c : Cls) (pc : List Cls) (s : St) :
    (leafNew env c pc s).2.2.sym = s.sym ∧
    ∃ new, (leafNew env c pc s).2.2.log = new ++ s.log ∧ ∀ e ∈ new, quietEv e = true :=
  leafNew_prim quiet_prim c pc s

/-- `current_scope_during_leaf`: when the oracle is asked for item `i` (the `query` event in
the part of the log written by this leaf call), the chain of open scopes — which is `s.names`
throughout the call by `leaf_query_sees_entry_tables` — is the replay of the `enter`/`exit`
events logged before the query: the scoping constructs entered and not yet left at the
position being matched.  This is what `Intrinsic_Function_Reference.match` looks up in. -/
theorem current_scope_during_leaf (env : Env) (c : Cls) (pc : List Cls) (s : St) (hs : Sync s)
    (post pre : List Ev) (i : Nat) (c' : Cls)
    (hl : (leafNew env c pc s).2.2.log = (post ++ Ev.query i c' :: pre) ++ s.log) :
    replay (pre ++ s.log) [] = s.names ∧ (leafNew env c pc s).2.2.names = s.names := by
  obtain ⟨hsym, new, hn, hq⟩ := leaf_query_sees_entry_tables env c pc s
  rw [hn] at hl
  have hnew := List.append_cancel_right hl
  refine ⟨?_, by unfold St.names; rw [hsym]⟩
  rw [replay_append, replay_quiet (fun e he => hq e (by rw [hnew]; simp [he])), hs]

open W5 in
/-- `Sync` holds initially and at the end of the two-unit run (no `rollback` there); during the
run the log shows `a` entered, then `b` inside it -/
example : Sync (St.init (W.items 8)) ∧ Sync res.2 ∧
    res.2.log.reverse.filter (fun e => !quietEv e) =
      [.enter 5, .enter 6, .exit, .exit, .enter 7, .exit] := by
  refine ⟨rfl, ?_, ?_⟩
  · unfold Sync; decide
  · decide

end Fp.Block
