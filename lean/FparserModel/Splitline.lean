import FparserModel.Py
/-!
# Splitline — executable mirror of `fparser/common/splitline.py`  (model M-A)

Mirrors, branch for branch and over `Fp.Str = List Char`:

* `_next_quote`          → `spanPlain` (no `quote_char`) / `spanLit q` (inside a literal)
* `splitquote`           → `splitquote line stop lower`
* `splitparen`           → `splitparen pairs line` (a fold of `parenStep` over the characters)
* `exponential_constant` → `expMatch` / `expFindAll`      (hand scanner for the regex)
* `_f2py_findall`        → `matchKey` / `keyFindAll`      (hand scanner for the regex)
* `_is_name/_is_simple_str` → `isSimple`
* `string_replace_map`   → `stringReplaceMap line lower : Option SrmResult` (`none` = the `KeyError`
  that escapes from the un-nesting loop when the text contains a foreign placeholder)
* `StringReplaceDict.__call__` → `applyMap`

The memoisation wrapper is the identity on values (the function is pure); the aliasing it
introduces (callers share one mutable dict per distinct argument tuple) is outside the model.
Character domain: ASCII (`\w`, `\d`, `\s`, `str.lower` are the ASCII ones).
All recursion is structural (fuel where the Python loop jumps), so everything reduces in the
kernel and `decide` can evaluate witnesses.
-/
namespace Fp.Splitline
open Fp

/-! ## `_next_quote` -/

def isQuote (c : Char) : Bool := c == '\'' || c == '"'

/-- `_next_quote(line, None, start)` seen from `start`: the text before the first quotation
    character and the text from that character on (`([..], [])` when the result is -1). -/
def spanPlain : Str → Str × Str
  | [] => ([], [])
  | c :: cs => if isQuote c then ([], c :: cs) else
      let r := spanPlain cs; (c :: r.1, r.2)

/-- `_next_quote(line, q, start)` seen from `start` (inside a literal delimited by `q`):
    `none` when the result is -1, otherwise the text up to and including the closing `q` and
    the remainder.  A doubled `q` is an escape and is skipped (`i += 2`). -/
def spanLit (q : Char) : Str → Option (Str × Str)
  | [] => none
  | [c] => if c == q then some ([c], []) else none
  | c :: d :: cs =>
    if c == q then
      if d == q then
        match spanLit q cs with
        | some r => some (c :: d :: r.1, r.2)
        | none => none
      else some ([c], d :: cs)
    else
      match spanLit q (d :: cs) with
      | some r => some (c :: r.1, r.2)
      | none => none

/-! ## `splitquote` -/

inductive Seg where
  | plain (s : Str)     -- a Python `str`
  | quoted (s : Str)    -- a `String` instance
deriving Repr, DecidableEq, BEq

def Seg.str : Seg → Str
  | .plain s => s
  | .quoted s => s

def Seg.isQuoted : Seg → Bool
  | .plain _ => false
  | .quoted _ => true

/-- the inner `_lower` helper -/
def lw (lower : Bool) (s : Str) : Str := if lower then Fp.lower s else s

/-- the `while pos < n` loop of `splitquote`, seen from `pos` -/
def splitLoop (lower : Bool) : Nat → Str → List Seg × Option Char
  | 0, _ => ([], none)
  | fuel+1, line =>
    if line.isEmpty then ([], none) else
    match spanPlain line with
    | (p, []) => ([.plain (lw lower p)], none)
    | (p, q :: body) =>
      let pre := if p.isEmpty then [] else [Seg.plain (lw lower p)]
      match spanLit q body with
      | none => (pre ++ [.quoted (q :: body)], some q)
      | some (lit, rest) =>
        let r := splitLoop lower fuel rest
        (pre ++ .quoted (q :: lit) :: r.1, r.2)

/-- `splitquote(line, stopchar, lower)`; `stop = none` for a falsy `stopchar`. -/
def splitquote (line : Str) (stop : Option Char) (lower : Bool := false) :
    List Seg × Option Char :=
  match stop with
  | none => splitLoop lower (line.length + 1) line
  | some q =>
    match spanLit q line with
    | none => ([.quoted line], some q)
    | some (lit, rest) =>
      let r := splitLoop lower (rest.length + 1) rest
      (.quoted lit :: r.1, r.2)

/-! ## `splitparen` -/

inductive PItem where
  | plain (s : Str)     -- a Python `str`
  | paren (s : Str)     -- a `ParenString`
deriving Repr, DecidableEq, BEq

def PItem.str : PItem → Str
  | .plain s => s
  | .paren s => s

def PItem.isParen : PItem → Bool
  | .plain _ => false
  | .paren _ => true

/-- `paren_close[paren_open.find(c)]` with `paren_open/paren_close` zipped into pairs -/
def closerOf : List (Char × Char) → Char → Option Char
  | [], _ => none
  | (o, cl) :: ps, c => if c == o then some cl else closerOf ps c

/-- loop state of `splitparen`; `cur` is `line[start:idx]` reversed, `items` is reversed -/
structure PState where
  nb : Bool := false             -- num_backslashes == 1
  inq : Option Char := none      -- inside_quotes_char ("" = none)
  cur : Str := []
  stack : List Char := []
  items : List PItem := []
deriving Repr, DecidableEq

def parenStep (pairs : List (Char × Char)) (st : PState) (c : Char) : PState :=
  if c == '\\' then { st with nb := !st.nb, cur := c :: st.cur }
  else if st.nb then { st with nb := false, cur := c :: st.cur }
  else match st.inq with
  | some q =>
    if c == q then { st with inq := none, cur := c :: st.cur }
    else { st with cur := c :: st.cur }
  | none =>
    if c == '\'' || c == '"' then { st with inq := some c, cur := c :: st.cur }
    else match closerOf pairs c with
    | some cl =>
      if st.stack.isEmpty then
        { st with items := .plain st.cur.reverse :: st.items, cur := [c], stack := [cl] }
      else { st with cur := c :: st.cur, stack := cl :: st.stack }
    | none =>
      match st.stack with
      | top :: rest =>
        if c == top then
          if rest.isEmpty then
            { st with items := .paren (c :: st.cur).reverse :: st.items, cur := [], stack := [] }
          else { st with cur := c :: st.cur, stack := rest }
        else { st with cur := c :: st.cur }
      | [] => { st with cur := c :: st.cur }

def parenFinish (st : PState) : List PItem :=
  if st.cur.isEmpty then st.items.reverse else (.plain st.cur.reverse :: st.items).reverse

def defaultPairs : List (Char × Char) := [('(', ')'), ('[', ']')]

/-- `splitparen(line, paren_open, paren_close)` with `pairs = zip(paren_open, paren_close)` -/
def splitparen (line : Str) (pairs : List (Char × Char) := defaultPairs) : List PItem :=
  parenFinish (line.foldl (parenStep pairs) {})

/-! ## the regex scanners -/

/-- `_is_name` / `_is_simple_str` : `\w*\Z` -/
def isSimple (s : Str) : Bool := s.all isWord

def isExpChar (c : Char) : Bool := c == 'e' || c == 'd' || c == 'E' || c == 'D'

/-- the capturing group 1 of `exponential_constant` anchored at the head of `s`:
    `(\d+[.]\d*|\d*[.]\d+|\d+)[edED][+-]?\d+(_\w+)?` → (matched text, remainder) -/
def expMatch (s : Str) : Option (Str × Str) :=
  let d1 := s.takeWhile isDigit
  let r1 := s.dropWhile isDigit
  let mant : Option (Str × Str) :=
    match r1 with
    | '.' :: r2 =>
      let d2 := r2.takeWhile isDigit
      if d1.isEmpty && d2.isEmpty then none else some (d1 ++ '.' :: d2, r2.dropWhile isDigit)
    | _ => if d1.isEmpty then none else some (d1, r1)
  match mant with
  | none => none
  | some (_, []) => none
  | some (m, e :: r) =>
    if isExpChar e then
      let sr : Str × Str := match r with
        | '+' :: t => (['+'], t)
        | '-' :: t => (['-'], t)
        | _ => ([], r)
      let d3 := sr.2.takeWhile isDigit
      let r4 := sr.2.dropWhile isDigit
      if d3.isEmpty then none else
      let kr : Str × Str := match r4 with
        | '_' :: t =>
          let w := t.takeWhile isWord
          if w.isEmpty then ([], r4) else ('_' :: w, t.dropWhile isWord)
        | _ => ([], r4)
      some (m ++ e :: sr.1 ++ d3 ++ kr.1, kr.2)
    else none

/-- `[m.group(1) for m in exponential_constant.finditer(s)]`; `atStart` = "position 0". -/
def expFindAll : Nat → Bool → Str → List Str
  | 0, _, _ => []
  | _, _, [] => []
  | fuel+1, atStart, c :: cs =>
    if !isWord c && c != '.' then
      -- alternative `[^\w.]` consumed c
      match expMatch cs with
      | some (m, rest) => m :: expFindAll fuel false rest
      | none =>
        if atStart then
          match expMatch (c :: cs) with
          | some (m, rest) => m :: expFindAll fuel false rest
          | none => expFindAll fuel false cs
        else expFindAll fuel false cs
    else if atStart then
      -- alternative `^`
      match expMatch (c :: cs) with
      | some (m, rest) => m :: expFindAll fuel false rest
      | none => expFindAll fuel false cs
    else expFindAll fuel false cs

def expConsts (s : Str) : List Str := expFindAll (s.length + 1) true s

def strPrefix : Str := ['_','F','2','P','Y','_','S','T','R','I','N','G','_','C','O','N','S','T','A','N','T','_']
def realPrefix : Str := ['F','2','P','Y','_','R','E','A','L','_','C','O','N','S','T','A','N','T','_']
def exprPrefix : Str := ['F','2','P','Y','_','E','X','P','R','_','T','U','P','L','E','_']

/-- `s` minus the prefix `p`, if `s` starts with `p` -/
def stripPrefix? : Str → Str → Option Str
  | [], s => some s
  | _ :: _, [] => none
  | p :: ps, c :: cs => if p == c then stripPrefix? ps cs else none

/-- `p\d+_` (closed = true) or `p\d+` (closed = false) anchored at the head of `s` -/
def matchNumbered (p : Str) (closed : Bool) (s : Str) : Option (Str × Str) :=
  match stripPrefix? p s with
  | none => none
  | some r =>
    let d := r.takeWhile isDigit
    let r' := r.dropWhile isDigit
    if d.isEmpty then none
    else if closed then
      match r' with
      | '_' :: t => some (p ++ d ++ ['_'], t)
      | _ => none
    else some (p ++ d, r')

/-- the `_f2py_findall` pattern anchored at the head of `s` -/
def matchKey (s : Str) : Option (Str × Str) :=
  match matchNumbered strPrefix true s with
  | some r => some r
  | none =>
    match matchNumbered realPrefix true s with
    | some r => some r
    | none => matchNumbered exprPrefix false s

def keyFindAllAux : Nat → Str → List Str
  | 0, _ => []
  | _, [] => []
  | fuel+1, c :: cs =>
    match matchKey (c :: cs) with
    | some (k, rest) => k :: keyFindAllAux fuel rest
    | none => keyFindAllAux fuel cs

/-- `_f2py_findall(s)` -/
def keyFindAll (s : Str) : List Str := keyFindAllAux (s.length + 1) s

/-! ## strings and dictionaries -/

/-- decimal digits of `n` (`str(n)`), without going through `String` -/
def natDigitsAux : Nat → Nat → Str → Str
  | 0, _, acc => acc
  | fuel+1, n, acc =>
    let acc' := Char.ofNat (48 + n % 10) :: acc
    if n < 10 then acc' else natDigitsAux fuel (n / 10) acc'
def natStr (n : Nat) : Str := natDigitsAux (n + 1) n []

def strKey (n : Nat) : Str := strPrefix ++ natStr n ++ ['_']
def realKey (n : Nat) : Str := realPrefix ++ natStr n ++ ['_']
def exprKey (n : Nat) : Str := exprPrefix ++ natStr n

/-- `s.replace(old, new)` (all non-overlapping occurrences, left to right; `old` non-empty) -/
def replaceAllAux (old new : Str) : Nat → Str → Str
  | 0, s => s
  | _, [] => []
  | fuel+1, c :: cs =>
    if old.isEmpty then c :: cs
    else match stripPrefix? old (c :: cs) with
    | some rest => new ++ replaceAllAux old new fuel rest
    | none => c :: replaceAllAux old new fuel cs
def replaceAll (s old new : Str) : Str := replaceAllAux old new (s.length + 1) s

/-- `s.replace(old, new, 1)` -/
def replaceFirst (old new : Str) : Str → Str
  | [] => []
  | c :: cs =>
    match stripPrefix? old (c :: cs) with
    | some rest => new ++ rest
    | none => c :: replaceFirst old new cs

/-- insertion-ordered `dict` -/
abbrev Map := List (Str × Str)

def Map.get? : Map → Str → Option Str
  | [], _ => none
  | (k, v) :: m, key => if k == key then some v else Map.get? m key

/-- `d[key] = val` (keeps the position of an existing key) -/
def Map.set : Map → Str → Str → Map
  | [], key, val => [(key, val)]
  | (k, v) :: m, key, val => if k == key then (k, val) :: m else (k, v) :: Map.set m key val

/-- `item[1:-1]` -/
def interior (s : Str) : Str := (s.drop 1).dropLast
/-- `item[0] + key + item[-1]` -/
def rewrap (item key : Str) : Str :=
  item.take 1 ++ key ++ (match item.getLast? with | some c => [c] | none => [])

/-! ## `string_replace_map` -/

/-- How `string_replace_map` consults its reverse maps, and what the un-nesting loop does with
    a placeholder-shaped text that is not a key of the map.

    * `lookupTrimmed = false` : `rev_string_map.get(item)` — the FULL item, delimiters included,
      although the map is keyed by the trimmed text (the code before commit 979b666: the lookup
      could only hit by accident, and then the item gained a second pair of delimiters);
      `true` : `.get(trimmed)`.
    * `separateParenMap = true` : parenthesised groups have their own reverse map
      (`rev_paren_map`), so a group never shares a key with a string or a real constant.
    * `foreignKeyRaises = true` : `string_map[inc_key]` raises `KeyError` (before c764ae8);
      `false` : guarded by `if inc_key in string_map`. -/
structure Discipline where
  lookupTrimmed : Bool
  separateParenMap : Bool
  foreignKeyRaises : Bool
deriving Repr, DecidableEq

/-- the code before the fixes 979b666 / c764ae8 (kept for the defect witnesses) -/
def Discipline.legacy : Discipline :=
  { lookupTrimmed := false, separateParenMap := false, foreignKeyRaises := true }
/-- the code at /repo HEAD -/
def Discipline.repaired : Discipline :=
  { lookupTrimmed := true, separateParenMap := true, foreignKeyRaises := false }

/-- THE ONE-LINE SWITCH: the discipline of `stringReplaceMap`, the mirror of /repo HEAD. -/
def discipline : Discipline := .repaired

/-- state threaded through the three phases -/
structure SrmState where
  map : Map := []          -- string_map
  rev : Map := []          -- rev_string_map
  revParen : Map := []     -- rev_paren_map (used when `separateParenMap`)
  strIdx : Nat := 0
  constIdx : Nat := 0
  parensIdx : Nat := 0
  constKeys : List Str := []
  exprKeys : List Str := []
deriving Repr, DecidableEq

/-- body of the first `for` loop; returns the text appended to `items` -/
def phase1Step (d : Discipline) (st : SrmState) (item : Seg) : SrmState × Str :=
  match item with
  | .quoted s =>
    if !isSimple (interior s) then
      match st.rev.get? (if d.lookupTrimmed then interior s else s) with
      | some key => (st, rewrap s key)
      | none =>
        let idx := st.strIdx + 1
        let key := strKey idx
        let trimmed := interior s
        ({ st with strIdx := idx, map := st.map.set key trimmed, rev := st.rev.set trimmed key },
          rewrap s key)
    else (st, s)
  | .plain s => (st, s)

def phase1 (d : Discipline) : SrmState → List Seg → SrmState × Str
  | st, [] => (st, [])
  | st, item :: items =>
    let r := phase1Step d st item
    let r' := phase1 d r.1 items
    (r'.1, r.2 ++ r'.2)

/-- body of the `finditer` loop -/
def phase2Step (acc : SrmState × Str) (found : Str) : SrmState × Str :=
  let st := acc.1
  match st.rev.get? found with
  | some key => (st, replaceAll acc.2 found key)
  | none =>
    let idx := st.constIdx + 1
    let key := realKey idx
    ({ st with constIdx := idx, map := st.map.set key found, rev := st.rev.set found key,
               constKeys := st.constKeys ++ [key] },
      replaceAll acc.2 found key)

def phase2 (st : SrmState) (newline : Str) : SrmState × Str :=
  (expConsts newline).foldl phase2Step (st, newline)

/-- body of the `splitparen` loop -/
def phase3Step (d : Discipline) (st : SrmState) (item : PItem) : SrmState × Str :=
  match item with
  | .paren s =>
    if !isSimple (strip (interior s)) then
      let rmap := if d.separateParenMap then st.revParen else st.rev
      match rmap.get? (if d.lookupTrimmed then strip (interior s) else s) with
      | some key => (st, rewrap s key)
      | none =>
        let idx := st.parensIdx + 1
        let key := exprKey idx
        let trimmed := strip (interior s)
        ({ st with parensIdx := idx, map := st.map.set key trimmed,
                   rev := if d.separateParenMap then st.rev else st.rev.set trimmed key,
                   revParen := if d.separateParenMap then st.revParen.set trimmed key else st.revParen,
                   exprKeys := st.exprKeys ++ [key] },
          rewrap s key)
    else (st, s)
  | .plain s => (st, s)

def phase3 (d : Discipline) : SrmState → List PItem → SrmState × Str
  | st, [] => (st, [])
  | st, item :: items =>
    let r := phase3Step d st item
    let r' := phase3 d r.1 items
    (r'.1, r.2 ++ r'.2)

/-- `for inc_key in included_keys: entry = entry.replace(inc_key, string_map[inc_key], 1)`;
    `none` = `KeyError` -/
def unnestEntry (d : Discipline) (m : Map) : Str → List Str → Option Str
  | entry, [] => some entry
  | entry, inc :: incs =>
    match m.get? inc with
    | none => if d.foreignKeyRaises then none else unnestEntry d m entry incs
    | some v => unnestEntry d m (replaceFirst inc v entry) incs

/-- the final loop over `expr_keys + const_keys` -/
def unnest (d : Discipline) : Map → List Str → Option Map
  | m, [] => some m
  | m, key :: keys =>
    match m.get? key with
    | none => none
    | some entry =>
      let included := keyFindAll entry
      if included.isEmpty then unnest d m keys
      else match unnestEntry d m entry included with
      | none => none
      | some entry' => unnest d (m.set key entry') keys

structure SrmResult where
  text : Str
  map : Map
deriving Repr, DecidableEq

/-- `string_replace_map(line, lower)` under a given discipline; `none` = a `KeyError` escapes -/
def stringReplaceMapWith (d : Discipline) (line : Str) (lower : Bool := false) : Option SrmResult :=
  let r1 := phase1 d {} (splitquote line none lower).1
  let r2 := phase2 r1.1 r1.2
  let r3 := phase3 d r2.1 (splitparen r2.2)
  match unnest d r3.1.map (r3.1.exprKeys ++ r3.1.constKeys) with
  | none => none
  | some m => some { text := r3.2, map := m }

/-- `string_replace_map(line, lower)` as it is in /repo -/
def stringReplaceMap (line : Str) (lower : Bool := false) : Option SrmResult :=
  stringReplaceMapWith discipline line lower

/-- `StringReplaceDict.__call__` -/
def applyMap (m : Map) (line : Str) : Str :=
  (keyFindAll line).foldl
    (fun l key => match m.get? key with
      | some v => replaceFirst key v l
      | none => l) line

end Fp.Splitline
