/-!
# M-D — block matcher, item stream, scope forest (fparser2 reader level)

Branch-for-branch mirror of

* `Base.__new__` on a reader (`two/utils.py`): leaf branch with put-back, `cls.match(reader)`,
  the ordered alternatives loop with the shared never-shrinking `parent_cls` list, the
  "all lines so far blank/comment → return None" rule, otherwise `raise NoMatchError`;
* `BlockBase.match` line by line;
* `Program.__new__`/`Program.match`, `Main_Program0.match`, `Component_Part.match`,
  `Outer/Inner_Shared_Do_Construct.match`, `Comment.__new__`, `Directive.__new__`,
  `add_comments_includes_directives`, `match_cpp_directive`, `restore_reader`;
* the `SymbolTables` container (`clear/enter_scope/exit_scope/remove`), scope forest only.

The ~600 leaf rule classes are the `Oracle` parameter.  Everything is total and computable;
no Mathlib.  Every helper takes the recursive call `f` as a parameter (Hoare-style lemmas in
`Proofs/Block*.lean`).

Numbers: classes, names (interned, lower-cased; `0` is the empty string) and labels are `Nat`.
-/
namespace Fp.Block

abbrev Cls := Nat
abbrev Name := Nat

/-! ## items and the stream -/

inductive ItemKind where
  | line | comment | cpp
  deriving DecidableEq, Repr, Inhabited

structure Item where
  id : Nat
  kind : ItemKind
  /-- for a comment item: `Directive.__new__` accepts it (not inline, has a directive prefix) -/
  directive : Bool
  deriving DecidableEq, Repr, Inhabited

/-- The reader seen from the parser: `buf` = `fifo_item`, `rest` = what the source will still
deliver, `pulled` = number of items taken from the source so far (high-water mark),
`eof` = a read has hit the end of the source. -/
structure Stream where
  buf : List Item
  rest : List Item
  pulled : Nat
  eof : Bool
  deriving Repr, DecidableEq

def Stream.all (s : Stream) : List Item := s.buf ++ s.rest

def Stream.get (s : Stream) : Option Item × Stream :=
  match s.buf with
  | x :: b => (some x, { s with buf := b })
  | [] =>
    match s.rest with
    | x :: r => (some x, { s with rest := r, pulled := s.pulled + 1 })
    | [] => (none, { s with eof := true })

def Stream.put (s : Stream) (x : Item) : Stream := { s with buf := x :: s.buf }

/-! ## scope forest (`SymbolTables`) -/

/-- a closed symbol table: identity, name, nested tables -/
inductive Scope where
  | mk (id : Nat) (name : Name) (kids : List Scope)
  deriving Repr

def Scope.id : Scope → Nat | .mk i _ _ => i
def Scope.name : Scope → Name | .mk _ n _ => n
def Scope.kids : Scope → List Scope | .mk _ _ k => k

/-- an open table (on the chain from the current scope to its root) -/
structure Frame where
  id : Nat
  name : Name
  kids : List Scope
  deriving Repr

def Frame.close (f : Frame) : Scope := .mk f.id f.name f.kids

/-- `tops`: the closed top-level tables (`_symbol_tables` minus the open root);
`stack`: the open chain, innermost (= `_current_scope`) first; `next`: fresh identity. -/
structure SymTabs where
  tops : List Scope
  stack : List Frame
  next : Nat
  deriving Repr

def SymTabs.empty : SymTabs := { tops := [], stack := [], next := 0 }

/-- identities of the open chain: head = `current_scope`, then its parent, … -/
def SymTabs.chain (t : SymTabs) : List Nat := t.stack.map (·.id)

def eraseFirstNamed (n : Name) : List Scope → List Scope
  | [] => []
  | s :: ss => if s.name = n then ss else s :: eraseFirstNamed n ss

def findNamed (n : Name) : List Scope → Option Scope
  | [] => none
  | s :: ss => if s.name = n then some s else findNamed n ss

/-- `SymbolTables.enter_scope(name)` -/
def SymTabs.enter (t : SymTabs) (n : Name) : SymTabs :=
  match t.stack with
  | [] =>
    match findNamed n t.tops with
    | some sc => { t with tops := eraseFirstNamed n t.tops,
                          stack := [{ id := sc.id, name := n, kids := sc.kids }] }
    | none => { t with stack := [{ id := t.next, name := n, kids := [] }], next := t.next + 1 }
  | fs => { t with stack := { id := t.next, name := n, kids := [] } :: fs, next := t.next + 1 }

/-- `SymbolTables.exit_scope()`; `none` = `SymbolTableError` -/
def SymTabs.exit (t : SymTabs) : Option SymTabs :=
  match t.stack with
  | [] => none
  | [f] => some { t with tops := t.tops ++ [f.close], stack := [] }
  | g :: f :: fs => some { t with stack := { f with kids := f.kids ++ [g.close] } :: fs }

def rootName : List Frame → Option Name
  | [] => none
  | [f] => some f.name
  | _ :: fs => rootName fs

/-- `SymbolTables.remove(name)`; `none` = `SymbolTableError` -/
def SymTabs.remove (t : SymTabs) (n : Name) : Option SymTabs :=
  let top : Option SymTabs :=
    match findNamed n t.tops with
    | some _ => some { t with tops := eraseFirstNamed n t.tops }
    | none => none   -- not found, or it is the open root of the current scope
  match t.stack with
  | f :: fs =>
    match findNamed n f.kids with
    | some _ => some { t with stack := { f with kids := eraseFirstNamed n f.kids } :: fs }
    | none => top
  | [] => top

/-- a table of that name already exists where `enter_scope(n)` would create one -/
def SymTabs.clashes (t : SymTabs) (n : Name) : Bool :=
  match t.stack with
  | [] => (findNamed n t.tops).isSome
  | f :: _ => (findNamed n f.kids).isSome

/-- the whole forest with the open chain plugged back (for reporting) -/
def plug : List Frame → Option Scope → Option Scope
  | [], acc => acc
  | f :: fs, acc =>
    plug fs (some (.mk f.id f.name (f.kids ++ acc.toList)))

def SymTabs.forest (t : SymTabs) : List Scope := t.tops ++ (plug t.stack none).toList

/-- the keys of `_symbol_tables`: closed top-level tables and the open root -/
def SymTabs.topNames (t : SymTabs) : List Name :=
  t.tops.map (·.name) ++ (rootName t.stack).toList

/-- `SymbolTables.rollback((names, scope))` where `scope` is the table that was current when
the stack had `n0` frames: the frames opened since are closed into their parents (they were
appended there when entered), top-level tables whose name is not in `names` are deleted -/
def SymTabs.rollback (t : SymTabs) (names : List Name) (n0 : Nat) : SymTabs :=
  let extra := t.stack.take (t.stack.length - n0)
  let base := t.stack.drop (t.stack.length - n0)
  match base with
  | f :: fs =>
    { t with tops := t.tops.filter (fun sc => names.contains sc.name),
             stack := { f with kids := f.kids ++ (plug extra none).toList } :: fs }
  | [] =>
    { t with tops := (t.tops ++ (plug extra none).toList).filter (fun sc => names.contains sc.name),
             stack := [] }

/-! ## class table, node info, oracle -/

/-- what the block matcher reads off a matched object -/
structure NodeInfo where
  /-- actual class of the object -/
  cls : Cls := 0
  /-- classes `C` of the table with `isinstance(obj, C)` -/
  isa : List Cls := []
  /-- `isinstance(obj, ScopingRegionMixin)` -/
  scoping : Bool := false
  /-- `obj.get_scope_name()` (`none`: it raises) -/
  scopeName : Option Name := none
  hasStartLabel : Bool := false
  startLabel : Option Nat := none
  hasEndLabel : Bool := false
  endLabel : Option Nat := none
  hasStartName : Bool := false
  startName : Option Name := none
  hasEndName : Bool := false
  endName : Option Name := none
  /-- `hasattr(obj, "get_name")`, `obj.get_name().string.lower()` (`none`: `get_name()` is None) -/
  hasName : Bool := false
  name : Option Name := none
  deriving Repr, DecidableEq, Inhabited

inductive Exc where
  | noMatch | syntax | internalSyntax | systemExit | other | outOfFuel
  deriving DecidableEq, Repr, Inhabited

inductive LeafRes where
  | matched (info : NodeInfo)
  | none
  | raise (e : Exc)
  deriving Repr, DecidableEq, Inhabited

/-- answer of the first (uncached) `item.parse_line(cls, parent_cls)`; `pcAdd` = classes the
string-level parse appended to the shared `parent_cls` list -/
structure LeafAns where
  res : LeafRes
  pcAdd : List Cls := []
  deriving Repr, Inhabited

abbrev Oracle := Nat → Cls → LeafAns

/-- the arguments of one `BlockBase.match(...)` call -/
structure Cfg where
  start : Option Cls
  subs : List Cls
  end_ : Option Cls
  /-- `[endcls] + endcls.subclasses[endcls.__name__]` -/
  endAll : List Cls := []
  matchLabels : Bool := false
  matchNames : Bool := false
  nameClasses : List Cls := []
  doHook : Bool := false
  ifHook : Bool := false
  whereHook : Bool := false
  strictOrder : Bool := false
  strictNames : Bool := false
  deriving Repr, DecidableEq, Inhabited

inductive Kind where
  /-- has `match`, not a `BlockBase`: the reader-level leaf branch of `Base.__new__` -/
  | leaf
  /-- no `match`: ordered `Base.subclasses[name]` -/
  | alt (subs : List Cls)
  /-- `match` = one `BlockBase.match(cfg)` call -/
  | block (cfg : Cfg) (subs : List Cls)
  /-- `Component_Part.match`: repeat one class -/
  | many (item : Cls) (subs : List Cls)
  /-- `Outer/Inner_Shared_Do_Construct.match`: sequence, NO restore on failure -/
  | seqNR (cs : List Cls) (subs : List Cls)
  /-- `Main_Program0.match` -/
  | main0 (cfg : Cfg) (scope : Name) (subs : List Cls)
  /-- `Program.__new__` + `Program.match` -/
  | program (unit : Cls) (main0 : Cls) (subs : List Cls)
  | comment
  | directive
  /-- `C99Preprocessor.match_cpp_directive` -/
  | cpp (cs : List Cls)
  deriving Repr, Inhabited

/-- behaviours of the working tree that differ between the pinned snapshot and its repaired
descendants; derived from the live code by `fv/extract_block.py` -/
structure Quirks where
  /-- `Main_Program0.match` leaves its scope in a `finally` (exit, remove unless matched) -/
  main0Finally : Bool := false
  /-- the clean-up handler of `BlockBase.match` also catches `InternalSyntaxError` -/
  catchInternalSyntax : Bool := false
  /-- the trailing start/end name check raises `FortranSyntaxError` instead of calling
      `reader.error` (→ `sys.exit`) -/
  nameMismatchSyntax : Bool := false
  /-- … and removes the symbol table of the block before raising -/
  nameMismatchRemoves : Bool := false
  /-- `Outer/Inner_Shared_Do_Construct.match` catch `NoMatchError` and restore the reader
      before returning None (the pinned code does neither: "todo: restore reader") -/
  seqRestores : Bool := false
  /-- the trailing name check: a named end statement after a start statement whose `get_name()`
      is None raises `FortranSyntaxError` (after removing the block's table) instead of the
      `AttributeError` of the pinned code -/
  startNameNoneSyntax : Bool := false
  /-- `Program.match` handles the `NoMatchError` of a program unit INSIDE its loop: it matches
      a `Main_Program0` there, keeps the units collected so far and goes on with the rest of
      the input (the pinned code falls back once, drops what it had and stops reading) -/
  programContinues : Bool := false
  /-- `Program.__new__` takes `SYMBOL_TABLES.snapshot()` first and calls `rollback` on every
      exception: top-level tables created by the failed parse are deleted and the scope that
      was current at entry is current again -/
  programRollback : Bool := false
  /-- the same-label DO hook of `BlockBase.match` first skips comments / includes / directives
      (`add_comments_includes_directives`) so that they cannot hide a DO statement sharing the
      label; they are kept with that statement or restored -/
  hookSkipsComments : Bool := false
  /-- `match_labels`: an `End_Do_Stmt` whose label differs from the DO statement's makes
      `BlockBase.match` restore everything and return None (the pinned code keeps it as
      content and goes on) -/
  endDoLabelMismatchFails : Bool := false
  /-- a `match_labels` block without `match_names` (labelled DO) applies the name tests,
      strictly, when its end statement can carry a name (`END DO`) -/
  labelDoEndNames : Bool := false
  deriving Repr, DecidableEq, Inhabited

structure Table where
  kind : Cls → Kind
  /-- for non-leaf classes: the table classes in the MRO of the class -/
  isa : Cls → List Cls
  comment : Cls
  directive : Cls
  includeStmt : Cls
  cppFn : Cls
  labelDo : List Cls
  endDo : Cls
  endDoStmt : Cls
  continueStmt : Cls
  elseIf : Cls
  else_ : Cls
  endIf : Cls
  maskedElsewhere : Cls
  elsewhere : Cls
  endWhere : Cls
  quirks : Quirks := {}

structure Env where
  tbl : Table
  orc : Oracle
  processDirectives : Bool
  /-- "all source lines read so far are blank or comments", by number of items pulled -/
  blank : Nat → Bool
  /-- the same once the end of the source has been hit -/
  blankEof : Bool

/-! ## trees -/

inductive Tree where
  | leaf (c : Cls) (item : Item) (info : NodeInfo)
  | node (c : Cls) (kids : List Tree)
  deriving Repr, Inhabited

mutual
def Tree.frontier : Tree → List Item
  | .leaf _ i _ => [i]
  | .node _ ks => frontierL ks
def frontierL : List Tree → List Item
  | [] => []
  | t :: ts => t.frontier ++ frontierL ts
end

def Tree.cls : Tree → Cls
  | .leaf c _ _ => c
  | .node c _ => c

def infoOf (tbl : Table) : Tree → NodeInfo
  | .leaf _ _ info => info
  | .node c _ => { cls := c, isa := tbl.isa c }

/-! ## events, state, outcomes -/

/-- places where the pinned code provably loses items or scopes (ghost events: they do not
influence the run; the `_partial` theorems are stated for runs without them) -/
inductive Ghost where
  /-- `Outer/Inner_Shared_Do_Construct.match` returned None / raised after consuming -/
  | seqDrop
  /-- DO-label hook: object without `get_start_label` neither kept nor restored -/
  | hookDrop
  /-- a `NoMatchError` left `BlockBase.match` (from the DO-label hook) with content consumed;
      `Base.__new__` then treats it as "no match" -/
  | noMatchDrop
  /-- `Program.match` fell back to `Main_Program0` -/
  | fallback
  /-- … after having collected content, which is dropped -/
  | progDrop
  /-- an exception other than `FortranSyntaxError` (or an early `return`) left
      `BlockBase.match` while its scope was open -/
  | scopeLeak
  /-- an exception passed through `Main_Program0.match` (no `finally`) -/
  | main0Leak
  /-- `enter_scope("")`: `if table_name:` is false afterwards, never exited -/
  | emptyScopeName
  /-- the `reader.error` → `sys.exit` path -/
  | sysExit
  /-- `restore_reader` of a block object: a completed construct is given back (its symbol
      tables, if any, are NOT removed: F-C16-1) -/
  | abandon
  /-- `enter_scope(name)` although a sibling table (or top-level table) of that name exists:
      top-level tables are re-used, `remove(name)` deletes the first child of that name -/
  | nameClash
  deriving DecidableEq, Repr

inductive Ev where
  | query (item : Nat) (c : Cls)
  | get (item : Option Nat)
  | put (item : Nat)
  | enter (n : Name)
  | exit
  | remove (n : Name)
  | rollback
  | ghost (g : Ghost)
  deriving DecidableEq, Repr

structure St where
  stream : Stream
  sym : SymTabs
  /-- `(item, cls)` pairs whose `parse_cache` entry exists -/
  seen : List (Nat × Cls)
  /-- newest first -/
  log : List Ev

inductive Outcome where
  | tree (t : Tree)
  | none
  | raise (e : Exc)
  deriving Repr, Inhabited

/-- result of a `match` method: the content tuple, None, or an exception -/
inductive MRes where
  | tuple (content : List Tree)
  | none
  | raise (e : Exc)
  deriving Repr, Inhabited

/-- a class called on the reader with a fresh `parent_cls` -/
abbrev F := Cls → St → Outcome × St
/-- a class called with the caller's `parent_cls` list; returns the (grown) list -/
abbrev G := Cls → List Cls → St → Outcome × List Cls × St

def fresh (g : G) : F := fun c st =>
  let r := g c [] st
  (r.1, r.2.2)

/-! ## logged primitive operations -/

def St.ev (st : St) (e : Ev) : St := { st with log := e :: st.log }

def St.get (st : St) : Option Item × St :=
  let r := st.stream.get
  (r.1, { st with stream := r.2, log := Ev.get (r.1.map (·.id)) :: st.log })

def St.put (st : St) (x : Item) : St :=
  { st with stream := st.stream.put x, log := Ev.put x.id :: st.log }

def St.enter (st : St) (n : Name) : St :=
  { st with sym := st.sym.enter n, log := Ev.enter n :: st.log }

/-- `SYMBOL_TABLES.exit_scope()`; `false`: it raised `SymbolTableError` -/
def St.exit (st : St) : Bool × St :=
  let st1 := st.ev .exit
  match st.sym.exit with
  | some y => (true, { st1 with sym := y })
  | none => (false, st1)

/-- `SYMBOL_TABLES.remove(name)`; `false`: it raised `SymbolTableError` -/
def St.remove (st : St) (n : Name) : Bool × St :=
  let st1 := st.ev (.remove n)
  match st.sym.remove n with
  | some y => (true, { st1 with sym := y })
  | none => (false, st1)

/-- `SYMBOL_TABLES.rollback(snapshot)` for the snapshot taken in state `s0` -/
def St.rollback (s0 st : St) : St :=
  { st with sym := st.sym.rollback s0.sym.topNames s0.sym.stack.length,
            log := Ev.rollback :: st.log }

mutual
/-- `obj.restore_reader(reader)` -/
def restore : Tree → St → St
  | .leaf _ i _, st => st.put i
  | .node _ ks, st => restoreRev ks (st.ev (.ghost .abandon))
/-- `for obj in reversed(ks): obj.restore_reader(reader)` -/
def restoreRev : List Tree → St → St
  | [], st => st
  | t :: ts, st => restore t (restoreRev ts st)
end

/-- `for obj in reversed(content)` where `rc` is the content newest first -/
def restoreRc : List Tree → St → St
  | [], st => st
  | t :: ts, st => restoreRc ts (restore t st)

def truthy : Option Name → Bool
  | some n => n != 0
  | none => false

def isaAny (info : NodeInfo) (cs : List Cls) : Bool := cs.any (fun c => info.isa.contains c)

/-! ## `Base.__new__`, leaf branch -/

def addPc (pc add : List Cls) : List Cls :=
  add.foldl (fun acc c => if acc.contains c then acc else acc ++ [c]) pc

/-- reader-level `Base.__new__` for a class with `match` that is not a `BlockBase` -/
def leafNew (env : Env) (c : Cls) (pc : List Cls) (st : St) : Outcome × List Cls × St :=
  match st.get with
  | (none, s1) => (.none, pc, s1)
  | (some it, s1) =>
    if it.kind = .comment then (.none, pc, s1.put it)
    else
      let s2 := s1.ev (.query it.id c)
      let ans := env.orc it.id c
      if s2.seen.contains (it.id, c) then
        -- cache hit: an earlier exception left `None` in the cache
        match ans.res with
        | .matched info => (.tree (.leaf info.cls it info), pc, s2)
        | _ => (.none, pc, s2.put it)
      else
        let s3 := { s2 with seen := (it.id, c) :: s2.seen }
        let pc' := addPc pc ans.pcAdd
        match ans.res with
        | .matched info => (.tree (.leaf info.cls it info), pc', s3)
        | .none => (.none, pc', s3.put it)
        | .raise .noMatch => (.none, pc', s3.put it)
        | .raise e => (.raise e, pc', s3)

def leafFresh (env : Env) (c : Cls) (st : St) : Outcome × St :=
  let r := leafNew env c [c] st
  (r.1, r.2.2)

/-- `Comment.__new__(reader)` -/
def commentNew (env : Env) (st : St) : Outcome × St :=
  match st.get with
  | (none, s1) => (.none, s1)
  | (some it, s1) =>
    if it.kind = .comment then
      (.tree (.leaf env.tbl.comment it { cls := env.tbl.comment, isa := env.tbl.isa env.tbl.comment }), s1)
    else (.none, s1.put it)

/-- `Directive.__new__(reader)` -/
def directiveNew (env : Env) (st : St) : Outcome × St :=
  match st.get with
  | (none, s1) => (.none, s1)
  | (some it, s1) =>
    if it.kind = .comment then
      if it.directive then
        (.tree (.leaf env.tbl.directive it
          { cls := env.tbl.directive, isa := env.tbl.isa env.tbl.directive }), s1)
      else (.none, s1.put it)
    else (.none, s1.put it)

def firstLeaf (env : Env) : List Cls → St → Outcome × St
  | [], st => (.none, st)
  | c :: cs, st =>
    match leafFresh env c st with
    | (.none, s1) => firstLeaf env cs s1
    | r => r

/-- `C99Preprocessor.match_cpp_directive(reader)` -/
def cppNew (env : Env) (cs : List Cls) (st : St) : Outcome × St :=
  match st.get with
  | (none, s1) => (.none, s1)
  | (some it, s1) =>
    let s2 := s1.put it
    if it.kind = .cpp then firstLeaf env cs s2 else (.none, s2)

def cppClasses (env : Env) : List Cls :=
  match env.tbl.kind env.tbl.cppFn with
  | .cpp cs => cs
  | _ => []

/-- `Comment(reader)`, then `Include_Stmt(reader)`, then `match_cpp_directive(reader)` -/
def cidRest (env : Env) (s1 : St) : Outcome × St :=
  match commentNew env s1 with
  | (.none, s2) =>
    match leafFresh env env.tbl.includeStmt s2 with
    | (.none, s3) => cppNew env (cppClasses env) s3
    | r => r
  | r => r

/-- `match_comment_or_include(reader)` then `match_cpp_directive(reader)` -/
def cidOne (env : Env) (st : St) : Outcome × St :=
  if env.processDirectives then
    match directiveNew env st with
    | (.none, s1) => cidRest env s1
    | r => r
  else cidRest env st

/-- `add_comments_includes_directives(content, reader)`; `rc` newest first -/
def addCID (env : Env) : Nat → List Tree → St → Except Exc (List Tree) × St
  | 0, _, st => (.error .outOfFuel, st)
  | k + 1, rc, st =>
    match cidOne env st with
    | (.tree t, s1) => addCID env k (t :: rc) s1
    | (.none, s1) => (.ok rc, s1)
    | (.raise e, s1) => (.error e, s1)

/-- `try: obj = cls(reader) except NoMatchError: obj = None` -/
def callCatch (f : F) (c : Cls) (st : St) : Outcome × St :=
  match f c st with
  | (.raise .noMatch, s1) => (.none, s1)
  | r => r

/-! ## `BlockBase.match` -/

/-- loop-carried variables of the `while i < len(classes)` loop -/
structure LoopVars where
  /-- content, newest first -/
  rc : List Tree
  hadMatch : Bool
  ifHook : Bool
  whereHook : Bool
  /-- python variable `start_label` (`none`: unbound) -/
  startLabel : Option (Option Nat)

inductive LoopRes where
  /-- loop left normally (`foundEnd` = left by `break`) -/
  | done (v : LoopVars) (foundEnd : Bool)
  /-- ticket-499 `return None` (content already restored) -/
  | abort
  | raise (e : Exc)

def Table.t499 (tbl : Table) (cfg : Cfg) : Bool :=
  match cfg.start, cfg.end_ with
  | some s, some e => tbl.labelDo.contains s && e == tbl.endDo
  | _, _ => false

/-- the `match_names and isinstance(obj, match_name_classes)` check; `some e`: raise -/
def nameClassCheck (cfg : Cfg) (startName : Option (Option Name)) (inf : NodeInfo) : Option Exc :=
  if cfg.matchNames && isaAny inf cfg.nameClasses then
    if !inf.hasEndName then some .other
    else if truthy inf.endName then
      match startName with
      | none => some .other
      | some sn =>
        if !truthy sn then some .syntax
        else if inf.endName != sn then some .syntax
        else none
    else none
  else none

/-- the name checks once the end statement has been found; `some e`: raise -/
def endNameCheck (cfg : Cfg) (sinf : Option NodeInfo) (inf : NodeInfo) : Option Exc :=
  if cfg.matchNames then
    match sinf with
    | none => some .other
    | some si =>
      if !si.hasStartName then some .other
      else if !inf.hasEndName then some .other
      else if truthy inf.endName && !truthy si.startName then some .syntax
      else if cfg.strictNames && truthy si.startName && !truthy inf.endName then some .syntax
      else if truthy si.startName && truthy inf.endName && si.startName != inf.endName then
        some .syntax
      else none
  else none

/-- (repaired variant) `end_do_names`: a labelled DO closed by an `END DO` -/
def endDoNames (q : Quirks) (cfg : Cfg) (sinf : Option NodeInfo) (inf : NodeInfo) : Bool :=
  q.labelDoEndNames && cfg.matchLabels && !cfg.matchNames && inf.hasEndName &&
    (match sinf with
     | some si => si.hasStartName
     | none => false)

/-- the name tests at the end statement, including the labelled-DO case -/
def endNameCheckQ (q : Quirks) (cfg : Cfg) (sinf : Option NodeInfo) (inf : NodeInfo) : Option Exc :=
  if endDoNames q cfg sinf inf then
    endNameCheck { cfg with matchNames := true, strictNames := true } sinf inf
  else endNameCheck cfg sinf inf

/-- the ticket-499 test; `none`: evaluating it raises -/
def abort499 (tbl : Table) (cfg : Cfg) (sinf : Option NodeInfo) (inf : NodeInfo) : Option Bool :=
  if tbl.t499 cfg && inf.hasEndLabel then
    match sinf with
    | none => none
    | some si =>
      if !si.hasStartLabel then none
      else some (si.startLabel == inf.endLabel &&
        !(inf.isa.contains tbl.endDoStmt || inf.isa.contains tbl.continueStmt))
  else some false

/-- the `match_labels` test at the end statement: new loop variables and "labels differ" -/
def endLabelCheck (cfg : Cfg) (sinf : Option NodeInfo) (inf : NodeInfo) (v : LoopVars) :
    Except Exc (LoopVars × Bool) :=
  if cfg.matchLabels then
    match sinf with
    | none => .error .other
    | some si =>
      if !si.hasStartLabel then .error .other
      else if !inf.hasEndLabel then .error .other
      else .ok ({ v with startLabel := some si.startLabel }, si.startLabel != inf.endLabel)
  else .ok (v, false)

inductive HookRes where
  | raise (e : Exc)
  /-- objects to append to the content, newest first; then `continue` -/
  | append (ts : List Tree)
  | proceed

/-- (repaired variant) `leading = []; add_comments_includes_directives(leading, reader)` -/
def hookLead (env : Env) (fuel : Nat) (st : St) : Except Exc (List Tree) × St :=
  if env.tbl.quirks.hookSkipsComments then addCID env fuel [] st else (.ok [], st)

/-- the `enable_do_label_construct_hook` prologue of every loop iteration -/
def doHook (env : Env) (f : F) (fuel : Nat) (cfg : Cfg) (v : LoopVars) (st : St) : HookRes × St :=
  if cfg.doHook then
    match hookLead env fuel st with
    | (.error e, s0) => (.raise e, s0)
    | (.ok lead, s0) =>
      match cfg.start with
      | none => (.raise .other, s0)
      | some sc =>
        match f sc s0 with
        | (.raise e, s1) => (.raise e, s1)
        | (.none, s1) => (.proceed, restoreRc lead s1)
        | (.tree t, s1) =>
          if (infoOf env.tbl t).hasStartLabel then
            match v.startLabel with
            | none => (.raise .other, s1)
            | some sl =>
              if sl = (infoOf env.tbl t).startLabel then (.append (t :: lead), s1)
              else (.proceed, restoreRc lead (restore t s1))
          else (.proceed, restoreRc lead (s1.ev (.ghost .hookDrop)))
  else (.proceed, st)

inductive Step where
  | raise (e : Exc)
  | abort
  | done (v : LoopVars)
  | again (i : Nat) (v : LoopVars)

/-- everything `BlockBase.match` does in one iteration after `obj = cls(reader)` matched -/
def matchedStep (env : Env) (cfg : Cfg) (startT : Option Tree) (startName : Option (Option Name))
    (i : Nat) (v : LoopVars) (t : Tree) (s1 : St) : Step × St :=
  let inf := infoOf env.tbl t
  let sinf := startT.map (infoOf env.tbl)
  match abort499 env.tbl cfg sinf inf with
  | none => (.raise .other, s1)
  | some true => (.abort, restoreRc v.rc (restore t s1))
  | some false =>
    let v1 := { v with hadMatch := true, rc := t :: v.rc }
    match nameClassCheck cfg startName inf with
    | some e => (.raise e, s1)
    | none =>
      if cfg.end_.isSome && isaAny inf cfg.endAll then
        match endLabelCheck cfg sinf inf v1 with
        | .error e => (.raise e, s1)
        | .ok (v2, true) =>
          if env.tbl.quirks.endDoLabelMismatchFails && inf.isa.contains env.tbl.endDoStmt then
            (.abort, restoreRc v.rc (restore t s1))
          else (.again i v2, s1)
        | .ok (v2, false) =>
          match endNameCheckQ env.tbl.quirks cfg sinf inf with
          | some e => (.raise e, s1)
          | none => (.done v2, s1)
      else
        let i1 := if !cfg.strictOrder then 0 else i
        let i2 := if v1.ifHook && inf.isa.contains env.tbl.elseIf then 0 else i1
        let ifH := v1.ifHook &&
          !(inf.isa.contains env.tbl.else_ || inf.isa.contains env.tbl.endIf)
        let i3 := if v1.whereHook && inf.isa.contains env.tbl.maskedElsewhere then 0 else i2
        let whH := v1.whereHook &&
          !(inf.isa.contains env.tbl.elsewhere || inf.isa.contains env.tbl.endWhere)
        (.again i3 { v1 with ifHook := ifH, whereHook := whH }, s1)

/-- the `while i < len(classes)` loop -/
def blockLoop (env : Env) (f : F) (cfg : Cfg) (classes : List Cls) (startT : Option Tree)
    (startName : Option (Option Name)) :
    Nat → Nat → LoopVars → St → LoopRes × St
  | 0, _, _, st => (.raise .outOfFuel, st)
  | k + 1, i, v, st =>
    match classes[i]? with
    | none => (.done v false, st)
    | some cls =>
      match doHook env f k cfg v st with
      | (.raise e, s1) => (.raise e, s1)
      | (.append ts, s1) =>
        blockLoop env f cfg classes startT startName k i { v with rc := ts ++ v.rc } s1
      | (.proceed, s0) =>
        match callCatch f cls s0 with
        | (.raise e, s1) => (.raise e, s1)
        | (.none, s1) => blockLoop env f cfg classes startT startName k (i + 1) v s1
        | (.tree t, s1) =>
          match matchedStep env cfg startT startName i v t s1 with
          | (.raise e, s2) => (.raise e, s2)
          | (.abort, s2) => (.abort, s2)
          | (.done v2, s2) => (.done v2 true, s2)
          | (.again i2 v2, s2) => blockLoop env f cfg classes startT startName k i2 v2 s2

inductive StartRes where
  /-- `BlockBase.match` returns / raises before the loop -/
  | ret (r : MRes)
  | go (rc : List Tree) (startT : Option Tree) (tableName : Option Name)
       (startLabel : Option (Option Nat)) (startName : Option (Option Name))

def ghostIf (b : Bool) (g : Ghost) (st : St) : St := if b then st.ev (.ghost g) else st

/-- python variable `table_name` after the start statement -/
def tableNameOf (inf : NodeInfo) : Option Name := if inf.scoping then inf.scopeName else none

/-- `SYMBOL_TABLES.enter_scope(table_name, obj)` if the start statement is a scoping region -/
def enterState (tn : Option Name) (s2 : St) : St :=
  match tn with
  | some n =>
    ghostIf (n == 0) .emptyScopeName ((ghostIf (s2.sym.clashes n) .nameClash s2).enter n)
  | none => s2

/-- `BlockBase.match` up to and including the start statement -/
def blockStart (env : Env) (f : F) (fuel : Nat) (cfg : Cfg) (st : St) : StartRes × St :=
  match cfg.start with
  | none => (.go [] none none none none, st)
  | some sc =>
    match addCID env fuel [] st with
    | (.error e, s1) => (.ret (.raise e), s1)
    | (.ok rc0, s1) =>
      match callCatch f sc s1 with
      | (.raise e, s2) => (.ret (.raise e), s2)
      | (.none, s2) => (.ret .none, restoreRc rc0 s2)
      | (.tree t, s2) =>
        if (infoOf env.tbl t).scoping && (infoOf env.tbl t).scopeName.isNone then
          (.ret (.raise .other), s2)
        else if cfg.matchNames && !(infoOf env.tbl t).hasStartName then
          (.ret (.raise .other),
            ghostIf (truthy (tableNameOf (infoOf env.tbl t))) .scopeLeak
              (enterState (tableNameOf (infoOf env.tbl t)) s2))
        else
          (.go (t :: rc0) (some t) (tableNameOf (infoOf env.tbl t))
            (if (infoOf env.tbl t).hasStartLabel && cfg.doHook
              then some (infoOf env.tbl t).startLabel else none)
            (if cfg.matchNames then some (infoOf env.tbl t).startName else none),
           enterState (tableNameOf (infoOf env.tbl t)) s2)

inductive NameCheck where
  | ok
  /-- evaluating the check raises (`AttributeError`) -/
  | error
  /-- the end statement is named, `start_stmt.get_name()` is None -/
  | noStartName
  /-- the names differ -/
  | mismatch
  deriving DecidableEq, Repr

/-- the trailing start/end name check of `BlockBase.match` -/
def finalNameCheck (tbl : Table) (cfg : Cfg) (startT : Option Tree) (rc : List Tree) : NameCheck :=
  match cfg.start, cfg.end_, startT, rc with
  | some _, some _, some stT, eT :: _ =>
    let einf := infoOf tbl eT
    let sinf := infoOf tbl stT
    if isaAny einf cfg.endAll && einf.hasName && sinf.hasName then
      match einf.name with
      | none => .ok
      | some en =>
        match sinf.name with
        | none => .noStartName
        | some sn =>
          if sn != en then
            (match eT with | .leaf .. => .mismatch | .node .. => .error)
          else .ok
    else .ok
  | _, _, _, _ => .ok

def blockClasses (env : Env) (cfg : Cfg) : List Cls :=
  cfg.subs ++ (if env.processDirectives then [env.tbl.directive] else [])
    ++ [env.tbl.comment, env.tbl.includeStmt] ++ cfg.end_.toList ++ [env.tbl.cppFn]

def condExit (b : Bool) (st : St) : Bool × St := if b then st.exit else (true, st)
def condRemove (b : Bool) (n : Option Name) (st : St) : Bool × St :=
  match b, n with
  | true, some n => st.remove n
  | _, _ => (true, st)

/-- the `except FortranSyntaxError` handler: `exit_scope`, `remove`, re-raise -/
def blockCleanup (tn : Option Name) (e : Exc) (s2 : St) : MRes × St :=
  match condExit (truthy tn) s2 with
  | (false, s3) => (.raise .other, s3)
  | (true, s3) =>
    match condRemove (truthy tn) tn s3 with
    | (false, s4) => (.raise .other, s4)
    | (true, s4) => (.raise e, s4)

/-- `BlockBase.match` after the loop and `if table_name: exit_scope()` -/
def blockTail (env : Env) (cfg : Cfg) (startT : Option Tree) (tn : Option Name) (v : LoopVars)
    (foundEnd : Bool) (s3 : St) : MRes × St :=
  if (!v.hadMatch || !foundEnd) && cfg.end_.isSome then
    match condRemove (truthy tn) tn s3 with
    | (false, s4) => (.raise .other, s4)
    | (true, s4) => (.none, restoreRc v.rc s4)
  else if v.rc.isEmpty then (.none, s3)
  else
    match finalNameCheck env.tbl cfg startT v.rc with
    | .ok => (.tuple v.rc.reverse, s3)
    | .error => (.raise .other, s3)
    | .noStartName =>
      if env.tbl.quirks.startNameNoneSyntax then
        match condRemove (truthy tn) tn s3 with
        | (false, s4) => (.raise .other, s4)
        | (true, s4) => (.raise .syntax, s4)
      else (.raise .other, s3)
    | .mismatch =>
      if env.tbl.quirks.nameMismatchSyntax then
        match condRemove (truthy tn && env.tbl.quirks.nameMismatchRemoves) tn s3 with
        | (false, s4) => (.raise .other, s4)
        | (true, s4) => (.raise .syntax, s4)
      else (.raise .systemExit, s3.ev (.ghost .sysExit))

/-- `BlockBase.match` from the end of the loop -/
def blockFinish (env : Env) (cfg : Cfg) (startT : Option Tree) (tn : Option Name) (res : LoopRes)
    (s2 : St) : MRes × St :=
  match res with
  | .raise e =>
    if e == .syntax || (env.tbl.quirks.catchInternalSyntax && e == .internalSyntax) then
      blockCleanup tn e s2
    else (.raise e, ghostIf (e == .noMatch) .noMatchDrop (ghostIf (truthy tn) .scopeLeak s2))
  | .abort => (.none, ghostIf (truthy tn) .scopeLeak s2)
  | .done v foundEnd =>
    match condExit (truthy tn) s2 with
    | (false, s3) => (.raise .other, s3)
    | (true, s3) => blockTail env cfg startT tn v foundEnd s3

def loopVars0 (cfg : Cfg) (rc0 : List Tree) (sl : Option (Option Nat)) : LoopVars :=
  { rc := rc0, hadMatch := false, ifHook := cfg.ifHook, whereHook := cfg.whereHook,
    startLabel := sl }

/-- `BlockBase.match(startcls, subclasses, endcls, reader, …)` -/
def blockMatch (env : Env) (f : F) (fuel : Nat) (cfg : Cfg) (st : St) : MRes × St :=
  match blockStart env f fuel cfg st with
  | (.ret r, s1) => (r, s1)
  | (.go rc0 startT tn sl sn, s1) =>
    let lr := blockLoop env f cfg (blockClasses env cfg) startT sn fuel 0 (loopVars0 cfg rc0 sl) s1
    blockFinish env cfg startT tn lr.1 lr.2

/-! ## the other `match` methods -/

/-- `Component_Part.match` -/
def manyLoop (f : F) (c : Cls) : Nat → List Tree → St → MRes × St
  | 0, _, st => (.raise .outOfFuel, st)
  | k + 1, rc, st =>
    match callCatch f c st with
    | (.raise e, s1) => (.raise e, s1)
    | (.none, s1) => (if rc.isEmpty then .none else .tuple rc.reverse, s1)
    | (.tree t, s1) => manyLoop f c k (t :: rc) s1

/-- `Outer_Shared_Do_Construct.match` / `Inner_Shared_Do_Construct.match`
("todo: restore reader" in the source) -/
def seqNR (q : Quirks) (f : F) : List Cls → List Tree → St → MRes × St
  | [], rc, st => (.tuple rc.reverse, st)
  | c :: cs, rc, st =>
    if q.seqRestores then
      match callCatch f c st with
      | (.raise e, s1) => (.raise e, s1)
      | (.none, s1) => (.none, restoreRc rc s1)
      | (.tree t, s1) => seqNR q f cs (t :: rc) s1
    else
      match f c st with
      | (.raise e, s1) => (.raise e, ghostIf (!rc.isEmpty) .seqDrop s1)
      | (.none, s1) => (.none, ghostIf (!rc.isEmpty) .seqDrop s1)
      | (.tree t, s1) => seqNR q f cs (t :: rc) s1

/-- `Main_Program0.match` -/
def main0Match (env : Env) (f : F) (fuel : Nat) (cfg : Cfg) (scope : Name) (st : St) : MRes × St :=
  match blockMatch env f fuel cfg
      ((ghostIf (st.sym.clashes scope) .nameClash st).enter scope) with
  | (.raise e, s2) =>
    if e == .outOfFuel then
      -- the model itself ran out of fuel: stop at once (the scope stays open)
      (.raise e, s2.ev (.ghost .main0Leak))
    else if env.tbl.quirks.main0Finally then
      match s2.exit with
      | (false, s3) => (.raise .other, s3)
      | (true, s3) =>
        match s3.remove scope with
        | (false, s4) => (.raise .other, s4)
        | (true, s4) => (.raise e, s4)
    else (.raise e, s2.ev (.ghost .main0Leak))
  | (r, s2) =>
    match s2.exit with
    | (false, s3) => (.raise .other, s3)
    | (true, s3) =>
      match r with
      | .none =>
        match s3.remove scope with
        | (false, s4) => (.raise .other, s4)
        | (true, s4) => (.none, s4)
      | r => (r, s3)

inductive PRes where
  | done (rc : List Tree)
  | fail (rc : List Tree) (e : Exc)
  /-- `return None` (repaired variant: the `Main_Program0` attempt failed too) -/
  | retNone

/-- `BlockBase.match(Main_Program0, [], None, reader)` -/
def fallbackCfg (main0 : Cls) : Cfg := { start := some main0, subs := [], end_ := none }

/-- `if obj: content.append(obj)` -/
def pushTree (o : Outcome) (rc : List Tree) : List Tree :=
  match o with
  | .tree t => t :: rc
  | _ => rc

inductive UnitStep where
  | go (rc : List Tree)
  | stop (r : PRes)

/-- `obj = Program_Unit(reader)` with (repaired variant) its `except NoMatchError` handler -/
def unitStep (env : Env) (f : F) (fuel : Nat) (unit main0 : Cls) (rc : List Tree) (st : St) :
    UnitStep × St :=
  match f unit st with
  | (.raise e, s1) =>
    if e == .noMatch && env.tbl.quirks.programContinues then
      match blockMatch env f fuel (fallbackCfg main0) (s1.ev (.ghost .fallback)) with
      | (.tuple c0, s2) => (.go (c0.reverse ++ rc), s2)
      | (.none, s2) => (.stop .retNone, ghostIf (!rc.isEmpty) .progDrop s2)
      | (.raise e2, s2) =>
        (.stop (.fail rc e2), ghostIf (e2 == .noMatch && !rc.isEmpty) .progDrop s2)
    else (.stop (.fail rc e), s1)
  | (o, s1) => (.go (pushTree o rc), s1)

/-- the `while True` loop of `Program.match` -/
def programLoop (env : Env) (f : F) (unit main0 : Cls) (fuel : Nat) :
    Nat → List Tree → St → PRes × St
  | 0, rc, st => (.fail rc .outOfFuel, st)
  | k + 1, rc, st =>
    match unitStep env f fuel unit main0 rc st with
    | (.stop r, s1) => (r, s1)
    | (.go rc1, s1) =>
      match addCID env fuel rc1 s1 with
      | (.error e, s2) => (.fail rc1 e, s2)
      | (.ok rc2, s2) =>
        match s2.get with
        | (none, s3) => (.done rc2, s3)
        | (some it, s3) => programLoop env f unit main0 fuel k rc2 (s3.put it)

/-- `Program.match` -/
def programMatch (env : Env) (f : F) (fuel : Nat) (unit main0 : Cls) (st : St) : MRes × St :=
  match addCID env fuel [] st with
  | (.error e, s1) => (.raise e, s1)
  | (.ok rc0, s1) =>
    match programLoop env f unit main0 fuel fuel rc0 s1 with
    | (.done rc, s2) => (.tuple rc.reverse, s2)
    | (.retNone, s2) => (.none, s2)
    | (.fail rc e, s2) =>
      if e == .noMatch && !env.tbl.quirks.programContinues then
        -- pinned code: `except NoMatchError:` around the whole loop
        blockMatch env f fuel (fallbackCfg main0)
          (ghostIf (!rc.isEmpty) .progDrop (s2.ev (.ghost .fallback)))
      else (.raise e, s2)

/-! ## `Base.__new__` -/

def isBlank (env : Env) (st : St) : Bool :=
  if st.stream.eof then env.blankEof else env.blank st.stream.pulled

/-- the end of `Base.__new__`: nothing matched -/
def blankRule (env : Env) (st : St) : Outcome :=
  if isBlank env st then .none else .raise .noMatch

/-- `for subcls in Base.subclasses.get(cls.__name__, [])` with the shared `parent_cls` -/
def altLoop (env : Env) (g : G) : List Cls → List Cls → St → Outcome × List Cls × St
  | [], pc, st => (blankRule env st, pc, st)
  | d :: ds, pc, st =>
    if pc.contains d then altLoop env g ds pc st
    else
      match g d pc st with
      | (.tree t, pc1, s1) => (.tree t, pc1, s1)
      | (.none, pc1, s1) => altLoop env g ds pc1 s1
      | (.raise .noMatch, pc1, s1) => altLoop env g ds pc1 s1
      | (.raise e, pc1, s1) => (.raise e, pc1, s1)

/-- `Base.__new__` after `result = cls.match(string)` -/
def finish (env : Env) (g : G) (c : Cls) (subs : List Cls) (r : MRes × St) (pc : List Cls) :
    Outcome × List Cls × St :=
  match r with
  | (.tuple content, s1) => (.tree (.node c content), pc, s1)
  | (.none, s1) => altLoop env g subs pc s1
  | (.raise .noMatch, s1) => altLoop env g subs pc s1
  | (.raise e, s1) => (.raise e, pc, s1)

/-- `Program.__new__`'s conversion of exceptions -/
def programConvert : Outcome → Outcome
  | .raise .noMatch => .raise .syntax
  | .raise .internalSyntax => .raise .syntax
  | o => o

/-- the `except` clauses of `Program.__new__` (repaired variant): roll the symbol tables back -/
def programExit (env : Env) (s0 : St) (o : Outcome) (s2 : St) : St :=
  match o with
  | .raise _ => if env.tbl.quirks.programRollback then St.rollback s0 s2 else s2
  | _ => s2

/-- `cls(reader, parent_cls=pc0)` for every class of the table, by fuel -/
def eval (env : Env) : Nat → G
  | 0, _, pc, st => (.raise .outOfFuel, pc, st)
  | fuel + 1, c, pc0, st =>
    let g := eval env fuel
    let f := fresh g
    let pc := if pc0.contains c then pc0 else pc0 ++ [c]
    match env.tbl.kind c with
    | .leaf => leafNew env c pc st
    | .alt subs => altLoop env g subs pc st
    | .block cfg subs => finish env g c subs (blockMatch env f fuel cfg st) pc
    | .many item subs => finish env g c subs (manyLoop f item fuel [] st) pc
    | .seqNR cs subs => finish env g c subs (seqNR env.tbl.quirks f cs [] st) pc
    | .main0 cfg scope subs => finish env g c subs (main0Match env f fuel cfg scope st) pc
    | .program unit main0 subs =>
      let r := finish env g c subs (programMatch env f fuel unit main0 st) [c]
      (programConvert r.1, pc0, programExit env st (programConvert r.1) r.2.2)
    | .comment => let r := commentNew env st; (r.1, pc0, r.2)
    | .directive => let r := directiveNew env st; (r.1, pc0, r.2)
    | .cpp cs => let r := cppNew env cs st; (r.1, pc0, r.2)

/-- top-level entry: `cls(reader)` -/
def run (env : Env) (fuel : Nat) (c : Cls) (st : St) : Outcome × St := fresh (eval env fuel) c st

def St.init (items : List Item) : St :=
  { stream := { buf := [], rest := items, pulled := 0, eof := false },
    sym := SymTabs.empty, seen := [], log := [] }

end Fp.Block
