import FparserModel.Decl
import FparserModel.Generated.DeclTables

/-!
# Decl — kernel obligations over the generated tables (`Generated/DeclTables.lean`)

`FparserModel/Decl.lean` mirrors BY HAND the `match` / `tostr` methods listed in
`Fp.Decl.Gen.classMethods` (fparser/two/Fortran2003.py, fparser/two/utils.py,
fparser/common/splitline.py).  The translator `fv/extract_decl.py` re-reads them from the live tree
before every build; the theorems below compare what it found with what the model was written
against.  A code edit of a mirrored method (comment / docstring / layout edits do not count), a
class that gains or loses its own `tostr`, or a change of a keyword list / regex the matches read,
makes the corresponding theorem fail with a message that names the table.

Re-pinning (only after the mirror has been re-validated with `python -m fv.cosim_decl`):
`python -m fv.extract_decl --pin` prints the two `pinned…` blocks below (it edits nothing);
`python -m fv.extract_decl --diff lean/FparserModel/Proofs/DeclGenerated.lean` lists the entries
that differ.  The fingerprints are sha1 over `ast.dump` of the method: pinned with python 3.12, at
/repo 68391df (`Char_Selector.match` re-pinned after the repmap repair, model updated with it).
-/
namespace Fp.Decl.Gen

/-- fingerprints of the mirrored methods as read when `Decl.lean` was written -/
def pinnedFingerprints : List (String × String) := [
  ("utils.Type_Declaration_StmtBase.match", "dde125dcc37a8d8b"),
  ("utils.Type_Declaration_StmtBase.tostr", "8e682861d27f1054"),
  ("Fortran2003.Type_Declaration_Stmt.match", "d7a110fbe2a0b2b3"),
  ("Fortran2003.Type_Declaration_Stmt.tostr", "1e1f3c0244eb7daf"),
  ("Fortran2003.Type_Declaration_Stmt.get_attr_spec_list_cls", "03208b93e219b7e8"),
  ("Fortran2003.Data_Component_Def_Stmt.match", "7efb8a0ed3a81959"),
  ("Fortran2003.Entity_Decl.match", "0462a186aca5c3c7"),
  ("Fortran2003.Entity_Decl.tostr", "bdfa023b67d1d3bb"),
  ("Fortran2003.Component_Decl.match", "df2044481941e9a6"),
  ("Fortran2003.Component_Decl.tostr", "bdfa023b67d1d3bb"),
  ("Fortran2003.Initialization.match", "aafaf719d8dc5acf"),
  ("Fortran2003.Initialization.tostr", "39419e1b48908e71"),
  ("Fortran2003.Component_Initialization.match", "aafaf719d8dc5acf"),
  ("Fortran2003.Component_Initialization.tostr", "bc8279f4a2729894"),
  ("Fortran2003.Kind_Selector.match", "46e34d3c67b7c2a5"),
  ("Fortran2003.Kind_Selector.tostr", "545b20c4c0272394"),
  ("Fortran2003.Char_Selector.match", "f5416d3e404ff3f6"),
  ("Fortran2003.Char_Selector.tostr", "8314a7bd7a65f4d0"),
  ("Fortran2003.Length_Selector.match", "07821eb90a0d0883"),
  ("Fortran2003.Length_Selector.tostr", "3d58ef5cf569c824"),
  ("Fortran2003.Char_Length.match", "64cecc891fdeca74"),
  ("Fortran2003.Attr_Spec.match", "7effac398f2aada1"),
  ("Fortran2003.Component_Attr_Spec.match", "cae92bd23f7c8c45"),
  ("Fortran2003.Intent_Spec.match", "9a7b425d7c8c0e24"),
  ("Fortran2003.Dimension_Attr_Spec.match", "11c6ad752c98ae8c"),
  ("Fortran2003.Intent_Attr_Spec.match", "6bdc7ba35648ee81"),
  ("Fortran2003.Implicit_Stmt.match", "e9714e9b35b3a5b8"),
  ("Fortran2003.Implicit_Stmt.tostr", "7a93287ad8bfa375"),
  ("Fortran2003.Implicit_Spec.match", "bbd806e71e95054a"),
  ("Fortran2003.Letter_Spec.match", "cbeae4cee5dd316f"),
  ("Fortran2003.Letter_Spec.tostr", "9aa262b9cc4b6fe0"),
  ("Fortran2003.Data_Stmt.match", "b3df21a1bb0888e1"),
  ("Fortran2003.Data_Stmt.tostr", "c9c31e1d4235ebdc"),
  ("Fortran2003.Data_Stmt_Set.match", "6bc8d290dd2e4df5"),
  ("Fortran2003.Data_Stmt_Set.tostr", "b20cefbed16ef18a"),
  ("Fortran2003.Data_Implied_Do.match", "8ba46786b85e5145"),
  ("Fortran2003.Data_Implied_Do.tostr", "9e6148937974af12"),
  ("Fortran2003.Data_Stmt_Value.match", "eb882e3c91e22b17"),
  ("Fortran2003.Data_Stmt_Value.tostr", "fbdbb2f7310fb401"),
  ("Fortran2003.Dimension_Stmt.match", "69b03171871adb4d"),
  ("Fortran2003.Dimension_Stmt.tostr", "fef1a0c2c476f5eb"),
  ("Fortran2003.Intent_Stmt.match", "f14dcfe0b8c38f65"),
  ("Fortran2003.Intent_Stmt.tostr", "568d81ba023362e7"),
  ("Fortran2003.Parameter_Stmt.match", "2e2d15ac0265de37"),
  ("Fortran2003.Named_Constant_Def.match", "a8d2e98b3e8e1754"),
  ("Fortran2003.Save_Stmt.match", "284c2797e40d44a8"),
  ("Fortran2003.Saved_Entity.match", "e7b31c70b99a329b"),
  ("Fortran2003.Equivalence_Stmt.match", "96094444d5b15a1d"),
  ("Fortran2003.Equivalence_Set.match", "f75b4bf912729c3d"),
  ("Fortran2003.Equivalence_Set.tostr", "4b48087c4babebde"),
  ("Fortran2003.Namelist_Stmt.match", "5a41d6643227c093"),
  ("Fortran2003.Namelist_Stmt.tostr", "03ecfae966d9a11c"),
  ("Fortran2003.Common_Stmt.match", "89100025c169870d"),
  ("Fortran2003.Common_Stmt.tostr", "9de9437709404bda"),
  ("utils.CallBase.tostr", "2e4b80dd7de9ebec"),
  ("utils.BracketBase.tostr", "54fe27c24dccb195"),
  ("utils.KeywordValueBase.tostr", "90c4fe9165b5ccd2"),
  ("utils.WORDClsBase.tostr", "af2afdcf9063c31a"),
  ("utils.WORDClsBase.tostr_a", "2a627069b9c9f7f6"),
  ("utils.SequenceBase.match", "f9401adaa8568a22"),
  ("utils.SequenceBase.tostr", "c3c2e7d5da0b497d"),
  ("utils.STRINGBase.match", "db96f61a290af301"),
  ("utils.StringBase.match", "fbffdebfc59d2876"),
  ("splitline.string_replace_map", "34e0670413a9c0e2"),
  ("splitline.StringReplaceDict.__call__", "1ea2f616ed5c6a50")
]

/-- the method `cls.tostr` resolved to when `Decl.lean` was written (`tostrX` mirrors that one) -/
def pinnedTostrOwners : List (String × String) := [
  ("Type_Declaration_Stmt", "Type_Declaration_Stmt.tostr"),
  ("Data_Component_Def_Stmt", "Type_Declaration_StmtBase.tostr"),
  ("Entity_Decl", "Entity_Decl.tostr"),
  ("Component_Decl", "Component_Decl.tostr"),
  ("Initialization", "Initialization.tostr"),
  ("Component_Initialization", "Component_Initialization.tostr"),
  ("Kind_Selector", "Kind_Selector.tostr"),
  ("Char_Selector", "Char_Selector.tostr"),
  ("Length_Selector", "Length_Selector.tostr"),
  ("Char_Length", "BracketBase.tostr"),
  ("Attr_Spec", "StringBase.tostr"),
  ("Component_Attr_Spec", "StringBase.tostr"),
  ("Intent_Spec", "StringBase.tostr"),
  ("Dimension_Attr_Spec", "CallBase.tostr"),
  ("Intent_Attr_Spec", "CallBase.tostr"),
  ("Implicit_Stmt", "Implicit_Stmt.tostr"),
  ("Implicit_Spec", "CallBase.tostr"),
  ("Letter_Spec", "Letter_Spec.tostr"),
  ("Data_Stmt", "Data_Stmt.tostr"),
  ("Data_Stmt_Set", "Data_Stmt_Set.tostr"),
  ("Data_Implied_Do", "Data_Implied_Do.tostr"),
  ("Data_Stmt_Value", "Data_Stmt_Value.tostr"),
  ("Dimension_Stmt", "Dimension_Stmt.tostr"),
  ("Intent_Stmt", "Intent_Stmt.tostr"),
  ("Parameter_Stmt", "CallBase.tostr"),
  ("Named_Constant_Def", "KeywordValueBase.tostr"),
  ("Save_Stmt", "WORDClsBase.tostr_a"),
  ("Saved_Entity", "BracketBase.tostr"),
  ("Equivalence_Stmt", "WORDClsBase.tostr"),
  ("Equivalence_Set", "Equivalence_Set.tostr"),
  ("Namelist_Stmt", "Namelist_Stmt.tostr"),
  ("Common_Stmt", "Common_Stmt.tostr")
]

/-- the model is up to date with every mirrored method -/
theorem fingerprints_pinned : fingerprints = pinnedFingerprints := by
  first
  | decide +kernel
  | fail "Fp.Decl.Gen.fingerprints (Generated/DeclTables.lean) differs from pinnedFingerprints: the code of a mirrored match/tostr method of /repo (fparser/two/Fortran2003.py, two/utils.py or common/splitline.py) changed. The Lean model FparserModel/Decl.lean was written against the OLD source. Run `python -m fv.extract_decl --diff lean/FparserModel/Proofs/DeclGenerated.lean` to see which method, re-validate the mirror (`python -m fv.cosim_decl`), update Decl.lean if needed, and only then re-pin with `python -m fv.extract_decl --pin`."

/-- `classMethods` names exactly the fingerprinted methods -/
theorem classMethods_pinned : classMethods = pinnedFingerprints.map (·.1) := by
  first
  | decide +kernel
  | fail "Fp.Decl.Gen.classMethods (Generated/DeclTables.lean) differs from the pinned list: the set of methods fingerprinted by fv/extract_decl.py changed. FparserModel/Decl.lean was written against the old list. Re-validate the mirror (`python -m fv.cosim_decl`) and re-pin with `python -m fv.extract_decl --pin`."

/-- every class prints with the `tostr` that `Decl.lean` / `FpDriver/Decl.lean` mirror for it -/
theorem tostr_owners : tostrOwners = pinnedTostrOwners := by
  first
  | decide +kernel
  | fail "Fp.Decl.Gen.tostrOwners (Generated/DeclTables.lean) differs from pinnedTostrOwners: a mirrored class of /repo gained, lost or re-bound its `tostr`. The Lean model FparserModel/Decl.lean (tostrX) was written against the OLD resolution. Run `python -m fv.extract_decl --diff lean/FparserModel/Proofs/DeclGenerated.lean`, re-validate the mirror (`python -m fv.cosim_decl`), update Decl.lean if needed, then re-pin with `python -m fv.extract_decl --pin`."

/-- `Save_Stmt.tostr is WORDClsBase.tostr_a` (`Combi.wordStrA` in the driver) -/
theorem saveStmt_tostr : saveStmtTostrIsTostrA = true := by
  first
  | decide
  | fail "Fp.Decl.Gen.saveStmtTostrIsTostrA (Generated/DeclTables.lean) is false: `Fortran2003.Save_Stmt.tostr` of /repo is no longer `WORDClsBase.tostr_a`. The Lean model (FparserModel/Decl.lean, FpDriver/Decl.lean: Combi.wordStrA) was written against the old source. Re-validate the mirror (`python -m fv.cosim_decl`) and update the model."

/-- the alternatives of `pattern_tools.attr_spec` are the keyword list of `matchAttrSpec` -/
theorem attrSpec_words : attrSpecWords = Fp.Decl.attrSpecNames := by
  first
  | decide +kernel
  | fail "Fp.Decl.Gen.attrSpecWords (Generated/DeclTables.lean) differs from Fp.Decl.attrSpecNames: the alternatives of `pattern_tools.attr_spec` of /repo changed. The Lean model FparserModel/Decl.lean (matchAttrSpec) was written against the OLD keyword list. Re-validate the mirror (`python -m fv.cosim_decl`) and update `attrSpecNames` in Decl.lean."

/-- `abs_attr_spec` is that alternation anchored with `\A … \Z`, IGNORECASE (`matchWordOf`: the
    whole text, upper-cased, is one of the words) -/
theorem attrSpec_pattern :
    absAttrSpecPattern = "\\A(" ++ "|".intercalate attrSpecWords ++ ")\\Z"
      ∧ attrSpecFlagsIgnoreCase = true := by
  first
  | decide +kernel
  | fail "Fp.Decl.Gen.absAttrSpecPattern / attrSpecFlagsIgnoreCase (Generated/DeclTables.lean): `pattern_tools.abs_attr_spec` of /repo is no longer the anchored, case-insensitive alternation of `attr_spec`. The Lean model FparserModel/Decl.lean (matchAttrSpec / matchWordOf) was written against the OLD pattern. Re-validate the mirror (`python -m fv.cosim_decl`) and update Decl.lean."

/-- the LIVE `Fortran2003.Component_Attr_Spec.attributes` (read after Fortran2008 was imported) is
    the keyword list of `matchComponentAttrSpec` -/
theorem componentAttr_words : componentAttrWords = Fp.Decl.componentAttrNames := by
  first
  | decide +kernel
  | fail "Fp.Decl.Gen.componentAttrWords (Generated/DeclTables.lean) differs from Fp.Decl.componentAttrNames: the live list `Fortran2003.Component_Attr_Spec.attributes` of /repo changed (edited, or extended in place through an alias by a later standard's module). The Lean model FparserModel/Decl.lean (matchComponentAttrSpec) was written against the OLD list. Re-validate the mirror (`python -m fv.cosim_decl`) and update `componentAttrNames` in Decl.lean."

/-- the regex that `matchIntentSpec` mirrors -/
theorem intentSpec_pattern :
    intentSpecPattern = "(IN\\s*OUT|IN|OUT)" ∧ absIntentSpecPattern = "\\A(IN\\s*OUT|IN|OUT)\\Z"
      ∧ intentSpecFlagsIgnoreCase = true := by
  first
  | decide +kernel
  | fail "Fp.Decl.Gen.intentSpecPattern / absIntentSpecPattern / intentSpecFlagsIgnoreCase (Generated/DeclTables.lean) differ from the pinned regex: `pattern_tools.intent_spec` / `abs_intent_spec` of /repo changed. The Lean model FparserModel/Decl.lean (matchIntentSpec) was written against the OLD regex. Re-validate the mirror (`python -m fv.cosim_decl`), update Decl.lean, then change the pinned literal in Proofs/DeclGenerated.lean."

/-- the regex that `nameMatch` mirrors (`Entity_Decl.match`, `Component_Decl.match`) -/
theorem name_pattern :
    namePattern = "[A-Z][\\w$]*" ∧ nameFlagsIgnoreCase = true ∧ dollarOk = true := by
  first
  | decide +kernel
  | fail "Fp.Decl.Gen.namePattern / nameFlagsIgnoreCase / dollarOk (Generated/DeclTables.lean) differ from the pinned values: `pattern_tools.name` / `dollar_ok` of /repo changed. The Lean model FparserModel/Decl.lean (nameMatch, isNameChar) was written against the OLD regex. Re-validate the mirror (`python -m fv.cosim_decl`), update Decl.lean, then change the pinned literal in Proofs/DeclGenerated.lean."

/-- the two `re.search("\s[a-z_]", …, re.I)` of `Type_Declaration_StmtBase.match` that
    `searchBlankLetter` mirrors -/
theorem typeDecl_search_pattern :
    typeDeclSearchPattern = "\\s[a-z_]" ∧ typeDeclSearchCount = 2
      ∧ typeDeclSearchIgnoreCase = true := by
  first
  | decide +kernel
  | fail "Fp.Decl.Gen.typeDeclSearchPattern / typeDeclSearchCount / typeDeclSearchIgnoreCase (Generated/DeclTables.lean) differ from the pinned values: the `re.search` calls of `utils.Type_Declaration_StmtBase.match` of /repo changed (pattern, number of calls or flags). The Lean model FparserModel/Decl.lean (searchBlankLetter, typeSpecCut) was written against the OLD source. Re-validate the mirror (`python -m fv.cosim_decl`), update Decl.lean, then change the pinned literal in Proofs/DeclGenerated.lean."

end Fp.Decl.Gen
