import FparserModel.Proofs.SplitlineSrm2Un
import FparserModel.Proofs.SplitlineSrm2P2
/-!
Assembly: `string_replace_map` followed by `StringReplaceDict.__call__`.
-/
namespace Fp.Splitline
open Fp

/-- the round trip, given a token description of the text and state reaching phase 3 -/
theorem srm_from_phase2 (d : Discipline) (hd : d.lookupTrimmed = true)
    (hs : d.separateParenMap = true) (hf : d.foreignKeyRaises = false) (l : Str) (lower : Bool)
    (ts2 : List Tok)
    (h2 : phase2 (phase1 d {} (splitquote l none lower).1).1 (phase1 d {} (splitquote l none lower).1).2
      = ((phase2 (phase1 d {} (splitquote l none lower).1).1
            (phase1 d {} (splitquote l none lower).1).2).1, rawJoin ts2))
    (hM : M2OK (phase2 (phase1 d {} (splitquote l none lower).1).1
            (phase1 d {} (splitquote l none lower).1).2).1)
    (hw : WF (phase2 (phase1 d {} (splitquote l none lower).1).1
            (phase1 d {} (splitquote l none lower).1).2).1.map ts2)
    (hc : Closed ts2) (hv : valJoin ts2 = foldOutsideLiterals lower l) :
    ∃ r, stringReplaceMapWith d l lower = some r ∧
      squeeze (applyMap r.map r.text) = squeeze (foldOutsideLiterals lower l) := by
  unfold stringReplaceMapWith
  simp only
  generalize phase2 (phase1 d {} (splitquote l none lower).1).1
    (phase1 d {} (splitquote l none lower).1).2 = r2 at *
  obtain ⟨st2, t2⟩ := r2
  simp only at h2 hM hw
  cases h2
  obtain ⟨mF, g1, g2⟩ := srm_core d hd hs hf st2 ts2 hM hw hc
  simp only
  rw [g1]
  exact ⟨_, rfl, by rw [← hv]; exact g2⟩

/-- **lines without exponent constants** -/
theorem srm_roundtrip_noexp' (d : Discipline) (hd : d.lookupTrimmed = true)
    (hs : d.separateParenMap = true) (hf : d.foreignKeyRaises = false) (l : Str) (lower : Bool)
    (hF : Free (foldOutsideLiterals lower l))
    (hE : expConsts (phase1Text d l lower) = []) :
    ∃ r, stringReplaceMapWith d l lower = some r ∧
      squeeze (applyMap r.map r.text) = squeeze (foldOutsideLiterals lower l) := by
  obtain ⟨ts, h1, h2, h3, h4, h5, _⟩ := phase1_M2OK d hd (splitquote l none lower).1 hF
  unfold phase1Text at hE
  have hp2 : phase2 (phase1 d {} (splitquote l none lower).1).1 (phase1 d {} (splitquote l none lower).1).2
      = ((phase1 d {} (splitquote l none lower).1).1, (phase1 d {} (splitquote l none lower).1).2) := by
    unfold phase2; rw [hE]; rfl
  apply srm_from_phase2 d hd hs hf l lower ts
  · rw [hp2, h1]
  · rw [hp2]; exact h5
  · rw [hp2]; exact h3
  · exact h4
  · exact h2

/-- **the full round trip** (all three phases, un-nesting, `__call__`) -/
theorem srm_roundtrip' (d : Discipline) (hd : d.lookupTrimmed = true)
    (hs : d.separateParenMap = true) (hf : d.foreignKeyRaises = false) (l : Str) (lower : Bool)
    (hF : Free (foldOutsideLiterals lower l))
    (hE : FoundsOK (expConsts (phase1Text d l lower))) :
    ∃ r, stringReplaceMapWith d l lower = some r ∧
      squeeze (applyMap r.map r.text) = squeeze (foldOutsideLiterals lower l) := by
  obtain ⟨ts, h1, h2, h3, h4, h5, _⟩ := phase1_M2OK d hd (splitquote l none lower).1 hF
  have hinv := P2Inv_of_phase1 d hd (splitquote l none lower).1 hF
  unfold phase1Text at hE
  rw [h1] at hE
  obtain ⟨ts', g1, g2, g3, g4, g5, _, g7, g8, _⟩ :=
    phase2_spec (phase1 d {} (splitquote l none lower).1).1 ts hinv h3 h4 hE
  rw [← h1] at g1 g3 g5 g7 g8
  apply srm_from_phase2 d hd hs hf l lower ts'
  · rw [← g1]
  · exact phase2_M2OK _ g5 (by rw [g7]; exact h5.exprKeys) (by rw [g8]; exact h5.revParen)
  · exact g3
  · exact g4
  · rw [g2]; exact h2

end Fp.Splitline
