import FparserModel.Proofs.ExprLexStep

/-!
# Property C03, string level — `Pattern.rsplit/lsplit` and the refinement string step → token step

Model: `FparserModel/ExprLex.lean` (tied to the repository by
`Generated/ExprLexTables.lean` — exhaustive tables of the real compiled operator regexes, eleven
sub-tables kernel-checked — and by `fv/cosim_exprlex.py`).

* `rsplit_sound`, `lsplit_sound`         (a) every successful split, every pattern, every string.
* `string_step_refines_token_step`       (c) for EVERY line accepted by the checked tokeniser
  (`lexSegs s = some sg`, tokens `toksOf g0 sg`) and every binary level: the string-level step
  (`Pattern.rsplit/lsplit` → empty-half test → `exclude_op_pattern`) and the token-level step of
  `Fp.Expr.matchStep` (`gluedPair`/`splitLast`/`splitFirst` → empty-half test → `excluded`) are
  the images of ONE split `(L, word, R)` of the segment list: same accept/reject, same operator
  token, string halves = texts of `L`, `R` (stripped), token halves = tokens of `L`, `R`.
  `unary_step_refines_token_step`: the same for `UnaryOpBase.match`.
  `matchStep_refines_*`: hence `matchStepS = Fp.Expr.matchStep` at that level as soon as the
  nested constructor calls agree on the halves.
* the only exception is proved to be one: `mult_op` cuts `/=` in two (`step_witness_ne`).

Levels covered by (c): all twelve operator rows of `Fp.Expr.levels` (9 binary incl. the
hand-written `Expr` with its exclude pattern and `Level_2_Expr`, 3 unary incl.
`Level_2_Unary_Expr`); for `Add_Operand` (`mult_op`) under the hypothesis that the line has no `/=`.

NOT proved (see the report): `lex_render` in general (instances below are kernel-checked), and
that the stripped text of a half re-lexes to the half's tokens (needed to iterate
`matchStep_refines_*` into `parse_string_refines`; tested by fv/cosim_exprlex.py stage F on all
13 classes).
-/
namespace Fp.ExprLex
open Fp Fp.Expr

/-! ## (a) soundness of the split functions -/

/-- `Pattern.rsplit`: the three results are the stripped pieces of a decomposition
`s = l' ++ o' ++ r'` where `o'` is a match of the pattern at that position (look-behind and
look-ahead evaluated in `s`) and the pattern matches nowhere in `r'`. -/
theorem rsplit_sound (p : Pat) (s l o r : Str) (h : rsplitS p s = some (l, o, r)) :
    ∃ l' o' r', s = l' ++ o' ++ r' ∧ l = strip l' ∧ o = strip o' ∧ r = strip r' ∧ o' ≠ [] ∧
      matchAt p (lastOr none l') (o' ++ r') = some o'.length ∧
      noHit p (lastOr none (l' ++ o')) r' [] = true := by
  unfold rsplitS at h
  cases hr : rsplitRaw p s false with
  | none => rw [hr] at h; cases h
  | some x =>
    obtain ⟨l', o', r'⟩ := x
    rw [hr] at h
    simp only [Option.map_some, Option.some.injEq, Prod.mk.injEq] at h
    obtain ⟨h1, h2, h3, h4⟩ := rsplitRaw_sound p s l' o' r' hr
    exact ⟨l', o', r', h1, h.1.symm, h.2.1.symm, h.2.2.symm, h2, h3, h4⟩

/-- `Pattern.lsplit`: … and the pattern matches nowhere in `l'` (not even with a match
reaching into `o'`). -/
theorem lsplit_sound (p : Pat) (s l o r : Str) (h : lsplitS p s = some (l, o, r)) :
    ∃ l' o' r', s = l' ++ o' ++ r' ∧ l = strip l' ∧ o = strip o' ∧ r = strip r' ∧ o' ≠ [] ∧
      matchAt p (lastOr none l') (o' ++ r') = some o'.length ∧
      noHit p none l' (o' ++ r') = true := by
  unfold lsplitS at h
  cases hr : lsplitRaw p s with
  | none => rw [hr] at h; cases h
  | some x =>
    obtain ⟨l', o', r'⟩ := x
    rw [hr] at h
    simp only [Option.map_some, Option.some.injEq, Prod.mk.injEq] at h
    obtain ⟨h1, h2, h3, h4⟩ := lsplitRaw_sound p s l' o' r' hr
    exact ⟨l', o', r', h1, h.1.symm, h.2.1.symm, h.2.2.symm, h2, h3, h4⟩

/-- `re.split` loses nothing: the pieces concatenate to the subject (every pattern, string) -/
theorem splitAll_join (p : Pat) (s : Str) : joinS (splitAll p s) = s := by
  simpa [splitAll] using scan_join p s none 0 []

/-! ## (c) the string step refines the token step -/

theorem lexSegs_spec (s : Str) (sg : List Seg) (h : lexSegs s = some sg) :
    flat sg = s ∧ checkSegs none sg = true := by
  unfold lexSegs at h
  simp only at h
  split at h
  · rename_i hc
    cases h
    exact hc
  · cases h

/-- **binary levels.** `binStepI` is `BinaryOpBase.match` up to the constructor calls
(instrumented with glue flags), `splitStepT` the corresponding part of `Fp.Expr.matchStep`. -/
theorem string_step_refines_token_step (cls : OpCls) (q : Pat) (hq : patOf cls = some q)
    (right excl g0 : Bool) (hexcl : excl = true → q = .defined)
    (s : Str) (sg : List Seg) (hlex : lexSegs s = some sg) (hcl : cleanFor q sg) :
    lexFrom g0 s = some (toksOf g0 sg) ∧
    binStepI q right excl g0 s = (segStep q right excl g0 sg).map (strSplit g0) ∧
    splitStepT cls right excl (toksOf g0 sg) = (segStep q right excl g0 sg).map (tokSplit g0) := by
  obtain ⟨hf, hck⟩ := lexSegs_spec s sg hlex
  refine ⟨by simp [lexFrom, hlex], ?_, splitStepT_segs cls q hq right excl g0 sg⟩
  rw [← hf]
  exact binStepI_segs q right excl g0 hexcl sg hck hcl

/-- readable form: same accept/reject, same operator token; the halves are the texts
resp. the tokens of the same two segment lists -/
theorem string_step_iff (cls : OpCls) (q : Pat) (hq : patOf cls = some q)
    (right excl g0 : Bool) (hexcl : excl = true → q = .defined)
    (s : Str) (sg : List Seg) (hlex : lexSegs s = some sg) (hcl : cleanFor q sg) :
    (binStepI q right excl g0 s = none ↔ splitStepT cls right excl (toksOf g0 sg) = none) ∧
    (∀ sl o sr gr, binStepI q right excl g0 s = some (sl, o, sr, gr) →
      ∃ L R, sl = rstrip (strip (flat L)) ∧ sr = strip (flat R) ∧ gr = !startsBlank (flat R) ∧
        splitStepT cls right excl (toksOf g0 sg) = some (toksOf g0 L, o, toksOf true R)) := by
  obtain ⟨_, h1, h2⟩ := string_step_refines_token_step cls q hq right excl g0 hexcl s sg hlex hcl
  rw [h1, h2]
  cases segStep q right excl g0 sg with
  | none => simp
  | some x =>
    obtain ⟨L, k, m, R⟩ := x
    simp only [Option.map_some, strSplit, tokSplit, reduceCtorEq, Option.some.injEq, Prod.mk.injEq,
      true_and]
    rintro sl o sr gr ⟨rfl, rfl, rfl, rfl⟩
    exact ⟨L, R, rfl, rfl, rfl, rfl, rfl, rfl⟩

/-- **unary levels** (`And_Operand`, `Level_2_Unary_Expr`, `Level_1_Expr`) -/
theorem unary_step_refines_token_step (rec : Lv → List T → Option Ex) (row : Row) (q : Pat) (rhs : Lv)
    (hk : row.kind = .unary) (hq : patOf row.cls = some q) (hr : row.rhs = some rhs) (g0 : Bool)
    (s : Str) (sg : List Seg) (hlex : lexSegs s = some sg) (hcl : cleanFor q sg)
    (hs : startsBlank s = false) :
    unStepI q g0 s =
      (unSegStep q sg).map (fun x => (tokOf x.1 g0, lstrip (flat x.2.2), !startsBlank (flat x.2.2))) ∧
    matchStep rec row (toksOf g0 sg) =
      (match unSegStep q sg with
       | some (k, _, R) => (match rec rhs (toksOf true R) with
         | some e => some (.un (tokOf k g0) e)
         | none => none)
       | none => none) := by
  obtain ⟨hf, hck⟩ := lexSegs_spec s sg hlex
  refine ⟨?_, matchStep_unary_segs rec row q rhs hk hq hr g0 sg (hf ▸ hs)⟩
  rw [← hf]
  exact unStepI_segs q g0 sg hck hcl

/-- one `binL` level of the string parser equals the token parser, provided the nested calls
agree on the two halves -/
theorem matchStep_refines_binL (recS : Lv → Bool → Str → Option Ex) (recT : Lv → List T → Option Ex)
    (row : Row) (q : Pat) (lhs rhs : Lv)
    (hk : row.kind = .binL) (hq : patOf row.cls = some q) (hl : row.lhs = some lhs)
    (hr : row.rhs = some rhs) (hexcl : row.excl = true → q = .defined) (g0 : Bool)
    (s : Str) (sg : List Seg) (hlex : lexSegs s = some sg) (hcl : cleanFor q sg)
    (hrec : ∀ L k m R, segStep q true row.excl g0 sg = some (L, k, m, R) →
      recS lhs g0 (rstrip (strip (flat L))) = recT lhs (toksOf g0 L) ∧
      recS rhs (!startsBlank (flat R)) (strip (flat R)) = recT rhs (toksOf true R)) :
    matchStepS recS row g0 s = matchStep recT row (toksOf g0 sg) := by
  obtain ⟨_, h1, h2⟩ :=
    string_step_refines_token_step row.cls q hq true row.excl g0 hexcl s sg hlex hcl
  rw [matchStep_binL recT row lhs rhs hk hl hr, h2]
  unfold matchStepS
  simp only [hk, hq, hl, hr, h1]
  cases hseg : segStep q true row.excl g0 sg with
  | none => rfl
  | some x =>
    obtain ⟨L, k, m, R⟩ := x
    obtain ⟨e1, e2⟩ := hrec L k m R hseg
    simp only [Option.map_some, strSplit, tokSplit, e1, e2]
    cases recT rhs (toksOf true R) with
    | none => rfl
    | some R' => cases recT lhs (toksOf g0 L) <;> rfl

/-- the same for the `binR` level (`Mult_Operand`, `**`) -/
theorem matchStep_refines_binR (recS : Lv → Bool → Str → Option Ex) (recT : Lv → List T → Option Ex)
    (row : Row) (q : Pat) (lhs rhs : Lv)
    (hk : row.kind = .binR) (hq : patOf row.cls = some q) (hl : row.lhs = some lhs)
    (hr : row.rhs = some rhs) (hexcl : row.excl = true → q = .defined) (g0 : Bool)
    (s : Str) (sg : List Seg) (hlex : lexSegs s = some sg) (hcl : cleanFor q sg)
    (hrec : ∀ L k m R, segStep q false row.excl g0 sg = some (L, k, m, R) →
      recS lhs g0 (rstrip (strip (flat L))) = recT lhs (toksOf g0 L) ∧
      recS rhs (!startsBlank (flat R)) (strip (flat R)) = recT rhs (toksOf true R)) :
    matchStepS recS row g0 s = matchStep recT row (toksOf g0 sg) := by
  obtain ⟨_, h1, h2⟩ :=
    string_step_refines_token_step row.cls q hq false row.excl g0 hexcl s sg hlex hcl
  rw [matchStep_binR recT row lhs rhs hk hl hr, h2]
  unfold matchStepS
  simp only [hk, hq, hl, hr, h1]
  cases hseg : segStep q false row.excl g0 sg with
  | none => rfl
  | some x =>
    obtain ⟨L, k, m, R⟩ := x
    obtain ⟨e1, e2⟩ := hrec L k m R hseg
    simp only [Option.map_some, strSplit, tokSplit, e1, e2]
    cases recT lhs (toksOf g0 L) with
    | none => rfl
    | some L' => cases recT rhs (toksOf true R) <;> rfl

/-- the same for the unary levels -/
theorem matchStep_refines_unary (recS : Lv → Bool → Str → Option Ex) (recT : Lv → List T → Option Ex)
    (row : Row) (q : Pat) (rhs : Lv)
    (hk : row.kind = .unary) (hq : patOf row.cls = some q) (hr : row.rhs = some rhs) (g0 : Bool)
    (s : Str) (sg : List Seg) (hlex : lexSegs s = some sg) (hcl : cleanFor q sg)
    (hs : startsBlank s = false)
    (hrec : ∀ k m R, unSegStep q sg = some (k, m, R) →
      recS rhs (!startsBlank (flat R)) (lstrip (flat R)) = recT rhs (toksOf true R)) :
    matchStepS recS row g0 s = matchStep recT row (toksOf g0 sg) := by
  obtain ⟨h1, h2⟩ := unary_step_refines_token_step recT row q rhs hk hq hr g0 s sg hlex hcl hs
  rw [h2]
  unfold matchStepS
  simp only [hk, hq, hr, h1]
  cases hseg : unSegStep q sg with
  | none => rfl
  | some x =>
    obtain ⟨k, m, R⟩ := x
    have e := hrec k m R hseg
    simp only [Option.map_some, e]
    cases recT rhs (toksOf true R) <;> rfl

/-- the leaf level: by definition the string parser accepts exactly the single-operand lines -/
theorem primS_refines (g0 : Bool) (s : Str) (sg : List Seg) (hlex : lexSegs s = some sg)
    (hnp : ∀ t ∈ toksOf g0 sg, t ≠ T.lp) :
    primS g0 s = matchStep (fun _ _ => none) (rowOf .prim) (toksOf g0 sg) := by
  have hts : lexFrom g0 s = some (toksOf g0 sg) := by simp [lexFrom, hlex]
  unfold primS
  rw [hts]
  have hrow : rowOf .prim = ⟨.prim, .prim, .none, none, some .expr, none, false⟩ := by decide
  rw [hrow]
  unfold matchStep
  simp only
  cases hT : toksOf g0 sg with
  | nil => rfl
  | cons t rest =>
    cases t with
    | lp => exact absurd rfl (hnp T.lp (by rw [hT]; simp))
    | rp => cases rest <;> rfl
    | op o g => cases rest <;> rfl
    | atom i d g => cases rest <;> rfl


/-- the `/=` side condition only concerns `mult_op` -/
theorem cleanFor_of_ne_mult (q : Pat) (hq : q ≠ .mult) (sg : List Seg) : cleanFor q sg := by
  intro k s _
  cases q <;> simp_all [tolerated]

/-- the line has no `/=` -/
def noNe (sg : List Seg) : Bool :=
  sg.all fun x => match x with
    | .word .ne _ => false
    | _ => true

/-- … and holds for `mult_op` when the line has no `/=` -/
theorem cleanFor_mult_of_no_ne (sg : List Seg) (h : noNe sg = true) : cleanFor .mult sg := by
  intro k s hm
  have := List.all_eq_true.mp h _ hm
  cases k <;> simp_all [tolerated]

/-! ## witnesses, real-code surprises, non-vacuity (all kernel-checked) -/

/-- `a/=b`: `mult_op` (`(?<![/])[/](?![/])`) matches the `/` of `/=`; the string step of
`Add_Operand` splits into `a` and `=b`, the token step does not split -/
theorem step_witness_ne :
    lexExpr ['a','/','=','b'] = some [.atom (idOf ['a']) false false, .op (.rel 1 false) true,
      .atom (idOf ['b']) false true] ∧
    binStepS .mult true false ['a','/','=','b'] = some (['a'], ['/'], ['=','b']) ∧
    splitStepT .mult true false [.atom (idOf ['a']) false false, .op (.rel 1 false) true,
      .atom (idOf ['b']) false true] = none := by decide +kernel

/-- surprise 1: `a / / b` is a concatenation for `concat_op` (`[/]\s*[/]`) but two divisions
for `mult_op`; the real `Level_3_Expr` accepts it as `a // b` -/
theorem surprise_blank_concat :
    rsplitS .concat ['a',' ','/',' ','/',' ','b'] = some (['a'], ['/',' ','/'], ['b']) ∧
    rsplitS .mult ['a',' ','/',' ','/',' ','b'] = some (['a',' ','/'], ['/'], ['b']) ∧
    lexExpr ['a',' ','/',' ','/',' ','b'] = none := by decide +kernel

/-- surprise 2: an operand spelled like an intrinsic operator between two dotted words is
taken for that operator: in `a .x. and .or. c` `and_op` matches `. and .` -/
theorem surprise_operand_named_and :
    rsplitS .and ['a',' ','.','x','.',' ','a','n','d',' ','.','o','r','.',' ','c']
      = some (['a',' ','.','x'], ['.',' ','a','n','d',' ','.'], ['o','r','.',' ','c']) ∧
    lexExpr ['a',' ','.','x','.',' ','a','n','d',' ','.','o','r','.',' ','c'] = none := by
  decide +kernel

/-- surprise 3: in `a***b` no operator pattern matches at all (look-around on both sides):
the text goes down the whole chain as one "operand" -/
theorem surprise_three_stars :
    allPats.all (fun q => (splitAll q ['a','*','*','*','b']).length == 1) = true ∧
    lexExpr ['a','*','*','*','b'] = none := by decide +kernel

/-- surprise 4: `a//=b`: `rel_op` finds `/=` inside what `concat_op` reads as `//` -/
theorem surprise_concat_ne :
    rsplitS .rel ['a','/','/','=','b'] = some (['a','/'], ['/','='], ['b']) ∧
    rsplitS .concat ['a','/','/','=','b'] = some (['a'], ['/','/'], ['=','b']) ∧
    lexExpr ['a','/','/','=','b'] = none := by decide +kernel

/-- `lex_render`, instances: spaced and glued renderings of token lists are lexed back -/
example : lexExpr ['a',' ','+',' ','b',' ','*',' ','c'] =
    some [.atom (idOf ['a']) false false, .op .plus false, .atom (idOf ['b']) false false,
      .op .mul false, .atom (idOf ['c']) false false] := by decide +kernel
example : lexExpr ['a','+','b','*','*','c'] =
    some [.atom (idOf ['a']) false false, .op .plus true, .atom (idOf ['b']) false true,
      .op .pow true, .atom (idOf ['c']) false true] := by decide +kernel
example : lexExpr ['.','n','o','t','.',' ','a',' ','.','A','n','d','.',' ','.','t','r','u','e','.'] =
    some [.op .not false, .atom (idOf ['a']) false false, .op .and false,
      .atom (idOf ['T','R','U','E']) true false] := by decide +kernel
example : lexExpr ['x',' ','.',' ','m','y','o','p',' ','.','y','<','=','z'] =
    some [.atom (idOf ['x']) false false, .op (.dot (numOf ['M','Y','O','P'])) false,
      .atom (idOf ['y']) false true, .op (.rel 3 false) true, .atom (idOf ['z']) false true] := by
  decide +kernel

/-- hypotheses of `string_step_refines_token_step` are satisfiable, and its conclusion computes -/
example : ∃ sg, lexSegs ['a','-','b',' ','-',' ','c'] = some sg ∧ cleanFor .add sg ∧
    binStepI .add true false false ['a','-','b',' ','-',' ','c'] =
      some (['a','-','b'], .op .minus false, ['c'], false) :=
  ⟨segs ['a','-','b',' ','-',' ','c'], by decide +kernel, cleanFor_of_ne_mult _ (by decide) _,
   by decide +kernel⟩

/-- … for `mult_op` too (no `/=` in the line) -/
example : ∃ sg, lexSegs ['a','*','b','/','c'] = some sg ∧ cleanFor .mult sg :=
  ⟨segs ['a','*','b','/','c'], by decide +kernel,
   cleanFor_mult_of_no_ne _ (by decide +kernel)⟩

/-- the unary step: hypotheses satisfiable -/
example : ∃ sg, lexSegs ['-','a','*','b'] = some sg ∧ startsBlank ['-','a','*','b'] = false ∧
    unStepI .add false ['-','a','*','b'] = some (.op .minus false, ['a','*','b'], true) :=
  ⟨segs ['-','a','*','b'], by decide +kernel, rfl, by decide +kernel⟩

/-- `parse_string_refines`, instances: the iterated string parser = `Fp.Expr.parse` on the
tokens (in general: fv/cosim_exprlex.py stage F) -/
example : parseSF 60 .expr false ['a','+','b','*','c','*','*','d'] =
    (lexExpr ['a','+','b','*','c','*','*','d']).bind (parse .expr) := by decide +kernel
example : parseSF 60 .expr false ['a',' ','.','x','.',' ','b',' ','.','a','n','d','.',' ','c'] =
    (lexExpr ['a',' ','.','x','.',' ','b',' ','.','a','n','d','.',' ','c']).bind (parse .expr) := by
  decide +kernel
example : parseSF 60 .expr false ['a',' ','/','=',' ','b',' ','/','=',' ','c'] = none ∧
    (lexExpr ['a',' ','/','=',' ','b',' ','/','=',' ','c']).bind (parse .expr) = none := by
  decide +kernel

end Fp.ExprLex
