"""Seeded, grammar-directed generator of Fortran programs with structure known by
construction (DESIGN.md §2 'Generator').

A program is a list of units; a unit is a tree of `Blk` (opener, body, closer) and `St`
(one statement: token list + label + construct name).  Everything a property oracle
needs is derived from this tree, never from the parser under test:
  * the token sequence of every statement;
  * its role (open/close/mid/simple) and construct kind;
  * the scope tree and the names declared per scope;
  * which features are Fortran-2008-only.
All randomness comes from the `random.Random` handed in.
"""
import random

# ----------------------------------------------------------------------------------
# IR
# ----------------------------------------------------------------------------------


class St:
    """One statement."""
    __slots__ = ("toks", "label", "cname", "role", "cons", "f08", "tags", "uid", "uid0")

    def __init__(self, toks, role="simple", cons=None, label=None, cname=None, f08=False,
                 tags=()):
        self.toks = list(toks)
        self.role = role
        self.cons = cons
        self.label = label
        self.cname = cname
        self.f08 = f08
        self.tags = set(tags)
        self.uid = None
        self.uid0 = None

    def text(self, joiner=None):
        j = joiner or join_natural
        s = j(self.toks)
        if self.cname:
            s = self.cname + ": " + s
        if self.label:
            s = self.label + " " + s
        return s

    def all_toks(self):
        t = []
        if self.label:
            t.append(self.label)
        if self.cname:
            t += [self.cname, ":"]
        return t + self.toks

    def __repr__(self):
        return "St(%r)" % self.text()


class Blk:
    """A block: opener statement, body (St/Blk; 'mid' statements such as ELSE are St with
    role 'mid'), closer statement (None for a non-block DO that ends on a shared/action
    statement, in which case `term` names how it ends)."""
    __slots__ = ("open", "body", "close", "cons", "scope", "f08", "decls", "uses")

    def __init__(self, cons, open_, body, close, scope=None, f08=False):
        self.cons = cons
        self.open = open_
        self.body = body
        self.close = close
        self.scope = scope      # name of the scoping region this block creates, or None
        self.f08 = f08
        self.decls = []
        self.uses = []

    def flat(self):
        out = []
        if self.open is not None:
            out.append(self.open)
        for x in self.body:
            if isinstance(x, Blk):
                out += x.flat()
            else:
                out.append(x)
        if self.close is not None:
            out.append(self.close)
        return out

    def uses_f08(self):
        if self.f08:
            return True
        for s in self.flat():
            if s.f08:
                return True
        return False


class Prog:
    def __init__(self, units):
        self.units = units

    def flat(self):
        out = []
        for u in self.units:
            out += u.flat()
        for i, s in enumerate(out):
            s.uid = i
        return out

    def f08(self):
        return any(u.uses_f08() for u in self.units)

    def text(self, joiner=None, indent=True):
        lines = []

        def rec(x, d):
            pad = "  " * d if indent else ""
            if isinstance(x, St):
                lines.append(pad + x.text(joiner))
                return
            if x.open is not None:
                lines.append(pad + x.open.text(joiner))
            for y in x.body:
                if isinstance(y, St) and y.role == "mid":
                    lines.append(pad + y.text(joiner))
                else:
                    rec(y, d + 1)
            if x.close is not None:
                lines.append(pad + x.close.text(joiner))

        for u in self.units:
            rec(u, 0)
        return "\n".join(lines) + "\n"

    def blocks(self):
        out = []

        def rec(b, depth, parent):
            out.append((b, depth, parent))
            for y in b.body:
                if isinstance(y, Blk):
                    rec(y, depth + 1, b)

        for u in self.units:
            rec(u, 0, None)
        return out

    def scope_tree(self):
        """[(name, [children...])] of scoping regions as nested tuples."""
        def rec(b):
            kids = []
            for y in b.body:
                if isinstance(y, Blk):
                    kids += rec(y)
            if b.scope is not None:
                return [(b.scope, kids)]
            return kids
        out = []
        for u in self.units:
            out += rec(u)
        return out


# ----------------------------------------------------------------------------------
# token joining
# ----------------------------------------------------------------------------------

_NOSPACE_BEFORE = {",", ")", "]", "%", "/)", ":"}
_NOSPACE_AFTER = {"(", "[", "%", "(/"}


def is_literal(tok):
    return "'" in tok or '"' in tok


def _wordy(tok):
    c = tok[-1]
    return c.isalnum() or c in "_'\"."


def _wordy_start(tok):
    c = tok[0]
    return c.isalnum() or c in "_'\"."


def join_natural(toks):
    out = []
    prev = None
    for t in toks:
        if prev is None:
            out.append(t)
        elif t in _NOSPACE_BEFORE and not (t == ":" and prev in ("(", ",")):
            out.append(t)
        elif prev in _NOSPACE_AFTER:
            out.append(t)
        elif t == "(" and (prev[-1].isalnum() or prev[-1] in "_)") and \
                prev.upper() not in _KW_SPACE_BEFORE_PAREN:
            out.append(t)
        elif prev == ":" and out and len(out) >= 2 and out[-2] in ("(", ",", ":"):
            out.append(t)
        elif prev == ":" and t not in (":",):
            # array section a(1:2): no blanks ; construct names are not tokens here
            out.append(t)
        else:
            out.append(" " + t)
        prev = t
    return "".join(out)


_KW_SPACE_BEFORE_PAREN = {"IF", "WHILE", "CASE", "WHERE", "FORALL", "THEN", "ELSEWHERE",
                          "ASSOCIATE", "TYPE", "CLASS", "IS", "CONCURRENT", "WRITE", "READ",
                          "FORMAT", "RESULT", "BIND", "ELSEIF", "SELECT", "DATA", "GENERIC",
                          "PRINT", "ALLOCATE", "DEALLOCATE", "OPEN", "CLOSE", "INQUIRE",
                          "ONLY", "OPERATOR", "ASSIGNMENT", "NULLIFY", "PROCEDURE", "IMPLICIT",
                          "PARAMETER", "EQUIVALENCE", "SUBMODULE", "GO", "TO", "GOTO", "=",
                          "ENTRY", "STOP", "RETURN", "+", "-", "*", "/", "//", "**", ",",
                          "CODIMENSION", "SAVE"}


def join_spaced(toks):
    """every token separated by exactly one blank (legal in free form)"""
    return " ".join(toks)


KEYWORDS = set("""abstract allocatable allocate assignment associate asynchronous bind block blockdata call case character class close codimension common complex concurrent contains contiguous continue critical data deallocate default dimension do double doubleprecision elemental else elseif elsewhere end entry enum enumerator equivalence err error exist extends external file final fmt forall format function generic go goto if implicit import impure in inquire integer intent interface intrinsic iostat is kind len logical module mold name namelist newunit none nopass null nullify only open opened operator optional out parameter pass pointer precision print private procedure program protected public pure read real recursive result return save select selectcase sequence source stat status stop submodule subroutine target then to type unit use value volatile where while write cycle exit rewind backspace endfile flush wait endif enddo endselect endwhere endforall endprogram endsubroutine endfunction endmodule endtype endinterface endassociate endblock endcritical endenum inout""".upper().split())


def is_kw(tok):
    return tok.upper() in KEYWORDS


# ----------------------------------------------------------------------------------
# name pools
# ----------------------------------------------------------------------------------

VAR_NAMES = ["a", "b", "x", "y", "zz", "Idx", "jj", "k2", "val_1", "tmp", "Rho", "u_v", "w9",
             "alpha", "betaX", "n", "m", "q", "p_s", "hh",
             # names that begin with a keyword (lexical ambiguity with keyword-first matching)
             "concurrent_idx", "if_flag", "real_part", "type_id", "data_v", "end_val", "do_count", "call_cnt"]
LOOP_VARS = ["i", "j", "k", "concurrent_idx", "do_count", "while_c"]
ARR_NAMES = ["arr", "vec", "mat", "Fld", "buf2", "grid", "tab_x"]
FUN_NAMES = ["foo", "bar", "f_1", "Gfun", "hfun", "my_func"]
SUB_NAMES = ["sub1", "do_it", "S_two", "worker", "init_x", "step"]
MOD_NAMES = ["mod_a", "Mod_B", "utils_m", "kinds_m", "phys", "only_defs"]
# local / remote names of USE entries (never referenced by the generated code, so that a
# rename does not change the meaning of anything else); some begin with a keyword
USE_LOCALS = ["loc_n", "only_n", "wp2", "My_Kind", "operator_x", "total"]
USE_REMOTES = ["rem_n", "only_count", "dp_k", "sp_k", "only_total", "assignment_k"]
TYPE_NAMES = ["t_pt", "Vec3", "my_type", "node_t"]
CONS_NAMES = ["outer", "inner", "L1", "blk_a", "sel", "w1", "lp", "chk"]
COMP_NAMES = ["xc", "yc", "next_p", "len_", "dat"]
INTRINSICS_1 = ["sin", "cos", "abs", "sqrt", "exp", "real", "int", "size", "trim", "len",
                "nint", "tiny", "huge", "allocated", "present"]
INTRINSICS_2 = ["mod", "max", "min", "atan2", "sign", "dim", "dot_product", "matmul"]

REL_OPS = ["==", "/=", "<", "<=", ">", ">=", ".eq.", ".ne.", ".lt.", ".le.", ".gt.", ".ge.",
           ".EQ.", ".Ne."]
INT_LITS = ["0", "1", "2", "7", "10", "42", "100", "1_8", "3_i4", "255"]
REAL_LITS = ["1.0", "0.5", "2.5e3", "1.0e-3", "3.d0", "1.5D+2", "6.02E23", "1.0_8", ".5",
             "4.", "1.e0", "2.0_wp", "7E2"]
CHAR_LITS = ["'abc'", '"xyz"', "'it''s'", '"say ""hi"""', "'a b  c'", "'!not comment'",
             "'&amp'", "''", "'MiXed Case'", '"semi;colon"', "'(paren'", "'x)'",
             "k_'pre'", "'1.0e-3'", "'.and.'", "'so it stops! It does so just once'", '"a ! b ! c and some more text"',
             "'don''t & won''t; can''t'"]
LOG_LITS = [".true.", ".false.", ".TRUE.", ".False.", ".true._lk"]
BOZ_LITS = ["B'1010'", "O'17'", "Z'FF'", 'z"1a"']
DEF_OPS = [".myop.", ".cross.", ".X."]


class G:
    """generation context"""

    def __init__(self, rng, std="f2008", max_depth=3, size=1.0, features=None):
        self.rng = rng
        self.std = std
        self.max_depth = max_depth
        self.size = size
        self.label_counter = 10
        self.cname_counter = 0
        self.features = features  # None = all
        self.hits = {}

    # -- utilities --
    def hit(self, k):
        self.hits[k] = self.hits.get(k, 0) + 1

    def ch(self, seq):
        return self.rng.choice(seq)

    def p(self, prob):
        return self.rng.random() < prob

    def ri(self, a, b):
        return self.rng.randint(a, b)

    def new_label(self):
        self.label_counter += self.ri(1, 9)
        return str(self.label_counter)

    def new_cname(self):
        self.cname_counter += 1
        return "%s%d" % (self.ch(CONS_NAMES), self.cname_counter)

    def f08ok(self):
        return self.std == "f2008"

    def kw(self, s):
        """keyword with random case"""
        r = self.rng.random()
        if r < 0.5:
            return s.lower()
        if r < 0.85:
            return s.upper()
        return s.capitalize()

    # -- expressions --
    def var(self):
        return [self.ch(VAR_NAMES)]

    def int_expr(self, d=0):
        r = self.rng.random()
        if d > 1 or r < 0.4:
            return [self.ch(INT_LITS[:7])] if self.p(0.5) else [self.ch(["i", "j", "k", "n", "m"])]
        if r < 0.7:
            return self.int_expr(d + 1) + [self.ch(["+", "-", "*"])] + self.int_expr(d + 1)
        return [self.ch(["n", "m"])] + ["-"] + ["1"]

    def primary(self, d):
        r = self.rng.random()
        if r < 0.22:
            self.hit("e:name")
            return self.var()
        if r < 0.32:
            self.hit("e:int")
            return [self.ch(INT_LITS)]
        if r < 0.44:
            self.hit("e:real")
            return [self.ch(REAL_LITS)]
        if r < 0.52:
            self.hit("e:arrayelem")
            return [self.ch(ARR_NAMES), "("] + self.int_expr() + \
                   ([",", ] + self.int_expr() if self.p(0.3) else []) + [")"]
        if r < 0.58:
            self.hit("e:section")
            lo = self.int_expr(2) if self.p(0.7) else []
            hi = self.int_expr(2) if self.p(0.7) else []
            st = [":"] + self.int_expr(2) if self.p(0.25) else []
            return [self.ch(ARR_NAMES), "("] + lo + [":"] + hi + st + [")"]
        if r < 0.66:
            self.hit("e:call")
            args = self.expr(d + 1)
            if self.p(0.4):
                args += [","] + self.expr(d + 1)
            if self.p(0.15):
                args += [",", self.ch(["key", "opt"]), "="] + self.expr(d + 2)
            return [self.ch(FUN_NAMES), "("] + args + [")"]
        if r < 0.72:
            self.hit("e:intrinsic")
            if self.p(0.6):
                return [self.ch(INTRINSICS_1[:9]), "("] + self.var() + [")"]
            return [self.ch(INTRINSICS_2[:6]), "("] + self.expr(d + 2) + [","] + self.expr(d + 2) + [")"]
        if r < 0.79:
            self.hit("e:component")
            t = self.var() + ["%", self.ch(COMP_NAMES)]
            if self.p(0.3):
                t += ["%", self.ch(COMP_NAMES)]
            if self.p(0.3):
                t += ["("] + self.int_expr() + [")"]
            return t
        if r < 0.86 and d < self.max_depth:
            self.hit("e:paren")
            return ["("] + self.expr(d + 1) + [")"]
        if r < 0.90:
            self.hit("e:arrayctor")
            if self.p(0.5):
                return ["(/"] + self.expr(d + 2) + [","] + self.expr(d + 2) + ["/)"]
            return ["["] + self.expr(d + 2) + [","] + self.expr(d + 2) + ["]"]
        if r < 0.93:
            self.hit("e:complex")
            return ["(", self.ch(REAL_LITS[:4]), ",", self.ch(REAL_LITS[:4]), ")"]
        if r < 0.96:
            self.hit("e:substring")
            return [self.ch(["str", "name_s"]), "("] + self.int_expr(2) + [":"] + self.int_expr(2) + [")"]
        self.hit("e:boz")
        return [self.ch(INT_LITS)]

    def num_expr(self, d=0, lvl=0):
        """numeric expression, precedence-correct by construction:
        lvl 0: add-level, 1: mult-level, 2: power-level"""
        if d >= self.max_depth:
            return self.primary(d)
        r = self.rng.random()
        if lvl == 0:
            if r < 0.35:
                self.hit("op:add")
                return self.num_expr(d + 1, 0) + [self.ch(["+", "-"])] + self.num_expr(d + 1, 1)
            if r < 0.45:
                self.hit("op:unary")
                return [self.ch(["-", "+"])] + self.num_expr(d + 1, 1)
            return self.num_expr(d, 1)
        if lvl == 1:
            if r < 0.35:
                self.hit("op:mult")
                return self.num_expr(d + 1, 1) + [self.ch(["*", "/"])] + self.num_expr(d + 1, 2)
            return self.num_expr(d, 2)
        if r < 0.2:
            self.hit("op:power")
            return self.primary(d + 1) + ["**"] + self.num_expr(d + 1, 2)
        return self.primary(d)

    def char_expr(self, d=0):
        t = [self.ch(CHAR_LITS)] if self.p(0.6) else [self.ch(["str", "name_s"])]
        if self.p(0.4) and d < 2:
            self.hit("op:concat")
            return t + ["//"] + self.char_expr(d + 1)
        return t

    def rel_expr(self, d=0):
        self.hit("op:rel")
        return self.num_expr(d + 1) + [self.ch(REL_OPS)] + self.num_expr(d + 1)

    def log_expr(self, d=0, lvl=0):
        """lvl 0 eqv, 1 or, 2 and, 3 not/operand"""
        if d >= self.max_depth:
            return self.log_primary(d)
        r = self.rng.random()
        if lvl == 0:
            if r < 0.15:
                self.hit("op:eqv")
                return self.log_expr(d + 1, 0) + [self.ch([".eqv.", ".neqv.", ".EQV."])] + self.log_expr(d + 1, 1)
            return self.log_expr(d, 1)
        if lvl == 1:
            if r < 0.3:
                self.hit("op:or")
                return self.log_expr(d + 1, 1) + [self.ch([".or.", ".OR."])] + self.log_expr(d + 1, 2)
            return self.log_expr(d, 2)
        if lvl == 2:
            if r < 0.3:
                self.hit("op:and")
                return self.log_expr(d + 1, 2) + [self.ch([".and.", ".AND."])] + self.log_expr(d + 1, 3)
            return self.log_expr(d, 3)
        if r < 0.2:
            self.hit("op:not")
            return [self.ch([".not.", ".NOT."])] + self.log_primary(d + 1)
        return self.log_primary(d)

    def log_primary(self, d):
        r = self.rng.random()
        if r < 0.5:
            return self.rel_expr(d)
        if r < 0.65:
            self.hit("e:logical")
            return [self.ch(LOG_LITS)]
        if r < 0.8:
            return [self.ch(["flag", "ok", "done"])]
        if d < self.max_depth:
            return ["("] + self.log_expr(d + 1) + [")"]
        return [self.ch(["flag", "ok"])]

    def expr(self, d=0):
        r = self.rng.random()
        if r < 0.62:
            return self.num_expr(d)
        if r < 0.75:
            return self.char_expr(d)
        if r < 0.92:
            return self.log_expr(d)
        if r < 0.96:
            self.hit("op:defbin")
            # defined binary operator: loosest; keep the right operand free of dotted
            # tokens (known finding F-C03-1 lives outside the valid class)
            return self.num_expr(d + 1) + [self.ch(DEF_OPS)] + self.primary(d + 2 + 10)
        self.hit("op:defun")
        return [self.ch(DEF_OPS)] + self.var()

    def lhs(self):
        r = self.rng.random()
        if r < 0.5:
            return self.var()
        if r < 0.75:
            return [self.ch(ARR_NAMES), "("] + self.int_expr() + [")"]
        if r < 0.9:
            return self.var() + ["%", self.ch(COMP_NAMES)]
        return [self.ch(ARR_NAMES), "("] + self.int_expr(2) + [":"] + self.int_expr(2) + [")"]

    # -- simple executable statements --
    def action(self, depth=0, allow_label=True):
        """one action statement -> St"""
        r = self.rng.random()
        s = None
        if r < 0.34:
            self.hit("s:assign")
            s = St(self.lhs() + ["="] + self.expr())
        elif r < 0.40:
            self.hit("s:ptrassign")
            s = St(self.var() + ["=>"] + (self.var() if self.p(0.6) else [self.kw("null"), "(", ")"]))
        elif r < 0.50:
            self.hit("s:call")
            t = [self.kw("call"), self.ch(SUB_NAMES)]
            k = self.ri(0, 3)
            if k > 0 or self.p(0.3):
                t.append("(")
                for i in range(k):
                    if i:
                        t.append(",")
                    if self.p(0.15):
                        t += [self.ch(["key", "opt"]), "="]
                    t += self.expr(1)
                t.append(")")
            if self.p(0.1):
                t = [self.kw("call")] + self.var() + ["%", self.ch(SUB_NAMES), "("] + self.expr(1) + [")"]
                self.hit("s:call-tbp")
            s = St(t)
        elif r < 0.56:
            s = self.io_stmt()
        elif r < 0.60:
            self.hit("s:ifstmt")
            inner = self.action(depth, allow_label=False)
            while inner.toks[0].upper() in ("IF", "WHERE", "FORALL") or inner.tags:
                inner = St(self.lhs() + ["="] + self.num_expr(1))
            s = St([self.kw("if"), "("] + self.log_expr(1) + [")"] + inner.toks, f08=inner.f08)
        elif r < 0.64:
            self.hit("s:allocate")
            t = [self.kw("allocate"), "("]
            if self.p(0.2):
                t += [self.kw("real"), "::"]
            t += [self.ch(ARR_NAMES), "("] + self.alloc_shape() + [")"]
            if self.p(0.3):
                t += [",", self.ch(ARR_NAMES), "("] + self.alloc_shape() + [",", ] + self.alloc_shape() + [")"]
            opt = self.rng.random()
            f08 = False
            if opt < 0.25:
                t += [",", self.kw("stat"), "=", "ierr"]
            elif opt < 0.35 and t[2].upper() != "REAL":
                t += [",", self.kw("source"), "="] + self.ch([self.var(), ["0.0"], ["(", "x", "+", "1.0", ")", "*", "2"], ["f_1", "(", "n", ")"]])
            elif opt < 0.42 and self.f08ok() and t[2].upper() != "REAL":
                t += [",", self.kw("mold"), "="] + self.var()
                f08 = True
                self.hit("s:allocate-mold")
            t.append(")")
            s = St(t, f08=f08)
        elif r < 0.67:
            self.hit("s:deallocate")
            t = [self.kw("deallocate"), "(", self.ch(ARR_NAMES)]
            if self.p(0.3):
                t += [",", self.kw("stat"), "=", "ierr"]
            s = St(t + [")"])
        elif r < 0.69:
            self.hit("s:nullify")
            s = St([self.kw("nullify"), "("] + self.var() + [")"])
        elif r < 0.72:
            self.hit("s:wherestmt")
            s = St([self.kw("where"), "(", self.ch(ARR_NAMES), ">", "0", ")", self.ch(ARR_NAMES), "="] + self.num_expr(2))
        elif r < 0.75:
            self.hit("s:forallstmt")
            s = St([self.kw("forall"), "(", "i", "=", "1", ":", "n"] +
                   self.ch([[], [], [":", "2"], [":", "(", "m", "+", "1", ")"], [":", "max", "(", "1", ",", "m", "/", "2", ")"]]) +
                   [")", self.ch(ARR_NAMES), "(", "i", ")", "="] + self.num_expr(2))
        elif r < 0.78:
            self.hit("s:continue")
            s = St([self.kw("continue")])
        elif r < 0.81:
            self.hit("s:stop")
            opt = self.rng.random()
            if opt < 0.15 and self.f08ok():
                s = St([self.kw("error"), self.kw("stop")] + ([self.ch(["1", "'bad'"])] if self.p(0.6) else []), f08=True)
                self.hit("s:errorstop")
            else:
                s = St([self.kw("stop")] + ([self.ch(["1", "'done'", "99"])] if self.p(0.5) else []))
        elif r < 0.83:
            self.hit("s:return")
            s = St([self.kw("return")])
        elif r < 0.86:
            self.hit("s:goto")
            lab = str(self.ri(1, 9) * 100)
            opt = self.rng.random()
            if opt < 0.5:
                s = St([self.kw("goto") if self.p(0.5) else self.kw("go"), lab] if False else
                       ([self.kw("goto"), lab] if self.p(0.5) else [self.kw("go"), self.kw("to"), lab]))
            elif opt < 0.8:
                s = St([self.kw("go"), self.kw("to"), "(", lab, ",", str(int(lab) + 5), ")"] + self.int_expr(2))
                self.hit("s:computedgoto")
            else:
                s = St([self.kw("if"), "("] + self.num_expr(2) + [")", lab, ",", str(int(lab) + 1), ",", str(int(lab) + 2)])
                self.hit("s:arithif")
        elif r < 0.88:
            self.hit("s:data-exec")
            s = St(self.lhs() + ["="] + self.char_expr())
        elif r < 0.92:
            self.hit("s:assign-log")
            s = St([self.ch(["flag", "ok", "done"]), "="] + self.log_expr())
        else:
            self.hit("s:assign-arr")
            s = St([self.ch(ARR_NAMES), "="] + self.num_expr())
        if allow_label and self.p(0.08):
            s.label = self.new_label()
            self.hit("label:action")
        return s

    def io_stmt(self):
        r = self.rng.random()
        if r < 0.25:
            self.hit("s:write")
            ctl = self.ch([["*", ",", "*"], ["6", ",", "'(a,i5)'"], ["*", ",", "'(3f8.2)'"],
                           [self.kw("unit"), "=", "10", ",", self.kw("fmt"), "=", "100"],
                           ["10", ",", "100", ",", self.kw("iostat"), "=", "ios"],
                           [self.kw("unit"), "=", "lun", ",", self.kw("fmt"), "=", "*", ",", self.kw("err"), "=", "900"],
                           ["buf_s", ",", "'(i3)'"]])
            items = self.expr(1)
            if self.p(0.5):
                items += [","] + self.expr(1)
            if self.p(0.15):
                items += [",", "(", self.ch(ARR_NAMES), "(", "i", ")", ",", "i", "=", "1", ",", "n", ")"]
                self.hit("s:io-implied-do")
            return St([self.kw("write"), "("] + ctl + [")"] + items)
        if r < 0.40:
            self.hit("s:read")
            if self.p(0.5):
                return St([self.kw("read"), "(", "5", ",", "*", ")"] + self.var() + [","] + self.var())
            return St([self.kw("read"), "(", self.kw("unit"), "=", "10", ",", self.kw("fmt"), "=", "'(a)'", ",",
                       self.kw("end"), "=", "900", ")", "str"])
        if r < 0.55:
            self.hit("s:print")
            f = self.ch(["*", "100", "'(a)'"])
            return St([self.kw("print"), f, ","] + self.expr(1) + ([","] + self.expr(1) if self.p(0.4) else []))
        if r < 0.67:
            self.hit("s:open")
            t = [self.kw("open"), "("]
            if self.p(0.25):
                # keyword specifiers in any order: UNIT= need not come first
                t += [self.kw("file"), "=", self.ch(["'f.dat'", "fname"]), ",", self.kw("unit"), "=", self.ch(["10", "lun"])]
                self.hit("s:open-unit-not-first")
            else:
                t += self.ch([[self.kw("unit"), "=", "10"], ["10"]])
                t += [",", self.kw("file"), "="] + [self.ch(["'f.dat'", '"out.txt"', "fname"])]
            if self.p(0.5):
                t += [",", self.kw("status"), "=", self.ch(["'old'", "'NEW'", '"unknown"'])]
            if self.p(0.3):
                t += [",", self.kw("iostat"), "=", "ios"]
            f08 = False
            if self.p(0.12) and self.f08ok():
                t = [self.kw("open"), "(", self.kw("newunit"), "=", "lun", ",", self.kw("file"), "=", "'g.dat'"]
                f08 = True
                self.hit("s:open-newunit")
            return St(t + [")"], f08=f08)
        if r < 0.76:
            self.hit("s:close")
            return St([self.kw("close"), "("] + self.ch([["10"], [self.kw("unit"), "=", "10"],
                                                          ["lun", ",", self.kw("status"), "=", "'keep'"]]) + [")"])
        if r < 0.84:
            self.hit("s:inquire")
            return St([self.kw("inquire"), "(", self.kw("unit"), "=", "10", ",", self.kw("exist"), "=", "ok", ")"]
                      if self.p(0.5) else
                      [self.kw("inquire"), "(", self.kw("file"), "=", "'f.dat'", ",", self.kw("opened"), "=", "flag", ")"])
        k = self.ch(["rewind", "backspace", "endfile", "flush", "wait"])
        self.hit("s:" + k)
        if k in ("flush", "wait") or self.p(0.5):
            return St([self.kw(k), "(", "10", ")"] if self.p(0.6) else [self.kw(k), "(", self.kw("unit"), "=", "10", ")"])
        return St([self.kw(k), "10"])

    # -- constructs --
    def end_kw(self, what, name=None, force_name=False):
        """END <what> closer tokens with compound-keyword variation"""
        w = what.split()
        r = self.rng.random()
        if len(w) == 1 and r < 0.3 and what.upper() in ("IF", "DO", "SELECT", "WHERE", "FORALL",
                                                         "PROGRAM", "SUBROUTINE", "FUNCTION",
                                                         "MODULE", "TYPE", "INTERFACE", "ASSOCIATE",
                                                         "BLOCK", "CRITICAL", "ENUM"):
            t = [self.kw("end" + what)]
        else:
            t = [self.kw("end")] + [self.kw(x) for x in w]
        if name and (force_name or self.p(0.7)):
            if self.p(0.15) and name.lower() != name.upper():
                # names are case-insensitive: the END name spelled in another case
                name = self.ch([name.upper(), name.lower(), name.swapcase()])
                self.hit("end-name-other-case")
            t.append(name)
        return t

    def body(self, depth, n=None, in_loop=False):
        out = []
        n = n if n is not None else max(1, int(self.ri(1, 4) * self.size))
        for _ in range(n):
            if depth < self.max_depth and self.p(0.35):
                out.append(self.construct(depth + 1, in_loop))
            else:
                s = self.action(depth)
                out.append(s)
                if self.p(0.04):
                    out.append(self.format_stmt())
                    self.hit("d:format-in-exec")
                if in_loop and self.p(0.08):
                    out.append(St([self.kw(self.ch(["cycle", "exit"]))]))
                    self.hit("s:cycle-exit")
        return out

    def alloc_shape(self):
        """one allocate-shape-spec: upper bound, or lower:upper with bounds that contain
        parenthesised groups (function references, parentheses)"""
        r = self.rng.random()
        if r < 0.55:
            return self.int_expr()
        self.hit("s:allocate-lower-bound")
        lo = self.ch([["0"], ["-", "1"], ["lbound", "(", self.ch(ARR_NAMES), ",", "1", ")"], ["(", "m", "-", "1", ")", "*", "2"],
                      ["min", "(", "i", ",", "j", ")"], ["n"]])
        hi = self.ch([self.int_expr(), ["ubound", "(", self.ch(ARR_NAMES), ",", "1", ")"], ["(", "n", "+", "1", ")"]])
        return lo + [":"] + hi

    def maybe_cname(self):
        return self.new_cname() if self.p(0.3) else None

    def construct(self, depth, in_loop=False):
        kinds = ["if", "if", "do", "do", "labeldo", "select", "where", "forall", "associate",
                 "selecttype", "nonblockdo"]
        if self.f08ok():
            kinds += ["block", "critical", "doconcurrent"]
        if self.features is not None:
            kinds = [k for k in kinds if k in self.features] or ["if"]
        k = self.ch(kinds)
        self.hit("c:" + k)
        b = getattr(self, "c_" + k)(depth, in_loop)
        if isinstance(b, Blk) and b.cons not in ("labeldo", "nonblockdo"):
            # any statement may carry a label: opener (in front of the construct name), END, ELSE …
            if b.open is not None and b.open.label is None and self.p(0.07):
                b.open.label = self.new_label()
                self.hit("label:opener" + ("+name" if b.open.cname else ""))
            if b.close is not None and b.close.label is None and self.p(0.04):
                b.close.label = self.new_label()
                self.hit("label:end")
            for y in b.body:
                if isinstance(y, St) and y.role == "mid" and y.label is None and self.p(0.04):
                    y.label = self.new_label()
                    self.hit("label:mid")
        return b

    def c_if(self, depth, in_loop):
        cn = self.maybe_cname()
        op = St([self.kw("if"), "("] + self.log_expr(1) + [")", self.kw("then")], "open", "if", cname=cn)
        body = self.body(depth, in_loop=in_loop)
        for _ in range(self.ri(0, 2)):
            kw = [self.kw("elseif")] if self.p(0.4) else [self.kw("else"), self.kw("if")]
            t = kw + ["("] + self.log_expr(1) + [")", self.kw("then")]
            if cn and self.p(0.5):
                t.append(cn)
            body.append(St(t, "mid", "if"))
            self.hit("c:elseif")
            body += self.body(depth, in_loop=in_loop)
        if self.p(0.5):
            t = [self.kw("else")]
            if cn and self.p(0.5):
                t.append(cn)
            body.append(St(t, "mid", "if"))
            self.hit("c:else")
            body += self.body(depth, in_loop=in_loop)
        cl = St(self.end_kw("if", cn, force_name=bool(cn)), "close", "if")
        return Blk("if", op, body, cl)

    def loop_control(self):
        r = self.rng.random()
        if r < 0.7:
            t = [self.ch(LOOP_VARS if self.p(0.2) else ["i", "j", "k"]), "="] + self.int_expr(1) + [","] + self.int_expr(1)
            if self.p(0.25):
                t += [","] + self.int_expr(2)
            return t
        if r < 0.9:
            self.hit("c:dowhile")
            return [self.kw("while"), "("] + self.log_expr(1) + [")"]
        self.hit("c:doforever")
        return []

    def c_do(self, depth, in_loop):
        cn = self.maybe_cname()
        op = St([self.kw("do")] + self.loop_control(), "open", "do", cname=cn)
        body = self.body(depth, in_loop=True)
        if cn and self.p(0.3):
            body.append(St([self.kw(self.ch(["cycle", "exit"])), cn]))
            self.hit("s:cycle-exit-named")
        cl = St(self.end_kw("do", cn, force_name=bool(cn)), "close", "do")
        return Blk("do", op, body, cl)

    def c_doconcurrent(self, depth, in_loop):
        op = St([self.kw("do"), self.kw("concurrent"), "(", "i", "=", "1", ":", "n"] +
                ([",", "j", "=", "1", ":", "m"] if self.p(0.4) else []) +
                ([",", "i", "/=", "3"] if self.p(0.3) else []) + [")"], "open", "do", f08=True)
        body = [St([self.ch(ARR_NAMES), "(", "i", ")", "="] + self.num_expr(2))]
        cl = St(self.end_kw("do"), "close", "do")
        return Blk("do", op, body, cl, f08=True)

    def c_labeldo(self, depth, in_loop):
        """block label-DO ended by a labelled CONTINUE or END DO"""
        lab = self.new_label()
        cn = self.maybe_cname() if self.p(0.3) else None
        op = St([self.kw("do"), lab] + ([","] if self.p(0.15) else []) +
                [self.ch(["i", "j", "k"]), "="] + self.int_expr(1) + [","] + self.int_expr(1),
                "open", "labeldo", cname=cn)
        body = self.body(depth, in_loop=True)
        if self.p(0.6) and not cn:
            cl = St([self.kw("continue")], "close", "labeldo", label=lab)
            self.hit("c:labeldo-continue")
        else:
            cl = St(self.end_kw("do", cn, force_name=bool(cn)), "close", "labeldo", label=lab)
            self.hit("c:labeldo-enddo")
        return Blk("labeldo", op, body, cl)

    def c_nonblockdo(self, depth, in_loop):
        """non-block DO: ends on a labelled action statement; possibly two loops sharing it"""
        lab = self.new_label()
        op = St([self.kw("do"), lab, "i", "=", "1", ","] + self.int_expr(1), "open", "nonblockdo")
        body = []
        if self.p(0.4):
            # nested DO sharing the terminal label
            self.hit("c:sharedlabel-do")
            inner_op = St([self.kw("do"), lab, "j", "=", "1", ","] + self.int_expr(1), "open", "nonblockdo")
            inner_body = [self.action(depth, allow_label=False) for _ in range(self.ri(0, 2))]
            term = St([self.ch(ARR_NAMES), "(", "i", ",", "j", ")", "="] + self.num_expr(2), "close", "nonblockdo", label=lab)
            if self.p(0.4):
                term = St([self.kw("continue")], "close", "nonblockdo", label=lab)
            inner = Blk("nonblockdo", inner_op, inner_body + [term], None)
            term.role = "simple"
            body.append(inner)
            return Blk("nonblockdo", op, body, None)
        body = [self.action(depth, allow_label=False) for _ in range(self.ri(0, 2))]
        term = St([self.ch(ARR_NAMES), "(", "i", ")", "="] + self.num_expr(2), "simple", "nonblockdo", label=lab)
        body.append(term)
        return Blk("nonblockdo", op, body, None)

    def c_select(self, depth, in_loop):
        cn = self.maybe_cname()
        sel = [self.kw("select"), self.kw("case")] if self.p(0.7) else [self.kw("selectcase")]
        char = self.p(0.25)
        op = St(sel + ["("] + (["str"] if char else self.int_expr(1)) + [")"], "open", "select", cname=cn)
        body = []
        for ci in range(self.ri(1, 3)):
            if char:
                rng_ = [self.ch(CHAR_LITS[:5])]
            else:
                base = ci * 10
                r = self.rng.random()
                if r < 0.4:
                    rng_ = [str(base + 1)]
                elif r < 0.6:
                    rng_ = [str(base + 1), ":", str(base + 5)]
                elif r < 0.75:
                    rng_ = [str(base + 1), ",", str(base + 3), ":", str(base + 4)]
                elif r < 0.85:
                    rng_ = [":", str(base)]
                else:
                    rng_ = [str(base + 6), ":"]
            t = [self.kw("case"), "("] + rng_ + [")"]
            if cn and self.p(0.4):
                t.append(cn)
            body.append(St(t, "mid", "select"))
            body += self.body(depth, n=self.ri(1, 2), in_loop=in_loop)
        if self.p(0.6):
            t = [self.kw("case"), self.kw("default")]
            if cn and self.p(0.4):
                t.append(cn)
            body.append(St(t, "mid", "select"))
            body += self.body(depth, n=1, in_loop=in_loop)
        cl = St(self.end_kw("select", cn, force_name=bool(cn)), "close", "select")
        return Blk("select", op, body, cl)

    def c_selecttype(self, depth, in_loop):
        cn = self.maybe_cname()
        assoc = ["p", "=>"] if self.p(0.3) else []
        op = St([self.kw("select"), self.kw("type"), "("] + assoc + ["obj", ")"], "open", "selecttype", cname=cn)
        body = []
        guards = [[self.kw("type"), self.kw("is"), "(", self.kw("integer"), ")"],
                  [self.kw("type"), self.kw("is"), "(", self.ch(TYPE_NAMES), ")"],
                  [self.kw("class"), self.kw("is"), "(", self.ch(TYPE_NAMES), ")"],
                  [self.kw("type"), self.kw("is"), "(", self.kw("real"), "(", "8", ")", ")"]]
        self.rng.shuffle(guards)
        for g in guards[:self.ri(1, 3)]:
            t = list(g)
            if cn and self.p(0.3):
                t.append(cn)
            body.append(St(t, "mid", "selecttype"))
            body += self.body(depth, n=1, in_loop=in_loop)
        if self.p(0.5):
            body.append(St([self.kw("class"), self.kw("default")], "mid", "selecttype"))
            body += self.body(depth, n=1, in_loop=in_loop)
        cl = St(self.end_kw("select", cn, force_name=bool(cn)), "close", "selecttype")
        return Blk("selecttype", op, body, cl)

    def mask(self):
        return [self.ch(ARR_NAMES), self.ch([">", "<", "/=", ".gt."])] + [self.ch(["0", "0.0", "1.5"])]

    def c_where(self, depth, in_loop):
        cn = self.maybe_cname()
        op = St([self.kw("where"), "("] + self.mask() + [")"], "open", "where", cname=cn)

        def wbody():
            return [St([self.ch(ARR_NAMES), "="] + self.num_expr(2)) for _ in range(self.ri(1, 2))]
        body = wbody()
        if self.p(0.35):
            t = [self.kw("elsewhere"), "("] + self.mask() + [")"]
            if cn and self.p(0.4):
                t.append(cn)
            body.append(St(t, "mid", "where"))
            self.hit("c:maskedelsewhere")
            body += wbody()
        if self.p(0.5):
            t = [self.kw("elsewhere")] if self.p(0.7) else [self.kw("else"), self.kw("where")]
            if cn and self.p(0.4):
                t.append(cn)
            body.append(St(t, "mid", "where"))
            self.hit("c:elsewhere")
            body += wbody()
        cl = St(self.end_kw("where", cn, force_name=bool(cn)), "close", "where")
        return Blk("where", op, body, cl)

    def c_forall(self, depth, in_loop):
        cn = self.maybe_cname()
        hdr = ["(", "i", "=", "1", ":", "n"]
        if self.p(0.4):
            hdr += [",", "j", "=", "1", ":", "m", ":"] + self.ch([["2"], ["(", "m", "+", "1", ")"], ["max", "(", "1", ",", "m", "/", "2", ")"], ["k"]])
        if self.p(0.3):
            hdr += [",", self.ch(ARR_NAMES), "(", "i", ")", "/=", "0"]
        op = St([self.kw("forall")] + hdr + [")"], "open", "forall", cname=cn)
        body = [St([self.ch(ARR_NAMES), "(", "i", ")", "="] + self.num_expr(2)) for _ in range(self.ri(1, 2))]
        cl = St(self.end_kw("forall", cn, force_name=bool(cn)), "close", "forall")
        return Blk("forall", op, body, cl)

    def c_associate(self, depth, in_loop):
        cn = self.maybe_cname()
        t = [self.kw("associate"), "(", "zed", "=>"] + self.num_expr(2)
        if self.p(0.4):
            t += [",", "w2", "=>"] + self.var()
        op = St(t + [")"], "open", "associate", cname=cn)
        body = self.body(depth, in_loop=in_loop)
        cl = St(self.end_kw("associate", cn, force_name=bool(cn)), "close", "associate")
        return Blk("associate", op, body, cl)

    def c_block(self, depth, in_loop):
        cn = self.maybe_cname()
        op = St([self.kw("block")], "open", "block", cname=cn, f08=True)
        body = []
        decls = []
        if self.p(0.6):
            d, names = self.type_decl(simple=True)
            body.append(d)
            decls += names
        body += self.body(depth, in_loop=in_loop)
        cl = St(self.end_kw("block", cn, force_name=bool(cn)), "close", "block")
        b = Blk("block", op, body, cl, scope=(cn or "block:?"), f08=True)
        b.decls = decls
        return b

    def c_critical(self, depth, in_loop):
        cn = self.maybe_cname()
        op = St([self.kw("critical")], "open", "critical", cname=cn, f08=True)
        body = [self.action(depth, allow_label=False) for _ in range(self.ri(1, 2))]
        body = [s for s in body if s.toks[0].upper() not in ("RETURN", "STOP", "GOTO", "GO", "ERROR")] or \
               [St(self.var() + ["="] + self.num_expr(2))]
        cl = St(self.end_kw("critical", cn, force_name=bool(cn)), "close", "critical")
        return Blk("critical", op, body, cl, f08=True)

    # -- specification statements --
    def type_spec(self):
        r = self.rng.random()
        if r < 0.25:
            t = [self.kw("integer")]
            if self.p(0.3):
                t += self.ch([["(", "8", ")"], ["(", self.kw("kind"), "=", "4", ")"], ["*", "4"], ["(", "i_def", ")"]])
            return t, "integer"
        if r < 0.5:
            t = [self.kw("real")]
            if self.p(0.4):
                t += self.ch([["(", "8", ")"], ["(", self.kw("kind"), "=", "wp", ")"], ["*", "8"],
                              ["(", self.kw("kind"), "=", self.kw("kind"), "(", "1.0d0", ")", ")"]])
            return t, "real"
        if r < 0.6:
            return ([self.kw("double"), self.kw("precision")] if self.p(0.6) else [self.kw("doubleprecision")]), "real"
        if r < 0.7:
            return [self.kw("logical")] + (["(", "4", ")"] if self.p(0.2) else []), "logical"
        if r < 0.8:
            return [self.kw("complex")] + (["(", self.kw("kind"), "=", "8", ")"] if self.p(0.3) else []), "complex"
        if r < 0.93:
            t = [self.kw("character")]
            opt = self.rng.random()
            if opt < 0.2:
                t += ["(", "10", ")"]
            elif opt < 0.4:
                t += ["(", self.kw("len"), "=", "20", ")"]
            elif opt < 0.5:
                t += ["(", self.kw("len"), "=", "*", ")"]
            elif opt < 0.6:
                t += ["*", "8"]
            elif opt < 0.7:
                t += ["(", self.kw("len"), "=", "5", ",", self.kw("kind"), "=", "1", ")"]
            elif opt < 0.75:
                t += ["*", "(", "*", ")"]
            elif opt < 0.8:
                t += ["(", self.kw("len"), "=", ":", ")"]
            return t, "character"
        if self.p(0.7):
            return [self.kw("type"), "(", self.ch(TYPE_NAMES), ")"], "derived"
        return [self.kw("class"), "(", self.ch(TYPE_NAMES), ")"], "derived"

    def type_decl(self, simple=False, names=None, intent=False):
        ts, kind = self.type_spec()
        if simple:
            ts, kind = self.ch([([self.kw("integer")], "integer"), ([self.kw("real")], "real"),
                                ([self.kw("logical")], "logical")])
        t = list(ts)
        attrs = []
        if not simple:
            pool = [[self.kw("parameter")], [self.kw("save")], [self.kw("allocatable")],
                    [self.kw("pointer")], [self.kw("target")],
                    [self.kw("dimension"), "(", "10", ")"], [self.kw("dimension"), "(", ":", ",", ":", ")"],
                    [self.kw("public")], [self.kw("private")], [self.kw("optional")],
                    [self.kw("volatile")], [self.kw("asynchronous")], [self.kw("value")],
                    [self.kw("protected")], [self.kw("external")], [self.kw("intrinsic")],
                    [self.kw("bind"), "(", "c", ")"]]
            if self.f08ok():
                pool += [[self.kw("contiguous")], [self.kw("codimension"), "[", "*", "]"]]
            if intent:
                attrs.append([self.kw("intent"), "(", self.kw(self.ch(["in", "out", "inout"])), ")"]
                             if self.p(0.85) else [self.kw("intent"), "(", self.kw("in"), self.kw("out"), ")"])
            elif self.p(0.45):
                a = self.ch(pool[:7] if self.p(0.7) else pool)
                attrs.append(a)
        f08 = False
        for a in attrs:
            t += [","] + a
            if a[0].upper() in ("CONTIGUOUS", "CODIMENSION"):
                f08 = True
                self.hit("d:f08attr")
        is_param = any(a[0].upper() == "PARAMETER" for a in attrs)
        no_init = any(a[0].upper() in ("ALLOCATABLE", "POINTER", "DIMENSION", "OPTIONAL", "INTENT",
                                       "EXTERNAL", "INTRINSIC", "CODIMENSION", "CONTIGUOUS",
                                       "VALUE", "BIND") for a in attrs)
        if attrs or self.p(0.6) or is_param:
            t.append("::")
        n = 1 if is_param else self.ri(1, 3)
        declared = []
        pool_names = list(names) if names else (VAR_NAMES + ARR_NAMES)
        self.rng.shuffle(pool_names)
        for i in range(n):
            if i:
                t.append(",")
            nm = pool_names[i % len(pool_names)]
            declared.append(nm)
            t.append(nm)
            if not attrs and not simple and self.p(0.25):
                t += ["(", self.ch(["10", "n", "0:9", "*"][:2]), ")"]
            if kind == "character" and "*" not in ts and "::" in t and self.p(0.2):
                t += ["*", "(", "n", "+", "1", ")"]
                self.hit("d:char-length-paren")
            if (is_param or (self.p(0.3) and not no_init and "::" in t)) and not intent:
                t.append("=")
                if kind == "integer":
                    t += self.ch([[self.ch(INT_LITS)], [self.ch(BOZ_LITS)] if False else ["3", "*", "4"], ["-", "1"]])
                elif kind == "real":
                    t += self.ch([[self.ch(REAL_LITS)], ["-", "1.0e-3"], ["2.0", "*", "3.14"]])
                elif kind == "logical":
                    t += [self.ch(LOG_LITS)]
                elif kind == "complex":
                    t += ["(", "1.0", ",", "-", "2.0", ")"]
                elif kind == "character":
                    t += [self.ch(CHAR_LITS)]
                else:
                    t += [self.ch(TYPE_NAMES), "(", "1", ",", "2", ")"]
        self.hit("d:typedecl")
        typed = kind in ("integer", "real", "logical", "complex", "character")
        return St(t, tags=(), f08=f08), (declared if typed else [])

    def spec_misc(self):
        """one miscellaneous specification statement (or a small block)"""
        r = self.rng.random()
        if r < 0.10:
            self.hit("d:parameter")
            return St([self.kw("parameter"), "(", "pi", "=", "3.14159", ",", "two", "=", "2"] +
                      ([",", "eps", "=", "1.0e-6", "*", "two"] if self.p(0.4) else []) + [")"])
        if r < 0.18:
            self.hit("d:dimension")
            return St([self.kw("dimension")] + (["::"] if self.p(0.3) else []) + [self.ch(ARR_NAMES), "(", "10", ",", "20", ")", ",", "wk", "(", "0", ":", "n", ")"])
        if r < 0.25:
            self.hit("d:data")
            v = self.ch([["x", "/", "1.0", "/"], ["arr", "/", "10", "*", "0", "/"],
                         ["a", ",", "b", "/", "1", ",", "2", "/"],
                         ["(", "vec", "(", "i", ")", ",", "i", "=", "1", ",", "3", ")", "/", "1", ",", "2", ",", "3", "/"],
                         ["str", "/", "'ab'", "/", ",", "k2", "/", "Z'1F'", "/"],
                         # implied-DO with a step; nested implied-DO; repeat factor that is a named constant
                         ["(", "vec", "(", "i", ")", ",", "i", "=", "1", ",", "19", ",", "2", ")", "/", "10", "*", "0.5", "/"],
                         ["(", "(", "mat", "(", "i", ",", "j", ")", ",", "i", "=", "1", ",", "2", ")", ",", "j", "=", "1", ",", "6", ",", "3", ")",
                          "/", "4", "*", "0", "/"],
                         ["(", "vec", "(", "i", ")", ",", "tab_x", "(", "i", ")", ",", "i", "=", "n", ",", "1", ",", "-", "1", ")", "/", "two", "*", "1.0", "/"],
                         ["x", ",", "y", "/", "2", "*", "0.0", "/", "zz", "/", ".true.", "/"],
                         ["a", "/", "-", "1.5e0", "/", ",", "b", "/", "+", "2", "/"],
                         # three and more sets, with and without the optional commas between them
                         ["a", "/", "1", "/", "b", "/", "2", "/", "x", "/", "3", "/"],
                         ["a", "/", "1", "/", ",", "b", "/", "2", "/", ",", "x", "/", "3", "/", ",", "y", "/", "4", "/"],
                         ["a", "/", "1", "/", ",", "b", "/", "2", "/", "x", ",", "y", "/", "2", "*", "3", "/"]])
            return St([self.kw("data")] + v)
        if r < 0.31:
            self.hit("d:common")
            return St([self.kw("common"), "/", "blk1", "/", "a", ",", "b"] + ([",", "/", "blk2", "/", "q"] if self.p(0.3) else [])
                      if self.p(0.8) else [self.kw("common"), "a", ",", "b"])
        if r < 0.35:
            self.hit("d:equivalence")
            return St([self.kw("equivalence"), "(", "a", ",", "b"] + ([",", "tmp"] if self.p(0.3) else []) + [")"] +
                      ([",", "(", "x", ",", "vec", "(", "1", ")", ")"] if self.p(0.4) else []))
        if r < 0.40:
            self.hit("d:namelist")
            return St([self.kw("namelist"), "/", "nml1", "/", "a", ",", "b"] +
                      (([","] if self.p(0.5) else []) + ["/", "nml2", "/", "x"] + ([",", "vec"] if self.p(0.5) else []) if self.p(0.4) else []))
        if r < 0.46:
            self.hit("d:save")
            return St([self.kw("save")] + self.ch([[], ["::", "a", ",", "b"], ["a"], ["/", "blk1", "/"]]))
        if r < 0.52:
            self.hit("d:external")
            k = self.ch(["external", "intrinsic"])
            nm = self.ch(FUN_NAMES) if k == "external" else self.ch(["sin", "cos"])
            return St([self.kw(k)] + (["::"] if self.p(0.3) else []) + [nm])
        if r < 0.62:
            self.hit("d:attrstmt")
            k = self.ch(["allocatable", "pointer", "target", "optional", "public", "private",
                         "volatile", "asynchronous", "protected", "value"])
            t = [self.kw(k)]
            if k in ("public", "private") and self.p(0.3):
                return St(t)
            if self.p(0.5):
                t.append("::")
            return St(t + [self.ch(VAR_NAMES)] + ([",", self.ch(ARR_NAMES)] if self.p(0.4) else []))
        if r < 0.66:
            self.hit("d:intentstmt")
            return St([self.kw("intent"), "("] + self.ch([[self.kw("in")], [self.kw("out")], [self.kw("inout")], [self.kw("in"), self.kw("out")]]) +
                      [")"] + (["::"] if self.p(0.7) else []) + ["a"] + ([",", "b"] if self.p(0.4) else []))
        if r < 0.72:
            self.hit("d:format")
            return self.format_stmt()
        if r < 0.76:
            self.hit("d:procdecl")
            return St([self.kw("procedure"), "(", self.ch(FUN_NAMES + ["real"]), ")"] + self.ch([["::"], [",", self.kw("pointer"), "::"], []]) + ["pp"] + (["=>", self.kw("null"), "(", ")"] if self.p(0.3) else []))
        if r < 0.80:
            self.hit("d:bindstmt")
            return St([self.kw("bind"), "(", "c", ",", self.kw("name"), "=", "'cname'", ")", "::", "a"])
        if r < 0.93:
            return self.derived_type()
        if r < 0.97:
            return self.enum_def()
        return self.interface_block()

    def format_stmt(self):
        items = []
        n = self.ri(1, 4)
        pool = [["I5"], ["i3.3"], ["F10.3"], ["2X"], ["A"], ["a10"], ["E12.4"], ["ES12.4E2"], ["/"],
                ["3", "(", "I2", ",", "1X", ")"], ["'lit'"], ['"q"'], ["L1"], ["1P", ",", "E10.3"], ["G12.5"],
                ["T10"], ["2", "(", "F8.2", ",", "2", "(", "I1", ")", ")"], ["D12.4"], ["SP"], ["BN"], [":"],
                ["TL3"], ["'it''s'"], ["'a,b)('"], ["EN12.3"], ["B8"], ["O4"], ["Z8.8"]]
        f08 = False
        for i in range(n):
            if i:
                items.append(",")
            it = self.ch(pool)
            if self.f08ok() and i == n - 1 and self.p(0.15):
                it = ["*", "(", "I5", ",", "1X", ")"]      # unlimited format repeat (F2008)
                f08 = True
                self.hit("d:format-unlimited-repeat")
            if it == ["/"] or it == [":"]:
                if items and items[-1] == ",":
                    pass
            items += it
        return St([self.kw("format"), "("] + items + [")"], label=self.new_label(), f08=f08)

    def derived_type(self):
        self.hit("d:derivedtype")
        nm = self.ch(TYPE_NAMES)
        t = [self.kw("type")]
        r = self.rng.random()
        if r < 0.2:
            t += [",", self.kw("public"), "::"]
        elif r < 0.3:
            t += [",", self.kw("extends"), "(", "base_t", ")", "::"]
        elif r < 0.4:
            t += [",", self.kw("abstract"), "::"]
        elif r < 0.5:
            t += [",", self.kw("bind"), "(", "c", ")", "::"]
        elif r < 0.7:
            t += ["::"]
        op = St(t + [nm], "open", "type")
        body = []
        if self.p(0.15):
            body.append(St([self.kw("sequence")]))
        if self.p(0.2):
            body.append(St([self.kw("private")]))
        for _ in range(self.ri(1, 3)):
            c = self.ch(COMP_NAMES)
            r = self.rng.random()
            if r < 0.4:
                body.append(St([self.kw("real"), "::", c] + (["=", "0.0"] if self.p(0.3) else [])))
            elif r < 0.6:
                body.append(St([self.kw("integer")] + ([",", self.kw("dimension"), "(", "3", ")"] if self.p(0.4) else []) + ["::", c]))
            elif r < 0.75:
                body.append(St([self.kw("type"), "(", nm, ")", ",", self.kw("pointer"), "::", c] + (["=>", self.kw("null"), "(", ")"] if self.p(0.5) else [])))
            elif r < 0.85:
                body.append(St([self.kw("character"), "(", self.kw("len"), "=", "8", ")", "::", c]))
            elif r < 0.93:
                body.append(St([self.kw("real"), ",", self.kw("allocatable"), "::", c, "(", ":", ")"]))
            else:
                body.append(St([self.kw("procedure"), "(", self.ch(FUN_NAMES), ")", ",", self.kw("pointer"), ",", self.kw("nopass"), "::", c]))
                self.hit("d:proccomp")
        if self.p(0.3) and "BIND" not in [x.upper() for x in t] and not any(s.toks[0].upper() == "SEQUENCE" for s in body):
            body.append(St([self.kw("contains")], "mid", "type"))
            self.hit("d:tbp")
            for _ in range(self.ri(1, 2)):
                r = self.rng.random()
                if r < 0.5:
                    pre = self.ch([["::"], [",", self.kw("pass"), "::"], [",", self.kw("nopass"), ",", self.kw("public"), "::"], []])
                    body.append(St([self.kw("procedure")] + pre +
                                   [self.ch(SUB_NAMES)] + (["=>", self.ch(FUN_NAMES)] if pre and self.p(0.5) else [])))
                elif r < 0.7:
                    body.append(St([self.kw("generic"), "::", "gen", "=>", self.ch(SUB_NAMES), ",", self.ch(SUB_NAMES)]))
                elif r < 0.85:
                    body.append(St([self.kw("final"), "::", self.ch(SUB_NAMES)]))
                else:
                    body.append(St([self.kw("generic"), "::", self.kw("operator"), "(", "+", ")", "=>", self.ch(FUN_NAMES)]))
        cl = St(self.end_kw("type", nm), "close", "type")
        return Blk("type", op, body, cl)

    def enum_def(self):
        self.hit("d:enum")
        op = St([self.kw("enum"), ",", self.kw("bind"), "(", "c", ")"], "open", "enum")
        body = [St([self.kw("enumerator"), "::", "red", "=", "1", ",", "green"]),
                St([self.kw("enumerator"), "blue"])][: self.ri(1, 2)]
        cl = St(self.end_kw("enum"), "close", "enum")
        return Blk("enum", op, body, cl)

    def interface_block(self):
        self.hit("d:interface")
        r = self.rng.random()
        gen = None
        if r < 0.3:
            op = St([self.kw("interface")], "open", "interface")
        elif r < 0.55:
            gen = [self.ch(["gen_if", "solve"])]
            op = St([self.kw("interface")] + gen, "open", "interface")
        elif r < 0.7:
            gen = [self.kw("operator"), "(", self.ch(["+", ".myop.", "==", "*"]), ")"]
            op = St([self.kw("interface")] + gen, "open", "interface")
        elif r < 0.8:
            gen = [self.kw("assignment"), "(", "=", ")"]
            op = St([self.kw("interface")] + gen, "open", "interface")
        else:
            op = St([self.kw("abstract"), self.kw("interface")], "open", "interface")
        body = []
        if gen and self.p(0.5):
            body.append(St([self.kw("module"), self.kw("procedure")] + [self.ch(SUB_NAMES)] + ([",", self.ch(FUN_NAMES)] if self.p(0.4) else [])))
            self.hit("d:moduleprocedure")
        if not body or self.p(0.5):
            body.append(self.subprogram(0, interface_body=True))
        t = self.end_kw("interface")
        if gen and self.p(0.5):
            t += gen
        cl = St(t, "close", "interface")
        return Blk("interface", op, body, cl)

    def use_stmt(self):
        self.hit("d:use")
        m = self.ch(MOD_NAMES)
        r = self.rng.random()
        t = [self.kw("use")]
        if r < 0.15:
            t += [",", self.kw("intrinsic"), "::", "iso_c_binding"]
            m = None
        elif r < 0.25:
            t += ["::", m]
        else:
            t += [m]
        opt = self.rng.random()
        if opt < 0.2:
            t += [",", self.kw("only"), ":", "wp", ",", "i_def"]
        elif opt < 0.27:
            t += [",", self.kw("only"), ":", "loc_n", "=>", "rem_n"]
        elif opt < 0.34:
            t += [",", "loc_n", "=>", "rem_n"]
        elif opt < 0.38:
            t += [",", self.kw("only"), ":", self.kw("operator"), "(", ".myop.", ")"]
        elif opt < 0.42:
            t += [",", self.kw("only"), ":"]
        elif opt < 0.62 and m is not None:
            # general only-list: names, renames, generic specs in any order
            self.hit("d:use-only-list")
            t += [",", self.kw("only"), ":"]
            for i in range(self.ri(1, 4)):
                if i:
                    t.append(",")
                t += self.use_entry(only=True)
        elif opt < 0.72 and m is not None:
            # general rename-list (no ONLY): renames of names and of defined operators
            self.hit("d:use-rename-list")
            for i in range(self.ri(1, 3)):
                t.append(",")
                t += self.use_entry(only=False)
        return St(t), m

    def use_entry(self, only):
        """one entry of an only-list / rename-list"""
        r = self.rng.random()
        loc = self.ch(USE_LOCALS)
        rem = self.ch(USE_REMOTES)
        if not only:
            if r < 0.8:
                return [loc, "=>", rem]
            return [self.kw("operator"), "(", ".lop.", ")", "=>", self.kw("operator"), "(", ".rop.", ")"]
        if r < 0.35:
            return [rem]
        if r < 0.6:
            return [loc, "=>", rem]
        if r < 0.75:
            return [self.kw("operator"), "(", self.ch([".myop.", "+", "==", "*", ".cross.", "//"]), ")"]
        if r < 0.85:
            return [self.kw("assignment"), "(", "=", ")"]
        if r < 0.92:
            return [self.kw("operator"), "(", ".lop.", ")", "=>", self.kw("operator"), "(", ".rop.", ")"]
        return [self.ch(["gen_if", "solve"])]

    def spec_part(self, depth, dummy_args=(), in_module=False, in_interface=False):
        body = []
        decls = []
        uses = []
        for _ in range(self.ri(0, 2) if not in_interface else self.ri(0, 1)):
            u, m = self.use_stmt()
            body.append(u)
            uses.append(m)
        if in_interface and self.p(0.3):
            body.append(St([self.kw("import")] + self.ch([[], ["::", "t_pt"], ["wp", ",", "i_def"]])))
            self.hit("d:import")
        if self.p(0.6):
            self.hit("d:implicit")
            body.append(St([self.kw("implicit"), self.kw("none")]) if self.p(0.75) else
                        St([self.kw("implicit"), self.kw("real"), "(", "a", "-", "h", ",", "o", "-", "z", ")", ",",
                            self.kw("integer"), "(", "i", "-", "n", ")"]))
        for a in dummy_args:
            if self.p(0.8):
                d, names = self.type_decl(names=[a], intent=True)
                body.append(d)
                decls += names
        n = max(0, int(self.ri(1, 5) * self.size))
        for _ in range(n):
            if self.p(0.6):
                d, names = self.type_decl()
                body.append(d)
                decls += names
            elif not in_interface:
                x = self.spec_misc()
                # private/public/protected only in modules; optional/value/intent need dummies
                if isinstance(x, St):
                    k = x.toks[0].upper()
                    if k in ("PUBLIC", "PRIVATE", "PROTECTED") and not in_module:
                        continue
                    if k == "FORMAT" and in_module:
                        continue
                body.append(x)
        return body, decls, uses

    def subprogram(self, depth, interface_body=False, module_level=False):
        is_fn = self.p(0.45)
        nm = self.ch(FUN_NAMES if is_fn else SUB_NAMES) + ("_%d" % self.ri(1, 99))
        nargs = self.ri(0, 3)
        args = self.rng.sample(["a", "b", "x", "n", "flag_in", "arr"], nargs)
        prefix = []
        r = self.rng.random()
        if r < 0.12:
            prefix.append(self.kw("pure"))
        elif r < 0.2:
            prefix.append(self.kw("elemental"))
        elif r < 0.27:
            prefix.append(self.kw("recursive"))
        elif r < 0.32:
            prefix += [self.kw("pure"), self.kw("recursive")] if False else [self.kw("impure"), self.kw("elemental")] if self.f08ok() and False else [self.kw("recursive")]
        t = list(prefix)
        if is_fn:
            if self.p(0.35):
                t += self.ch([[self.kw("real")], [self.kw("integer")], [self.kw("real"), "(", "8", ")"],
                              [self.kw("logical")], [self.kw("type"), "(", "t_pt", ")"],
                              [self.kw("character"), "(", self.kw("len"), "=", "10", ")"]])
            t += [self.kw("function"), nm, "("]
            for i, a in enumerate(args):
                t += ([","] if i else []) + [a]
            t.append(")")
            if self.p(0.35):
                t += [self.kw("result"), "(", "res", ")"]
                self.hit("u:result")
            if self.p(0.1) and not prefix:
                t += [self.kw("bind"), "(", "c", ")"]
            self.hit("u:function")
        else:
            t += [self.kw("subroutine"), nm]
            if args or self.p(0.4):
                t.append("(")
                for i, a in enumerate(args):
                    t += ([","] if i else []) + [a]
                if self.p(0.08) and not interface_body:
                    t += ([","] if args else []) + ["*"]
                    self.hit("u:altreturn")
                t.append(")")
            if self.p(0.1) and not prefix:
                t += [self.kw("bind"), "(", "c", ",", self.kw("name"), "=", "'c_" + nm + "'", ")"]
            self.hit("u:subroutine")
        what = "function" if is_fn else "subroutine"
        op = St(t, "open", what)
        spec, decls, uses = self.spec_part(depth, dummy_args=[a for a in args if a != "*"],
                                           in_interface=interface_body)
        body = list(spec)
        shadow = None
        if not interface_body and self.p(0.06):
            # the same (capitalised) module USEd twice; the FIRST use imports a name that shadows an
            # intrinsic, which is then referenced with an argument count the intrinsic would reject
            shadow = self.ch([("max", ["x"]), ("mod", ["n"]), ("min", ["a"]), ("atan2", ["x"])])
            mod = self.ch(["Mod_B", "Phys_K", "UTILS_m"])
            body.insert(0, St([self.kw("use"), mod, ",", self.kw("only"), ":", "wp2"]))
            body.insert(0, St([self.kw("use"), mod, ",", self.kw("only"), ":", shadow[0]]))
            self.hit("d:use-twice-shadow")
        if not interface_body:
            body += self.body(depth, n=max(1, int(self.ri(1, 4) * self.size)))
            if shadow:
                body.append(St(["tmp", "=", shadow[0], "("] + shadow[1] + [")"]))
            if not is_fn and self.p(0.08):
                body.append(St([self.kw("entry"), nm + "_e"] + self.ch([["(", "b", ")"], ["(", ")"], []])))
                body.append(St(["b", "=", "1"]))
                self.hit("u:entry")
            if is_fn and self.p(0.1) and not interface_body:
                # ENTRY in a function: empty or non-empty dummy list, with and without a suffix
                suf = self.ch([[], [self.kw("result"), "(", "res_e", ")"], [self.kw("result"), "(", "res_e", ")"]])
                body.append(St([self.kw("entry"), nm + "_e", "("] + self.ch([[], ["b"]]) + [")"] + suf))
                body.append(St(["b", "=", "1"]))
                self.hit("u:entry-function")
            if depth < 1 and self.p(0.25) and not interface_body:
                body.append(St([self.kw("contains")], "mid", what))
                for _ in range(self.ri(1, 2)):
                    body.append(self.subprogram(depth + 1))
                self.hit("u:internal")
        cl = St(self.end_kw(what, nm) if self.p(0.85) else [self.kw("end")], "close", what)
        b = Blk(what, op, body, cl, scope=nm)
        b.decls = decls
        b.uses = uses
        return b

    def main_program(self):
        nm = "prog_%d" % self.ri(1, 99)
        op = St([self.kw("program"), nm], "open", "program")
        spec, decls, uses = self.spec_part(0)
        body = list(spec) + self.body(0, n=max(1, int(self.ri(2, 6) * self.size)))
        if self.p(0.3):
            body.append(St([self.kw("contains")], "mid", "program"))
            for _ in range(self.ri(1, 2)):
                body.append(self.subprogram(1))
            self.hit("u:internal")
        cl = St(self.end_kw("program", nm) if self.p(0.85) else [self.kw("end")], "close", "program")
        self.hit("u:program")
        if self.p(0.15):
            # main program without PROGRAM statement (fparser2: Main_Program0)
            op = None
            cl = St(self.ch([[self.kw("end")], [self.kw("end"), self.kw("program")]]), "close", "program")
            nm = "fparser2:main_program"
            self.hit("u:program-headless")
        b = Blk("program", op, body, cl, scope=nm)
        b.decls = decls
        b.uses = uses
        return b

    def module(self):
        nm = self.ch(MOD_NAMES) + "_%d" % self.ri(1, 99)
        op = St([self.kw("module"), nm], "open", "module")
        spec, decls, uses = self.spec_part(0, in_module=True)
        body = list(spec)
        if self.p(0.7):
            body.append(St([self.kw("contains")], "mid", "module"))
            for _ in range(self.ri(1, 3)):
                body.append(self.subprogram(0, module_level=True))
        cl = St(self.end_kw("module", nm) if self.p(0.85) else [self.kw("end")], "close", "module")
        self.hit("u:module")
        b = Blk("module", op, body, cl, scope=nm)
        b.decls = decls
        b.uses = uses
        return b

    def submodule(self):
        nm = "subm_%d" % self.ri(1, 99)
        par = [self.ch(MOD_NAMES)] + ([":", "parent_sm"] if self.p(0.3) else [])
        op = St([self.kw("submodule"), "("] + par + [")", nm], "open", "submodule", f08=True)
        spec, decls, uses = self.spec_part(0, in_module=True)
        body = list(spec)
        if self.p(0.6):
            body.append(St([self.kw("contains")], "mid", "submodule"))
            body.append(self.subprogram(0, module_level=True))
        cl = St(self.end_kw("submodule", nm), "close", "submodule")
        self.hit("u:submodule")
        b = Blk("submodule", op, body, cl, scope=nm, f08=True)
        b.decls = decls
        b.uses = uses
        return b

    def block_data(self):
        nm = "bd_%d" % self.ri(1, 99)
        op = St([self.kw("block"), self.kw("data"), nm] if self.p(0.7) else [self.kw("blockdata"), nm], "open", "blockdata")
        body = [St([self.kw("common"), "/", "blk1", "/", "a", ",", "b"]),
                St([self.kw("data"), "a", ",", "b", "/", "1.0", ",", "2.0", "/"])]
        cl = St([self.kw("end"), self.kw("block"), self.kw("data"), nm], "close", "blockdata")
        self.hit("u:blockdata")
        return Blk("blockdata", op, body, cl, scope=None)

    def program(self, nunits=None):
        units = []
        n = nunits if nunits is not None else self.ri(1, 3)
        have_main = False
        for _ in range(n):
            r = self.rng.random()
            if r < 0.3 and not have_main:
                units.append(self.main_program())
                have_main = True
            elif r < 0.55:
                units.append(self.module())
            elif r < 0.62 and self.f08ok():
                units.append(self.submodule())
            elif r < 0.67:
                units.append(self.block_data())
            else:
                units.append(self.subprogram(0))
        return Prog(units)


def gen_program(seed, std="f2008", max_depth=3, size=1.0, nunits=None, features=None):
    rng = random.Random(seed)
    g = G(rng, std=std, max_depth=max_depth, size=size, features=features)
    p = g.program(nunits)
    for i, st in enumerate(p.flat()):
        st.uid0 = i          # stable identity, survives shrinking
    p.hits = g.hits
    p.seed = seed
    p.std = std
    return p
