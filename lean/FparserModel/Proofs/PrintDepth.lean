import FparserModel.Proofs.PrintBasic
/-!
# PrintDepth — the tab of a line is `tab ++ 2·depth blanks`, the depth by block kind and role
-/
namespace Fp.Print

/-- `2k` blanks -/
def blanks (k : Nat) : Str := List.replicate (2 * k) ' '

theorem blanks_zero : blanks 0 = [] := rfl
theorem two_eq : two = blanks 1 := rfl
theorem blanks_add (a b : Nat) : blanks (a + b) = blanks a ++ blanks b := by
  simp [blanks, Nat.mul_add, List.replicate_append_replicate]
theorem blanks_succ (a : Nat) : blanks a ++ two = blanks (a + 1) := by rw [two_eq, blanks_add]

theorem actionMid_offs (T : Tbl) (c : Cls) (tab : Str) :
    ∀ (e : Nat) (cs : List Cls),
      actionMid T c tab (blanks e) cs = (actionOffs T c e cs).map fun o => tab ++ blanks o
  | _, [] => rfl
  | e, k :: ks => by
    simp only [actionMid, actionOffs, List.map_cons]
    by_cases h : T.isLabelDo c k = true
    · simp only [h, if_true, blanks_succ]
      rw [actionMid_offs T c tab (e + 1) ks]
    · have h' : T.isLabelDo c k = false := by simpa using h
      simp only [h', Bool.false_eq_true, if_false]
      rw [actionMid_offs T c tab e ks]

theorem midTabs_offs (T : Tbl) (c : Cls) (tab : Str) (last : Cls) (mid : List Cls) :
    midTabs T c tab last mid = (midOffs T c last mid).map fun o => tab ++ blanks o := by
  unfold midTabs midOffs
  cases T.printer c
  · by_cases h : T.isEnd last = true <;> simp [h, two_eq, blanks_zero, List.map_map, Function.comp_def]
  · simp [blanks_zero, List.map_map, Function.comp_def]
  · simp only [List.map_map]; apply List.map_congr_left; intro k _
    by_cases h : T.isElsewhere k = true <;> simp [h, two_eq, blanks_zero]
  · simp only [List.map_map]; apply List.map_congr_left; intro k _
    by_cases h : T.isElse k = true <;> simp [h, two_eq, blanks_zero]
  · simp only [List.map_map]; apply List.map_congr_left; intro k _
    by_cases h : T.isCase k = true <;> simp [h, two_eq, blanks_zero]
  · simp [two_eq, List.map_map, Function.comp_def]
  · simpa [two_eq] using actionMid_offs T c tab 1 mid

theorem childTabs_offs (T : Tbl) (c : Cls) (tab : Str) (cs : List Cls) :
    childTabs T c tab cs = (childOffs T c cs).map fun o => tab ++ blanks o := by
  match cs with
  | [] => rfl
  | [_] => simp [childTabs, childOffs, blanks_zero]
  | _ :: k :: r => simp [childTabs, childOffs, blanks_zero, midTabs_offs]

theorem childOffs_length (T : Tbl) (c : Cls) (cs : List Cls) : (childOffs T c cs).length = cs.length := by
  have h := childTabs_length T c [] cs
  rw [childTabs_offs] at h
  simpa using h

/-- a line at depth `p.1` under the root tab `tab0` -/
def atDepth (tab0 : Str) (p : Nat × Src) : Line := ⟨tab0 ++ blanks p.1, p.2⟩

mutual
theorem printTree_depths (T : Tbl) (tab0 : Str) (t : Tree) (d : Nat) :
    printTree T (tab0 ++ blanks d) t = (printDepths T d t).map (atDepth tab0) := by
  cases t with
  | leaf l => simp [printTree, printDepths, atDepth]
  | block c content =>
    cases content with
    | nil => simp [printTree, printDepths, atDepth]
    | cons x rest =>
      cases rest with
      | nil =>
        simp only [printTree, printDepths]
        split <;> simp [printTree_depths T tab0 x d]
      | cons y r =>
        rw [printTree_block_cons2]
        simp only [printDepths]
        rw [childTabs_offs]
        exact printItems_depths T tab0 (x :: y :: r) d _
theorem printItems_depths (T : Tbl) (tab0 : Str) (ts : List Tree) (d : Nat) (offs : List Nat) :
    printItems T (offs.map fun o => (tab0 ++ blanks d) ++ blanks o) ts
      = (depthItems T d offs ts).map (atDepth tab0) := by
  cases ts with
  | nil => simp [printItems_nil_right, depthItems]
  | cons t ts =>
    cases offs with
    | nil => simp [printItems, depthItems]
    | cons o os =>
      have h1 : (tab0 ++ blanks d) ++ blanks o = tab0 ++ blanks (d + o) := by
        rw [blanks_add, List.append_assoc]
      simp only [List.map_cons, printItems_cons, depthItems, List.map_append]
      rw [h1, printTree_depths T tab0 t (d + o), printItems_depths T tab0 ts d os]
end

/-- with the root at depth 0 -/
theorem printTree_depths0 (T : Tbl) (tab : Str) (t : Tree) :
    printTree T tab t = (printDepths T 0 t).map (atDepth tab) := by
  have := printTree_depths T tab t 0
  simpa [blanks_zero] using this

/-- every tab is the root tab followed by blanks only -/
theorem printTree_tab_blank (T : Tbl) (tab : Str) (t : Tree) (ln : Line) (h : ln ∈ printTree T tab t) :
    ∃ k, ln.tab = tab ++ blanks k := by
  rw [printTree_depths0] at h
  obtain ⟨p, _, rfl⟩ := List.mem_map.mp h
  exact ⟨p.1, rfl⟩

theorem printTree_tab_allBlank (T : Tbl) (tab : Str) (t : Tree) (htab : ∀ ch ∈ tab, ch = ' ')
    (ln : Line) (h : ln ∈ printTree T tab t) : ∀ ch ∈ ln.tab, ch = ' ' := by
  obtain ⟨k, hk⟩ := printTree_tab_blank T tab t ln h
  intro ch hch
  rw [hk, List.mem_append] at hch
  rcases hch with h1 | h1
  · exact htab ch h1
  · exact (List.mem_replicate.mp h1).2

/-! ## closed forms of the relative depths, per block kind and role -/

theorem childOffs_snoc (T : Tbl) (c : Cls) (s e : Cls) (mid : List Cls) :
    childOffs T c (s :: (mid ++ [e])) = 0 :: (midOffs T c e mid ++ [0]) := by
  cases mid with
  | nil => simp [childOffs]
  | cons k r =>
    have h1 : (k :: (r ++ [e])).getLast (by simp) = e := by simp [List.getLast_cons]
    have h2 : (k :: (r ++ [e])).dropLast = k :: r := by
      have : k :: (r ++ [e]) = (k :: r) ++ [e] := rfl
      rw [this, List.dropLast_concat]
    simp only [List.cons_append, childOffs, h1, h2]

/-- `actionOffs` in closed form: an item sits one level deeper for every label-DO statement before it -/
theorem actionOffs_closed (T : Tbl) (c : Cls) :
    ∀ (d : Nat) (cs : List Cls) (i : Nat), i < cs.length →
      (actionOffs T c d cs)[i]? = some (d + ((cs.take i).filter (T.isLabelDo c)).length)
  | _, [], _, h => by simp at h
  | d, k :: ks, 0, _ => by simp [actionOffs]
  | d, k :: ks, i + 1, h => by
    simp only [actionOffs, List.getElem?_cons_succ, List.take_succ_cons]
    rw [actionOffs_closed T c _ ks i (by simpa using h)]
    by_cases hk : T.isLabelDo c k = true
    · simp [hk]; omega
    · simp [hk]

end Fp.Print
