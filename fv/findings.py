"""Named predicates identifying the known findings (see known_findings.json and DESIGN.md
§8).  A failure found by a check is first minimised, then offered to the predicates of
its property; the first that recognises it gives the signature `pred:<name>` under which
the finding is listed.  Anything no predicate recognises keeps its generic signature and
is reported as a VIOLATION."""
import re

_LABEL_DO = re.compile(r"^\s*(\w+\s*:\s*)?do\s+(\d+)\b", re.I)


def _lines(src):
    return [l for l in src.split("\n") if l.strip()]


def shared_label_do_inline_comment(src, ctx):
    """comments kept: a label-DO statement carrying a trailing comment, directly followed by
    another DO with the same label (shared terminal statement) -> valid program rejected"""
    if ctx.get("ignore_comments", True):
        return False
    L = _lines(src)
    for a, b in zip(L, L[1:]):
        ma, mb = _LABEL_DO.match(a), _LABEL_DO.match(b)
        if ma and mb and ma.group(2) == mb.group(2) and "!" in a:
            return True
    return False


PREDICATES = {
    "C01": [shared_label_do_inline_comment],
    "C11": [shared_label_do_inline_comment],
    "C04": [shared_label_do_inline_comment],
    "C14": [],
}


def classify(prop, src, ctx):
    for p in PREDICATES.get(prop, []):
        try:
            if p(src, ctx):
                return "pred:" + p.__name__
        except Exception:  # noqa: BLE001
            pass
    return None
