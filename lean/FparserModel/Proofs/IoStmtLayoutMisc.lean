import FparserModel.Proofs.IoStmtLayoutWrite
/-!
`*_tostr_match_tokens` for the remaining hand-written statement classes:
Where_Stmt, Forall_Stmt, Call_Stmt, Goto_Stmt, Computed_Goto_Stmt, Deallocate_Stmt, Allocate_Stmt,
Arithmetic_If_Stmt, Forall_Triplet_Spec, Forall_Header.
-/
namespace Fp.IoStmt
open Fp Fp.Splitline
open Fp.Combi (noBlank)

variable {Node : Type}

/-! ## helpers -/

theorem consL (X : Str) : '(' :: X = "(".toList ++ X := rfl
theorem consR (X : Str) : ')' :: X = ")".toList ++ X := rfl
theorem consC (X : Str) : ',' :: X = ",".toList ++ X := rfl
theorem consE (X : Str) : '=' :: X = "=".toList ++ X := rfl
theorem consK (X : Str) : ':' :: X = ":".toList ++ X := rfl
theorem consSp (X : Str) : ' ' :: X = " ".toList ++ X := rfl

theorem run1 {o : Oracle Node} {a : Slot} {items : List (Item Node)}
    (h : runSlots o [a] = .ok items) : ∃ i, items = [i] ∧ runSlot o a = .ok i := by
  obtain ⟨i, is, rfl, hi, his⟩ := runSlots_cons_ok h
  have := runSlots_nil_ok his; subst this
  exact ⟨i, rfl, hi⟩

theorem run2 {o : Oracle Node} {a b : Slot} {items : List (Item Node)}
    (h : runSlots o [a, b] = .ok items) :
    ∃ i j, items = [i, j] ∧ runSlot o a = .ok i ∧ runSlot o b = .ok j := by
  obtain ⟨i, is, rfl, hi, his⟩ := runSlots_cons_ok h
  obtain ⟨j, rfl, hj⟩ := run1 his
  exact ⟨i, j, rfl, hi, hj⟩

theorem run3 {o : Oracle Node} {a b c : Slot} {items : List (Item Node)}
    (h : runSlots o [a, b, c] = .ok items) :
    ∃ i j k, items = [i, j, k] ∧ runSlot o a = .ok i ∧ runSlot o b = .ok j ∧ runSlot o c = .ok k := by
  obtain ⟨i, is, rfl, hi, his⟩ := runSlots_cons_ok h
  obtain ⟨j, k, rfl, hj, hk⟩ := run2 his
  exact ⟨i, j, k, rfl, hi, hj, hk⟩

theorem run4 {o : Oracle Node} {a b c d : Slot} {items : List (Item Node)}
    (h : runSlots o [a, b, c, d] = .ok items) :
    ∃ i j k l, items = [i, j, k, l] ∧ runSlot o a = .ok i ∧ runSlot o b = .ok j ∧
      runSlot o c = .ok k ∧ runSlot o d = .ok l := by
  obtain ⟨i, is, rfl, hi, his⟩ := runSlots_cons_ok h
  obtain ⟨j, k, l, rfl, hj, hk, hl⟩ := run3 his
  exact ⟨i, j, k, l, rfl, hi, hj, hk, hl⟩

/-- a text that ends with `c` -/
theorem endsC_snoc {c : Char} {s : Str} (h : endsC c s = true) : ∃ p, s = p ++ [c] := by
  have h' : s.getLast? = some c := by simpa [endsC] using h
  exact List.getLast?_eq_some_iff.mp h'

theorem endsC_append_cons {c d : Char} {a b : Str} (h : endsC c (a ++ d :: b) = true) (hd : d ≠ c) :
    endsC c b = true := by
  cases b with
  | nil => simp [endsC] at h; exact absurd h hd
  | cons x b => simpa [endsC, List.getLast?_append, List.getLast?_cons_cons] using h

/-- `s[0] == "(" and s[-1] == ")"`: the text is `( inner )` -/
theorem paren_shape {s : Str} (h1 : s.head? = some '(') (h2 : s.getLast? = some ')') :
    s = '(' :: inner s ++ [')'] := by
  cases s with
  | nil => cases h1
  | cons c t =>
    have hc : c = '(' := by simpa using h1
    subst hc
    cases t with
    | nil => simp at h2
    | cons x t =>
      have h3 : (x :: t).getLast? = some ')' := by simpa [List.getLast?_cons_cons] using h2
      obtain ⟨ys, hy⟩ := List.getLast?_eq_some_iff.mp h3
      simp only [inner, List.drop_succ_cons, List.drop_zero]
      rw [hy, List.dropLast_concat]; rfl

theorem paren_shapeC {s : Str} (h : (startsC '(' s && endsC ')' s) = true) :
    s = '(' :: inner s ++ [')'] := by
  simp only [Bool.and_eq_true, startsC, endsC, beq_iff_eq] at h
  exact paren_shape h.1 h.2

theorem toks_paren (X : Str) : toks ('(' :: X ++ [')']) = toks "(".toList ++ toks X ++ toks ")".toList := by
  rw [consL, List.append_assoc, toks_append, toks_append]; simp only [List.append_assoc]; rfl

/-! ## Where_Stmt -/

/-- **Where_Stmt**: `WHERE (mask) stmt` is printed with the tokens of the input -/
theorem where_tostr_match_tokens (o : Oracle Node) (ho : OracleTok o) (s : Str)
    (items : List (Item Node)) (hm : (planWhere s).bind (runSlots o) = .ok items)
    (hs : SrmOK (lstrip (s.drop 5))) :
    ∃ t, tostrWhere o items = .ok t ∧ toks t = toks s ∧
      ((∀ i ∈ items, net (i.text o) = 0) → net t = 0) := by
  obtain ⟨slots, hp, hr⟩ := Res.bind_eq_ok hm
  unfold planWhere at hp
  split at hp
  · cases hp
  rename_i hkw
  have hkw' : kwIs "WHERE".toList s = true := by simpa using hkw
  obtain ⟨r, htok, hp⟩ := Res.bind_eq_ok hp
  have htk := tok_ok htok
  obtain ⟨hseg, hexp⟩ := seg_of_tokenise hs htk
  have hS : toks s = toks "WHERE".toList ++ toks (applyMap r.map r.text) := by
    rw [toks_of_kwIs hkw', toks_of_noBlank hexp, toks_lstrip]; rfl
  split at hp
  · cases hp
  rename_i hst
  have hhead : r.text.head? = some '(' := by simpa [startsC] using hst
  split at hp
  · cases hp
  rename_i pre post hcut
  obtain ⟨htext, _⟩ := Combi.cutFirst_spec _ _ _ hcut
  have hpre : ∃ pre', pre = '(' :: pre' := by
    cases pre with
    | nil => rw [htext] at hhead; simp at hhead
    | cons d pre' => rw [htext] at hhead; simp at hhead; exact ⟨pre', by rw [hhead]⟩
  obtain ⟨pre', rfl⟩ := hpre
  rw [htext] at hseg hS
  obtain ⟨hsegPre, hsegPost, happ⟩ := Seg.sep isWord_rparen hseg
  obtain ⟨hsegPre', happ1⟩ := Seg.drop1 isWord_lparen hsegPre
  have hA : toks (applyMap r.map (strip pre')) = toks (applyMap r.map pre') :=
    toks_of_noBlank (Seg.strip hsegPre').2
  have hB : toks (applyMap r.map (lstrip post)) = toks (applyMap r.map post) :=
    toks_of_noBlank (Seg.lstrip hsegPost).2
  dsimp only at hp
  simp only [List.drop_succ_cons, List.drop_zero] at hp
  split at hp
  · cases hp
  split at hp
  · cases hp
  cases hp
  obtain ⟨i, j, rfl, hi, hj⟩ := run2 hr
  have hi' := toks_item_of_child ho hi
  have hj' := toks_item_of_child ho hj
  have k1 : toks "WHERE (".toList = toks "WHERE".toList ++ toks "(".toList := by decide
  have k2 : toks ") ".toList = toks ")".toList := by decide
  refine ⟨_, rfl, ?_, ?_⟩
  · rw [hS, happ, happ1, consL, consR]
    simp only [toks_append, k1, k2, hi', hj', hA, hB, List.append_assoc]
  · intro hb
    have h1 := hb i (by simp)
    have h2 := hb j (by simp)
    simp only [net_append, h1, h2]; decide

/-! ## Forall_Stmt -/

/-- **Forall_Stmt**: `FORALL header stmt`; the header keeps its parentheses -/
theorem forall_tostr_match_tokens (o : Oracle Node) (ho : OracleTok o) (s : Str)
    (items : List (Item Node)) (hm : (planForall s).bind (runSlots o) = .ok items)
    (hs : SrmOK (lstrip ((strip s).drop 6))) :
    ∃ t, tostrForall o items = .ok t ∧ toks t = toks s ∧
      ((∀ i ∈ items, net (i.text o) = 0) → net t = 0) := by
  obtain ⟨slots, hp, hr⟩ := Res.bind_eq_ok hm
  unfold planForall at hp
  dsimp only at hp
  split at hp
  · cases hp
  rename_i hkw
  have hkw' : kwIs "FORALL".toList (strip s) = true := by simpa using hkw
  obtain ⟨r, htok, hp⟩ := Res.bind_eq_ok hp
  have htk := tok_ok htok
  obtain ⟨hseg, hexp⟩ := seg_of_tokenise hs htk
  have hS : toks s = toks "FORALL".toList ++ toks (applyMap r.map r.text) := by
    rw [← toks_strip s, toks_of_kwIs hkw', toks_of_noBlank hexp, toks_lstrip]; rfl
  split at hp
  · cases hp
  split at hp
  · cases hp
  rename_i pre post hcut
  obtain ⟨htext, _⟩ := Combi.cutFirst_spec _ _ _ hcut
  have htext' : r.text = (pre ++ [')']) ++ post := by rw [htext]; simp
  rw [htext'] at hseg hS
  obtain ⟨_, hsegPost, happ⟩ := Seg.split hseg (.inr (.inr (.inl ⟨')', by simp, isWord_rparen⟩)))
  have hB : toks (applyMap r.map (lstrip post)) = toks (applyMap r.map post) :=
    toks_of_noBlank (Seg.lstrip hsegPost).2
  split at hp
  · cases hp
  cases hp
  obtain ⟨i, j, rfl, hi, hj⟩ := run2 hr
  have hi' := toks_item_of_child ho hi
  have hj' := toks_item_of_child ho hj
  have k1 : toks "FORALL ".toList = toks "FORALL".toList := by decide
  have k2 : toks " ".toList = [] := by decide
  refine ⟨_, rfl, ?_, ?_⟩
  · rw [hS, happ, consSp]
    simp only [toks_append, k1, k2, hi', hj', hB, List.append_assoc, List.nil_append]
  · intro hb
    have h1 := hb i (by simp)
    have h2 := hb j (by simp)
    rw [consSp]
    simp only [net_append, h1, h2]; decide

/-! ## Goto_Stmt -/

/-- **Goto_Stmt**: `GO TO label` -/
theorem goto_tostr_match_tokens (o : Oracle Node) (ho : OracleTok o) (s : Str)
    (items : List (Item Node)) (hm : (planGoto s).bind (runSlots o) = .ok items) :
    ∃ t, tostrGoto o items = .ok t ∧ toks t = toks s ∧
      ((∀ i ∈ items, net (i.text o) = 0) → net t = 0) := by
  obtain ⟨slots, hp, hr⟩ := Res.bind_eq_ok hm
  unfold planGoto at hp
  split at hp
  · cases hp
  rename_i hkw
  have hkw' : kwIs "GO".toList s = true := by simpa using hkw
  dsimp only at hp
  split at hp
  · cases hp
  rename_i hkw2
  have hkw2' : kwIs "TO".toList (lstrip (s.drop 2)) = true := by simpa using hkw2
  cases hp
  obtain ⟨i, rfl, hi⟩ := run1 hr
  have hi' := toks_item_of_child ho hi
  have e1 : toks s = toks "GO".toList ++ toks (lstrip (s.drop 2)) := by
    rw [toks_of_kwIs hkw', toks_lstrip]; rfl
  have e2 : toks (lstrip (s.drop 2)) = toks "TO".toList ++ toks (lstrip ((lstrip (s.drop 2)).drop 2)) := by
    rw [toks_of_kwIs hkw2', toks_lstrip]; rfl
  have k1 : toks "GO TO ".toList = toks "GO".toList ++ toks "TO".toList := by decide
  refine ⟨_, rfl, ?_, ?_⟩
  · rw [e1, e2]
    simp only [toks_append, k1, hi', List.append_assoc]
  · intro hb
    have h1 := hb i (by simp)
    simp only [net_append, h1]; decide

/-! ## Call_Stmt -/

/-- **Call_Stmt**: `CALL pd(args)` / `CALL pd`.  The empty argument list `CALL s()` is printed as
    `CALL s`: then (and only then) the token text of the input is that of the output followed by
    `()`. -/
theorem call_tostr_match_tokens (o : Oracle Node) (ho : OracleTok o) (s : Str)
    (items : List (Item Node)) (hm : (planCall s).bind (runSlots o) = .ok items)
    (hs : SrmOK (lstrip (s.drop 4))) :
    ∃ t, tostrCall o items = .ok t ∧
      (toks t = toks s ∨ toks s = toks t ++ toks "()".toList) ∧
      ((∀ i ∈ items, net (i.text o) = 0) → net t = 0) := by
  obtain ⟨slots, hp, hr⟩ := Res.bind_eq_ok hm
  unfold planCall at hp
  split at hp
  · cases hp
  rename_i hkw
  have hkw' : kwIs "CALL".toList s = true := by simpa using hkw
  obtain ⟨r, htok, hp⟩ := Res.bind_eq_ok hp
  have htk := tok_ok htok
  obtain ⟨hseg, hexp⟩ := seg_of_tokenise hs htk
  have hS0 : toks s = toks "CALL".toList ++ toks (lstrip (s.drop 4)) := by
    rw [toks_of_kwIs hkw', toks_lstrip]; rfl
  have hS : toks s = toks "CALL".toList ++ toks (applyMap r.map r.text) := by
    rw [hS0, toks_of_noBlank hexp]
  have kc : toks "CALL ".toList = toks "CALL".toList := by decide
  have k3 : toks [')'] = toks ")".toList := rfl
  have k4 : toks "()".toList = toks "(".toList ++ toks ")".toList := by decide
  split at hp
  · rename_i hend
    split at hp
    · cases hp
    rename_i pre post hcut
    obtain ⟨htext, _⟩ := Combi.cutLast_spec _ _ _ hcut
    rw [htext] at hend
    obtain ⟨post', rfl⟩ := endsC_snoc (endsC_append_cons hend (by decide))
    rw [htext] at hseg hS
    obtain ⟨hsegPre, hsegPost, happ⟩ := Seg.sep isWord_lparen hseg
    obtain ⟨hsegPost', happ1⟩ := Seg.dropLast1 isWord_rparen hsegPost
    have hA : toks (applyMap r.map (rstrip pre)) = toks (applyMap r.map pre) :=
      toks_of_noBlank (Seg.rstrip hsegPre).2
    have hB : toks (applyMap r.map (strip post')) = toks (applyMap r.map post') :=
      toks_of_noBlank (Seg.strip hsegPost').2
    dsimp only at hp
    simp only [List.dropLast_concat] at hp
    split at hp
    · cases hp
      obtain ⟨i, j, rfl, hi, hj⟩ := run2 hr
      have hi' := toks_item_of_child ho hi
      have hj' := toks_item_of_child ho hj
      obtain ⟨n2, rfl, _⟩ := runSlot_child_ok hj
      refine ⟨_, rfl, .inl ?_, ?_⟩
      · rw [hS, happ, happ1, consL]
        simp only [toks_append, kc, k3, hi', hj', hA, hB, List.append_assoc]
      · intro hb
        have h1 := hb i (by simp)
        have h2 := hb (.node n2) (by simp)
        simp only [net_append, h1, h2]; decide
    · rename_i hargs
      have hargs' : applyMap r.map (strip post') = [] := by simpa using hargs
      have hB' : toks (applyMap r.map post') = [] := by rw [← hB, hargs']; rfl
      cases hp
      obtain ⟨i, j, rfl, hi, hj⟩ := run2 hr
      have hi' := toks_item_of_child ho hi
      have := runSlot_none_ok hj; subst this
      refine ⟨_, rfl, .inr ?_, ?_⟩
      · rw [hS, happ, happ1, consL]
        simp only [toks_append, kc, k3, k4, hi', hA, hB', List.append_assoc, List.nil_append]
      · intro hb
        have h1 := hb i (by simp)
        simp only [net_append, h1]; decide
  · cases hp
    obtain ⟨i, j, rfl, hi, hj⟩ := run2 hr
    have hi' := toks_item_of_child ho hi
    have := runSlot_none_ok hj; subst this
    refine ⟨_, rfl, .inl ?_, ?_⟩
    · rw [hS0]
      simp only [toks_append, kc, hi']
    · intro hb
      have h1 := hb i (by simp)
      simp only [net_append, h1]; decide

theorem upperC_eq_comma {c : Char} (h : upperC c = ',') : c = ',' := by
  unfold upperC at h
  split at h
  · rename_i hr
    have h1' : 97 ≤ c.toNat := hr.1
    have h2' : c.toNat ≤ 122 := hr.2
    have aux : ∀ m, m < 91 → 65 ≤ m → Char.ofNat m ≠ ',' := by decide
    exact absurd h (aux (c.toNat - 32) (by omega) (by omega))
  · exact h

/-- a token text that starts with a comma: the text starts with it after `lstrip` -/
theorem toks_head_comma : ∀ (X : Str), (toks X).head? = some ',' → startsC ',' (lstrip X) = true
  | [], h => by simp [toks_nil] at h
  | c :: X, h => by
    by_cases hc : isSpace c = true
    · have e : toks (c :: X) = toks X := by
        simp [toks, noBlank, hc]
      rw [e] at h
      rw [Combi.lstrip_cons_space X hc]
      exact toks_head_comma X h
    · have hc' : isSpace c = false := by simpa using hc
      have e : toks (c :: X) = upperC c :: toks X := by
        simp [toks, noBlank, hc', upper]
      rw [e] at h
      rw [Combi.lstrip_cons_nonspace X hc']
      have h1 : upperC c = ',' := by simpa using h
      have h2 := upperC_eq_comma h1
      simp [startsC, h2]

theorem rparen_not_mem_toks {X : Str} (h : ')' ∉ X) : ')' ∉ toks X := by
  intro hm
  simp only [toks, upper, List.mem_map] at hm
  obtain ⟨c, hc, he⟩ := hm
  have hc' : c ∈ X := by
    simp only [noBlank, List.mem_filter] at hc
    exact hc.1
  have h2 := (upperC_paren c).2
  rw [he] at h2
  have : c = ')' := by simpa using h2.symm
  subst this
  exact h hc'

/-! ## Computed_Goto_Stmt -/

/-- **Computed_Goto_Stmt**: `GO TO (labels), expr`.  The comma after `)` is optional in the input
    and always printed: either the token texts agree (the input had the comma), or the output is
    the input with one `,` inserted directly after the FIRST `)` (the one that closes the label
    list), where the input had none. -/
theorem computedGoto_tostr_match_tokens (o : Oracle Node) (ho : OracleTok o) (s : Str)
    (items : List (Item Node)) (hm : (planComputedGoto s).bind (runSlots o) = .ok items) :
    ∃ t, tostrComputedGoto o items = .ok t ∧
      (toks t = toks s ∨
        ∃ a b, toks s = a ++ toks ")".toList ++ b ∧ ')' ∉ a ∧ b.head? ≠ some ',' ∧
          toks t = a ++ toks "),".toList ++ b) ∧
      ((∀ i ∈ items, net (i.text o) = 0) → net t = 0) := by
  obtain ⟨slots, hp, hr⟩ := Res.bind_eq_ok hm
  unfold planComputedGoto at hp
  split at hp
  · cases hp
  rename_i hkw
  have hkw' : kwIs "GO".toList s = true := by simpa using hkw
  dsimp only at hp
  split at hp
  · cases hp
  rename_i hkw2
  have hkw2' : kwIs "TO".toList (lstrip (s.drop 2)) = true := by simpa using hkw2
  have e1 : toks s = toks "GO".toList ++ toks (lstrip (s.drop 2)) := by
    rw [toks_of_kwIs hkw', toks_lstrip]; rfl
  have e2 : toks (lstrip (s.drop 2)) =
      toks "TO".toList ++ toks (lstrip ((lstrip (s.drop 2)).drop 2)) := by
    rw [toks_of_kwIs hkw2', toks_lstrip]; rfl
  generalize lstrip ((lstrip (s.drop 2)).drop 2) = line at hp e2
  split at hp
  · cases hp
  rename_i hst
  obtain ⟨line1, rfl⟩ := startsC_cons (c := '(') (s := line) (by simpa using hst)
  split at hp
  · cases hp
  rename_i pre post hcut
  obtain ⟨htext, hnotin⟩ := Combi.cutFirst_spec _ _ _ hcut
  have hpre : ∃ pre', pre = '(' :: pre' := by
    cases pre with
    | nil => simp at htext
    | cons d pre' =>
      have : d = '(' := by
        have := congrArg List.head? htext; simpa using this.symm
      exact ⟨pre', by rw [this]⟩
  obtain ⟨pre', rfl⟩ := hpre
  have hnotin' : ')' ∉ pre' := fun hm => hnotin (List.mem_cons_of_mem _ hm)
  have e3 : toks ('(' :: line1) = toks "(".toList ++ toks pre' ++ toks ")".toList ++ toks post := by
    rw [htext, List.cons_append, consL, consR]
    simp only [toks_append, List.append_assoc]
  simp only [List.drop_succ_cons, List.drop_zero] at hp
  split at hp
  · cases hp
  have k1 : toks "GO TO (".toList = toks "GO".toList ++ toks "TO".toList ++ toks "(".toList := by decide
  have k2 : toks "), ".toList = toks ")".toList ++ toks ",".toList := by decide
  have k3 : toks "),".toList = toks ")".toList ++ toks ",".toList := by decide
  by_cases hc : startsC ',' (lstrip post) = true
  · rw [if_pos hc] at hp
    split at hp
    · cases hp
    cases hp
    obtain ⟨rest, hrest⟩ := startsC_cons hc
    have e4 : toks post = toks ",".toList ++ toks rest := by
      rw [← toks_lstrip post, hrest, consC, toks_append]
    obtain ⟨i, j, rfl, hi, hj⟩ := run2 hr
    have hi' := toks_item_of_child ho hi
    have hj' := toks_item_of_child ho hj
    rw [hrest] at hj'
    simp only [List.drop_succ_cons, List.drop_zero, toks_lstrip] at hj'
    refine ⟨_, rfl, .inl ?_, ?_⟩
    · rw [e1, e2, e3, e4]
      simp only [toks_append, k1, k2, hi', hj', toks_strip, List.append_assoc]
    · intro hb
      have h1 := hb i (by simp)
      have h2 := hb j (by simp)
      simp only [net_append, h1, h2]; decide
  · rw [if_neg hc] at hp
    split at hp
    · cases hp
    cases hp
    obtain ⟨i, j, rfl, hi, hj⟩ := run2 hr
    have hi' := toks_item_of_child ho hi
    have hj' := toks_item_of_child ho hj
    refine ⟨_, rfl, .inr ⟨toks "GO".toList ++ toks "TO".toList ++ toks "(".toList ++ toks pre',
      toks post, ?_, ?_, ?_, ?_⟩, ?_⟩
    · rw [e1, e2, e3]
      simp only [List.append_assoc]
    · have hd : ')' ∉ toks "GO".toList ++ toks "TO".toList ++ toks "(".toList := by decide
      intro hm
      rcases List.mem_append.mp hm with h | h
      · exact hd h
      · exact rparen_not_mem_toks hnotin' h
    · intro hh
      exact hc (toks_head_comma post hh)
    · simp only [toks_append, k1, k2, k3, hi', hj', toks_strip, toks_lstrip, List.append_assoc]
    · intro hb
      have h1 := hb i (by simp)
      have h2 := hb j (by simp)
      simp only [net_append, h1, h2]; decide

/-! ## Deallocate_Stmt / Allocate_Stmt -/

theorem cutOpts_some {line objs opts : Str} (h : cutOpts line = some (some (objs, opts))) :
    ∃ a b, line = a ++ ',' :: b ∧ objs = rstrip a ∧ opts = lstrip b := by
  unfold cutOpts at h
  split at h
  · cases h
  rename_i pre post hc
  obtain ⟨h1, _⟩ := Combi.cutFirst_spec _ _ _ hc
  split at h
  · cases h
  rename_i a b hl
  obtain ⟨h2, _⟩ := Combi.cutLast_spec _ _ _ hl
  simp only [Option.some.injEq, Prod.mk.injEq] at h
  exact ⟨a, b ++ '=' :: post, by rw [h1, h2]; simp, h.1.symm, h.2.symm⟩

/-- the option tail is cut off at a comma: nothing is lost -/
theorem toks_cutOpts {m : Map} {X objs opts : Str} (hseg : Seg m X)
    (h : cutOpts X = some (some (objs, opts))) :
    toks (applyMap m X) = toks (applyMap m objs) ++ toks ",".toList ++ toks (applyMap m opts) := by
  obtain ⟨a, b, rfl, rfl, rfl⟩ := cutOpts_some h
  obtain ⟨sa, sb, e⟩ := Seg.sep isWord_comma hseg
  rw [e, consC]
  simp only [toks_append, toks_of_noBlank (Seg.rstrip sa).2, toks_of_noBlank (Seg.lstrip sb).2,
    List.append_assoc]

/-- `s.find("::")`: nothing is lost at the cut -/
theorem cutSub2_spec {a b : Char} : ∀ (s x y : Str), cutSub2 a b s = some (x, y) →
    s = x ++ a :: b :: y
  | [], x, y, h => by simp [cutSub2] at h
  | [_], x, y, h => by simp [cutSub2] at h
  | c :: d :: rest, x, y, h => by
    unfold cutSub2 at h
    split at h
    · rename_i hc
      simp only [Bool.and_eq_true, beq_iff_eq] at hc
      cases h
      simp [hc.1, hc.2]
    · split at h
      · rename_i p hp
        cases h
        have := cutSub2_spec (d :: rest) p.1 p.2 (by rw [hp])
        simp [this]
      · cases h

/-- **Deallocate_Stmt**: `DEALLOCATE(objects[, opts])` -/
theorem deallocate_tostr_match_tokens (o : Oracle Node) (ho : OracleTok o) (s : Str)
    (items : List (Item Node))
    (hm : ((planDeallocate s).bind (runSlots o)).map swap2 = .ok items)
    (hs : SrmOK (strip (inner (lstrip (s.drop 10))))) :
    ∃ t, tostrDeallocate o items = .ok t ∧ toks t = toks s ∧
      ((∀ i ∈ items, net (i.text o) = 0) → net t = 0) := by
  obtain ⟨items0, hm0, rfl⟩ := Res.map_eq_ok hm
  obtain ⟨slots, hp, hr⟩ := Res.bind_eq_ok hm0
  unfold planDeallocate at hp
  split at hp
  · cases hp
  rename_i hkw
  have hkw' : kwIs "DEALLOCATE".toList s = true := by simpa using hkw
  have e1 : toks s = toks "DEALLOCATE".toList ++ toks (lstrip (s.drop 10)) := by
    rw [toks_of_kwIs hkw', toks_lstrip]; rfl
  dsimp only at hp
  generalize lstrip (s.drop 10) = L at hp hs e1
  split at hp
  · cases hp
  rename_i hpar
  have hshape := paren_shapeC (s := L) (by simpa using hpar)
  have e2 := congrArg toks hshape
  rw [toks_paren] at e2
  obtain ⟨r, htok, hp⟩ := Res.bind_eq_ok hp
  have htk := tok_ok htok
  obtain ⟨hseg, hexp⟩ := seg_of_tokenise hs htk
  have e3 : toks (inner L) = toks (applyMap r.map r.text) := by
    rw [toks_of_noBlank hexp, toks_strip]
  have k1 : toks "DEALLOCATE(".toList = toks "DEALLOCATE".toList ++ toks "(".toList := by decide
  have k2 : toks ", ".toList = toks ",".toList := by decide
  split at hp
  · cases hp
    obtain ⟨i, j, rfl, hi, hj⟩ := run2 hr
    have := runSlot_none_ok hi; subst this
    have hj' := toks_item_of_child ho hj
    refine ⟨_, rfl, ?_, ?_⟩
    · rw [e1, e2, e3]
      simp only [toks_append, k1, hj', List.append_assoc]
    · intro hb
      have h2 := hb j (by simp [swap2])
      simp only [net_append, h2]; decide
  · cases hp
  · rename_i objs opts hco
    have e4 := toks_cutOpts hseg hco
    cases hp
    obtain ⟨i, j, rfl, hi, hj⟩ := run2 hr
    have hi' := toks_item_of_child ho hi
    have hj' := toks_item_of_child ho hj
    obtain ⟨n, rfl, _⟩ := runSlot_child_ok hi
    refine ⟨_, rfl, ?_, ?_⟩
    · rw [e1, e2, e3, e4]
      simp only [toks_append, k1, k2, hi', hj', List.append_assoc]
    · intro hb
      have h1 := hb (.node n) (by simp [swap2])
      have h2 := hb j (by simp [swap2])
      simp only [net_append, h1, h2]; decide

/-- **Allocate_Stmt**: `ALLOCATE([type-spec ::] allocations[, opts])` -/
theorem allocate_tostr_match_tokens (o : Oracle Node) (ho : OracleTok o) (s : Str)
    (items : List (Item Node))
    (hm : ((planAllocate s).bind (runSlots o)).map arrangeAllocate = .ok items)
    (hs : SrmOK (strip (inner (lstrip (s.drop 8))))) :
    ∃ t, tostrAllocate o items = .ok t ∧ toks t = toks s ∧
      ((∀ i ∈ items, net (i.text o) = 0) → net t = 0) := by
  obtain ⟨items0, hm0, rfl⟩ := Res.map_eq_ok hm
  obtain ⟨slots, hp, hr⟩ := Res.bind_eq_ok hm0
  unfold planAllocate at hp
  split at hp
  · cases hp
  rename_i hkw
  have hkw' : kwIs "ALLOCATE".toList s = true := by simpa using hkw
  have e1 : toks s = toks "ALLOCATE".toList ++ toks (lstrip (s.drop 8)) := by
    rw [toks_of_kwIs hkw', toks_lstrip]; rfl
  dsimp only at hp
  generalize lstrip (s.drop 8) = L at hp hs e1
  split at hp
  · cases hp
  rename_i hpar
  have hshape := paren_shapeC (s := L) (by simpa using hpar)
  have e2 := congrArg toks hshape
  rw [toks_paren] at e2
  obtain ⟨r, htok, hp⟩ := Res.bind_eq_ok hp
  have htk := tok_ok htok
  obtain ⟨hseg, hexp⟩ := seg_of_tokenise hs htk
  have e3 : toks (inner L) = toks (applyMap r.map r.text) := by
    rw [toks_of_noBlank hexp, toks_strip]
  have k1 : toks "ALLOCATE(".toList = toks "ALLOCATE".toList ++ toks "(".toList := by decide
  have k2 : toks ", ".toList = toks ",".toList := by decide
  cases hcs : cutSub2 ':' ':' r.text with
  | none =>
    simp only [hcs] at hp
    split at hp
    · cases hp
      obtain ⟨i, j, k, rfl, hi, hj, hk⟩ := run3 hr
      have := runSlot_none_ok hi; subst this
      have := runSlot_none_ok hj; subst this
      have hk' := toks_item_of_child ho hk
      obtain ⟨n, rfl, _⟩ := runSlot_child_ok hk
      refine ⟨_, rfl, ?_, ?_⟩
      · rw [e1, e2, e3]
        simp only [toks_append, k1, hk', List.append_assoc]
      · intro hb
        have h2 := hb (.node n) (by simp [arrangeAllocate])
        simp only [net_append, h2]; decide
    · cases hp
      obtain ⟨i, j, rfl, _, hj⟩ := run2 hr
      exact absurd hj (runSlot_fail o j)
    · rename_i objs opts hco
      have e4 := toks_cutOpts hseg hco
      cases hp
      obtain ⟨i, j, k, rfl, hi, hj, hk⟩ := run3 hr
      have := runSlot_none_ok hi; subst this
      have hj' := toks_item_of_child ho hj
      have hk' := toks_item_of_child ho hk
      obtain ⟨n, rfl, _⟩ := runSlot_child_ok hk
      obtain ⟨n2, rfl, _⟩ := runSlot_child_ok hj
      refine ⟨_, rfl, ?_, ?_⟩
      · rw [e1, e2, e3, e4]
        simp only [toks_append, k1, k2, hj', hk', List.append_assoc]
      · intro hb
        have h1 := hb (.node n) (by simp [arrangeAllocate])
        have h2 := hb (.node n2) (by simp [arrangeAllocate])
        simp only [net_append, h1, h2]; decide
  | some p =>
    obtain ⟨a, b⟩ := p
    simp only [hcs] at hp
    have htext := cutSub2_spec _ _ _ hcs
    rw [htext] at hseg e3
    obtain ⟨sa, scb, ea⟩ := Seg.sep isWord_colon hseg
    obtain ⟨sb, eb⟩ := Seg.drop1 isWord_colon scb
    obtain ⟨slb, elb⟩ := Seg.lstrip sb
    have hA : toks (applyMap r.map (rstrip a)) = toks (applyMap r.map a) :=
      toks_of_noBlank (Seg.rstrip sa).2
    have hB : toks (applyMap r.map (lstrip b)) = toks (applyMap r.map b) := toks_of_noBlank elb
    have k3 : toks "::".toList = toks ":".toList ++ toks ":".toList := by decide
    have e5 : toks (inner L) = toks (applyMap r.map a) ++ toks ":".toList ++ toks ":".toList ++
        toks (applyMap r.map (lstrip b)) := by
      rw [e3, ea, eb, hB, consK, consK]
      simp only [toks_append, List.append_assoc]
    split at hp
    · cases hp
      obtain ⟨i, j, k, rfl, hi, hj, hk⟩ := run3 hr
      have hi' := toks_item_of_child ho hi
      have := runSlot_none_ok hj; subst this
      have hk' := toks_item_of_child ho hk
      obtain ⟨n0, rfl, _⟩ := runSlot_child_ok hi
      obtain ⟨n, rfl, _⟩ := runSlot_child_ok hk
      refine ⟨_, rfl, ?_, ?_⟩
      · rw [e1, e2, e5]
        simp only [toks_append, k1, k3, hi', hk', hA, List.append_assoc]
      · intro hb
        have h0 := hb (.node n0) (by simp [arrangeAllocate])
        have h2 := hb (.node n) (by simp [arrangeAllocate])
        simp only [net_append, h0, h2]; decide
    · cases hp
      obtain ⟨i, j, rfl, _, hj⟩ := run2 hr
      exact absurd hj (runSlot_fail o j)
    · rename_i objs opts hco
      have e4 := toks_cutOpts slb hco
      cases hp
      obtain ⟨i, j, k, rfl, hi, hj, hk⟩ := run3 hr
      have hi' := toks_item_of_child ho hi
      have hj' := toks_item_of_child ho hj
      have hk' := toks_item_of_child ho hk
      obtain ⟨n0, rfl, _⟩ := runSlot_child_ok hi
      obtain ⟨n, rfl, _⟩ := runSlot_child_ok hk
      obtain ⟨n2, rfl, _⟩ := runSlot_child_ok hj
      refine ⟨_, rfl, ?_, ?_⟩
      · rw [e1, e2, e5, e4]
        simp only [toks_append, k1, k2, k3, hi', hj', hk', hA, List.append_assoc]
      · intro hb
        have h0 := hb (.node n0) (by simp [arrangeAllocate])
        have h1 := hb (.node n) (by simp [arrangeAllocate])
        have h2 := hb (.node n2) (by simp [arrangeAllocate])
        simp only [net_append, h0, h1, h2]; decide

/-! ## Arithmetic_If_Stmt -/

/-- **Arithmetic_If_Stmt**: `IF (expr) l1, l2, l3` (the expression ends at the LAST `)`) -/
theorem arithmeticIf_tostr_match_tokens (o : Oracle Node) (ho : OracleTok o) (s : Str)
    (items : List (Item Node))
    (hm : ((planArithmeticIf s).bind (runSlots o)).map arrangeArithmeticIf = .ok items) :
    ∃ t, tostrArithmeticIf o items = .ok t ∧ toks t = toks s ∧
      ((∀ i ∈ items, net (i.text o) = 0) → net t = 0) := by
  obtain ⟨items0, hm0, rfl⟩ := Res.map_eq_ok hm
  obtain ⟨slots, hp, hr⟩ := Res.bind_eq_ok hm0
  unfold planArithmeticIf at hp
  split at hp
  · cases hp
  rename_i hkw
  have hkw' : kwIs "IF".toList s = true := by simpa using hkw
  have e1 : toks s = toks "IF".toList ++ toks (lstrip (s.drop 2)) := by
    rw [toks_of_kwIs hkw', toks_lstrip]; rfl
  dsimp only at hp
  generalize lstrip (s.drop 2) = L at hp e1
  split at hp
  · cases hp
  rename_i hst
  obtain ⟨line1, rfl⟩ := startsC_cons (c := '(') (s := L) (by simpa using hst)
  split at hp
  · cases hp
  rename_i pre post hcut
  obtain ⟨htext, _⟩ := Combi.cutLast_spec _ _ _ hcut
  have hpre : ∃ pre', pre = '(' :: pre' := by
    cases pre with
    | nil => simp at htext
    | cons d pre' =>
      have : d = '(' := by
        have := congrArg List.head? htext; simpa using this.symm
      exact ⟨pre', by rw [this]⟩
  obtain ⟨pre', rfl⟩ := hpre
  have e3 : toks ('(' :: line1) = toks "(".toList ++ toks pre' ++ toks ")".toList ++ toks post := by
    rw [htext, List.cons_append, consL, consR]
    simp only [toks_append, List.append_assoc]
  simp only [List.drop_succ_cons, List.drop_zero] at hp
  split at hp
  · rename_i a b c hsp
    have hj := Combi.joinStr_splitGo [','] (by simp) (lstrip post) 0
    have hsp' : Combi.splitGo [','] 0 (lstrip post) = [a, b, c] := hsp
    rw [hsp', List.drop_zero] at hj
    have e4 : toks post = toks a ++ toks ",".toList ++ toks b ++ toks ",".toList ++ toks c := by
      rw [← toks_lstrip post, ← hj]
      simp only [Combi.joinStr, toks_append, List.append_assoc]
      rfl
    cases hp
    obtain ⟨i, j, k, l, rfl, hi, hj, hk, hl⟩ := run4 hr
    have hi' := toks_item_of_child ho hi
    have hj' := toks_item_of_child ho hj
    have hk' := toks_item_of_child ho hk
    have hl' := toks_item_of_child ho hl
    have k1 : toks "IF (".toList = toks "IF".toList ++ toks "(".toList := by decide
    have k2 : toks ") ".toList = toks ")".toList := by decide
    have k3 : toks ", ".toList = toks ",".toList := by decide
    refine ⟨_, rfl, ?_, ?_⟩
    · rw [e1, e3, e4]
      simp only [toks_append, k1, k2, k3, hi', hj', hk', hl', toks_strip, List.append_assoc]
    · intro hb
      have h1 := hb i (by simp [arrangeArithmeticIf])
      have h2 := hb j (by simp [arrangeArithmeticIf])
      have h3 := hb k (by simp [arrangeArithmeticIf])
      have h4 := hb l (by simp [arrangeArithmeticIf])
      simp only [net_append, h1, h2, h3, h4]; decide
  · cases hp

/-! ## Forall_Triplet_Spec -/

theorem map_eq_two {α β : Type} {f : α → β} {l : List α} {a b : β} (h : l.map f = [a, b]) :
    ∃ p q, l = [p, q] ∧ f p = a ∧ f q = b := by
  rcases l with _ | ⟨p, _ | ⟨q, _ | ⟨x, xs⟩⟩⟩ <;> simp at h
  exact ⟨p, q, rfl, h.1, h.2⟩

theorem map_eq_three {α β : Type} {f : α → β} {l : List α} {a b c : β} (h : l.map f = [a, b, c]) :
    ∃ p q u, l = [p, q, u] ∧ f p = a ∧ f q = b ∧ f u = c := by
  rcases l with _ | ⟨p, _ | ⟨q, _ | ⟨u, _ | ⟨x, xs⟩⟩⟩⟩ <;> simp at h
  exact ⟨p, q, u, rfl, h.1, h.2.1, h.2.2⟩

/-- **Forall_Triplet_Spec**: `name = lower : upper [: stride]` -/
theorem forallTriplet_tostr_match_tokens (o : Oracle Node) (ho : OracleTok o) (s : Str)
    (items : List (Item Node)) (hm : (planForallTriplet s).bind (runSlots o) = .ok items)
    (hs : SrmOK s) :
    ∃ t, tostrForallTriplet o items = .ok t ∧ toks t = toks s ∧
      ((∀ i ∈ items, net (i.text o) = 0) → net t = 0) := by
  obtain ⟨slots, hp, hr⟩ := Res.bind_eq_ok hm
  unfold planForallTriplet at hp
  obtain ⟨r, htok, hp⟩ := Res.bind_eq_ok hp
  have htk := tok_ok htok
  obtain ⟨hseg, hexp⟩ := seg_of_tokenise hs htk
  have hS : toks s = toks (applyMap r.map r.text) := (toks_of_noBlank hexp).symm
  split at hp
  · cases hp
  rename_i pre post hcut
  obtain ⟨htext, _⟩ := Combi.cutFirst_spec _ _ _ hcut
  rw [htext] at hseg hS
  obtain ⟨hsegPre, hsegPost, happ⟩ := Seg.sep isWord_eq hseg
  obtain ⟨hsegL, hL⟩ := Seg.lstrip hsegPost
  obtain ⟨hpieces, hjoin⟩ := Seg.splitC isWord_colon hsegL
  have hA : toks (applyMap r.map (rstrip pre)) = toks (applyMap r.map pre) :=
    toks_of_noBlank (Seg.rstrip hsegPre).2
  have hS' : toks s = toks (applyMap r.map pre) ++ toks "=".toList ++
      toks (Combi.joinStr [':'] ((splitC ':' (lstrip post)).map (applyMap r.map))) := by
    rw [hS, happ, consE, ← hjoin]
    simp only [toks_append, toks_of_noBlank hL, List.append_assoc]
  have k1 : toks " = ".toList = toks "=".toList := by decide
  have k2 : toks " : ".toList = toks ":".toList := by decide
  have k3 : toks [':'] = toks ":".toList := rfl
  dsimp only at hp
  split at hp
  · rename_i a b heq
    obtain ⟨p, q, hl, rfl, rfl⟩ := map_eq_two heq
    rw [hl] at hpieces hS'
    have hP : toks (applyMap r.map (strip p)) = toks (applyMap r.map p) :=
      toks_of_noBlank (Seg.strip (hpieces p (by simp))).2
    have hQ : toks (applyMap r.map (strip q)) = toks (applyMap r.map q) :=
      toks_of_noBlank (Seg.strip (hpieces q (by simp))).2
    cases hp
    obtain ⟨i, j, k, l, rfl, hi, hj, hk, hl⟩ := run4 hr
    have hi' := toks_item_of_child ho hi
    have hj' := toks_item_of_child ho hj
    have hk' := toks_item_of_child ho hk
    have := runSlot_none_ok hl; subst this
    refine ⟨_, rfl, ?_, ?_⟩
    · rw [hS']
      simp only [List.map_cons, List.map_nil, Combi.joinStr, toks_append, k1, k2, k3, hi', hj', hk',
        hA, hP, hQ, List.append_assoc]
    · intro hb
      have h1 := hb i (by simp)
      have h2 := hb j (by simp)
      have h3 := hb k (by simp)
      simp only [net_append, h1, h2, h3]; decide
  · rename_i a b c heq
    obtain ⟨p, q, u, hl, rfl, rfl, rfl⟩ := map_eq_three heq
    rw [hl] at hpieces hS'
    have hP : toks (applyMap r.map (strip p)) = toks (applyMap r.map p) :=
      toks_of_noBlank (Seg.strip (hpieces p (by simp))).2
    have hQ : toks (applyMap r.map (strip q)) = toks (applyMap r.map q) :=
      toks_of_noBlank (Seg.strip (hpieces q (by simp))).2
    have hU : toks (applyMap r.map (strip u)) = toks (applyMap r.map u) :=
      toks_of_noBlank (Seg.strip (hpieces u (by simp))).2
    cases hp
    obtain ⟨i, j, k, l, rfl, hi, hj, hk, hl⟩ := run4 hr
    have hi' := toks_item_of_child ho hi
    have hj' := toks_item_of_child ho hj
    have hk' := toks_item_of_child ho hk
    have hl' := toks_item_of_child ho hl
    obtain ⟨n, rfl, _⟩ := runSlot_child_ok hl
    refine ⟨_, rfl, ?_, ?_⟩
    · rw [hS']
      simp only [List.map_cons, List.map_nil, Combi.joinStr, toks_append, k1, k2, k3, hi', hj', hk',
        hl', hA, hP, hQ, hU, List.append_assoc]
    · intro hb
      have h1 := hb i (by simp)
      have h2 := hb j (by simp)
      have h3 := hb k (by simp)
      have h4 := hb (.node n) (by simp)
      simp only [net_append, h1, h2, h3, h4]; decide
  · cases hp
    obtain ⟨i, j, rfl, _, hj⟩ := run2 hr
    exact absurd hj (runSlot_fail o j)

/-! ## Forall_Header -/

/-- **Forall_Header**: `(triplets[, mask])`.  The tokeniser hypothesis is needed only for the mask
    form (reached when `Forall_Triplet_Spec_List` rejects the whole bracket content). -/
theorem forallHeader_tostr_match_tokens (o : Oracle Node) (ho : OracleTok o) (s : Str)
    (items : List (Item Node)) (hm : matchForallHeader o s = .ok items)
    (hs : o.call C.Forall_Triplet_Spec_List (strip (inner (strip s))) = .noMatch →
      SrmOK (strip (inner (strip s)))) :
    ∃ t, tostrForallHeader o items = .ok t ∧ toks t = toks s ∧
      ((∀ i ∈ items, net (i.text o) = 0) → net t = 0) := by
  unfold matchForallHeader at hm
  dsimp only at hm
  have e0 : toks s = toks (strip s) := (toks_strip s).symm
  generalize strip s = ss at hm hs e0
  split at hm
  · rename_i h l hh hl
    split at hm
    · cases hm
    rename_i hpar
    have hpar' : h = '(' ∧ l = ')' := by simpa using hpar
    obtain ⟨rfl, rfl⟩ := hpar'
    have hshape := paren_shape hh hl
    have e2 := congrArg toks hshape
    rw [toks_paren, ← toks_strip (inner ss)] at e2
    have k2 : toks ", ".toList = toks ",".toList := by decide
    split at hm
    · rename_i n hn
      cases hm
      have hn' := ho _ _ _ hn
      refine ⟨_, rfl, ?_, ?_⟩
      · rw [e0, e2]
        simp only [toks_append, Item.text, hn', List.append_assoc]
      · intro hb
        have h1 := hb (.node n) (by simp)
        simp only [net_append, h1]; decide
    · cases hm
    · rename_i hnm
      have hs' := hs hnm
      obtain ⟨slots, hp, hr⟩ := Res.bind_eq_ok hm
      unfold planForallHeaderMask at hp
      obtain ⟨r, htok, hp⟩ := Res.bind_eq_ok hp
      have htk := tok_ok htok
      obtain ⟨hseg, hexp⟩ := seg_of_tokenise hs' htk
      have e3 : toks (strip (inner ss)) = toks (applyMap r.map r.text) := (toks_of_noBlank hexp).symm
      split at hp
      · cases hp
      rename_i l rr hcut
      obtain ⟨htext, _⟩ := Combi.cutLast_spec _ _ _ hcut
      rw [htext] at hseg e3
      obtain ⟨hsegL, hsegR, happ⟩ := Seg.sep isWord_comma hseg
      have hA : toks (applyMap r.map (rstrip l)) = toks (applyMap r.map l) :=
        toks_of_noBlank (Seg.rstrip hsegL).2
      have hB : toks (applyMap r.map (lstrip rr)) = toks (applyMap r.map rr) :=
        toks_of_noBlank (Seg.lstrip hsegR).2
      cases hp
      obtain ⟨i, j, rfl, hi, hj⟩ := run2 hr
      have hi' := toks_item_of_child ho hi
      have hj' := toks_item_of_child ho hj
      obtain ⟨n, rfl, _⟩ := runSlot_child_ok hi
      obtain ⟨n2, rfl, _⟩ := runSlot_child_ok hj
      refine ⟨_, rfl, ?_, ?_⟩
      · rw [e0, e2, e3, happ, consC]
        simp only [toks_append, k2, hi', hj', hA, hB, List.append_assoc]
      · intro hb
        have h1 := hb (.node n) (by simp)
        have h2 := hb (.node n2) (by simp)
        simp only [net_append, h1, h2]; decide
  · cases hm

/-! ## the two token-changing forms do occur (echo oracle: every child accepts and prints its text) -/

def echoOracleM : Oracle Str :=
  { call := fun _ t => .ok t, str := id, head := fun _ => none, rhsStr := id,
    heads := fun _ => [], isDataEdit := fun _ => false }

/-- `CALL s()` is printed as `CALL s` -/
theorem call_empty_args_example :
    ((planCall "CALL s()".toList).bind (runSlots echoOracleM)).bind (tostrCall echoOracleM) =
      .ok "CALL s".toList := by decide +kernel

/-- `GO TO (1, 2) i` is printed as `GO TO (1, 2), i` -/
theorem computedGoto_comma_example :
    ((planComputedGoto "GO TO (1, 2) i".toList).bind (runSlots echoOracleM)).bind
      (tostrComputedGoto echoOracleM) = .ok "GO TO (1, 2), i".toList := by decide +kernel

end Fp.IoStmt

#print axioms Fp.IoStmt.where_tostr_match_tokens
#print axioms Fp.IoStmt.forall_tostr_match_tokens
#print axioms Fp.IoStmt.call_tostr_match_tokens
#print axioms Fp.IoStmt.goto_tostr_match_tokens
#print axioms Fp.IoStmt.computedGoto_tostr_match_tokens
#print axioms Fp.IoStmt.deallocate_tostr_match_tokens
#print axioms Fp.IoStmt.allocate_tostr_match_tokens
#print axioms Fp.IoStmt.arithmeticIf_tostr_match_tokens
#print axioms Fp.IoStmt.forallTriplet_tostr_match_tokens
#print axioms Fp.IoStmt.forallHeader_tostr_match_tokens
