import FparserModel.Proofs.Reader3FixDrain

/-!
# Reader3FixIgn — `ignore_comments` and spans for fixed-form statement lists (C11/C12)
-/
namespace Fp.Reader
open Fp

theorem srcComments_filter_nc (ls : List Str) (n : Nat) :
    (srcComments false n ls).filter (fun x => !x.isComment) = [] := by
  rw [List.filter_eq_nil_iff]
  intro x hx
  simp [srcComments_isComment false ls n x hx]

theorem stmtItems_ignore : ∀ (ss : List FStmt) (n : Nat),
    stmtItems true n ss = (stmtItems false n ss).filter (fun x => !x.isComment)
  | [], _ => rfl
  | s :: ss, n => by
    simp only [stmtItems, FStmt.comments, srcComments_true, List.nil_append, List.filter_cons,
      List.filter_append, srcComments_filter_nc, stmtItems_ignore ss]
    simp [FStmt.item, Item.isComment]

/-- with `ignore_comments` the same items without the Comment items -/
theorem fixedItems_ignore (lc : Nat) (pre : List Str) (sts : List FStmt) :
    fixedItems true lc pre sts = (fixedItems false lc pre sts).filter (fun x => !x.isComment) := by
  simp only [fixedItems, srcComments_true, List.nil_append, List.filter_append, srcComments_filter_nc,
    stmtItems_ignore]

theorem srcEnd_bounds : ∀ (ls : List Str) (e lc : Nat), e ≤ lc →
    e ≤ srcEnd e lc ls ∧ srcEnd e lc ls ≤ lc + ls.length
  | [], e, lc, h => ⟨Nat.le_refl _, by simpa [srcEnd] using h⟩
  | l :: ls, e, lc, h => by
    simp only [srcEnd, List.length_cons]
    split
    · have := srcEnd_bounds ls e (lc + 1) (by omega); omega
    · have := srcEnd_bounds ls (lc + 1) (lc + 1) (Nat.le_refl _); omega

/-- the span of a statement: from its initial line to its last continuation line, inside the
    lines of the statement -/
theorem FStmt.item_span (s : FStmt) (n : Nat) :
    (s.item n).first = n ∧ n ≤ (s.item n).last ∧ (s.item n).last ≤ n + s.follow.length := by
  have := srcEnd_bounds s.follow n n (Nat.le_refl _)
  exact ⟨rfl, this.1, this.2⟩

theorem stmtItems_first_ge (ic : Bool) : ∀ (ss : List FStmt) (n : Nat), ∀ x ∈ stmtItems ic n ss,
    x.isComment = false → n ≤ x.first
  | [], _, x, hx, _ => by cases hx
  | s :: ss, n, x, hx, hnc => by
    simp only [stmtItems, List.mem_cons, List.mem_append] at hx
    rcases hx with rfl | hx | hx
    · exact Nat.le_refl _
    · rw [srcComments_isComment ic _ _ x hx] at hnc; cases hnc
    · have := stmtItems_first_ge ic ss _ x hx hnc; omega

/-- the spans of the successive statements are strictly increasing and disjoint -/
theorem stmtItems_spans_ordered (ic : Bool) : ∀ (ss : List FStmt) (n : Nat),
    List.Pairwise (fun a b => a.last < b.first) ((stmtItems ic n ss).filter (fun x => !x.isComment))
  | [], _ => by simp [stmtItems]
  | s :: ss, n => by
    have hcm : (s.comments ic n).filter (fun x => !x.isComment) = [] := by
      rw [List.filter_eq_nil_iff]
      intro x hx
      simp [srcComments_isComment ic _ _ x hx]
    have hit : (!(s.item n).isComment) = true := rfl
    simp only [stmtItems, List.filter_cons, hit, if_true, List.filter_append, hcm, List.nil_append,
      List.pairwise_cons]
    refine ⟨fun b hb => ?_, stmtItems_spans_ordered ic ss _⟩
    simp only [List.mem_filter, Bool.not_eq_true'] at hb
    have h1 := stmtItems_first_ge ic ss _ b hb.1 hb.2
    have h2 := (s.item_span n).2.2
    omega

end Fp.Reader
