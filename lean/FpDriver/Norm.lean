import FparserModel.Wire
import FparserModel.Norm
import FparserModel.One

/-! driver commands of the Norm / One models

* `lexnorm  text`          → one line: the normalised token list of `text`
* `lexf     text`          → the raw token list (before `fmtx`/`norm`)
* `normeq   text1 text2`   → `eq` | `ne`, index, token1, token2
* `nest1    lines`         → `ok`, S-expression, shared-flag, eof-closed flag
                             | `err`, `nopattern`, line id, block class name
  `lines`: one classified line per row, `;`-separated:
  `id;label|-;O;kind;name;endlabel|-`  `id;label|-;C;kind|-;name`  `id;label|-;I`  `id;label|-;S;cat`
-/
namespace FpDriver.Norm
open Fp Fp.Wire Fp.Norm Fp.One

def ok (fs : List String) : String := "OK\t" ++ "\t".intercalate (fs.map enc)

def parseKind : String → Option Kind
  | "top" => some .top | "program" => some .program | "subroutine" => some .subroutine
  | "function" => some .function | "module" => some .module | "blockdata" => some .blockdata
  | "interface" => some .interface | "type" => some .type | "ifthen" => some .ifthen
  | "do" => some .do_ | "select" => some .select | "where" => some .where_
  | "forall" => some .forall_ | "associate" => some .associate | "enum" => some .enum
  | _ => none

def parseCat : String → Option Cat
  | "assign" => some .assign | "exec" => some .exec | "spec" => some .spec | "els" => some .els
  | "cas" => some .cas | "elsw" => some .elsw | "cont" => some .cont | "enumr" => some .enumr
  | _ => none

def parseOptNat (s : String) : Option Nat := if s == "-" then none else s.toNat?

def parseLine (row : String) : Option Line :=
  match row.splitOn ";" with
  | [id, lab, "O", k, name, el] =>
    (parseKind k).map fun k' =>
      { id := id.toNat!, label := parseOptNat lab, body := .opn k' name.toList (parseOptNat el) }
  | [id, lab, "C", k, name] =>
    if k == "-" then
      some { id := id.toNat!, label := parseOptNat lab, body := .cls none name.toList }
    else (parseKind k).map fun k' =>
      { id := id.toNat!, label := parseOptNat lab, body := .cls (some k') name.toList }
  | [id, lab, "I"] => some { id := id.toNat!, label := parseOptNat lab, body := .ifs }
  | [id, lab, "S", c] =>
    (parseCat c).map fun c' => { id := id.toNat!, label := parseOptNat lab, body := .smp c' }
  | _ => none

def parseLines (s : String) : Option (List Line) :=
  ((s.splitOn "\n").filter (· != "")).mapM parseLine

def showOptTok : Option Tok → String
  | some t => String.ofList (showTok t)
  | none => "<end>"

def handle (cmd : String) (args : List String) : Option String :=
  match cmd, args with
  | "lexnorm", [t] => some (ok [String.ofList (showToks (canon (decL t)))])
  | "lexf", [t] => some (ok [String.ofList (showToks (lexF (decL t)))])
  | "normeq", [a, b] =>
    match firstDiff (canon (decL a)) (canon (decL b)) 0 with
    | none => some (ok ["eq"])
    | some (i, x, y) => some (ok ["ne", toString i, showOptTok x, showOptTok y])
  | "nest1", [t] =>
    match parseLines (dec t) with
    | none => some ("ERR\t" ++ enc "nest1: bad line encoding")
    | some ls =>
      match nest1 ls with
      | .ok (f, s) =>
        some (ok ["ok", "(0" ++ showForest f ++ ")", toString s, toString (lastIsNil f)])
      | .error (.nopattern id k) => some (ok ["err", "nopattern", toString id, showKind k])
      | .error .fuel => some (ok ["err", "fuel", "0", ""])
  | _, _ => none

end FpDriver.Norm
