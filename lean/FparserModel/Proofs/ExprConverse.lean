import FparserModel.Proofs.ExprComplete
import FparserModel.Proofs.ExprGroups

/-! the hypothesis `noDottedRightOfDefinedBinary` is necessary (at the root): a defined binary
operator with a visible `.word.` to its right is never parsed as the standard requires -/
set_option linter.unusedSimpArgs false

namespace Fp.Expr

theorem splitLast_some_of_top (p : T → Bool) : ∀ (e : Ex), opsOK e →
    (∃ t ∈ topToks e, p t = true) → ∃ l t r, splitLast p (render e) 0 = some (l, t, r) := by
  intro e
  induction e with
  | atom i d g =>
    intro _ h
    obtain ⟨t, ht, hp⟩ := h
    simp [topToks] at ht
    subst ht
    exact ⟨[], T.atom i d g, [], by simp [render, splitLast, T.isParen, hp]⟩
  | paren e _ => intro _ h; obtain ⟨t, ht, _⟩ := h; simp [topToks] at ht
  | un o e ih =>
    intro hok h
    obtain ⟨t, ht, hp⟩ := h
    simp only [render]
    rw [splitLast, step_of_not_paren hok.1]
    cases hs : splitLast p (render e) 0 with
    | some x => obtain ⟨l, t', r⟩ := x; exact ⟨_, _, _, rfl⟩
    | none =>
      simp [topToks] at ht
      rcases ht with rfl | ht
      · exact ⟨[], t, render e, by simp [hok.1, hp]⟩
      · obtain ⟨l, t', r, h'⟩ := ih hok.2 ⟨t, ht, hp⟩
        rw [hs] at h'; simp at h'
  | bin o a b iha ihb =>
    intro hok h
    obtain ⟨t, ht, hp⟩ := h
    simp only [render]
    rw [splitLast_append, depthAfter_render a hok.2.1, splitLast, step_of_not_paren hok.1]
    cases hs : splitLast p (render b) 0 with
    | some x => obtain ⟨l, t', r⟩ := x; exact ⟨_, _, _, rfl⟩
    | none =>
      simp only
      by_cases hpo : p o = true
      · exact ⟨render a, o, render b, by simp [hok.1, hpo]⟩
      · simp [topToks] at ht
        rcases ht with ht | rfl | ht
        · obtain ⟨l, t', r, h'⟩ := iha hok.2.1 ⟨t, ht, hp⟩
          exact ⟨l, t', r ++ o :: render b, by simp [h', hpo]⟩
        · exact absurd hp hpo
        · obtain ⟨l, t', r, h'⟩ := ihb hok.2.2 ⟨t, ht, hp⟩
          rw [hs] at h'; simp at h'

theorem matchStep_binL_inv {rec : Lv → List T → Option Ex} {row : Row} {ts : List T} {a b : Lv}
    {e : Ex} (hk : row.kind = .binL) (hl : row.lhs = some a) (hr : row.rhs = some b)
    (h : matchStep rec row ts = some e) :
    ∃ l o r L R, splitLast row.cls.test ts 0 = some (l, o, r) ∧ rec b r = some R ∧
      rec a l = some L ∧ e = .bin o L R := by
  unfold matchStep at h
  rw [hk, hl, hr] at h
  simp only at h
  split at h
  · simp at h
  · split at h
    · rename_i l o r hs
      split at h
      · simp at h
      · split at h
        · simp at h
        · split at h
          · rename_i R hR
            split at h
            · rename_i L hL
              simp only [Option.some.injEq] at h
              exact ⟨l, o, r, L, R, hs, hR, hL, h.symm⟩
            · simp at h
          · simp at h
    · simp at h

/-- F-C03-1 is not an artefact of the hypothesis: whenever a defined binary operator has a
visible `.word.` in its right operand, `Expr` does NOT return the standard's tree. -/
theorem root_boundary_necessary (n : Nat) (g : Bool) (L R : Ex) (hL : opsOK L) (hR : opsOK R)
    (hdot : ∃ t ∈ topToks R, t.isDotted = true) :
    parse .expr (render (.bin (.op (.dot n) g) L R)) ≠ some (.bin (.op (.dot n) g) L R) := by
  intro h
  rw [parse_eq .expr] at h
  cases hm : matchStep parse (rowOf .expr) (render (.bin (.op (.dot n) g) L R)) with
  | some e' =>
    rw [hm] at h
    simp only [Option.some.injEq] at h
    subst h
    obtain ⟨l, o, r, L', R', hs, hpr, _, he⟩ :=
      matchStep_binL_inv (a := .expr) (b := .l5) rfl rfl rfl hm
    simp only [Ex.bin.injEq] at he
    obtain ⟨_, _, rfl⟩ := he
    have hsr := parseF_sound _ _ _ _ hpr
    have hdot' : ∃ t ∈ topToks R, OpCls.test .defined t = true := hdot
    obtain ⟨l', t', r', hs'⟩ := splitLast_some_of_top (OpCls.test .defined) R hR hdot'
    simp only [render, rowOf_expr] at hs
    rw [splitLast_append, depthAfter_render L hL, splitLast, step_of_not_paren rfl, hs'] at hs
    simp only [Option.some.injEq, Prod.mk.injEq] at hs
    have hlen := splitLast_len hs'
    rw [← hs.2.2] at hsr
    rw [hsr] at hlen
    exact absurd hlen.2 (Nat.lt_irrefl _)
  | none =>
    rw [hm] at h
    simp only [rowOf_expr] at h
    have hg := groups_root (parseF_groups _ _ _ _ h)
    obtain ⟨k', hrk, htest, hkind⟩ := hg
    cases k' <;> simp [Lv.rank] at hrk <;>
      simp [rowOf, levels, OpCls.test, T.isDotted, Op.isDotted] at htest hkind

end Fp.Expr
