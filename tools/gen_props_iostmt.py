import re, json, os, sys
ROOT = sys.argv[1] if len(sys.argv) > 1 else "/tmp/lw/iostmt"   # the lean project dir
TOOLS = os.path.dirname(os.path.abspath(__file__))
P = os.path.join(ROOT, "FparserModel", "Proofs")
FILES = ["IoStmtHollerith", "IoStmtLayoutWrite", "IoStmtLayoutIo", "IoStmtLayoutCtl", "IoStmtLayoutMisc", "IoStmtLayoutFmt",
         "IoStmtLayoutCombi", "IoStmtTotal", "IoStmtFixpoint", "IoStmtSeg", "IoStmtHead", "IoStmtSrm"]
src = {f: open(os.path.join(P, f + ".lean"), encoding="utf-8").read() for f in FILES}

def find_stmt(name):
    """-> (file, binders text, conclusion text)"""
    for f, text in src.items():
        m = re.search(r"^theorem %s\b" % re.escape(name), text, re.M)
        if not m:
            continue
        i = m.end()
        # scan to the top-level ':=' that ends the statement
        depth = 0
        j = i
        colon = None
        while j < len(text):
            ch = text[j]
            if ch == "'" and j + 2 < len(text) and text[j + 2] == "'":
                j += 3
                continue
            if ch == '"':
                j = text.index('"', j + 1) + 1
                continue
            if ch in "([{⟨":
                depth += 1
            elif ch in ")]}⟩":
                depth -= 1
            elif depth == 0 and text.startswith(":=", j):
                break
            elif depth == 0 and ch == ":" and colon is None and not text.startswith(":=", j):
                colon = j
            j += 1
        binders = text[i:colon].strip()
        concl = text[colon + 1:j].strip()
        return f, binders, concl
    raise KeyError(name)

def binder_names(binders):
    names = []
    depth = 0
    cur = ""
    groups = []
    binders = re.sub(r"'[()\[\]{}:]'", "'x'", binders)
    binders = re.sub(r'"[^"]*"', '"x"', binders)
    for ch in binders:
        if ch in "({[":
            if depth == 0:
                cur = ch
            else:
                cur += ch
            depth += 1
        elif ch in ")}]":
            depth -= 1
            cur += ch
            if depth == 0:
                groups.append(cur)
                cur = ""
        elif depth > 0:
            cur += ch
    for g in groups:
        if g[0] != "(":
            continue
        body = g[1:-1]
        # names before the first top-level ':'
        d = 0
        for k, ch in enumerate(body):
            if ch in "([{":
                d += 1
            elif ch in ")]}":
                d -= 1
            elif ch == ":" and d == 0:
                names += body[:k].split()
                break
    return names

# (proof name, props name, serves, strength, note)
T = []
def add(proof, props, serves, strength, note):
    T.append((proof, props, serves, strength, note))

SRM = "hypothesis SrmOK (decidable; = the two hypotheses of srm_roundtrip_partial: no F2PY in the text handed to string_replace_map, no exponent constant ending in _/F/F2/F2P) - outside it string_replace_map itself loses text (witnesses srm_roundtrip_fails_* of Props/SplitlineSrm2.lean)"
a = "C02 C08".split()
add("write_tostr_match_tokens", "Write_Stmt_tostr_match_tokens", a, "partial", "WRITE(ctl) [items]: prints, and toks(printed) = toks(input) - everything after the `)` of the control list is handed to Output_Item_List; " + SRM)
add("write_print_balanced", "Write_Stmt_print_balanced", ["C08"], "full", "the printed WRITE is balanced when the printed children are")
add("read_tostr_match_tokens", "Read_Stmt_tostr_match_tokens", a, "partial", "both forms READ(ctl) items / READ fmt, items; " + SRM)
add("print_tostr_match_tokens", "Print_Stmt_tostr_match_tokens", a, "partial", SRM)
add("inquire_tostr_match_tokens", "Inquire_Stmt_tostr_match_tokens", a, "partial", "form INQUIRE(spec-list) needs no hypothesis; form INQUIRE(IOLENGTH=v) items under SrmOK")
add("ioControlSpec_tostr_match_tokens", "Io_Control_Spec_tostr_match_tokens", a, "full", "keyword table with upper_lhs: KW = value")
add("connectSpec_tostr_match_tokens", "Connect_Spec_tostr_match_tokens", a, "full", "exact relation: with `=` tokens equal; without `=` the keyword UNIT= is INVENTED (toks t = toks \"UNIT=\" ++ toks s); witness connectSpec_invents_unit")
add("connectSpec_invents_unit", "Connect_Spec_invents_unit", ["C02"], "witness", "Connect_Spec(\"10\") prints UNIT = 10 (the standard allows the unnamed unit; fparser2 prints the name)")
add("inquireSpec_tostr_match_tokens", "Inquire_Spec_tostr_match_tokens", a, "full", "as Connect_Spec")
add("closeSpec_tostr_match_tokens", "Close_Spec_tostr_match_tokens", a, "full", "exact relation keyed on whether the keyword loop found a match; the UNIT default is taken when the loop runs out (not: when there is no `=`)")
add("allocOpt_tostr_match_tokens", "Alloc_Opt_tostr_match_tokens", a, "full", "both standards (MOLD in F2008)")
add("deallocOpt_tostr_match_tokens", "Dealloc_Opt_tostr_match_tokens", a, "full", "")
add("ioControlSpecList_tostr_match_tokens", "Io_Control_Spec_List_tostr_match_tokens", a, "partial", "all branches (unnamed unit, unnamed nml/fmt, early return without constraint checks, named fall-back); extra oracle law for the blanked Io_Control_Spec nodes; " + SRM)
add("ifThen_tostr_match_tokens", "If_Then_Stmt_tostr_match_tokens", a, "full", "")
add("elseIf_tostr_match_tokens", "Else_If_Stmt_tostr_match_tokens", a, "full", "rfind")
add("selectCase_tostr_match_tokens", "Select_Case_Stmt_tostr_match_tokens", a, "full", "")
add("caseSelector_tostr_match_tokens", "Case_Selector_tostr_match_tokens", a, "full", "")
add("labelDo_tostr_match_tokens", "Label_Do_Stmt_tostr_match_tokens", a, "full", "label = \\d{1,5} prefix; the rest goes to Loop_Control")
add("loopControl_tostr_match_tokens", "Loop_Control_tostr_match_tokens", a, "partial", "both standards, all forms incl. the optional leading comma; WHILE: the matching `)` must be the last character (cutFirst ')' = (pre, [])); " + SRM)
add("if_tostr_match_tokens", "If_Stmt_tostr_match_tokens", a, "partial", "tok on the whole statement, line[2:] of the tokenised text (srm_prefix_alpha); " + SRM)
add("case_tostr_match_tokens", "Case_Stmt_tostr_match_tokens", a, "partial", "both forms incl. CASE DEFAULT name (line[:7] un-expanded, double repmap); " + SRM)
add("where_tostr_match_tokens", "Where_Stmt_tostr_match_tokens", a, "partial", SRM)
add("forall_tostr_match_tokens", "Forall_Stmt_tostr_match_tokens", a, "partial", SRM)
add("goto_tostr_match_tokens", "Goto_Stmt_tostr_match_tokens", a, "full", "")
add("call_tostr_match_tokens", "Call_Stmt_tostr_match_tokens", a, "partial", "exact relation: tokens equal, or the input had an EMPTY argument list `CALL s()` printed as `CALL s` (toks s = toks t ++ \"()\"); " + SRM)
add("computedGoto_tostr_match_tokens", "Computed_Goto_Stmt_tostr_match_tokens", a, "full", "exact relation: the optional comma after the label list is always printed")
add("deallocate_tostr_match_tokens", "Deallocate_Stmt_tostr_match_tokens", a, "partial", SRM)
add("allocate_tostr_match_tokens", "Allocate_Stmt_tostr_match_tokens", a, "partial", "type-spec ::, option tail found with find('=') / rfind(','); " + SRM)
add("arithmeticIf_tostr_match_tokens", "Arithmetic_If_Stmt_tostr_match_tokens", a, "full", "rfind(')'), exactly three labels")
add("forallTriplet_tostr_match_tokens", "Forall_Triplet_Spec_tostr_match_tokens", a, "partial", SRM)
add("forallHeader_tostr_match_tokens", "Forall_Header_tostr_match_tokens", a, "partial", "SrmOK only needed for the mask form (after Forall_Triplet_Spec_List raised NoMatchError)")
add("formatItem_tostr_match_tokens", "Format_Item_tostr_match_tokens", a, "full", "both standards ([r] desc, [r](list), F2008 *(list)); oracle laws say which isinstance branch of tostr a child takes")
add("controlEditDesc_tostr_match_tokens", "Control_Edit_Desc_tostr_match_tokens", a, "full", "")
add("formatItemList_tostr_match_tokens", "Format_Item_List_tostr_match_tokens", a, "partial", "exact relation MODULO COMMAS (commas next to / and : are optional in the input and always printed: witness formatItemList_optional_comma_witness); hypothesis loopOK = SrmOK of the remaining text at every tokenising round")
add("word_tostr_match_tokens", "WORDClsBase_tostr_match_tokens", a, "full", "generic in keyword/class/require_cls")
add("bracket_tostr_match_tokens", "BracketBase_tostr_match_tokens", a, "full", "")
add("kvcls_tostr_match_tokens", "KeywordValueBase_cls_tostr_match_tokens", a, "full", "")
add("seq_tostr_match_tokens", "SequenceBase_tostr_match_tokens", a, "partial", SRM)
add("list_tostr_match_tokens", "List_tostr_match_tokens", a, "partial", "the generated *_List classes; " + SRM)
add("sep_tostr_match_tokens", "SeparatorBase_tostr_match_tokens", a, "partial", SRM)
add("callkw_tostr_match_tokens_partial", "CALLBase_tostr_match_tokens_partial", a, "partial", "FULL STATEMENT FALSE: CallBase tests string.rstrip()[-1]==')' on the ORIGINAL text but cuts at rfind(')') of the TOKENISED text; hypothesis CallEndOK (decidable: the tokenised text also ends in `)`); witnesses call_drops_text / call_invents_paren")
add("callcls_tostr_match_tokens_partial", "CallBase_tostr_match_tokens_partial", a, "partial", "as CALLBase; witness callcls_drops_text")
add("call_drops_text", "CALLBase_drops_text", ["C02", "C08"], "witness", "Open_Stmt(\"OPEN(1)'a) \") matches and prints OPEN(1): the text 'a) is dropped (replayed on the real class; the reader rejects the unterminated literal, so not reachable from a parse)")
add("call_invents_paren", "CALLBase_invents_paren", ["C02", "C08"], "witness", "model-level: OPEN('a) with an echo child prints OPEN('a)) (the real child rejects it)")
add("callcls_drops_text", "CallBase_drops_text", ["C02", "C08"], "witness", "Allocation(\"a(1)'b) \") prints a(1) (replayed on the real class)")
for p_, q_ in [("open2003_tostr_match_tokens_partial", "Open_Stmt_2003"), ("open2008_tostr_match_tokens_partial", "Open_Stmt_2008"),
               ("close_tostr_match_tokens_partial", "Close_Stmt"), ("nullify_tostr_match_tokens_partial", "Nullify_Stmt"),
               ("allocation_tostr_match_tokens_partial", "Allocation")]:
    add(p_, q_ + "_tostr_match_tokens_partial", a, "partial", "instance of CALLBase/CallBase (SrmOK, CallEndOK)")
for p_, q_ in [("formatStmt", "Format_Stmt"), ("formatSpecification", "Format_Specification"), ("nonlabelDo", "Nonlabel_Do_Stmt"),
               ("stop", "Stop_Stmt"), ("errorStop", "Error_Stop_Stmt"), ("forallConstruct", "Forall_Construct_Stmt"),
               ("actualArgSpec", "Actual_Arg_Spec")]:
    add(p_ + "_tostr_match_tokens", q_ + "_tostr_match_tokens", a, "full", "instance of the generic combinator")
add("caseValueRange_tostr_match_tokens", "Case_Value_Range_tostr_match_tokens", a, "partial", "instance of SeparatorBase; " + SRM)
for p_, q_ in [("actualArgSpecList", "Actual_Arg_Spec_List"), ("connectSpecList", "Connect_Spec_List"), ("closeSpecList", "Close_Spec_List"),
               ("inquireSpecList", "Inquire_Spec_List"), ("allocOptList", "Alloc_Opt_List"), ("deallocOptList", "Dealloc_Opt_List"),
               ("allocationList", "Allocation_List"), ("caseValueRangeList", "Case_Value_Range_List"),
               ("forallTripletSpecList", "Forall_Triplet_Spec_List")]:
    add(p_ + "_tostr_match_tokens", q_ + "_tostr_match_tokens", a, "partial", "instance of SequenceBase; " + SRM)
# (c)
c6 = ["C06"]
add("matchOf_total", "match_total", c6, "full", "EVERY modelled class, Format_Item_List included since the repair fa6d1cf of /repo, both standards: an exception escaping from `match` is the KeyError of string_replace_map's un-nesting loop (tokenise = none; impossible for SrmOK texts) or was raised inside a child call; all IndexError/TypeError/AssertionError/ValueError branches of the models are unreachable")
add("plan_match_total", "plan_match_total", c6, "full", "")
add("matchOf_formatItemList_total", "Format_Item_List_match_total", c6, "full", "after fa6d1cf: as every other class (before: additionally the ValueError of int(\"1 2\"))")
add("hollerith_count_int", "Format_Item_List_hollerith_count_int", c6, "full", "the int(match_str[:-1].replace(\" \", \"\")) of the repaired Hollerith branch never raises: for every Hollerith prefix ^[1-9][0-9 ]*[hH] the text is a non-empty digit string; the ValueError branch of the model is kept and proved unreachable")
add("formatItemList_hollerith_blank_no_raise", "Format_Item_List_blank_count_regression", c6, "witness", "REGRESSION for fa6d1cf: planFormatItemList on `1 2habc` and `1 0h` (ValueError before the repair) is now [fail] = return None; replayed: `10 format(1 2habc)` is a FortranSyntaxError, `format(1 2habcdefghijkl, i3)` parses")
add("formatItemList_hollerith_blank_no_escape", "Format_Item_List_blank_count_no_escape", c6, "witness", "whatever the children do: no match, no exception")
add("formatItemList_hollerith_blank_count", "Format_Item_List_blank_count_accepts", ["C06", "C02"], "witness", "`1 2habcdefghijkl, i3`: count 12 (blanks removed), the Hollerith item is the first 16 characters, then Format_Item i3")
add("formatItemList_raises_ok", "Format_Item_List_raises_nothing", c6, "partial", "under loopOK (tokeniser hypothesis at every round) the plan contains no raise slot at all")
add("formatItem_raises", "Format_Item_match_total", c6, "full", "both standards; the F2008 `len(strip_string) > 1` guard is what prevents the IndexError")
add("formatItemStar_index_safe", "Format_Item_2008_index_safe", c6, "full", "")
add("star_without_guard", "Format_Item_2008_guard_needed", c6, "witness", "counter-factual: without the guard `*` indexes an empty string")
for n_ in ["matchIoControlSpecList_total", "matchOpen_total", "matchForallHeader_total", "matchConnectSpec_total"]:
    add(n_, n_, c6, "full", "")
# (b)
fix = ["ifThen_match_tostr_fixpoint", "selectCase_match_tostr_fixpoint", "elseIf_match_tostr_fixpoint_1", "elseIf_match_tostr_fixpoint_2",
       "caseSelector_match_tostr_fixpoint_default", "caseSelector_match_tostr_fixpoint", "goto_match_tostr_fixpoint",
       "computedGoto_match_tostr_fixpoint", "inquire_match_tostr_fixpoint_1", "arithmeticIf_match_tostr_fixpoint",
       "labelDo_match_tostr_fixpoint_1", "labelDo_match_tostr_fixpoint_2", "controlEditDesc_match_tostr_fixpoint_bare",
       "controlEditDesc_match_tostr_fixpoint_slash", "controlEditDesc_match_tostr_fixpoint_P", "formatItem_match_tostr_fixpoint_data",
       "formatItem_match_tostr_fixpoint_rdata", "formatItem_match_tostr_fixpoint_paren", "formatItem_match_tostr_fixpoint_rparen",
       "concurrent_match_tostr_fixpoint", "concurrent_match_tostr_fixpoint_comma", "write_match_tostr_fixpoint_1",
       "write_match_tostr_fixpoint_2", "print_match_tostr_fixpoint_1", "print_match_tostr_fixpoint_2", "read_match_tostr_fixpoint_1",
       "read_match_tostr_fixpoint_2", "read_match_tostr_fixpoint_3", "where_match_tostr_fixpoint", "if_match_tostr_fixpoint",
       "call_match_tostr_fixpoint_1", "call_match_tostr_fixpoint_2", "deallocate_match_tostr_fixpoint_1",
       "deallocate_match_tostr_fixpoint_2", "loopControlWhile_match_tostr_fixpoint", "loopControlWhile_match_tostr_fixpoint_comma",
       "loopControlWhile08_match_tostr_fixpoint", "print_match_tostr_fixpoint_1_flat", "print_match_tostr_fixpoint_2_flat",
       "read_match_tostr_fixpoint_3_flat", "call_match_tostr_fixpoint_1_flat", "deallocate_match_tostr_fixpoint_1_flat",
       "deallocate_match_tostr_fixpoint_2_flat"]
NOTE_FIX = ("printing is re-matchable and stable: the printed text is matched by the same class with the SAME items; children re-match (OracleRT), "
            "their texts are tight / free of the delimiter the matcher searches for (each condition shown necessary by a kernel-checked counter-example in Proofs/IoStmtFixpoint.lean); "
            "tokeniser classes: hypothesis TokId (string_replace_map is the identity on the printed line - proved for Flat lines, kernel-checkable per line; bracketed/quoted lines are co-simulated)")
for n_ in fix:
    add(n_, n_, ["C01"], "partial", NOTE_FIX)
# toolkit
add("srm_toks_io", "srm_toks", ["C02"], "partial", "the tokenised text is a well-formed token text over the returned map whose expansion is the line modulo blanks inside brackets (exposes what srm_roundtrip_partial hides); hypotheses Free / FoundsEndOK")
add("srm_head", "srm_head", ["C02", "C08"], "full", "the first character of a line survives string_replace_map unless it is a digit or `.`")
add("srm_prefix_alpha", "srm_prefix_alpha", ["C02"], "full", "a leading run of letters survives string_replace_map")

# classes whose token theorem gives `toks t = toks s` + balance with the item-wise hypothesis -> rejects_unbalanced
UNB_ITEMS = ["read", "print", "inquire", "ioControlSpec", "allocOpt", "deallocOpt", "ioControlSpecList", "ifThen", "elseIf", "selectCase",
             "caseSelector", "labelDo", "loopControl", "if", "case", "where", "forall", "goto", "deallocate", "allocate", "arithmeticIf",
             "forallTriplet", "forallHeader", "formatItem", "controlEditDesc"]
UNB_NODES = ["word", "bracket", "kvcls", "seq", "sep", "list"]
CLSNAME = {"read": "Read_Stmt", "print": "Print_Stmt", "inquire": "Inquire_Stmt", "ioControlSpec": "Io_Control_Spec", "allocOpt": "Alloc_Opt",
           "deallocOpt": "Dealloc_Opt", "ioControlSpecList": "Io_Control_Spec_List", "ifThen": "If_Then_Stmt", "elseIf": "Else_If_Stmt",
           "selectCase": "Select_Case_Stmt", "caseSelector": "Case_Selector", "labelDo": "Label_Do_Stmt", "loopControl": "Loop_Control",
           "if": "If_Stmt", "case": "Case_Stmt", "where": "Where_Stmt", "forall": "Forall_Stmt", "goto": "Goto_Stmt",
           "deallocate": "Deallocate_Stmt", "allocate": "Allocate_Stmt", "arithmeticIf": "Arithmetic_If_Stmt",
           "forallTriplet": "Forall_Triplet_Spec", "forallHeader": "Forall_Header", "formatItem": "Format_Item",
           "controlEditDesc": "Control_Edit_Desc", "word": "WORDClsBase", "bracket": "BracketBase", "kvcls": "KeywordValueBase_cls",
           "seq": "SequenceBase", "sep": "SeparatorBase", "list": "List"}

out = []
out.append("import FparserModel.Proofs.IoStmtLayoutIo\nimport FparserModel.Proofs.IoStmtLayoutCtl\nimport FparserModel.Proofs.IoStmtLayoutMisc\n"
           "import FparserModel.Proofs.IoStmtLayoutFmt\nimport FparserModel.Proofs.IoStmtLayoutCombi\nimport FparserModel.Proofs.IoStmtTotal\n"
           "import FparserModel.Proofs.IoStmtFixpoint\n")
out.append(open(os.path.join(TOOLS, "props_header_iostmt.txt"), encoding="utf-8").read())
entries = []
axioms = []
for proof, props, serves, strength, note in T:
    f, binders, concl = find_stmt(proof)
    names = binder_names(binders)
    ns = "Fp.Splitline" if proof == "srm_toks_io" else "Fp.IoStmt"
    out.append("theorem %s %s :\n    %s :=\n  _root_.%s.%s %s\n" % (props, binders, concl, ns, proof, " ".join(names)))
    stmt = re.sub(r"\s+", " ", (binders + " : " + concl)).strip()
    entries.append({"name": "Fp.IoStmt.Props." + props, "file": "FparserModel/Props/IoStmt.lean", "statement": stmt,
                    "serves": serves, "strength": strength, "note": note})
    axioms.append(props)

# rejects_unbalanced corollaries
out.append("/-! ## `match_rejects_unbalanced` (C08): a statement that is matched and whose children print balanced texts IS\n"
           "    balanced - no parenthesis of the input is silently discarded.  Corollaries of the token theorems\n"
           "    (`net` is a function of `toks`). -/\n")
out.append("theorem balanced_of_tokens {t s : Str} (h : toks t = toks s) (hb : net t = 0) : net s = 0 := by\n"
           "  rw [← net_eq_of_toks h]; exact hb\n")
for k in UNB_ITEMS + UNB_NODES:
    proof = k + "_tostr_match_tokens"
    f, binders, concl = find_stmt(proof)
    names = binder_names(binders)
    hyp = "(hbal : ∀ i ∈ items, net (i.text o) = 0)" if k in UNB_ITEMS else "(hbal : ∀ n, Item.node n ∈ items → net (o.str n) = 0)"
    nm = CLSNAME[k] + "_rejects_unbalanced"
    out.append("theorem %s %s\n    %s : net s = 0 := by\n  obtain ⟨t, _, h1, h2⟩ := _root_.Fp.IoStmt.%s %s\n  exact balanced_of_tokens h1 (h2 hbal)\n"
               % (nm, binders, hyp, proof, " ".join(names)))
    stmt = re.sub(r"\s+", " ", binders + " " + hyp + " : net s = 0")
    entries.append({"name": "Fp.IoStmt.Props." + nm, "file": "FparserModel/Props/IoStmt.lean", "statement": stmt,
                    "serves": ["C08"], "strength": "partial" if "SrmOK" in binders or "hok" in binders else "full",
                    "note": "the matched statement is balanced whenever the children's printed texts are: text after the closing parenthesis of the header is never discarded (net counts `(` and `)` over the whole text, literals included)"})
    axioms.append(nm)
# Write: separate
out.append("theorem Write_Stmt_rejects_unbalanced (o : Oracle Node) (ho : OracleTok o) (s : Str)\n"
           "    (items : List (Item Node)) (hm : (planWrite s).bind (runSlots o) = .ok items)\n"
           "    (hs : SrmOK (lstrip (s.drop 5))) (hb : ∀ i ∈ items, net (i.text o) = 0) : net s = 0 := by\n"
           "  obtain ⟨t, ht, h1⟩ := _root_.Fp.IoStmt.write_tostr_match_tokens o ho s items hm hs\n"
           "  exact balanced_of_tokens h1 (_root_.Fp.IoStmt.write_print_balanced o items t ht hb)\n")
entries.append({"name": "Fp.IoStmt.Props.Write_Stmt_rejects_unbalanced", "file": "FparserModel/Props/IoStmt.lean",
                "statement": "(planWrite s).bind (runSlots o) = .ok items → SrmOK (lstrip (s.drop 5)) → (∀ i ∈ items, net (i.text o) = 0) → net s = 0",
                "serves": ["C08"], "strength": "partial", "note": "WRITE: the output list is everything after the `)` of the control list, even when it ends in `)`"})
axioms.append("Write_Stmt_rejects_unbalanced")
out.append(open(os.path.join(TOOLS, "props_footer_iostmt.txt"), encoding="utf-8").read())
out.append("end Fp.IoStmt.Props\n")
for n_ in axioms:
    out.append("#print axioms Fp.IoStmt.Props.%s" % n_)
open(os.path.join(ROOT, "FparserModel", "Props", "IoStmt.lean"), "w", encoding="utf-8").write("\n".join(out) + "\n")
json.dump(entries, open(os.path.join(ROOT, "theorems", "IoStmt.json"), "w", encoding="utf-8"), indent=1, ensure_ascii=False)
print(len(entries), "theorems")
