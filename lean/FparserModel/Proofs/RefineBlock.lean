import FparserModel.Proofs.BlockInv

/-!
# RefineBlock — block-model facts needed by the refinement

* `eofR_ok` : while an item matched by no class is ahead, no read ever hits the end of the source
  (`eof` keeps its value) — extends `guardR_ok`;
* `opsR_ok` : the block matcher touches the stream only through `Stream.get` / `Stream.put`
  (`SSteps`), for every table, oracle, class, fuel and outcome.
-/
namespace Fp.Block

theorem Stream.get_some_eof {s s1 : Stream} {x : Item} (h : s.get = (some x, s1)) : s1.eof = s.eof := by
  unfold Stream.get at h
  cases hb : s.buf with
  | cons y b =>
    simp [hb] at h
    rw [← h.2]
  | nil =>
    cases hr : s.rest with
    | nil => simp [hb, hr] at h
    | cons y r =>
      simp [hb, hr] at h
      rw [← h.2]

theorem Guarded.get_ne_none {g : Item} {post : List Item} {s s1 : Stream} (hg : Guarded g post s)
    (h : s.get = (none, s1)) : False := by
  obtain ⟨h0, _⟩ := Stream.get_none h
  obtain ⟨⟨pre, hp⟩, _⟩ := hg
  rw [h0] at hp
  simp at hp

/-- the guard relation extended with "`eof` keeps its value while `g` is ahead" -/
def EofR (g : Item) (post : List Item) (s s' : St) : Prop :=
  GuardR g post s s' ∧ (Guarded g post s.stream → s'.stream.eof = s.stream.eof)

theorem eofR_ok (env : Env) (g : Item) (post : List Item) (hu : Unmatched env g) :
    RelOK env (EofR g post) where
  refl := fun s => ⟨(guardR_ok env g post hu).refl s, fun _ => rfl⟩
  trans := fun h1 h2 => ⟨(guardR_ok env g post hu).trans h1.1 h2.1,
    fun hg => by rw [h2.2 (h1.1.1 hg), h1.2 hg]⟩
  put := fun s x => ⟨(guardR_ok env g post hu).put s x, fun _ => rfl⟩
  ev := fun s e he => ⟨(guardR_ok env g post hu).ev s e he, fun _ => rfl⟩
  leaf := fun c pc s => ⟨(guardR_ok env g post hu).leaf c pc s, fun hg => by
    unfold leafNew
    split
    · rename_i s1 heq; exact (hg.get_ne_none (St.get_eq heq)).elim
    · rename_i it s1 heq
      rw [← Stream.get_some_eof (St.get_eq heq)]
      split
      · rfl
      · simp only
        split
        · split <;> rfl
        · split <;> rfl⟩
  comment := fun s => ⟨(guardR_ok env g post hu).comment s, fun hg => by
    unfold commentNew
    split
    · rename_i s1 heq; exact (hg.get_ne_none (St.get_eq heq)).elim
    · rename_i it s1 heq
      rw [← Stream.get_some_eof (St.get_eq heq)]
      split <;> rfl⟩
  directive := fun s => ⟨(guardR_ok env g post hu).directive s, fun hg => by
    unfold directiveNew
    split
    · rename_i s1 heq; exact (hg.get_ne_none (St.get_eq heq)).elim
    · rename_i it s1 heq
      rw [← Stream.get_some_eof (St.get_eq heq)]
      split
      · split <;> rfl
      · rfl⟩
  peek := fun s => ⟨(guardR_ok env g post hu).peek s, fun hg => by
    split
    · rename_i it s1 heq
      rw [← Stream.get_some_eof (St.get_eq heq)]; rfl
    · rename_i s1 heq; exact (hg.get_ne_none (St.get_eq heq)).elim⟩
  remove := fun s n => ⟨(guardR_ok env g post hu).remove s n, fun _ => by rw [St.remove_stream]⟩
  exit := fun s n s' h => ⟨(guardR_ok env g post hu).exit s n s' h.1, fun hg => by
    rw [St.exit_stream]; exact h.2 hg⟩
  leak := fun s n s' g' _ h => h
  empty := fun s s' h => h
  rollback := fun s s' h => h
  enter_exit_ok := trivial

/-- with an item matched by no class ahead, no read of any class call hits the end of the source -/
theorem unmatched_keeps_eof (env : Env) (fuel : Nat) (c : Cls) (st : St) (g : Item)
    (pre post : List Item) (hu : Unmatched env g)
    (hb : st.stream.buf = []) (hr : st.stream.rest = pre ++ g :: post) :
    (run env fuel c st).2.stream.eof = st.stream.eof := by
  have h := run_rel (eofR_ok env g post hu) fuel c st
  refine h.2 ⟨⟨pre, by simp [Stream.all, hb, hr]⟩, ?_⟩
  rw [hr]; simp; omega

/-! ### the stream is only touched through `get` / `put` -/

/-- reachability by `Stream.get` / `Stream.put` steps -/
inductive SSteps : Stream → Stream → Prop where
  | refl (a : Stream) : SSteps a a
  | get {a b : Stream} : SSteps a b → SSteps a b.get.2
  | put {a b : Stream} (x : Item) : SSteps a b → SSteps a (b.put x)

theorem SSteps.trans {a b c : Stream} (h1 : SSteps a b) (h2 : SSteps b c) : SSteps a c := by
  induction h2 with
  | refl => exact h1
  | get _ ih => exact ih.get
  | put x _ ih => exact ih.put x

def OpsR (s s' : St) : Prop := SSteps s.stream s'.stream

theorem SSteps.of_get {s : St} {o : Option Item} {s1 : St} (h : s.get = (o, s1)) :
    SSteps s.stream s1.stream := by
  have := St.get_eq h
  have h2 : s1.stream = s.stream.get.2 := by rw [this]
  rw [h2]; exact (SSteps.refl _).get

theorem opsR_ok (env : Env) : RelOK env OpsR where
  refl := fun s => SSteps.refl _
  trans := fun h1 h2 => SSteps.trans h1 h2
  put := fun s x => (SSteps.refl _).put x
  ev := fun s e _ => SSteps.refl _
  leaf := fun c pc s => by
    unfold OpsR leafNew
    split
    · rename_i s1 heq; exact SSteps.of_get heq
    · rename_i it s1 heq
      have h1 := SSteps.of_get heq
      split
      · exact h1.put it
      · simp only
        split
        · split
          · exact h1
          · exact h1.put it
        · split
          · exact h1
          · exact h1.put it
          · exact h1.put it
          · exact h1
  comment := fun s => by
    unfold OpsR commentNew
    split
    · rename_i s1 heq; exact SSteps.of_get heq
    · rename_i it s1 heq
      have h1 := SSteps.of_get heq
      split
      · exact h1
      · exact h1.put it
  directive := fun s => by
    unfold OpsR directiveNew
    split
    · rename_i s1 heq; exact SSteps.of_get heq
    · rename_i it s1 heq
      have h1 := SSteps.of_get heq
      split
      · split
        · exact h1
        · exact h1.put it
      · exact h1.put it
  peek := fun s => by
    unfold OpsR
    split
    · rename_i it s1 heq; exact (SSteps.of_get heq).put it
    · rename_i s1 heq; exact SSteps.of_get heq
  remove := fun s n => by unfold OpsR; rw [St.remove_stream]; exact SSteps.refl _
  exit := fun s n s' h => by unfold OpsR at *; rw [St.exit_stream]; exact h
  leak := fun s n s' g' _ h => h
  empty := fun s s' h => h
  rollback := fun s s' h => h
  enter_exit_ok := trivial

end Fp.Block
