"""helpers shared by the property modules"""
import random
from fv import real, gen, layout, treeutil


def tier_n(tier, quick, thorough):
    return thorough if tier == "thorough" else quick


def seeds(base, n, salt):
    """n distinct case seeds derived from VERIF_SEED and a per-property salt"""
    r = random.Random((base + 1) * 1000003 + salt)
    return [r.randrange(1 << 30) for _ in range(n)]


def exc_line(exc):
    m = str(exc).split("\n")
    return m[1][3:] if len(m) > 1 and m[1].startswith(">>>") else (m[0] if m else "")


def stmt_kind(text):
    """coarse, stable classification of a statement line: its leading keyword(s)"""
    t = text.strip()
    # drop label and construct name
    parts = t.split()
    while parts and parts[0].isdigit():
        parts = parts[1:]
    if len(parts) > 1 and parts[0].endswith(":") and not parts[0].endswith("::"):
        parts = parts[1:]
    if not parts:
        return "<blank>"
    w = ""
    for c in parts[0]:
        if c.isalnum() or c == "_":
            w += c
        else:
            break
    w = w.upper()
    if not gen.is_kw(w):
        return "<assign-or-other>"
    return w


def outcome_signature(o):
    """stable signature of a non-tree outcome"""
    if o.kind == "syntax":
        return "syntax@" + stmt_kind(exc_line(o.exc))
    if o.kind == "exit":
        return "escape:%s@%s:%s" % real.exc_site(o.exc)
    return "escape:%s@%s:%s" % real.exc_site(o.exc)


def program_case(case):
    p = gen.gen_program(case["seed"], std=case.get("std", "f2008"), max_depth=case.get("depth", 3),
                        size=case.get("size", 1.0), nunits=case.get("nunits"), features=case.get("features"))
    return p


def feature_counts(p, prefix="gen:"):
    return {prefix + k: v for k, v in p.hits.items()}


def ddmin_lines(src, still_fails, max_tests=400):
    """delta-debugging on physical lines: smallest sub-sequence of lines for which
    still_fails(text) holds"""
    lines = src.split("\n")
    n = 2
    tests = 0
    while len(lines) >= 2 and tests < max_tests:
        chunk = max(1, len(lines) // n)
        reduced = False
        for i in range(0, len(lines), chunk):
            cand = lines[:i] + lines[i + chunk:]
            tests += 1
            if cand and still_fails("\n".join(cand) + "\n"):
                lines = cand
                n = max(n - 1, 2)
                reduced = True
                break
        if not reduced:
            if chunk == 1:
                break
            n = min(n * 2, len(lines))
    return "\n".join(lines) + ("\n" if lines and lines[-1] != "" else "")


def reduce_prog(p, fails, max_tests=600):
    """structure-preserving shrinking on the generator's IR: repeatedly delete a unit, a
    whole construct or a simple statement while fails(prog) holds.  Validity is preserved by
    construction except for dangling references, which fparser does not check."""
    from fv.gen import Blk, St
    tests = [0]

    def bodies(prog):
        out = [(prog.units, False)]

        def rec(b):
            # a non-block DO ends on its last body element: that one must stay
            out.append((b.body, b.cons == "nonblockdo"))
            for y in b.body:
                if isinstance(y, Blk):
                    rec(y)
        for u in prog.units:
            rec(u)
        return out

    changed = True
    while changed and tests[0] < max_tests:
        changed = False
        for body, keep_last in bodies(p):
            i = 0
            while i < len(body) and tests[0] < max_tests:
                x = body[i]
                if (isinstance(x, St) and x.role == "mid") or (keep_last and i == len(body) - 1):
                    i += 1
                    continue
                if body is p.units and len(body) == 1:
                    break
                del body[i]
                tests[0] += 1
                if fails(p):
                    changed = True
                else:
                    body.insert(i, x)
                    i += 1
    return p


def block_cosim(src, std="f2008", ignore_comments=True, process_directives=False, case=None):
    """Run the Lean block model M-D on the recorded leaf oracle of the real parse of `src`
    and compare (outcome, tree skeleton, query order, get/put sequence, scope operations).
    -> (findings, info)"""
    from fv import cosim_block as CB
    from fv.model import get_model
    try:
        r = CB.check_source(get_model(), src, std=std, ignore_comments=ignore_comments,
                            process_directives=process_directives, free_form=True, want_info=True)
    except Exception as e:  # noqa: BLE001
        return ([{"signature": "correspondence:Fp.Block", "no_input": True,
                  "what": "block co-simulation failed: %s: %s" % (type(e).__name__, str(e)[:200]),
                  "replay": {"case": case, "source": src, "std": std}}], {})
    dis, info = r
    out = []
    if dis is not None:
        out.append({"signature": "correspondence:Fp.Block", "no_input": True,
                    "what": "block model and real parser differ at %s: %s" % (dis.get("step"), str(dis.get("what"))[:300]),
                    "replay": {"case": case, "source": src, "std": std, "ignore_comments": ignore_comments}})
    return out, info


def sub_cosim(rep, tier, mod, model, nq, nt, extra=(), timeout=3000):
    """run a slice's co-simulation script (python -m fv.<mod> --seed S --n N) in a sub-process;
    a disagreement between the Lean model and the real code is a broken correspondence
    (reported with no-failing-input-found unless a direct stream of the check finds an input)"""
    import subprocess
    import time
    from fv import common
    n = nt if tier == "thorough" else nq
    t0 = time.time()
    try:
        r = subprocess.run([common.PY, "-m", "fv." + mod, "--seed", str(rep.seed), "--n", str(n)] + list(extra),
                           cwd=common.VERIF, capture_output=True, text=True, timeout=timeout)
        out, err, rc = r.stdout, r.stderr, r.returncode
    except subprocess.TimeoutExpired as e:
        out, err, rc = (e.stdout or b"").decode("utf8", "replace") if isinstance(e.stdout, bytes) else (e.stdout or ""), "timeout", 124
    if not (rc == 0 and "RESULT: FAIL" not in out):
        # the scripts carry per-sample alarms and coverage conditions that a loaded machine can
        # trip; a disagreement between model and code is deterministic in the seed: run once more
        try:
            r2 = subprocess.run([common.PY, "-m", "fv." + mod, "--seed", str(rep.seed), "--n", str(n)] + list(extra),
                                cwd=common.VERIF, capture_output=True, text=True, timeout=timeout)
            if r2.returncode == 0 and "RESULT: FAIL" not in r2.stdout:
                rep.notes.append("%s: first run failed (exit %s), the repeat with the same seed passed: load-dependent alarm, not a disagreement" % (mod, rc))
                out, err, rc = r2.stdout, r2.stderr, 0
        except subprocess.TimeoutExpired:
            pass
    tail = [l for l in out.splitlines() if l.strip()][-8:]
    rep.coverage[mod] = {"n": n, "seconds": round(time.time() - t0, 1), "tail": [l[:200] for l in tail]}
    rep.coverage["cosim_cases"] = int(rep.coverage.get("cosim_cases", 0)) + n
    ok = rc == 0 and ("RESULT: FAIL" not in out)
    if not ok:
        rep.violation("correspondence:" + model,
                      "model %s and the real code disagree (python -m fv.%s --seed %d --n %d, exit %d): %s" % (
                          model, mod, rep.seed, n, rc, " | ".join(tail[-4:])[:600]),
                      {"command": "cd /verif && %s -m fv.%s --seed %d --n %d %s" % (common.PY, mod, rep.seed, n, " ".join(extra)),
                       "stdout": out[-4000:], "stderr": err[-2000:]}, no_input=True)
    return ok


def reader_cosim(src, mode="free", ic=(True, False), omp=False, pd=False, dirs=(), fs=(), case=None):
    """Reader model M-B (Fp.Reader) against the real reader on `src`: the whole item stream
    (kind, text, label, construct name, span, comment/cpp/include items, linecount).
    mode: 'free' | 'fix'; dirs / fs: include path and files (relative names) for INCLUDE.
    -> findings"""
    from fv import cosim_reader as CR
    from fv.model import get_model
    m = get_model()
    out = []
    for ic_ in ic:
        c = {"src": src, "mode": mode, "ic": ic_, "omp": omp, "pd": pd, "dirs": list(dirs), "fs": [list(x) for x in fs],
             "script": None, "feat": set()}
        try:
            d = CR.check_case(m, c)
        except Exception as e:  # noqa: BLE001
            d = {"error": "%s: %s" % (type(e).__name__, str(e)[:200])}
        if d is not None:
            out.append({"signature": "correspondence:Fp.Reader", "no_input": True,
                        "what": "reader model and real reader differ: %s" % str({k: v for k, v in d.items() if k != "case"})[:400],
                        "replay": {"case": case, "source": src, "cosim": {k: v for k, v in c.items() if k != "feat"}}})
            break
    return out


_TREE_TIE = {}


def tree_cosim(src, std="f2008", copies=False, case=None, seed=0):
    """Tree model M-E (Fp.Tree: replay of the recorded `_set_parent` / `Base.__init__` events)
    against the real parse of `src`: parent map, walk(), get_root(), get_child() of every
    node; with copies=True also the model's verdict and canonical form for copy.deepcopy and
    a pickle round trip from the root and from one inner node.  -> (findings, info)"""
    import random as _r
    from fv import cosim_symtree as CS, extract_classes, real
    from fv.model import get_model
    m = get_model()
    out = []
    info = {}

    def bad(what, model="Fp.Tree"):
        out.append({"signature": "correspondence:" + model, "no_input": True, "what": what[:400],
                    "replay": {"case": case, "source": src, "std": std}})
    try:
        if "cids" not in _TREE_TIE:
            _TREE_TIE["cids"] = CS.class_ids()
            _TREE_TIE["table"] = extract_classes.load()
        try:
            tree, rec = CS.parse_recorded(src, std, _TREE_TIE["cids"])
        finally:
            real._current_std[0] = None     # parse_recorded re-created the parser classes
        pr, nn, script, root = CS.check_tree(m, "tree", tree, rec)
        info["nodes"] = nn
        for x in pr:
            bad("tree model and real tree differ: " + x)
        if copies and not pr:
            from fparser.two.utils import Base, walk
            ft = CS.facts_text_for(rec, _TREE_TIE["table"])
            nodes = [x for x in walk(tree) if isinstance(x, Base)]
            starts = [tree] + ([_r.Random(seed).choice(nodes)] if nodes else [])
            for st_obj in starts:
                for how in ("deepcopy", "pickle"):
                    pr2, v = CS.check_deepcopy(m, "copy", tree, rec, script, st_obj, ft, how)
                    info["copy:" + v] = info.get("copy:" + v, 0) + 1
                    for x in pr2:
                        bad("copy model and real %s differ: %s" % (how, x))
    except real.U.FortranSyntaxError:
        info["rejected"] = 1
    except Exception as e:  # noqa: BLE001
        bad("tree co-simulation failed: %s: %s" % (type(e).__name__, str(e)[:200]))
    return out, info


def token_cosim(lines, case=None, limit=40):
    """tokeniser model M-A (splitquote / splitparen / string_replace_map / re-application)
    against the real functions on the given statement lines -> findings"""
    from fv import cosim_token as CT
    from fv.model import get_model
    m = get_model()
    out = []
    for i, l in enumerate(lines[:limit]):
        for lower in (False, True):
            c = {"kind": "line", "line": l, "stop": None, "lower": lower}
            try:
                d = CT.check_case(m, c)
            except Exception as e:  # noqa: BLE001
                d = {"function": "harness", "error": "%s: %s" % (type(e).__name__, str(e)[:200])}
            if d is not None:
                out.append({"signature": "correspondence:Fp.Splitline", "no_input": True,
                            "what": "tokeniser model and real splitline differ (%s) on %r" % (d.get("function"), l[:200]),
                            "replay": {"case": case, "line": l, "lower": lower}})
                return out
    return out
