import FparserModel.Primary
import FparserModel.Proofs.IoStmtBasic
import FparserModel.Proofs.IoStmtLayoutCombi
import FparserModel.Proofs.CppStr
import FparserModel.Proofs.Norm
/-!
Property (b) of the `Primary` slice for the LEAF classes: parse → print → parse gives the same node
(`X_match_tostr_fixpoint`).

    Name, Binary_/Octal_/Hex_Constant, Int_Literal_Constant : unconditional
    Type_Name : `_partial` under `isIntrinsicTypeName (strip s) = false` + witness of the failure
                (DEFECT of the real code: `Type_Name(" integer")` is accepted, `Type_Name("integer")` is not)
-/
namespace Fp.Primary
open Fp Fp.Splitline
open Fp.IoStmt (Res Exc Slot Item Oracle Std runSlots runSlot echoO)
open Fp.IoStmt

variable {Node : Type}

/-! ## Name -/

/-- **Name** : `Name(str(Name(s)))` is the same node -/
theorem Name_match_tostr_fixpoint (o : Oracle Node) (s : Str) (items : List (Item Node)) (t : Str)
    (hm : (planName s).bind (runSlots o) = .ok items) (ht : tostrString o items = .ok t) :
    (planName t).bind (runSlots o) = .ok items := by
  obtain ⟨slots, h1, h2⟩ := Res.bind_eq_ok hm
  unfold planName at h1
  dsimp only at h1
  split at h1
  · rename_i hn
    cases h1
    have h3 : Res.ok [Item.str (strip s)] = Res.ok items := h2
    cases h3
    have h4 : Res.ok (strip s) = Res.ok t := ht
    cases h4
    unfold planName
    simp only [Fp.Cpp.strip_idem, hn, if_true]
    rfl
  · cases h1

example : (planName " ab_1 ".toList).bind (runSlots echoO) = .ok [.str "ab_1".toList] := by decide +kernel
example : tostrString echoO [.str "ab_1".toList] = .ok "ab_1".toList := rfl

/-! ## Type_Name -/

/- FULL statement (FALSE for the model and for the real code):
   `(planTypeName s).bind (runSlots o) = .ok items → tostrString o items = .ok t →
      (planTypeName t).bind (runSlots o) = .ok items`
   `abs_intrinsic_type_name` is tried on the UNSTRIPPED string, `Name.match` strips. -/

/-- **Type_Name** under the decidable hypothesis "the stripped text is not an intrinsic type name" -/
theorem Type_Name_match_tostr_fixpoint_partial (o : Oracle Node) (s : Str) (items : List (Item Node)) (t : Str)
    (hs : isIntrinsicTypeName (strip s) = false)
    (hm : (planTypeName s).bind (runSlots o) = .ok items) (ht : tostrString o items = .ok t) :
    (planTypeName t).bind (runSlots o) = .ok items := by
  unfold planTypeName at hm
  split at hm
  · cases hm
  · have hfix := Name_match_tostr_fixpoint o s items t hm ht
    -- t = strip s
    obtain ⟨slots, h1, h2⟩ := Res.bind_eq_ok hm
    unfold planName at h1
    dsimp only at h1
    split at h1
    · cases h1
      have h3 : Res.ok [Item.str (strip s)] = Res.ok items := h2
      cases h3
      have h4 : Res.ok (strip s) = Res.ok t := ht
      cases h4
      unfold planTypeName
      rw [hs]
      exact hfix
    · cases h1

/-- the hypothesis is necessary: `Type_Name(" integer")` gives `Type_Name('integer')`, whose text `integer` is
    refused by `Type_Name` (replayed on the real code: NoMatchError) -/
theorem Type_Name_fixpoint_fails :
    (planTypeName " integer".toList).bind (runSlots echoO) = .ok [.str "integer".toList] ∧
    tostrString echoO [.str "integer".toList] = .ok "integer".toList ∧
    (planTypeName "integer".toList).bind (runSlots echoO) = .noMatch := by decide +kernel

example : isIntrinsicTypeName (strip " my_t ".toList) = false ∧
    (planTypeName " my_t ".toList).bind (runSlots echoO) = .ok [.str "my_t".toList] := by decide +kernel

/-! ## Binary_/Octal_/Hex_Constant -/

theorem planBoz_match_tostr_fixpoint (o : Oracle Node) (l : Char) (d : Char → Bool) (s : Str)
    (items : List (Item Node)) (t : Str)
    (hm : (planBoz l d s).bind (runSlots o) = .ok items) (ht : tostrString o items = .ok t) :
    (planBoz l d t).bind (runSlots o) = .ok items := by
  obtain ⟨slots, h1, h2⟩ := Res.bind_eq_ok hm
  unfold planBoz at h1
  dsimp only at h1
  split at h1
  · rename_i hn
    cases h1
    have h3 : Res.ok [Item.str (upper s)] = Res.ok items := h2
    cases h3
    have h4 : Res.ok (upper s) = Res.ok t := ht
    cases h4
    unfold planBoz
    simp only [Fp.Norm.upper_idem, hn, if_true]
    rfl
  · cases h1

/-- **Binary_Constant** -/
theorem Binary_Constant_match_tostr_fixpoint (o : Oracle Node) (s : Str) (items : List (Item Node)) (t : Str)
    (hm : (planBinary s).bind (runSlots o) = .ok items) (ht : tostrString o items = .ok t) :
    (planBinary t).bind (runSlots o) = .ok items := planBoz_match_tostr_fixpoint o _ _ s items t hm ht

/-- **Octal_Constant** -/
theorem Octal_Constant_match_tostr_fixpoint (o : Oracle Node) (s : Str) (items : List (Item Node)) (t : Str)
    (hm : (planOctal s).bind (runSlots o) = .ok items) (ht : tostrString o items = .ok t) :
    (planOctal t).bind (runSlots o) = .ok items := planBoz_match_tostr_fixpoint o _ _ s items t hm ht

/-- **Hex_Constant** -/
theorem Hex_Constant_match_tostr_fixpoint (o : Oracle Node) (s : Str) (items : List (Item Node)) (t : Str)
    (hm : (planHex s).bind (runSlots o) = .ok items) (ht : tostrString o items = .ok t) :
    (planHex t).bind (runSlots o) = .ok items := planBoz_match_tostr_fixpoint o _ _ s items t hm ht

example : (planBinary "b'01'".toList).bind (runSlots echoO) = .ok [.str "B'01'".toList] := by decide +kernel
example : (planOctal "o \"17\"".toList).bind (runSlots echoO) = .ok [.str "O \"17\"".toList] := by decide +kernel
example : (planHex "z'1f'".toList).bind (runSlots echoO) = .ok [.str "Z'1F'".toList] := by decide +kernel

/-! ## Int_Literal_Constant -/

theorem isDigit_range {c : Char} (h : isDigit c = true) : 48 ≤ c.toNat ∧ c.toNat ≤ 57 := by
  simp only [isDigit, Char.isDigit, Bool.and_eq_true, decide_eq_true_eq] at h
  exact ⟨UInt32.le_iff_toNat_le.1 h.1, UInt32.le_iff_toNat_le.1 h.2⟩

theorem upperC_digit {c : Char} (h : isDigit c = true) : upperC c = c := by
  unfold upperC
  rw [if_neg]
  rintro ⟨h1, _⟩
  have h1' : 97 ≤ c.toNat := h1
  have := (isDigit_range h).2
  omega

theorem upper_digits {v : Str} (h : ∀ c ∈ v, isDigit c = true) : upper v = v := by
  induction v with
  | nil => rfl
  | cons c cs ih =>
    simp only [upper, List.map_cons] at ih ⊢
    rw [upperC_digit (h c (by simp)), ih (fun x hx => h x (List.mem_cons_of_mem _ hx))]

theorem digit_ne_blank {c : Char} (h : isDigit c = true) : (c != ' ') = true := by
  have := (isDigit_range h).1
  simp only [bne_iff_ne, ne_eq]
  rintro rfl
  revert this; decide

theorem isAlpha_range {c : Char} (h : isAlpha c = true) : 65 ≤ c.toNat := by
  simp only [isAlpha, Char.isAlpha, Char.isUpper, Char.isLower, Bool.or_eq_true, Bool.and_eq_true,
    decide_eq_true_eq] at h
  rcases h with h | h
  · exact UInt32.le_iff_toNat_le.1 h.1
  · have := UInt32.le_iff_toNat_le.1 h.1
    have h2 : ('a' : Char).val.toNat = 97 := rfl
    change 65 ≤ c.val.toNat
    omega

theorem isSpace_lt {c : Char} (h : isSpace c = true) : c.toNat < 48 := by
  rcases isSpace_cases h with e | e | e | e | e | e | e | e | e | e <;> (subst e; decide)

theorem nameChar_ne_blank {c : Char} (h : isNameChar c = true) : (c != ' ') = true := by
  simp only [bne_iff_ne, ne_eq]
  rintro rfl
  revert h; decide

theorem mem_takeWhile_pos (p : Char → Bool) : ∀ (l : Str) (d : Char), d ∈ l.takeWhile p → p d = true
  | [], _, h => by cases h
  | c :: cs, d, h => by
    rw [List.takeWhile_cons] at h
    split at h
    · rcases List.mem_cons.1 h with rfl | h
      · assumption
      · exact mem_takeWhile_pos p cs d h
    · cases h

theorem takePre_append_right (v r : Str) : takePre (v ++ r) r = v := by
  unfold takePre
  simp

theorem takePre_dropWhile (p : Char → Bool) (x : Str) : takePre x (x.dropWhile p) = x.takeWhile p := by
  conv => lhs; arg 1; rw [← List.takeWhile_append_dropWhile (p := p) (l := x)]
  exact takePre_append_right _ _

/-- what `abs_int_literal_constant_named` returns -/
theorem scanInt_inv {x v : Str} {k : Option Str} (h : scanInt x = some (v, k)) :
    v ≠ [] ∧ (∀ c ∈ v, isDigit c = true) ∧ ∀ k', k = some k' → isKindParam k' = true := by
  unfold scanInt at h
  split at h
  · cases h
  · rename_i r hr
    unfold digits1 at hr
    split at hr
    · rename_i c cs
      split at hr
      · rename_i hc
        cases hr
        obtain ⟨kk, hk, hkk⟩ := Option.map_eq_some_iff.1 h
        cases hkk
        rw [takePre_dropWhile]
        refine ⟨?_, ?_, ?_⟩
        · simp [List.takeWhile_cons, hc]
        · intro d hd
          exact mem_takeWhile_pos _ _ d hd
        · intro k' hk'
          subst hk'
          unfold kindTail at hk
          split at hk
          · cases hk
          · dsimp only at hk
            split at hk
            · rename_i hkp
              cases hk; exact hkp
            · cases hk
          · cases hk
      · cases hr
    · cases hr

theorem isKindParam_head {k : Str} (h : isKindParam k = true) :
    skipWs k = k ∧ (∀ c ∈ k, (c != ' ') = true) ∧ k ≠ [] := by
  cases k with
  | nil => cases h
  | cons c cs =>
    simp only [isKindParam] at h
    split at h
    · rename_i hc
      have hns : isSpace c = false := by
        cases hs : isSpace c with
        | false => rfl
        | true => have := isSpace_lt hs; have := (isDigit_range hc).1; omega
      refine ⟨by simp [skipWs, List.dropWhile_cons, hns], ?_, by simp⟩
      intro d hd
      rcases List.mem_cons.1 hd with rfl | hd
      · exact digit_ne_blank hc
      · exact digit_ne_blank (List.all_eq_true.1 h d hd)
    · simp only [Bool.and_eq_true] at h
      have hns : isSpace c = false := by
        cases hs : isSpace c with
        | false => rfl
        | true => have := isSpace_lt hs; have := isAlpha_range h.1; omega
      refine ⟨by simp [skipWs, List.dropWhile_cons, hns], ?_, by simp⟩
      intro d hd
      rcases List.mem_cons.1 hd with rfl | hd
      · simp only [bne_iff_ne, ne_eq]
        rintro rfl
        have := isAlpha_range h.1
        revert this; decide
      · exact nameChar_ne_blank (List.all_eq_true.1 h.2 d hd)

theorem noSpaces_of {x : Str} (h : ∀ c ∈ x, (c != ' ') = true) : Combi.noSpaces x = x := by
  unfold Combi.noSpaces
  exact List.filter_eq_self.2 h

theorem digits1_append {v rest : Str} (hv : v ≠ []) (hd : ∀ c ∈ v, isDigit c = true)
    (hr : rest.dropWhile isDigit = rest) : digits1 (v ++ rest) = some rest := by
  cases v with
  | nil => exact absurd rfl hv
  | cons c cs =>
    unfold digits1
    simp only [List.cons_append]
    rw [if_pos (hd c (by simp))]
    have : (c :: (cs ++ rest)).dropWhile isDigit = rest := by
      have := List.dropWhile_append_of_pos (p := isDigit) (l₁ := c :: cs) (l₂ := rest) hd
      simpa [hr] using this
    rw [this]

/-- the scanner on a printed literal without kind -/
theorem scanInt_digits {v : Str} (hv : v ≠ []) (hd : ∀ c ∈ v, isDigit c = true) :
    scanInt v = some (v, none) := by
  have h1 : digits1 v = some [] := by
    have := digits1_append (rest := []) hv hd rfl
    simpa using this
  unfold scanInt
  rw [h1]
  have : takePre v [] = v := by simpa using takePre_append_right v []
  simp [kindTail, skipWs, this]

/-- the scanner on a printed literal with kind -/
theorem scanInt_digits_kind {v k : Str} (hv : v ≠ []) (hd : ∀ c ∈ v, isDigit c = true)
    (hk : isKindParam k = true) : scanInt (v ++ '_' :: k) = some (v, some k) := by
  have h1 : digits1 (v ++ '_' :: k) = some ('_' :: k) :=
    digits1_append hv hd (by simp [List.dropWhile_cons, isDigit])
  unfold scanInt
  rw [h1]
  have h2 : skipWs ('_' :: k) = '_' :: k := by simp [skipWs, List.dropWhile_cons, isSpace]
  simp only [kindTail, h2, (isKindParam_head hk).1, hk, if_true, takePre_append_right, Option.map_some]

/-- **Int_Literal_Constant** : parse → print → parse gives the same node (unconditional) -/
theorem Int_Literal_Constant_match_tostr_fixpoint (o : Oracle Node) (s : Str) (items : List (Item Node)) (t : Str)
    (hm : (planIntLit s).bind (runSlots o) = .ok items) (ht : tostrNumber o items = .ok t) :
    (planIntLit t).bind (runSlots o) = .ok items := by
  obtain ⟨slots, h1, h2⟩ := Res.bind_eq_ok hm
  unfold planIntLit planNumber at h1
  split at h1
  · cases h1
  · rename_i v hsc
    obtain ⟨hv, hd, _⟩ := scanInt_inv hsc
    cases h1
    have h3 : Res.ok [Item.str (upper v), Item.none] = Res.ok items := h2
    cases h3
    have h4 : Res.ok (upper v) = Res.ok t := ht
    cases h4
    rw [upper_digits hd]
    unfold planIntLit planNumber
    rw [noSpaces_of (fun c hc => digit_ne_blank (hd c hc)), scanInt_digits hv hd]
    dsimp only
    rw [upper_digits hd]
    rfl
  · rename_i v k hsc
    obtain ⟨hv, hd, hk⟩ := scanInt_inv hsc
    have hk := hk k rfl
    cases h1
    have h3 : Res.ok [Item.str (upper v), Item.str k] = Res.ok items := h2
    cases h3
    have h4 : Res.ok (upper v ++ '_' :: k) = Res.ok t := ht
    cases h4
    rw [upper_digits hd]
    unfold planIntLit planNumber
    have hns : Combi.noSpaces (v ++ '_' :: k) = v ++ '_' :: k := by
      apply noSpaces_of
      intro c hc
      rcases List.mem_append.1 hc with hc | hc
      · exact digit_ne_blank (hd c hc)
      · rcases List.mem_cons.1 hc with rfl | hc
        · decide
        · exact (isKindParam_head hk).2.1 c hc
    rw [hns, scanInt_digits_kind hv hd hk]
    dsimp only
    rw [upper_digits hd]
    rfl

example : (planIntLit " 1 2 _ k1".toList).bind (runSlots echoO) = .ok [.str "12".toList, .str "k1".toList] := by
  decide +kernel
example : tostrNumber echoO [.str "12".toList, .str "k1".toList] = .ok "12_k1".toList := rfl
example : (planIntLit "12_k1".toList).bind (runSlots echoO) = .ok [.str "12".toList, .str "k1".toList] := by
  decide +kernel

/-! ## Alt_Return_Spec (one child) -/

/-- **Alt_Return_Spec** with an oracle whose `Label` re-matches its own printed text (left-stripped, as the `match`
    hands it over) -/
theorem Alt_Return_Spec_match_tostr_fixpoint (o : Oracle Node) (s : Str) (items : List (Item Node)) (t : Str)
    (hm : (planAltReturnSpec s).bind (runSlots o) = .ok items) (ht : tostrAltReturnSpec o items = .ok t)
    (hrt : ∀ n, Item.node n ∈ items → lstrip (o.str n) ≠ [] ∧ o.call C.Label (lstrip (o.str n)) = .ok n) :
    (planAltReturnSpec t).bind (runSlots o) = .ok items := by
  obtain ⟨slots, h1, h2⟩ := Res.bind_eq_ok hm
  unfold planAltReturnSpec at h1
  split at h1
  · cases h1
  dsimp only at h1
  split at h1
  · cases h1
  cases h1
  obtain ⟨i, is, rfl, hi, his⟩ := runSlots_cons_ok h2
  obtain rfl := runSlots_nil_ok his
  obtain ⟨n, rfl, hn⟩ := runSlot_child_ok hi
  have h4 : Res.ok ('*' :: o.str n) = Res.ok t := ht
  cases h4
  obtain ⟨hne, hcall⟩ := hrt n (by simp)
  have hne' : (lstrip (o.str n)).isEmpty = false := by
    cases hl : lstrip (o.str n) with
    | nil => exact absurd hl hne
    | cons a b => rfl
  unfold planAltReturnSpec
  simp only [IoStmt.startsC, List.head?_cons, beq_self_eq_true, Bool.not_true, Bool.false_eq_true, if_false,
    List.drop_succ_cons, List.drop_zero, hne', Res.bind_ok]
  simp only [runSlots, runSlot, hcall, Res.map_ok]

example : (planAltReturnSpec "* 10".toList).bind (runSlots echoO) = .ok [.node "10".toList] := by decide +kernel
example : ∀ n, Item.node n ∈ [(Item.node "10".toList : Item Str)] →
    lstrip (echoO.str n) ≠ [] ∧ echoO.call C.Label (lstrip (echoO.str n)) = .ok n := by
  intro n hn
  have : n = "10".toList := by simpa using hn
  subst this
  decide +kernel

#print axioms Alt_Return_Spec_match_tostr_fixpoint
#print axioms Name_match_tostr_fixpoint
#print axioms Type_Name_match_tostr_fixpoint_partial
#print axioms Type_Name_fixpoint_fails
#print axioms Binary_Constant_match_tostr_fixpoint
#print axioms Octal_Constant_match_tostr_fixpoint
#print axioms Hex_Constant_match_tostr_fixpoint
#print axioms Int_Literal_Constant_match_tostr_fixpoint

end Fp.Primary
