import FparserModel.Proofs.HeaderEnd
import FparserModel.Proofs.HeaderIface
import FparserModel.Proofs.HeaderLabel
import FparserModel.Proofs.HeaderLists
import FparserModel.Proofs.HeaderNames
import FparserModel.Proofs.HeaderProc
import FparserModel.Proofs.HeaderTotal
import FparserModel.Proofs.HeaderType
import FparserModel.Proofs.HeaderUnit


/-!
# Header — opening / END statements of program units, derived types, interfaces and constructs:
# C01, C02, C06, C08 at the class level and the NAME / LABEL discipline of `BlockBase.match`

The model (`FparserModel/Header.lean`) mirrors, branch for branch, `EndStmtBase.match/tostr` and the 18 END classes, `StmtBase.tofortran`,
Program/Module/Submodule/Block_Data/Subroutine/Function/Entry statements, Prefix(_Spec), Suffix, Language_Binding_Spec, Interface_Stmt,
Generic_Spec, Dtio_Generic_Spec, Extended_Intrinsic_Op, Procedure_Stmt (2003/2008), Derived_Type_Stmt, Type_Attr_Spec, the one-keyword statements,
Specific/Generic/Final_Binding, Binding_Attr, Proc_Component_Def_Stmt, Procedure_Declaration_Stmt, Proc_Decl (2003/2008), Proc_Attr_Spec, Import_Stmt,
Enum_Def_Stmt, Enumerator_Def_Stmt, Associate_Stmt, Association, Select_Type_Stmt, Type_Guard_Stmt, Block_Stmt, Critical_Stmt, Else_Stmt, Elsewhere_Stmt,
Masked_Elsewhere_Stmt (names, name lists, expressions, type specs are OPAQUE children: an oracle), and the start/end name and label comparison of
`BlockBase.match` for every kind of block (`namesAgree (cfgOf k)`; the per-kind flags are pinned to the LIVE call sites by
`Generated/HeaderTables.lean`).  All theorems hold for EVERY string, every oracle, every opener / END.

* `X_tostr_match_tokens` (C02, C08): `match` accepted ⟹ `tostr` does not raise and `toks (printed) = toks (input)` (`toks` deletes white space and
  folds case), or the EXACT relation where the printer changes the token text (`ENDDO`→`END DO`, `type t`→`TYPE :: t`, `subroutine s()`→`SUBROUTINE s`,
  `entry e`→`ENTRY e()`, `bind(c) result(r)`→`RESULT(r) BIND(C)`, F2003 `procedure a`→`MODULE PROCEDURE a`); `_partial` + kernel witness where the
  code loses text (`generic :: a =>xb`).
* `X_match_tostr_fixpoint` (C01), `match_total` (C06).
* `end_name_discipline` (C08, C06): one statement for every kind of block, with the per-kind deviations as kernel-evaluated tables and witnesses.
* `label_name_printed` (C01, C02): label × construct-name printing and re-reading.

The theorems are proved in `Proofs/Header*.lean`; this file states them (same statements) and gives the non-vacuity examples.
-/
namespace Fp.Header.Props
open Fp Fp.Splitline Fp.IoStmt Fp.Header
open Fp.Combi (noSpaces noBlank)
set_option linter.unusedVariables false

variable {Node : Type}


theorem end_name_discipline_spec (k : BKind) (o : Opener) (e : Ender)
    (hn : NameWF o.name) (hs : NameWF o.startName) (he : NameWF e.name)
    (hk : EnderFor k e) (hl : k = .doLabel → o.label = e.label)
    (hp : k = .mainProgram → o.name = o.startName) :
    namesAgree (cfgOf k) o e = disciplineSpec k o e :=
  _root_.Fp.Header.namesAgree_spec k o e hn hs he hk hl hp

theorem end_name_discipline (k : BKind) (o : Opener) (e : Ender)
    (hn : NameWF o.name) (hs : NameWF o.startName) (he : NameWF e.name)
    (hk : EnderFor k e) (hl : k = .doLabel → o.label = e.label)
    (hp : k = .mainProgram → o.name = o.startName) :
    namesAgree (cfgOf k) o e = .accepted ↔
      (comparesNames k = false ∨
       (e.name = none ∧ (requiresEndName k = true → openerName k o = none)) ∨
       (∃ a b, openerName k o = some a ∧ e.name = some b ∧ lower a = lower b)) :=
  _root_.Fp.Header.end_name_discipline_iff k o e hn hs he hk hl hp

theorem end_name_mismatch_verdict (k : BKind) (o : Opener) (e : Ender)
    (hn : NameWF o.name) (hs : NameWF o.startName) (he : NameWF e.name)
    (hk : EnderFor k e) (hl : k = .doLabel → o.label = e.label)
    (hp : k = .mainProgram → o.name = o.startName) :
    (namesAgree (cfgOf k) o e = .systemExit ↔
      (exitsOnMismatch k = true ∧ comparesNames k = true ∧
        ∃ a b, openerName k o = some a ∧ e.name = some b ∧ lower a ≠ lower b)) ∧
    namesAgree (cfgOf k) o e ≠ .noMatch ∧ namesAgree (cfgOf k) o e ≠ .goesOn :=
  _root_.Fp.Header.end_name_mismatch_verdict k o e hn hs he hk hl hp

theorem do_label_rule (o : Opener) (e : Ender) (h : o.label ≠ e.label) :
    namesAgree (cfgOf .doLabel) o e = if e.isEndDoStmt then .noMatch else .goesOn :=
  _root_.Fp.Header.do_label_rule o e h

theorem do_continue_closes (o : Opener) (e : Ender) (h : o.label = e.label) (hc : e.named = false) :
    namesAgree (cfgOf .doLabel) o e = .accepted :=
  _root_.Fp.Header.do_continue_closes o e h hc

theorem mid_name_discipline (k : BKind) (o : Opener) (cls : String) (n : Option Str)
    (hs : NameWF o.startName) (hn : NameWF n) (hm : (cfgOf k).nameClasses.contains cls = true)
    (hmn : (cfgOf k).matchNames = true) :
    midAgree (cfgOf k) o cls n = .accepted ↔
      (n = none ∨ ∃ a b, o.startName = some a ∧ n = some b ∧ lower a = lower b) :=
  _root_.Fp.Header.mid_name_discipline k o cls n hs hn hm hmn

theorem mid_not_tested (k : BKind) (o : Opener) (cls : String) (n : Option Str)
    (hm : (cfgOf k).nameClasses.contains cls = false) :
    midAgree (cfgOf k) o cls n = .accepted :=
  _root_.Fp.Header.mid_not_tested k o cls n hm

theorem kinds_requiring_end_name  :
    BKind.all.filter requiresEndName =
      [.ifC, .caseC, .selectType, .whereC, .forallC, .associate, .blockC, .critical, .doNonlabel,
       .doLabel] :=
  _root_.Fp.Header.kinds_requiring_end_name 

theorem kinds_exiting_on_mismatch  :
    BKind.all.filter exitsOnMismatch =
      [.module, .submodule, .subroutine, .subroutineBody, .function, .functionBody, .blockData] :=
  _root_.Fp.Header.kinds_exiting_on_mismatch 

theorem kinds_not_comparing  :
    BKind.all.filter (fun k => !comparesNames k) = [.interface, .enumDef] :=
  _root_.Fp.Header.kinds_not_comparing 

theorem interface_names_never_compared (o : Opener) (e : Ender) :
    namesAgree (cfgOf .interface) o e = .accepted ∧ namesAgree (cfgOf .enumDef) o e = .accepted :=
  _root_.Fp.Header.interface_names_never_compared o e

theorem witness_interface_mismatch_accepted  :
    namesAgree (cfgOf .interface) {} { cls := "End_Interface_Stmt", name := nm "b" } = .accepted :=
  _root_.Fp.Header.witness_interface_mismatch_accepted 

theorem witness_module_mismatch_exits  :
    namesAgree (cfgOf .module) { name := nm "m" } { cls := "End_Module_Stmt", name := nm "q" }
      = .systemExit :=
  _root_.Fp.Header.witness_module_mismatch_exits 

theorem witness_program_mismatch_syntax  :
    namesAgree (cfgOf .mainProgram) { name := nm "p", startName := nm "p" }
      { cls := "End_Program_Stmt", name := nm "q" } = .syntaxError :=
  _root_.Fp.Header.witness_program_mismatch_syntax 

theorem witness_blockdata_unnamed_named_end  :
    namesAgree (cfgOf .blockData) {} { cls := "End_Block_Data_Stmt", name := nm "q" } = .syntaxError :=
  _root_.Fp.Header.witness_blockdata_unnamed_named_end 

theorem witness_construct_requires_name  :
    namesAgree (cfgOf .ifC) { startName := nm "nam" } { cls := "End_If_Stmt" } = .syntaxError :=
  _root_.Fp.Header.witness_construct_requires_name 

theorem witness_unit_does_not_require_name  :
    namesAgree (cfgOf .subroutine) { name := nm "s" } { cls := "End_Subroutine_Stmt" } = .accepted :=
  _root_.Fp.Header.witness_unit_does_not_require_name 

theorem witness_derived_type  :
    namesAgree (cfgOf .derivedType) { startName := nm "t" } { cls := "End_Type_Stmt" } = .accepted ∧
    namesAgree (cfgOf .derivedType) { startName := nm "t" } { cls := "End_Type_Stmt", name := nm "T" }
      = .accepted ∧
    namesAgree (cfgOf .derivedType) { startName := nm "t" } { cls := "End_Type_Stmt", name := nm "u" }
      = .syntaxError :=
  _root_.Fp.Header.witness_derived_type 

theorem witness_case_insensitive  :
    namesAgree (cfgOf .doNonlabel) { startName := nm "nam" } { cls := "End_Do_Stmt", name := nm "NaM" }
      = .accepted :=
  _root_.Fp.Header.witness_case_insensitive 

theorem witness_label_do  :
    namesAgree (cfgOf .doLabel) { label := some 10 } { cls := "End_Do_Stmt", label := some 20 } = .noMatch ∧
    namesAgree (cfgOf .doLabel) { label := some 10 }
      { cls := "Continue_Stmt", label := some 20, isEndDoStmt := false, named := false } = .goesOn ∧
    namesAgree (cfgOf .doLabel) { label := some 10, startName := nm "nam" }
      { cls := "End_Do_Stmt", label := some 10, name := nm "nam" } = .accepted ∧
    namesAgree (cfgOf .doLabel) { label := some 10, startName := nm "nam" }
      { cls := "End_Do_Stmt", label := some 10 } = .syntaxError :=
  _root_.Fp.Header.witness_label_do 

theorem forall_without_match_names_accepts_mismatch  :
    namesAgree { cfgOf .forallC with matchNames := false, strictNames := false }
      { startName := nm "a" } { cls := "End_Forall_Stmt", name := nm "b" } = .accepted ∧
    namesAgree (cfgOf .forallC) { startName := nm "a" } { cls := "End_Forall_Stmt", name := nm "b" }
      = .syntaxError :=
  _root_.Fp.Header.forall_without_match_names_accepts_mismatch 

theorem label_name_printed (lbl : Option Nat) (name : Option Str) (text tab : Str)
    (hl : lbl ≠ some 0) (hn : ∀ n, name = some n → IsName n) (ht : TextOK text)
    (htab : ∀ c ∈ tab, c = ' ') :
    tofortran lbl name text tab false = printedLine lbl name text tab ∧
    (Reader.extractLabel (tofortran lbl name text tab false)).1 = lbl ∧
    (Reader.extractName (Reader.extractLabel (tofortran lbl name text tab false)).2).1 = name ∧
    lstrip (Reader.extractName (Reader.extractLabel (tofortran lbl name text tab false)).2).2 = text :=
  _root_.Fp.Header.label_name_printed lbl name text tab hl hn ht htab

theorem label_zero_dropped (name : Option Str) (text tab : Str) :
    tofortran (some 0) name text tab false = tofortran none name text tab false :=
  _root_.Fp.Header.label_zero_dropped name text tab

theorem tofortran_fixed_label (l : Nat) (text tab : Str) :
    tofortran (some (l + 1)) none text tab true = padTo6 (' ' :: natToStr (l + 1)) ++ tab ++ text :=
  _root_.Fp.Header.tofortran_fixed_label l text tab

theorem End_Stmt_tostr_match_tokens_generic (o : Oracle Node) (ho : OracleTok o) (ty : Str)
    (nc : Option ClassId) (req : Bool) (hty0 : ty ≠ []) (s : Str) (items : List (Item Node))
    (hm : (combiPlan (.endStmt ty nc req) s).bind (runSlots o) = .ok items) :
    ∃ t, combiStr o (.endStmt ty nc req) items = .ok t ∧ toks t = toks s ∧
      ((∀ i ∈ items, net (i.text o) = 0) → net ty = 0 → net t = 0) :=
  _root_.Fp.Header.e_end_tostr_match_tokens o ho ty nc req hty0 s items hm

theorem End_Stmt_tostr_match_tokens (o : Oracle Node) (ho : OracleTok o) (r : EndRow)
    (hr : r ∈ endTable) (s : Str) (items : List (Item Node))
    (hm : (planEnd r s).bind (runSlots o) = .ok items) :
    ∃ t, tostrEnd o r items = .ok t ∧ toks t = toks s ∧
      ((∀ i ∈ items, net (i.text o) = 0) → net t = 0) :=
  _root_.Fp.Header.e_End_Stmt_tostr_match_tokens o ho r hr s items hm

theorem End_Stmt_tostr_exact (o : Oracle Node) (r : EndRow) (hr : r ∈ endTable) (s : Str)
    (items : List (Item Node)) (hm : (planEnd r s).bind (runSlots o) = .ok items) :
    (items = [.none, .none] ∧ r.req = false ∧ tostrEnd o r items = .ok "END".toList) ∨
    (items = [.str r.ty.toList, .none] ∧ tostrEnd o r items = .ok ("END ".toList ++ r.ty.toList)) ∨
    (∃ n, items = [.str r.ty.toList, .node n] ∧
      tostrEnd o r items = .ok ("END ".toList ++ r.ty.toList ++ ' ' :: o.str n)) :=
  _root_.Fp.Header.e_End_Stmt_tostr_exact o r hr s items hm

theorem End_Stmt_match_items {o : Oracle Node} {ty : Str} {nc : Option ClassId} {req : Bool} {s : Str}
    {items : List (Item Node)} (hty0 : ty ≠ [])
    (hm : (combiPlan (.endStmt ty nc req) s).bind (runSlots o) = .ok items) :
    upper (s.take 3) = "END".toList ∧
    ((lstrip (s.drop 3) = [] ∧ req = false ∧ items = [.none, .none]) ∨
     (lstrip (s.drop 3) ≠ [] ∧
      noSpaces (upper ((lstrip (s.drop 3)).take ty.length)) = noSpaces ty ∧
      ((lstrip ((lstrip (s.drop 3)).drop ty.length) = [] ∧ items = [.str ty, .none]) ∨
       (∃ c n, nc = some c ∧ lstrip ((lstrip (s.drop 3)).drop ty.length) ≠ [] ∧
          o.call c (lstrip ((lstrip (s.drop 3)).drop ty.length)) = .ok n ∧
          items = [.str ty, .node n])))) :=
  _root_.Fp.Header.e_end_match_items hty0 hm

theorem End_Stmt_shape_generic {ty : Str} {nc : Option ClassId} {req : Bool} {s : Str}
    {slots : List Combi.Slot} (hty0 : ty ≠ [])
    (h : Combi.endSplit ty nc req s = some slots) :
    upper (s.take 3) = "END".toList ∧
    ((lstrip (s.drop 3) = [] ∧ req = false ∧ slots = [.none, .none]) ∨
     (lstrip (s.drop 3) ≠ [] ∧
      noSpaces (upper ((lstrip (s.drop 3)).take ty.length)) = noSpaces ty ∧
      ((lstrip ((lstrip (s.drop 3)).drop ty.length) = [] ∧ slots = [.str ty, .none]) ∨
       (∃ c, nc = some c ∧ lstrip ((lstrip (s.drop 3)).drop ty.length) ≠ [] ∧
          slots = [.str ty, .child c (lstrip ((lstrip (s.drop 3)).drop ty.length))])))) :=
  _root_.Fp.Header.e_endSplit_shape hty0 h

theorem End_Stmt_shape_converse {ty : Str} {nc : Option ClassId} {req : Bool} {s : Str}
    (hty0 : ty ≠ []) (h3 : upper (s.take 3) = "END".toList) :
    (lstrip (s.drop 3) = [] → req = false → Combi.endSplit ty nc req s = some [.none, .none]) ∧
    (lstrip (s.drop 3) ≠ [] →
      noSpaces (upper ((lstrip (s.drop 3)).take ty.length)) = noSpaces ty →
      (lstrip ((lstrip (s.drop 3)).drop ty.length) = [] →
        Combi.endSplit ty nc req s = some [.str ty, .none]) ∧
      (∀ c, nc = some c → lstrip ((lstrip (s.drop 3)).drop ty.length) ≠ [] →
        Combi.endSplit ty nc req s =
          some [.str ty, .child c (lstrip ((lstrip (s.drop 3)).drop ty.length))])) :=
  _root_.Fp.Header.e_endSplit_of_shape hty0 h3

theorem End_Stmt_slots {ty : Str} {nc : Option ClassId} {req : Bool} {s : Str}
    {slots : List Combi.Slot} (h : Combi.endSplit ty nc req s = some slots) :
    slots = [.none, .none] ∨ slots = [.str ty, .none] ∨ ∃ c l, nc = some c ∧ slots = [.str ty, .child c l] :=
  _root_.Fp.Header.e_endSplit_slots h

theorem End_Stmt_shape (r : EndRow) (hr : r ∈ endTable) (s : Str) (slots : List Slot)
    (h : planEnd r s = .ok slots) :
    upper (s.take 3) = "END".toList ∧
    ((lstrip (s.drop 3) = [] ∧ r.req = false ∧ slots = [.none, .none]) ∨
     (lstrip (s.drop 3) ≠ [] ∧
      noSpaces (upper ((lstrip (s.drop 3)).take r.ty.length)) = noSpaces r.ty.toList ∧
      ((lstrip ((lstrip (s.drop 3)).drop r.ty.length) = [] ∧ slots = [.str r.ty.toList, .none]) ∨
       (∃ c, r.nameCls.bind clsId = some c ∧ lstrip ((lstrip (s.drop 3)).drop r.ty.length) ≠ [] ∧
          slots = [.str r.ty.toList, .child c (lstrip ((lstrip (s.drop 3)).drop r.ty.length))])))) :=
  _root_.Fp.Header.e_End_Stmt_shape r hr s slots h

theorem End_Stmt_requires_type (ty : Str) (nc : Option ClassId) (s : Str) (hty0 : ty ≠ [])
    (hl : lstrip (s.drop 3) = []) :
    Combi.endSplit ty nc true s = none :=
  _root_.Fp.Header.e_End_Stmt_requires_type ty nc s hty0 hl

theorem End_Stmt_requires_type_END (ty : Str) (nc : Option ClassId) (hty0 : ty ≠ []) :
    Combi.endSplit ty nc true "END".toList = none :=
  _root_.Fp.Header.e_End_Stmt_requires_type_END ty nc hty0

theorem End_Stmt_no_name_class (ty : Str) (req : Bool) (s : Str) (hty0 : ty ≠ [])
    (hrest : lstrip ((lstrip (s.drop 3)).drop ty.length) ≠ []) :
    Combi.endSplit ty none req s = none :=
  _root_.Fp.Header.e_End_Stmt_no_name_class ty req s hty0 hrest

theorem End_Stmt_other_keyword_rejected (ty : Str) (nc : Option ClassId) (req : Bool) (s : Str)
    (hty0 : ty ≠ [])
    (h : upper (s.take 3) ≠ "END".toList ∨
      (lstrip (s.drop 3) ≠ [] ∧
        noSpaces (upper ((lstrip (s.drop 3)).take ty.length)) ≠ noSpaces ty)) :
    Combi.endSplit ty nc req s = none :=
  _root_.Fp.Header.e_End_Stmt_other_keyword_rejected ty nc req s hty0 h

theorem End_Block_Data_blanks_witness  :
    planEnd e_rowBlockData "end block data".toList = .ok [.str "BLOCK DATA".toList, .none] ∧
    planEnd e_rowBlockData "endblockdata".toList = .ok [.str "BLOCK DATA".toList, .none] ∧
    planEnd e_rowBlockData "end blockdata".toList = .ok [.str "BLOCK DATA".toList, .none] ∧
    planEnd e_rowBlockData "END BLOCK DATA x".toList =
      .ok [.str "BLOCK DATA".toList, .child Fp.Header.C.Block_Data_Name "x".toList] ∧
    planEnd e_rowBlockData "end block  data".toList = .noMatch ∧
    planEnd e_rowBlockData "endblockdatax".toList = .noMatch :=
  _root_.Fp.Header.e_End_Block_Data_blanks_witness 

theorem End_Stmt_print_witness  :
    ((planEnd e_rowBlockData "endblockdata".toList).bind (runSlots e_echoH)).bind
      (tostrEnd e_echoH e_rowBlockData) = .ok "END BLOCK DATA".toList ∧
    ((planEnd e_rowDo "enddo".toList).bind (runSlots e_echoH)).bind
      (tostrEnd e_echoH e_rowDo) = .ok "END DO".toList ∧
    ((planEnd e_rowIf "end  if  x".toList).bind (runSlots e_echoH)).bind
      (tostrEnd e_echoH e_rowIf) = .ok "END IF x".toList :=
  _root_.Fp.Header.e_End_Block_Data_print_witness 

theorem End_Stmt_glued_name_witness  :
    planEnd e_rowIf "END IFX".toList =
      .ok [.str "IF".toList, .child Fp.Header.C.If_Construct_Name "X".toList] ∧
    planEnd e_rowIf "endifx".toList =
      .ok [.str "IF".toList, .child Fp.Header.C.If_Construct_Name "x".toList] ∧
    planEnd e_rowIf "end ifx".toList =
      .ok [.str "IF".toList, .child Fp.Header.C.If_Construct_Name "x".toList] ∧
    ((planEnd e_rowIf "endifx".toList).bind (runSlots e_echoH)).bind
      (tostrEnd e_echoH e_rowIf) = .ok "END IF x".toList :=
  _root_.Fp.Header.e_End_Stmt_glued_name_witness 

theorem End_Do_witness  :
    planEnd e_rowDo "enddo".toList = .ok [.str "DO".toList, .none] ∧
    planEnd e_rowDo "end".toList = .noMatch ∧
    planEnd e_rowProgram "end".toList = .ok [.none, .none] ∧
    planEnd e_rowProgram "end do".toList = .noMatch :=
  _root_.Fp.Header.e_End_Do_witness 

theorem End_Select_both_witness  :
    planEnd e_rowSelect "end select".toList = .ok [.str "SELECT".toList, .none] ∧
    planEnd e_rowSelectType "end select".toList = .ok [.str "SELECT".toList, .none] ∧
    planEnd e_rowSelect "end select x".toList =
      .ok [.str "SELECT".toList, .child Fp.Header.C.Case_Construct_Name "x".toList] ∧
    planEnd e_rowSelectType "end select x".toList =
      .ok [.str "SELECT".toList, .child Fp.Header.C.Select_Construct_Name "x".toList] :=
  _root_.Fp.Header.e_End_Select_both_witness 

theorem End_Enum_witness  :
    planEnd e_rowEnum "end enum".toList = .ok [.str "ENUM".toList, .none] ∧
    planEnd e_rowEnum "end enum x".toList = .noMatch ∧
    planEnd e_rowEnum "end".toList = .noMatch :=
  _root_.Fp.Header.e_End_Enum_witness 

theorem End_Stmt_match_total_generic (ty : Str) (nc : Option ClassId) (req : Bool) (s : Str) (e : Exc) :
    combiPlan (.endStmt ty nc req) s ≠ .raises e ∧
    ∀ (o : Oracle Node), OracleTotal o →
      (combiPlan (.endStmt ty nc req) s).bind (runSlots o) ≠ .raises e :=
  _root_.Fp.Header.e_end_match_total ty nc req s e

theorem End_Stmt_match_total (r : EndRow) (s : Str) (e : Exc) :
    planEnd r s ≠ .raises e ∧
    ∀ (o : Oracle Node), OracleTotal o → (planEnd r s).bind (runSlots o) ≠ .raises e :=
  _root_.Fp.Header.e_End_Stmt_match_total r s e

theorem End_Stmt_tostr_total (o : Oracle Node) (r : EndRow) (items : List (Item Node)) (e : Exc) :
    tostrEnd o r items ≠ .raises e :=
  _root_.Fp.Header.e_End_Stmt_tostr_total o r items e

theorem End_Stmt_match_tostr_fixpoint_bare (o : Oracle Node) (ty : Str) (nc : Option ClassId) :
    ∃ t, combiStr o (.endStmt ty nc false) [.none, .none] = .ok t ∧
      (combiPlan (.endStmt ty nc false) t).bind (runSlots o) = .ok [.none, .none] :=
  _root_.Fp.Header.e_end_fixpoint_bare o ty nc

theorem End_Stmt_match_tostr_fixpoint_typed (o : Oracle Node) (ty : Str) (nc : Option ClassId) (req : Bool)
    (hty0 : ty ≠ []) (htyl : lstrip ty = ty) (htyu : upper ty = ty) :
    ∃ t, combiStr o (.endStmt ty nc req) [.str ty, .none] = .ok t ∧
      (combiPlan (.endStmt ty nc req) t).bind (runSlots o) = .ok [.str ty, .none] :=
  _root_.Fp.Header.e_end_fixpoint_typed o ty nc req hty0 htyl htyu

theorem End_Stmt_match_tostr_fixpoint_named (o : Oracle Node) (ty : Str) (c : ClassId) (req : Bool) (x : Node)
    (hty0 : ty ≠ []) (htyl : lstrip ty = ty) (htyu : upper ty = ty)
    (hrt : OracleRT o c x) (hxl : lstrip (o.str x) = o.str x) (hx0 : o.str x ≠ []) :
    ∃ t, combiStr o (.endStmt ty (some c) req) [.str ty, .node x] = .ok t ∧
      (combiPlan (.endStmt ty (some c) req) t).bind (runSlots o) = .ok [.str ty, .node x] :=
  _root_.Fp.Header.e_end_fixpoint_named o ty c req x hty0 htyl htyu hrt hxl hx0

theorem End_Stmt_match_tostr_fixpoint (o : Oracle Node) (r : EndRow) (hr : r ∈ endTable) :
    (r.req = false →
      ∃ t, tostrEnd o r [.none, .none] = .ok t ∧
        (planEnd r t).bind (runSlots o) = .ok [.none, .none]) ∧
    (∃ t, tostrEnd o r [.str r.ty.toList, .none] = .ok t ∧
        (planEnd r t).bind (runSlots o) = .ok [.str r.ty.toList, .none]) ∧
    (∀ c x, r.nameCls.bind clsId = some c → OracleRT o c x → lstrip (o.str x) = o.str x →
      o.str x ≠ [] →
      ∃ t, tostrEnd o r [.str r.ty.toList, .node x] = .ok t ∧
        (planEnd r t).bind (runSlots o) = .ok [.str r.ty.toList, .node x]) :=
  _root_.Fp.Header.e_End_Stmt_match_tostr_fixpoint o r hr

theorem End_Stmt_fixpoint_counterexamples  :
    (tostrEnd e_echoH e_rowDo [.none, .none] = .ok "END".toList ∧
      (planEnd e_rowDo "END".toList).bind (runSlots e_echoH) = .noMatch) ∧
    (tostrEnd e_echoH e_rowIf [.str "IF".toList, .node " x".toList] = .ok "END IF  x".toList ∧
      (planEnd e_rowIf "END IF  x".toList).bind (runSlots e_echoH) =
        .ok [.str "IF".toList, .node "x".toList]) ∧
    (tostrEnd e_echoH e_rowIf [.str "IF".toList, .node []] = .ok "END IF ".toList ∧
      (planEnd e_rowIf "END IF ".toList).bind (runSlots e_echoH) =
        .ok [.str "IF".toList, .none]) :=
  _root_.Fp.Header.e_End_Stmt_fixpoint_counterexamples 

theorem enderOf_name_none_iff_generic (o : Oracle Node) (ty : Str) (nc : Option ClassId) (req : Bool)
    (hty0 : ty ≠ []) (s : Str) (items : List (Item Node))
    (hm : (combiPlan (.endStmt ty nc req) s).bind (runSlots o) = .ok items) (cls : String)
    (lbl : Option Nat) :
    ((enderOf o cls items lbl).name = none ↔ items[1]? = some .none) ∧
    (∀ n, items[1]? = some (.node n) → (enderOf o cls items lbl).name = some (o.str n)) ∧
    ((∃ n, items[1]? = some (.node n)) ∨ items[1]? = some .none) ∧
    (items[0]? = some .none ∨ items[0]? = some (.str ty)) :=
  _root_.Fp.Header.e_enderOf_name_none_iff o ty nc req hty0 s items hm cls lbl

theorem enderOf_name_none_iff (o : Oracle Node) (r : EndRow) (hr : r ∈ endTable) (s : Str)
    (items : List (Item Node)) (hm : (planEnd r s).bind (runSlots o) = .ok items)
    (lbl : Option Nat) :
    ((enderOf o r.cls items lbl).name = none ↔ items[1]? = some .none) ∧
    (∀ n, items[1]? = some (.node n) → (enderOf o r.cls items lbl).name = some (o.str n)) :=
  _root_.Fp.Header.e_End_Stmt_enderOf_name o r hr s items hm lbl

theorem End_Stmt_empty_type_witness  :
    (combiPlan (.endStmt [] (some 0) false) "ENDfoo".toList).bind (runSlots e_echoH) =
      .ok [.none, .none] ∧
    combiStr e_echoH (.endStmt [] (some 0) false) [.none, .none] = .ok "END".toList ∧
    toks "END".toList ≠ toks "ENDfoo".toList :=
  _root_.Fp.Header.e_end_empty_type_witness 

theorem Else_Stmt_tostr_match_tokens (o : Oracle Node) (ho : OracleTok o) (s : Str)
    (items : List (Item Node)) (hm : (planElse s).bind (runSlots o) = .ok items) :
    ∃ t, tostrElse o items = .ok t ∧ toks t = toks s ∧
      ((∀ i ∈ items, net (i.text o) = 0) → net t = 0) :=
  _root_.Fp.Header.i_else_tostr_match_tokens o ho s items hm

theorem Else_Stmt_glued_witness  :
    (planElse "elsenam".toList).bind (runSlots i_echoH) = .ok [.node "nam".toList] ∧
    tostrElse i_echoH [.node "nam".toList] = .ok "ELSE nam".toList :=
  _root_.Fp.Header.i_else_glued_witness 

theorem elsewhereRest_spec {s rest : Str} (h : elsewhereRest s = some rest) :
    toks s = toks "ELSEWHERE".toList ++ toks rest :=
  _root_.Fp.Header.i_elsewhereRest_spec h

theorem Elsewhere_Stmt_tostr_match_tokens (o : Oracle Node) (ho : OracleTok o) (s : Str)
    (items : List (Item Node)) (hm : (planElsewhere s).bind (runSlots o) = .ok items) :
    ∃ t, combiStr o (.word ["ELSEWHERE".toList] false none false false false) items = .ok t ∧
      toks t = toks s ∧ ((∀ i ∈ items, net (i.text o) = 0) → net t = 0) :=
  _root_.Fp.Header.i_elsewhere_tostr_match_tokens o ho s items hm

theorem Masked_Elsewhere_Stmt_tostr_match_tokens (o : Oracle Node) (ho : OracleTok o) (s : Str)
    (items : List (Item Node)) (hm : (planMaskedElsewhere s).bind (runSlots o) = .ok items) :
    ∃ t, tostrMaskedElsewhere o items = .ok t ∧ toks t = toks s ∧
      ((∀ i ∈ items, net (i.text o) = 0) → net t = 0) :=
  _root_.Fp.Header.i_maskedElsewhere_tostr_match_tokens o ho s items hm

theorem Interface_Stmt_tostr_match_tokens (o : Oracle Node) (ho : OracleTok o) (s : Str)
    (items : List (Item Node)) (hm : (planInterface s).bind (runSlots o) = .ok items) :
    ∃ t, tostrInterface o items = .ok t ∧ toks t = toks s ∧
      ((∀ i ∈ items, net (i.text o) = 0) → net t = 0) :=
  _root_.Fp.Header.i_interface_tostr_match_tokens o ho s items hm

theorem Interface_Stmt_glued_witness  :
    (planInterface "interfacefoo".toList).bind (runSlots i_echoH) = .ok [.node "foo".toList] ∧
    tostrInterface i_echoH [.node "foo".toList] = .ok "INTERFACE foo".toList :=
  _root_.Fp.Header.i_interface_glued_witness 

theorem Interface_Stmt_abstract_name_witness  :
    (planInterface "interface abstract".toList).bind (runSlots i_echoH) = .ok [.node "abstract".toList] ∧
    tostrInterface i_echoH [.node "abstract".toList] = .ok "INTERFACE abstract".toList :=
  _root_.Fp.Header.i_interface_abstract_name_witness 

theorem Generic_Spec_tostr_match_tokens (o : Oracle Node) (ho : OracleTok o) (s : Str)
    (items : List (Item Node)) (hm : (planGenericSpec s).bind (runSlots o) = .ok items) :
    ∃ t, tostrCallLike o items = .ok t ∧ toks t = toks s ∧
      ((∀ i ∈ items, net (i.text o) = 0) → net t = 0) :=
  _root_.Fp.Header.i_genericSpec_tostr_match_tokens o ho s items hm

theorem Dtio_Generic_Spec_tostr_match_tokens (o : Oracle Node) (_ho : OracleTok o) (s : Str)
    (items : List (Item Node)) (hm : (planDtio s).bind (runSlots o) = .ok items) :
    ∃ t, tostrString o items = .ok t ∧ toks t = toks s ∧
      ((∀ i ∈ items, net (i.text o) = 0) → net t = 0) :=
  _root_.Fp.Header.i_dtio_tostr_match_tokens o _ho s items hm

theorem Extended_Intrinsic_Op_tostr_match_tokens (o : Oracle Node) (_ho : OracleTok o) (s : Str)
    (items : List (Item Node)) (hm : (planExtendedIntrinsicOp s).bind (runSlots o) = .ok items) :
    ∃ t, tostrString o items = .ok t ∧ t = s ∧ toks t = toks s ∧
      ((∀ i ∈ items, net (i.text o) = 0) → net t = 0) :=
  _root_.Fp.Header.i_extendedIntrinsicOp_tostr_match_tokens o _ho s items hm

theorem Extended_Intrinsic_Op_unanchored  :
    planExtendedIntrinsicOp "+)".toList = .ok [.str "+)".toList] ∧
    (∀ junk, planExtendedIntrinsicOp ('+' :: junk) = .ok [.str ('+' :: junk)]) ∧
    (∀ junk, planExtendedIntrinsicOp ('-' :: junk) = .ok [.str ('-' :: junk)]) ∧
    (∀ junk, planExtendedIntrinsicOp ('<' :: junk) = .ok [.str ('<' :: junk)]) ∧
    (∀ junk, planExtendedIntrinsicOp ('>' :: junk) = .ok [.str ('>' :: junk)]) :=
  _root_.Fp.Header.i_Extended_Intrinsic_Op_unanchored 

theorem startsIntrinsicOp_plus (junk : Str) :
    startsIntrinsicOp ('+' :: junk) = true :=
  _root_.Fp.Header.i_startsIntrinsicOp_plus junk

theorem Generic_Spec_accepts_unbalanced_witness  :
    (planGenericSpec "operator(+))".toList).bind (runSlots i_echoH) =
      .ok [.str "OPERATOR".toList, .node "+)".toList] ∧
    tostrCallLike i_echoH [.str "OPERATOR".toList, .node "+)".toList] = .ok "OPERATOR(+))".toList ∧
    net "+)".toList = -1 ∧ net "OPERATOR(+))".toList = -1 :=
  _root_.Fp.Header.i_Generic_Spec_accepts_unbalanced_witness 

theorem Procedure_Stmt_f2003_tostr_match_tokens (o : Oracle Node) (ho : OracleTok o) (s : Str)
    (items : List (Item Node)) (hm : (planProcedureStmt .f2003 s).bind (runSlots o) = .ok items) :
    ∃ t, tostrProcedureStmt .f2003 o items = .ok t ∧
      (kwIs "MODULE".toList s = true → toks t = toks s) ∧
      (kwIs "MODULE".toList s = false → toks t = toks "MODULE".toList ++ toks s) ∧
      ((∀ i ∈ items, net (i.text o) = 0) → net t = 0) :=
  _root_.Fp.Header.i_procedureStmt03_tostr_match_tokens o ho s items hm

theorem Procedure_Stmt_f2003_invents_module  :
    (planProcedureStmt .f2003 "procedure a".toList).bind (runSlots i_echoH) = .ok [.node "a".toList] ∧
    tostrProcedureStmt .f2003 i_echoH [.node "a".toList] = .ok "MODULE PROCEDURE a".toList ∧
    toks "MODULE PROCEDURE a".toList ≠ toks "procedure a".toList :=
  _root_.Fp.Header.i_procedureStmt03_invents_module 

theorem Procedure_Stmt_f2008_tostr_match_tokens (o : Oracle Node) (ho : OracleTok o) (s : Str)
    (items : List (Item Node)) (hm : (planProcedureStmt .f2008 s).bind (runSlots o) = .ok items) :
    ∃ t, tostrProcedureStmt .f2008 o items = .ok t ∧ toks t = toks s ∧
      ((∀ i ∈ items, net (i.text o) = 0) → net t = 0) :=
  _root_.Fp.Header.i_procedureStmt08_tostr_match_tokens o ho s items hm

theorem Select_Type_Stmt_tostr_match_tokens (o : Oracle Node) (ho : OracleTok o) (s : Str)
    (items : List (Item Node)) (hm : (planSelectType s).bind (runSlots o) = .ok items) :
    ∃ t, tostrSelectType o items = .ok t ∧ toks t = toks s ∧
      ((∀ i ∈ items, net (i.text o) = 0) → net t = 0) :=
  _root_.Fp.Header.i_selectType_tostr_match_tokens o ho s items hm

theorem Type_Guard_Stmt_tostr_match_tokens (o : Oracle Node) (ho : OracleTok o) (s : Str)
    (items : List (Item Node)) (hm : (planTypeGuard s).bind (runSlots o) = .ok items) :
    ∃ t, tostrTypeGuard o items = .ok t ∧ toks t = toks s ∧
      ((∀ i ∈ items, net (i.text o) = 0) → net t = 0) :=
  _root_.Fp.Header.i_typeGuard_tostr_match_tokens o ho s items hm

theorem Type_Attr_Spec_tostr_match_tokens (o : Oracle Node) (ho : OracleTok o) (s : Str)
    (items : List (Item Node)) (hm : (planTypeAttrSpec s).bind (runSlots o) = .ok items) :
    ∃ t, tostrAttrSpec o items = .ok t ∧ toks t = toks s ∧
      ((∀ i ∈ items, net (i.text o) = 0) → net t = 0) :=
  _root_.Fp.Header.i_typeAttrSpec_tostr_match_tokens o ho s items hm

theorem Proc_Attr_Spec_tostr_match_tokens (o : Oracle Node) (ho : OracleTok o) (s : Str)
    (items : List (Item Node)) (hm : (planProcAttrSpec s).bind (runSlots o) = .ok items) :
    ∃ t, tostrAttrSpec o items = .ok t ∧ toks t = toks s ∧
      ((∀ i ∈ items, net (i.text o) = 0) → net t = 0) :=
  _root_.Fp.Header.i_procAttrSpec_tostr_match_tokens o ho s items hm

theorem Parent_Identifier_tostr_match_tokens (o : Oracle Node) (ho : OracleTok o) (s : Str)
    (items : List (Item Node)) (hm : (planParentIdentifier s).bind (runSlots o) = .ok items) :
    ∃ t, tostrParentIdentifier o items = .ok t ∧ toks t = toks s ∧
      ((∀ i ∈ items, net (i.text o) = 0) → net t = 0) :=
  _root_.Fp.Header.i_parentIdentifier_tostr_match_tokens o ho s items hm

theorem Submodule_Stmt_tostr_match_tokens (o : Oracle Node) (ho : OracleTok o) (s : Str)
    (items : List (Item Node)) (hm : (planSubmodule s).bind (runSlots o) = .ok items) :
    ∃ t, tostrSubmodule o items = .ok t ∧ toks t = toks s ∧
      ((∀ i ∈ items, net (i.text o) = 0) → net t = 0) :=
  _root_.Fp.Header.i_submodule_tostr_match_tokens o ho s items hm

theorem Submodule_Stmt_not_raises (s : Str) (e : Exc) :
    planSubmodule s ≠ .raises e :=
  _root_.Fp.Header.i_planSubmodule_not_raises s e

theorem splitparen_pieces3_mid {x a b c : Str} (h : splitparenPieces x = [a, b, c]) :
    b ≠ [] :=
  _root_.Fp.Header.i_pieces3_mid h

theorem planElse_total  :
    PlanTotal planElse :=
  _root_.Fp.Header.i_planElse_total 

theorem planElsewhere_total  :
    PlanTotal planElsewhere :=
  _root_.Fp.Header.i_planElsewhere_total 

theorem planMaskedElsewhere_total  :
    PlanTotal planMaskedElsewhere :=
  _root_.Fp.Header.i_planMaskedElsewhere_total 

theorem planInterface_total  :
    PlanTotal planInterface :=
  _root_.Fp.Header.i_planInterface_total 

theorem planGenericSpec_total  :
    PlanTotal planGenericSpec :=
  _root_.Fp.Header.i_planGenericSpec_total 

theorem planDtio_total  :
    PlanTotal planDtio :=
  _root_.Fp.Header.i_planDtio_total 

theorem planExtendedIntrinsicOp_total  :
    PlanTotal planExtendedIntrinsicOp :=
  _root_.Fp.Header.i_planExtendedIntrinsicOp_total 

theorem planProcedureStmt_total (std : Std) :
    PlanTotal (planProcedureStmt std) :=
  _root_.Fp.Header.i_planProcedureStmt_total std

theorem planSelectType_total  :
    PlanTotal planSelectType :=
  _root_.Fp.Header.i_planSelectType_total 

theorem planTypeGuard_total  :
    PlanTotal planTypeGuard :=
  _root_.Fp.Header.i_planTypeGuard_total 

theorem planTypeAttrSpec_total  :
    PlanTotal planTypeAttrSpec :=
  _root_.Fp.Header.i_planTypeAttrSpec_total 

theorem planProcAttrSpec_total  :
    PlanTotal planProcAttrSpec :=
  _root_.Fp.Header.i_planProcAttrSpec_total 

theorem planParentIdentifier_total  :
    PlanTotal planParentIdentifier :=
  _root_.Fp.Header.i_planParentIdentifier_total 

theorem planSubmodule_total  :
    PlanTotal planSubmodule :=
  _root_.Fp.Header.i_planSubmodule_total 

theorem Else_Stmt_match_tostr_fixpoint_none (o : Oracle Node) :
    ∃ t, tostrElse o [.none] = .ok t ∧ (planElse t).bind (runSlots o) = .ok [.none] :=
  _root_.Fp.Header.i_else_fixpoint_none o

theorem Else_Stmt_match_tostr_fixpoint (o : Oracle Node) (a : Node)
    (hrt : OracleRT o C.If_Construct_Name a)
    (hl : lstrip (o.str a) = o.str a) (h0 : o.str a ≠ []) :
    ∃ t, tostrElse o [.node a] = .ok t ∧ (planElse t).bind (runSlots o) = .ok [.node a] :=
  _root_.Fp.Header.i_else_match_tostr_fixpoint o a hrt hl h0

theorem Else_Stmt_fixpoint_counter  :
    (planElse ("ELSE ".toList ++ "".toList)).bind (runSlots i_echoH) = .ok [.none] ∧
    (planElse ("ELSE ".toList ++ " x".toList)).bind (runSlots i_echoH) = .ok [.node "x".toList] :=
  _root_.Fp.Header.i_else_fixpoint_counter 

theorem Elsewhere_Stmt_match_tostr_fixpoint_none (o : Oracle Node) :
    ∃ t, combiStr o i_specElsewhere [.str "ELSEWHERE".toList, .none] = .ok t ∧
      (planElsewhere t).bind (runSlots o) = .ok [.str "ELSEWHERE".toList, .none] :=
  _root_.Fp.Header.i_elsewhere_fixpoint_none o

theorem Elsewhere_Stmt_match_tostr_fixpoint (o : Oracle Node) (b : Node)
    (hrt : OracleRT o C.Where_Construct_Name b)
    (hl : lstrip (o.str b) = o.str b) (h0 : o.str b ≠ []) :
    ∃ t, combiStr o i_specElsewhere [.str "ELSEWHERE".toList, .node b] = .ok t ∧
      (planElsewhere t).bind (runSlots o) = .ok [.str "ELSEWHERE".toList, .node b] :=
  _root_.Fp.Header.i_elsewhere_match_tostr_fixpoint o b hrt hl h0

theorem Elsewhere_Stmt_fixpoint_counter  :
    (planElsewhere ("ELSEWHERE ".toList ++ "".toList)).bind (runSlots i_echoH) =
      .ok [.str "ELSEWHERE".toList, .none] ∧
    (planElsewhere ("ELSEWHERE ".toList ++ " x".toList)).bind (runSlots i_echoH) =
      .ok [.str "ELSEWHERE".toList, .node "x".toList] :=
  _root_.Fp.Header.i_elsewhere_fixpoint_counter 

theorem Masked_Elsewhere_Stmt_match_tostr_fixpoint_1 (o : Oracle Node) (a : Node)
    (hrt : OracleRT o C.Mask_Expr a)
    (hl : lstrip (o.str a) = o.str a) (hr : rstrip (o.str a) = o.str a) (h0 : o.str a ≠ []) :
    ∃ t, tostrMaskedElsewhere o [.node a, .none] = .ok t ∧
      (planMaskedElsewhere t).bind (runSlots o) = .ok [.node a, .none] :=
  _root_.Fp.Header.i_maskedElsewhere_match_tostr_fixpoint_1 o a hrt hl hr h0

theorem Masked_Elsewhere_Stmt_match_tostr_fixpoint_2 (o : Oracle Node) (a b : Node)
    (hrt : OracleRT o C.Mask_Expr a)
    (hrtb : o.call C.Where_Construct_Name (' ' :: o.str b) = .ok b)
    (hl : lstrip (o.str a) = o.str a) (hr : rstrip (o.str a) = o.str a) (h0 : o.str a ≠ [])
    (hB : ')' ∉ o.str b) (hBr : rstrip (o.str b) = o.str b) (hB0 : o.str b ≠ []) :
    ∃ t, tostrMaskedElsewhere o [.node a, .node b] = .ok t ∧
      (planMaskedElsewhere t).bind (runSlots o) = .ok [.node a, .node b] :=
  _root_.Fp.Header.i_maskedElsewhere_match_tostr_fixpoint_2 o a b hrt hrtb hl hr h0 hB hBr hB0

theorem Masked_Elsewhere_Stmt_fixpoint_counter  :
    (planMaskedElsewhere "ELSEWHERE(m) n".toList).bind (runSlots i_echoH) =
      .ok [.node "m".toList, .node " n".toList] ∧
    (planMaskedElsewhere ("ELSEWHERE(".toList ++ "m".toList ++ ") ".toList ++ "n)".toList)).bind
      (runSlots i_echoH) = .ok [.node "m) n".toList, .none] ∧
    (planMaskedElsewhere ("ELSEWHERE(".toList ++ "".toList ++ ")".toList)).bind (runSlots i_echoH) =
      .noMatch :=
  _root_.Fp.Header.i_maskedElsewhere_fixpoint_counter 

theorem Interface_Stmt_match_tostr_fixpoint_none (o : Oracle Node) :
    ∃ t, tostrInterface o [.none] = .ok t ∧ (planInterface t).bind (runSlots o) = .ok [.none] :=
  _root_.Fp.Header.i_interface_fixpoint_none o

theorem Interface_Stmt_match_tostr_fixpoint_abstract (o : Oracle Node) :
    ∃ t, tostrInterface o [.str "ABSTRACT".toList] = .ok t ∧
      (planInterface t).bind (runSlots o) = .ok [.str "ABSTRACT".toList] :=
  _root_.Fp.Header.i_interface_fixpoint_abstract o

theorem Interface_Stmt_match_tostr_fixpoint (o : Oracle Node) (a : Node)
    (hrt : OracleRT o C.Generic_Spec a)
    (hl : lstrip (o.str a) = o.str a) (hr : rstrip (o.str a) = o.str a) (h0 : o.str a ≠ []) :
    ∃ t, tostrInterface o [.node a] = .ok t ∧ (planInterface t).bind (runSlots o) = .ok [.node a] :=
  _root_.Fp.Header.i_interface_match_tostr_fixpoint o a hrt hl hr h0

theorem Interface_Stmt_fixpoint_counter  :
    (planInterface ("INTERFACE ".toList ++ "".toList)).bind (runSlots i_echoH) = .ok [.none] ∧
    (planInterface ("INTERFACE ".toList ++ "g ".toList)).bind (runSlots i_echoH) = .ok [.node "g".toList] ∧
    (planInterface ("INTERFACE ".toList ++ " g".toList)).bind (runSlots i_echoH) = .ok [.node "g".toList] :=
  _root_.Fp.Header.i_interface_fixpoint_counter 

theorem Generic_Spec_match_tostr_fixpoint (o : Oracle Node) (a : Node)
    (hrt : OracleRT o C.Defined_Operator a)
    (hl : lstrip (o.str a) = o.str a) (hr : rstrip (o.str a) = o.str a) :
    ∃ t, tostrCallLike o [.str "OPERATOR".toList, .node a] = .ok t ∧
      (planGenericSpec t).bind (runSlots o) = .ok [.str "OPERATOR".toList, .node a] :=
  _root_.Fp.Header.i_genericSpec_match_tostr_fixpoint o a hrt hl hr

theorem Generic_Spec_match_tostr_fixpoint_assignment (o : Oracle Node) :
    ∃ t, tostrCallLike o [.str "ASSIGNMENT".toList, .str "=".toList] = .ok t ∧
      (planGenericSpec t).bind (runSlots o) = .ok [.str "ASSIGNMENT".toList, .str "=".toList] :=
  _root_.Fp.Header.i_genericSpec_fixpoint_assignment o

theorem Generic_Spec_fixpoint_counter  :
    (planGenericSpec ("OPERATOR".toList ++ "(".toList ++ " +".toList ++ ")".toList)).bind
      (runSlots i_echoH) = .ok [.str "OPERATOR".toList, .node "+".toList] :=
  _root_.Fp.Header.i_genericSpec_fixpoint_counter 

theorem Select_Type_Stmt_match_tostr_fixpoint_1 (o : Oracle Node) (b : Node)
    (hrt : OracleRT o C.Selector b)
    (hl : lstrip (o.str b) = o.str b) (hr : rstrip (o.str b) = o.str b)
    (hc : cutSub2 '=' '>' (o.str b) = none) :
    ∃ t, tostrSelectType o [.none, .node b] = .ok t ∧
      (planSelectType t).bind (runSlots o) = .ok [.none, .node b] :=
  _root_.Fp.Header.i_selectType_match_tostr_fixpoint_1 o b hrt hl hr hc

theorem Select_Type_Stmt_match_tostr_fixpoint_2 (o : Oracle Node) (a b : Node)
    (hrta : OracleRT o C.Associate_Name a) (hrtb : OracleRT o C.Selector b)
    (hAl : lstrip (o.str a) = o.str a) (hAr : rstrip (o.str a) = o.str a)
    (hBl : lstrip (o.str b) = o.str b) (hBr : rstrip (o.str b) = o.str b)
    (hc : cutSub2 '=' '>' (o.str a) = none) :
    ∃ t, tostrSelectType o [.node a, .node b] = .ok t ∧
      (planSelectType t).bind (runSlots o) = .ok [.node a, .node b] :=
  _root_.Fp.Header.i_selectType_match_tostr_fixpoint_2 o a b hrta hrtb hAl hAr hBl hBr hc

theorem Select_Type_Stmt_fixpoint_counter  :
    (planSelectType ("SELECT TYPE(".toList ++ "a=>b".toList ++ ")".toList)).bind (runSlots i_echoH) =
      .ok [.node "a".toList, .node "b".toList] ∧
    (planSelectType ("SELECT TYPE(".toList ++ " b".toList ++ ")".toList)).bind (runSlots i_echoH) =
      .ok [.none, .node "b".toList] :=
  _root_.Fp.Header.i_selectType_fixpoint_counter 

theorem Select_Type_Stmt_fixpoint_counter2  :
    (planSelectType ("SELECT TYPE(".toList ++ "a=>c".toList ++ "=>".toList ++ "b".toList ++
      ")".toList)).bind (runSlots i_echoH) = .ok [.node "a".toList, .node "c=>b".toList] :=
  _root_.Fp.Header.i_selectType_fixpoint_counter2 

theorem Type_Guard_Stmt_match_tostr_fixpoint_1 (o : Oracle Node) (k : Str) (t : Node)
    (hk : i_isGuardKw k) (hrt : OracleRT o C.Type_Spec t)
    (hl : lstrip (o.str t) = o.str t) (hr : rstrip (o.str t) = o.str t) (h0 : o.str t ≠ []) :
    ∃ x, tostrTypeGuard o [.str k, .node t, .none] = .ok x ∧
      (planTypeGuard x).bind (runSlots o) = .ok [.str k, .node t, .none] :=
  _root_.Fp.Header.i_typeGuard_match_tostr_fixpoint_1 o k t hk hrt hl hr h0

theorem Type_Guard_Stmt_match_tostr_fixpoint_2 (o : Oracle Node) (k : Str) (t n : Node)
    (hk : i_isGuardKw k) (hrt : OracleRT o C.Type_Spec t) (hrn : OracleRT o C.Select_Construct_Name n)
    (hl : lstrip (o.str t) = o.str t) (hr : rstrip (o.str t) = o.str t) (h0 : o.str t ≠ [])
    (hN : ')' ∉ o.str n) (hNl : lstrip (o.str n) = o.str n) (hN0 : o.str n ≠ []) :
    ∃ x, tostrTypeGuard o [.str k, .node t, .node n] = .ok x ∧
      (planTypeGuard x).bind (runSlots o) = .ok [.str k, .node t, .node n] :=
  _root_.Fp.Header.i_typeGuard_match_tostr_fixpoint_2 o k t n hk hrt hrn hl hr h0 hN hNl hN0

theorem Type_Guard_Stmt_match_tostr_fixpoint_default (o : Oracle Node) :
    ∃ x, tostrTypeGuard o [.str "CLASS DEFAULT".toList, .none, .none] = .ok x ∧
      (planTypeGuard x).bind (runSlots o) = .ok [.str "CLASS DEFAULT".toList, .none, .none] :=
  _root_.Fp.Header.i_typeGuard_match_tostr_fixpoint_default o

theorem Type_Guard_Stmt_match_tostr_fixpoint_defaultN (o : Oracle Node) (n : Node)
    (hrn : OracleRT o C.Select_Construct_Name n)
    (hNl : lstrip (o.str n) = o.str n) (hN0 : o.str n ≠ []) :
    ∃ x, tostrTypeGuard o [.str "CLASS DEFAULT".toList, .none, .node n] = .ok x ∧
      (planTypeGuard x).bind (runSlots o) = .ok [.str "CLASS DEFAULT".toList, .none, .node n] :=
  _root_.Fp.Header.i_typeGuard_match_tostr_fixpoint_defaultN o n hrn hNl hN0

theorem Type_Guard_Stmt_fixpoint_counter  :
    (planTypeGuard ("TYPE IS".toList ++ " (".toList ++ "t".toList ++ ")".toList ++ " ".toList ++
      "n)".toList)).bind (runSlots i_echoH) = .ok [.str "TYPE IS".toList, .node "t) n".toList, .none] ∧
    (planTypeGuard ("TYPE IS".toList ++ " (".toList ++ "".toList ++ ")".toList)).bind
      (runSlots i_echoH) = .noMatch ∧
    (planTypeGuard ("CLASS DEFAULT".toList ++ " ".toList ++ "".toList)).bind (runSlots i_echoH) =
      .ok [.str "CLASS DEFAULT".toList, .none, .none] ∧
    (planTypeGuard ("TYPE IS".toList ++ " (".toList ++ " t".toList ++ ")".toList)).bind
      (runSlots i_echoH) = .ok [.str "TYPE IS".toList, .node "t".toList, .none] :=
  _root_.Fp.Header.i_typeGuard_fixpoint_counter 

theorem List_tostr_match_tokens (o : Oracle Node) (ho : OracleTok o) (elem : ClassId) (s : Str)
    (items : List (Item Node))
    (hm : (combiPlan (specList elem) s).bind (runSlots o) = .ok items) (hs : SrmOK s) :
    ∃ t, combiStr o (specList elem) items = .ok t ∧ toks t = toks s ∧
      ((∀ n, Item.node n ∈ items → net (o.str n) = 0) → net t = 0) :=
  _root_.Fp.Header.l_list_tostr_match_tokens o ho elem s items hm hs

theorem Associate_Stmt_tostr_match_tokens_partial (o : Oracle Node) (ho : OracleTok o) (s : Str)
    (items : List (Item Node))
    (hm : (combiPlan specAssociate s).bind (runSlots o) = .ok items)
    (hs : SrmOK s) (hend : CallEndOK s) :
    ∃ t, combiStr o specAssociate items = .ok t ∧ toks t = toks s ∧
      ((∀ n, Item.node n ∈ items → net (o.str n) = 0) → net t = 0) :=
  _root_.Fp.Header.l_associate_tostr_match_tokens_partial o ho s items hm hs hend

theorem PASS_Arg_Name_tostr_match_tokens_partial (o : Oracle Node) (ho : OracleTok o) (s : Str)
    (items : List (Item Node))
    (hm : (combiPlan specBindingPass s).bind (runSlots o) = .ok items)
    (hs : SrmOK s) (hend : CallEndOK s) :
    ∃ t, combiStr o specBindingPass items = .ok t ∧ toks t = toks s ∧
      ((∀ n, Item.node n ∈ items → net (o.str n) = 0) → net t = 0) :=
  _root_.Fp.Header.l_pass_tostr_match_tokens_partial o ho s items hm hs hend

theorem Subroutine_Stmt_tostr_match_tokens_partial (o : HOracle Node) (ho : OracleTok o.base)
    (s : Str) (items : List (Item Node)) (hm : matchSubroutine o s = .ok items) (hs : SrmOK s)
    (hc : p_HeadCutOK "SUBROUTINE".toList s = true) :
    ∃ t, tostrSubroutine o.base items = .ok t ∧
      (toks t = toks s ∨
        ∃ p n b t0, items = [p, n, .none, b] ∧
          tostrSubroutine o.base [p, n, .none, .none] = .ok t0 ∧
          toks t = toks t0 ++ toks (p_optText o.base b) ∧
          toks s = toks t0 ++ toks "()".toList ++ toks (p_optText o.base b)) ∧
      ((∀ i ∈ items, net (i.text o.base) = 0) → net t = 0) :=
  _root_.Fp.Header.Subroutine_Stmt_tostr_match_tokens_partial o ho s items hm hs hc

theorem Function_Stmt_tostr_match_tokens_partial (o : HOracle Node) (ho : OracleTok o.base)
    (s : Str) (items : List (Item Node)) (hm : matchFunction o s = .ok items) (hs : SrmOK s)
    (hc : p_HeadCutOK "FUNCTION".toList s = true) :
    ∃ t, tostrFunction o.base items = .ok t ∧ toks t = toks s ∧
      ((∀ i ∈ items, net (i.text o.base) = 0) → net t = 0) :=
  _root_.Fp.Header.Function_Stmt_tostr_match_tokens_partial o ho s items hm hs hc

theorem Entry_Stmt_tostr_match_tokens_partial (o : HOracle Node) (ho : OracleTok o.base)
    (s : Str) (items : List (Item Node))
    (hm : (planEntry s).bind (runSlots o.base) = .ok items) (hs : p_EntrySrmOK s) :
    ∃ t, tostrEntry o.base items = .ok t ∧
      ((Combi.cutFirst '(' (lstrip (s.drop 5)) = none → toks t = toks s ++ toks "()".toList) ∧
       (Combi.cutFirst '(' (lstrip (s.drop 5)) ≠ none → toks t = toks s)) ∧
      ((∀ i ∈ items, net (i.text o.base) = 0) → net t = 0) :=
  _root_.Fp.Header.Entry_Stmt_tostr_match_tokens_partial o ho s items hm hs

theorem c1242_rejects (o : HOracle Node) (s : Str) (p b : Node) (n d : Item Node)
    (h : (planSubroutine s).bind (runSlots o.base) = .ok [.node p, n, d, .node b])
    (he : o.elemental p = true) :
    matchSubroutine o s = .noMatch :=
  _root_.Fp.Header.c1242_rejects o s p b n d h he

theorem c1242_rejects_function (o : HOracle Node) (s : Str) (p sf : Node) (n d : Item Node)
    (h : (planFunction s).bind (runSlots o.base) = .ok [.node p, n, d, .node sf])
    (he : o.elemental p = true) (hb : o.binding sf = true) :
    matchFunction o s = .noMatch :=
  _root_.Fp.Header.c1242_rejects_function o s p sf n d h he hb

theorem c1242_only_then (o : HOracle Node) (s : Str) :
    (∀ items, (planSubroutine s).bind (runSlots o.base) = .ok items →
      (¬ ∃ p n d b, items = [.node p, n, d, .node b] ∧ o.elemental p = true) →
      matchSubroutine o s = .ok items) ∧
    ((planSubroutine s).bind (runSlots o.base) = .noMatch → matchSubroutine o s = .noMatch) ∧
    (∀ e, (planSubroutine s).bind (runSlots o.base) = .raises e →
      matchSubroutine o s = .raises e) :=
  _root_.Fp.Header.c1242_only_then o s

theorem c1242_only_then_function (o : HOracle Node) (s : Str) :
    (∀ items, (planFunction s).bind (runSlots o.base) = .ok items →
      (¬ ∃ p n d sf, items = [.node p, n, d, .node sf] ∧ o.elemental p = true ∧
        o.binding sf = true) →
      matchFunction o s = .ok items) ∧
    ((planFunction s).bind (runSlots o.base) = .noMatch → matchFunction o s = .noMatch) ∧
    (∀ e, (planFunction s).bind (runSlots o.base) = .raises e →
      matchFunction o s = .raises e) :=
  _root_.Fp.Header.c1242_only_then_function o s

theorem nameMatch_spec {line nm rest : Str} (h : nameMatch line = some (nm, rest)) :
    line = nm ++ rest ∧ (∀ c, rest.head? = some c → isWord c = false) :=
  _root_.Fp.Header.p_nameMatch_spec h

theorem witness_subroutine_parens_dropped  :
    matchSubroutine p_echoH "subroutine s()".toList = .ok [.none, .node "s".toList, .none, .none] ∧
    tostrSubroutine p_echoH.base [.none, .node "s".toList, .none, .none] = .ok "SUBROUTINE s".toList :=
  _root_.Fp.Header.p_witness_sub_parens_dropped 

theorem witness_subroutine_glued_prefix  :
    matchSubroutine p_echoH "puresubroutine s".toList =
      .ok [.node "pure".toList, .node "s".toList, .none, .none] ∧
    p_HeadCutOK "SUBROUTINE".toList "puresubroutine s".toList = false :=
  _root_.Fp.Header.p_witness_sub_glued_prefix 

theorem witness_subroutine_glued_name  :
    matchSubroutine p_echoH "subroutinefoo".toList = .ok [.none, .node "foo".toList, .none, .none] ∧
    p_HeadCutOK "SUBROUTINE".toList "subroutinefoo".toList = false :=
  _root_.Fp.Header.p_witness_sub_glued_name 

theorem witness_subroutine_key_leaks  :
    matchSubroutine p_echoH "subroutine 1.0e5".toList =
      .ok [.none, .node "F2PY_REAL_CONSTANT_1_".toList, .none, .none] ∧
    SrmOK "subroutine 1.0e5".toList ∧
    p_HeadCutOK "SUBROUTINE".toList "subroutine 1.0e5".toList = false ∧
    toks "SUBROUTINE F2PY_REAL_CONSTANT_1_".toList ≠ toks "subroutine 1.0e5".toList :=
  _root_.Fp.Header.p_witness_sub_key_leaks 

theorem witness_function_key_leaks  :
    matchFunction p_echoH "function 1.0e5()".toList =
      .ok [.none, .node "F2PY_REAL_CONSTANT_1_".toList, .none, .none] ∧
    SrmOK "function 1.0e5()".toList ∧
    p_HeadCutOK "FUNCTION".toList "function 1.0e5()".toList = false :=
  _root_.Fp.Header.p_witness_fun_key_leaks 

theorem witness_function_needs_parens  :
    matchFunction p_echoH "function f".toList = .noMatch ∧
    matchFunction p_echoH "function f()".toList = .ok [.none, .node "f".toList, .none, .none] ∧
    tostrFunction p_echoH.base [.none, .node "f".toList, .none, .none] = .ok "FUNCTION f()".toList :=
  _root_.Fp.Header.p_witness_fun_needs_parens 

theorem witness_entry_parens_invented  :
    (planEntry "entry e".toList).bind (runSlots p_echoH.base) = .ok [.node "e".toList, .none, .none] ∧
    tostrEntry p_echoH.base [.node "e".toList, .none, .none] = .ok "ENTRY e()".toList :=
  _root_.Fp.Header.p_witness_entry_parens_invented 

theorem witness_c1242  :
    matchSubroutine p_echoH "elemental subroutine s() bind(c)".toList = .noMatch ∧
    matchSubroutine p_echoH "pure subroutine s() bind(c)".toList =
      .ok [.node "pure".toList, .node "s".toList, .none, .node "bind(c)".toList] ∧
    matchFunction p_echoH "elemental function f() bind(c)".toList = .noMatch ∧
    matchFunction p_echoH "elemental function f() result(r)".toList =
      .ok [.node "elemental".toList, .node "f".toList, .none, .node "result(r)".toList] :=
  _root_.Fp.Header.p_witness_c1242 

theorem planSubroutine_total (s : Str) (e : Exc) (h : planSubroutine s = .raises e) :
    e = .keyError ∧ Combi.tokenise s = none :=
  _root_.Fp.Header.planSubroutine_total s e h

theorem planFunction_total (s : Str) (e : Exc) (h : planFunction s = .raises e) :
    e = .keyError ∧ Combi.tokenise s = none :=
  _root_.Fp.Header.planFunction_total s e h

theorem planEntry_total (s : Str) (e : Exc) :
    planEntry s ≠ .raises e :=
  _root_.Fp.Header.planEntry_total s e

theorem Subroutine_Stmt_total (o : HOracle Node) (hot : OracleTotal o.base) (s : Str) (e : Exc)
    (h : matchSubroutine o s = .raises e) :
    e = .keyError ∧ Combi.tokenise s = none :=
  _root_.Fp.Header.Subroutine_Stmt_total o hot s e h

theorem Function_Stmt_total (o : HOracle Node) (hot : OracleTotal o.base) (s : Str) (e : Exc)
    (h : matchFunction o s = .raises e) :
    e = .keyError ∧ Combi.tokenise s = none :=
  _root_.Fp.Header.Function_Stmt_total o hot s e h

theorem Entry_Stmt_total (o : Oracle Node) (hot : OracleTotal o) (s : Str) (e : Exc)
    (h : (planEntry s).bind (runSlots o) = .raises e) :
    e = .keyError ∧ ∃ pre post, Combi.cutFirst '(' (lstrip (s.drop 5)) = some (pre, post) ∧
      Combi.tokenise ('(' :: post) = none :=
  _root_.Fp.Header.Entry_Stmt_total o hot s e h

theorem Subroutine_Stmt_total_srmOK (o : HOracle Node) (hot : OracleTotal o.base) (s : Str)
    (hs : SrmOK s) (e : Exc) :
    matchSubroutine o s ≠ .raises e :=
  _root_.Fp.Header.Subroutine_Stmt_total_srmOK o hot s hs e

theorem Function_Stmt_total_srmOK (o : HOracle Node) (hot : OracleTotal o.base) (s : Str)
    (hs : SrmOK s) (e : Exc) :
    matchFunction o s ≠ .raises e :=
  _root_.Fp.Header.Function_Stmt_total_srmOK o hot s hs e

theorem Entry_Stmt_total_srmOK (o : Oracle Node) (hot : OracleTotal o) (s : Str)
    (hs : p_EntrySrmOK s) (e : Exc) :
    (planEntry s).bind (runSlots o) ≠ .raises e :=
  _root_.Fp.Header.Entry_Stmt_total_srmOK o hot s hs e

theorem Subroutine_Stmt_match_tostr_fixpoint (o : HOracle Node) (n : Node)
    (hrt : OracleRT o.base C.Subroutine_Name n) (hN : p_isNameB (o.base.str n) = true)
    (ht : TokId ("SUBROUTINE ".toList ++ o.base.str n)) :
    ∃ t, tostrSubroutine o.base [.none, .node n, .none, .none] = .ok t ∧
      matchSubroutine o t = .ok [.none, .node n, .none, .none] :=
  _root_.Fp.Header.Subroutine_Stmt_match_tostr_fixpoint o n hrt hN ht

theorem Subroutine_Stmt_match_tostr_fixpoint_args (o : HOracle Node) (n d : Node)
    (hrt : OracleRT o.base C.Subroutine_Name n) (hrd : OracleRT o.base C.Dummy_Arg_List d)
    (hN : p_isNameB (o.base.str n) = true)
    (hl : lstrip (o.base.str d) = o.base.str d) (hr : rstrip (o.base.str d) = o.base.str d)
    (hD0 : o.base.str d ≠ []) (hD : ')' ∉ o.base.str d)
    (ht : TokId ("SUBROUTINE ".toList ++ o.base.str n ++ "(".toList ++ o.base.str d ++ ")".toList)) :
    ∃ t, tostrSubroutine o.base [.none, .node n, .node d, .none] = .ok t ∧
      matchSubroutine o t = .ok [.none, .node n, .node d, .none] :=
  _root_.Fp.Header.Subroutine_Stmt_match_tostr_fixpoint_args o n d hrt hrd hN hl hr hD0 hD ht

theorem witness_fixpoint_name_needed  :
    tostrSubroutine p_echoH.base [.none, .node "s t".toList, .none, .none] = .ok "SUBROUTINE s t".toList ∧
    matchSubroutine p_echoH "SUBROUTINE s t".toList =
      .ok [.none, .node "s".toList, .none, .node "t".toList] :=
  _root_.Fp.Header.p_witness_fixpoint_name_needed 

theorem witness_fixpoint_paren_needed  :
    tostrSubroutine p_echoH.base [.none, .node "s".toList, .node "a)(b".toList, .none] =
      .ok "SUBROUTINE s(a)(b)".toList ∧
    matchSubroutine p_echoH "SUBROUTINE s(a)(b)".toList =
      .ok [.none, .node "s".toList, .node "a".toList, .node "(b)".toList] :=
  _root_.Fp.Header.p_witness_fixpoint_paren_needed 

theorem Header_matchOf_total (std : Std) (o : HOracle Node) (ht : OracleTotal o.base) (c : ClassId) (s : Str)
    (r : Res (List (Item Node))) (h : matchOf std o c s = some r) :
    ∀ e, r = .raises e → e = .keyError ∧ ∃ l, Combi.tokenise l = none :=
  _root_.Fp.Header.matchOf_total std o ht c s r h

theorem Header_matchOf_total_of_tokenise (htk : ∀ l, Combi.tokenise l ≠ none) (std : Std) (o : HOracle Node)
    (ht : OracleTotal o.base) (c : ClassId) (s : Str) (e : Exc) :
    matchOf std o c s ≠ some (.raises e) :=
  _root_.Fp.Header.matchOf_total_of_tokenise htk std o ht c s e

theorem Header_planOf_totalH (std : Std) (c : ClassId) (plan : Str → Res (List Slot)) (h : planOf std c = some plan) :
    PlanTotalH plan :=
  _root_.Fp.Header.planOf_totalH std c plan h

theorem Header_planOf_slotsTotal (std : Std) (c : ClassId) (plan : Str → Res (List Slot)) (h : planOf std c = some plan)
    (s : Str) (slots : List Slot) (hs : plan s = .ok slots) :
    SlotsTotal slots :=
  _root_.Fp.Header.planOf_slotsTotal std c plan h s slots hs

theorem Header_runSlots_total {o : Oracle Node} (ho : OracleTotal o) {slots : List Slot} (hs : SlotsTotal slots) {e : Exc}
    (h : runSlots o slots = .raises e) :
    z_KE e :=
  _root_.Fp.Header.runSlots_total ho hs h

theorem Submodule_Stmt_IndexError_unreachable {t : Str} {x par y : Str} (h : splitparenPieces t = [x, par, y]) :
    par ≠ [] :=
  _root_.Fp.Header.z_splitparen_mid h

theorem Submodule_Stmt_plan_total  :
    z_PlanTotal planSubmodule :=
  _root_.Fp.Header.z_planSubmodule_total 

theorem Block_Stmt_plan_total  :
    z_PlanTotal planBlockStmt :=
  _root_.Fp.Header.z_planBlockStmt_total 

theorem Entry_Stmt_plan_total  :
    z_PlanTotal planEntry :=
  _root_.Fp.Header.z_planEntry_total 

theorem Proc_Component_Def_Stmt_match_total (o : HOracle Node) (ho : OracleTotal o.base) (s : Str) (e : Exc)
    (h : matchProcComponentDef o s = .raises e) :
    z_KE e :=
  _root_.Fp.Header.z_matchProcComponentDef_total o ho s e h

theorem Subroutine_Stmt_match_total (o : HOracle Node) (ho : OracleTotal o.base) (s : Str) (e : Exc)
    (h : matchSubroutine o s = .raises e) :
    z_KE e :=
  _root_.Fp.Header.z_matchSubroutine_total o ho s e h

theorem Function_Stmt_match_total (o : HOracle Node) (ho : OracleTotal o.base) (s : Str) (e : Exc)
    (h : matchFunction o s = .raises e) :
    z_KE e :=
  _root_.Fp.Header.z_matchFunction_total o ho s e h

theorem Proc_Decl_match_total (std : Std) (o : Oracle Node) (ho : OracleTotal o) (s : Str) (e : Exc)
    (h : matchProcDecl std o s = .raises e) :
    z_KE e :=
  _root_.Fp.Header.z_matchProcDecl_total std o ho s e h

theorem Header_combiPlan_total (c : ClassId) (sp : Combi.Spec) (h : specOf c = some sp) :
    z_PlanTotal (combiPlan sp) :=
  _root_.Fp.Header.z_combiPlan_specOf_total c sp h

theorem Block_Data_Stmt_tostr_total_on_matched (o : Oracle Node) (s : Str) (items : List (Item Node))
    (h : (planBlockData s).bind (runSlots o) = .ok items) :
    ∃ t, tostrBlockData o items = .ok t :=
  _root_.Fp.Header.BlockData_tostr_total_on_matched o s items h

theorem Suffix_tostr_total_on_matched (o : Oracle Node) (s : Str) (items : List (Item Node))
    (h : (planSuffix s).bind (runSlots o) = .ok items) :
    ∃ t, tostrSuffix o items = .ok t :=
  _root_.Fp.Header.Suffix_tostr_total_on_matched o s items h

theorem Language_Binding_Spec_tostr_total_on_matched (o : Oracle Node) (s : Str) (items : List (Item Node))
    (h : (planLanguageBinding s).bind (runSlots o) = .ok items) :
    ∃ t, tostrLanguageBinding o items = .ok t :=
  _root_.Fp.Header.LanguageBinding_tostr_total_on_matched o s items h

theorem Entry_Stmt_tostr_total_on_matched (o : Oracle Node) (s : Str) (items : List (Item Node))
    (h : (planEntry s).bind (runSlots o) = .ok items) :
    ∃ t, tostrEntry o items = .ok t :=
  _root_.Fp.Header.Entry_tostr_total_on_matched o s items h

theorem Submodule_Stmt_tostr_total_on_matched (o : Oracle Node) (s : Str) (items : List (Item Node))
    (h : (planSubmodule s).bind (runSlots o) = .ok items) :
    ∃ t, tostrSubmodule o items = .ok t :=
  _root_.Fp.Header.Submodule_tostr_total_on_matched o s items h

theorem Parent_Identifier_tostr_total_on_matched (o : Oracle Node) (s : Str) (items : List (Item Node))
    (h : (planParentIdentifier s).bind (runSlots o) = .ok items) :
    ∃ t, tostrParentIdentifier o items = .ok t :=
  _root_.Fp.Header.ParentIdentifier_tostr_total_on_matched o s items h

theorem Interface_Stmt_tostr_total_on_matched (o : Oracle Node) (s : Str) (items : List (Item Node))
    (h : (planInterface s).bind (runSlots o) = .ok items) :
    ∃ t, tostrInterface o items = .ok t :=
  _root_.Fp.Header.Interface_tostr_total_on_matched o s items h

theorem Generic_Spec_tostr_total_on_matched (o : Oracle Node) (s : Str) (items : List (Item Node))
    (h : (planGenericSpec s).bind (runSlots o) = .ok items) :
    ∃ t, tostrCallLike o items = .ok t :=
  _root_.Fp.Header.GenericSpec_tostr_total_on_matched o s items h

theorem Type_Attr_Spec_tostr_total_on_matched (o : Oracle Node) (s : Str) (items : List (Item Node))
    (h : (planTypeAttrSpec s).bind (runSlots o) = .ok items) :
    ∃ t, tostrAttrSpec o items = .ok t :=
  _root_.Fp.Header.TypeAttrSpec_tostr_total_on_matched o s items h

theorem Proc_Attr_Spec_tostr_total_on_matched (o : Oracle Node) (s : Str) (items : List (Item Node))
    (h : (planProcAttrSpec s).bind (runSlots o) = .ok items) :
    ∃ t, tostrAttrSpec o items = .ok t :=
  _root_.Fp.Header.ProcAttrSpec_tostr_total_on_matched o s items h

theorem Generic_Binding_tostr_total_on_matched (o : Oracle Node) (s : Str) (items : List (Item Node))
    (h : (planGenericBinding s).bind (runSlots o) = .ok items) :
    ∃ t, tostrGenericBinding o items = .ok t :=
  _root_.Fp.Header.GenericBinding_tostr_total_on_matched o s items h

theorem Procedure_Declaration_Stmt_tostr_total_on_matched (o : Oracle Node) (s : Str) (items : List (Item Node))
    (h : (planProcedureDeclaration s).bind (runSlots o) = .ok items) :
    ∃ t, tostrProcedureDeclaration o items = .ok t :=
  _root_.Fp.Header.ProcedureDeclaration_tostr_total_on_matched o s items h

theorem Select_Type_Stmt_tostr_total_on_matched (o : Oracle Node) (s : Str) (items : List (Item Node))
    (h : (planSelectType s).bind (runSlots o) = .ok items) :
    ∃ t, tostrSelectType o items = .ok t :=
  _root_.Fp.Header.SelectType_tostr_total_on_matched o s items h

theorem Type_Guard_Stmt_tostr_total_on_matched (o : Oracle Node) (s : Str) (items : List (Item Node))
    (h : (planTypeGuard s).bind (runSlots o) = .ok items) :
    ∃ t, tostrTypeGuard o items = .ok t :=
  _root_.Fp.Header.TypeGuard_tostr_total_on_matched o s items h

theorem Else_Stmt_tostr_total_on_matched (o : Oracle Node) (s : Str) (items : List (Item Node))
    (h : (planElse s).bind (runSlots o) = .ok items) :
    ∃ t, tostrElse o items = .ok t :=
  _root_.Fp.Header.Else_tostr_total_on_matched o s items h

theorem Masked_Elsewhere_Stmt_tostr_total_on_matched (o : Oracle Node) (s : Str) (items : List (Item Node))
    (h : (planMaskedElsewhere s).bind (runSlots o) = .ok items) :
    ∃ t, tostrMaskedElsewhere o items = .ok t :=
  _root_.Fp.Header.MaskedElsewhere_tostr_total_on_matched o s items h

theorem Prefix_Spec_tostr_total_on_matched (o : Oracle Node) (s : Str) (items : List (Item Node))
    (h : (planPrefixSpec s).bind (runSlots o) = .ok items) :
    ∃ t, tostrString o items = .ok t :=
  _root_.Fp.Header.PrefixSpec_tostr_total_on_matched o s items h

theorem Extended_Intrinsic_Op_tostr_total_on_matched (o : Oracle Node) (s : Str) (items : List (Item Node))
    (h : (planExtendedIntrinsicOp s).bind (runSlots o) = .ok items) :
    ∃ t, tostrString o items = .ok t :=
  _root_.Fp.Header.ExtendedIntrinsicOp_tostr_total_on_matched o s items h

theorem Enum_Def_Stmt_tostr_total_on_matched (o : Oracle Node) (s : Str) (items : List (Item Node))
    (h : (planEnumDef s).bind (runSlots o) = .ok items) :
    ∃ t, tostrString o items = .ok t :=
  _root_.Fp.Header.EnumDef_tostr_total_on_matched o s items h

theorem Derived_Type_Stmt_tostr_match_tokens (o : Oracle Node) (ho : OracleTok o) (s : Str)
    (items : List (Item Node)) (hm : (planDerivedType s).bind (runSlots o) = .ok items) :
    ∃ t, tostrDerivedType o items = .ok t ∧
      toks t = (if DtColons s then toks s
                else toks "TYPE".toList ++ (toks "::".toList ++ (toks s).drop 4)) ∧
      ((∀ i ∈ items, net (i.text o) = 0) → net t = 0) :=
  _root_.Fp.Header.Derived_Type_Stmt_tostr_match_tokens o ho s items hm

theorem Derived_Type_Stmt_glued_witness  :
    (planDerivedType "typet".toList).bind (runSlots t_echoH)
      = .ok [.none, .node "t".toList, .none] ∧
    tostrDerivedType t_echoH [.none, .node "t".toList, .none] = .ok "TYPE :: t".toList ∧
    DtColons "typet".toList = false :=
  _root_.Fp.Header.Derived_Type_Stmt_glued_witness 

theorem Generic_Binding_exact (o : Oracle Node) (ho : OracleTok o) (s : Str)
    (items : List (Item Node)) (hm : (planGenericBinding s).bind (runSlots o) = .ok items) :
    ∃ t, tostrGenericBinding o items = .ok t ∧
      (∃ a p b : Str, toks s = a ++ (toks p ++ b) ∧ toks t = a ++ b ∧
        (GbPrefixOK s = true → toks p = [])) ∧
      ((∀ i ∈ items, net (i.text o) = 0) → net t = 0) :=
  _root_.Fp.Header.Generic_Binding_exact o ho s items hm

theorem Generic_Binding_tostr_match_tokens_partial (o : Oracle Node) (ho : OracleTok o) (s : Str)
    (items : List (Item Node)) (hm : (planGenericBinding s).bind (runSlots o) = .ok items)
    (hok : GbOK s = true) :
    ∃ t, tostrGenericBinding o items = .ok t ∧ toks t = toks s ∧
      ((∀ i ∈ items, net (i.text o) = 0) → net t = 0) :=
  _root_.Fp.Header.Generic_Binding_tostr_match_tokens_partial o ho s items hm hok

theorem Generic_Binding_arrow_regression  :
    (planGenericBinding "generic :: a =>xb".toList).bind (runSlots t_echoH)
      = .ok [.none, .node "a".toList, .node "xb".toList] ∧
    tostrGenericBinding t_echoH [.none, .node "a".toList, .node "xb".toList]
      = .ok "GENERIC :: a => xb".toList ∧
    toks "GENERIC :: a => xb".toList = toks "generic :: a =>xb".toList ∧
    (planGenericBinding "generic :: a=>b".toList).bind (runSlots t_echoH)
      = .ok [.none, .node "a".toList, .node "b".toList] ∧
    planGenericBinding "generic::a=>b".toList
      = .ok [.none, .child C.Generic_Spec "a".toList, .child C.Binding_Name_List "b".toList] ∧
    GbOK "generic :: a =>xb".toList = true ∧ GbOK "generic::a=>b".toList = true :=
  _root_.Fp.Header.Generic_Binding_arrow_regression 

theorem Generic_Binding_drops_prefix  :
    (planGenericBinding "generic xyz :: a => b".toList).bind (runSlots t_echoH)
      = .ok [.none, .node "a".toList, .node "b".toList] ∧
    tostrGenericBinding t_echoH [.none, .node "a".toList, .node "b".toList]
      = .ok "GENERIC :: a => b".toList ∧
    toks "GENERIC :: a => b".toList ≠ toks "generic xyz :: a => b".toList ∧
    GbPrefixOK "generic xyz :: a => b".toList = false ∧
    (planGenericBinding "genericxyz :: a => b".toList).bind (runSlots t_echoH)
      = .ok [.none, .node "a".toList, .node "b".toList] :=
  _root_.Fp.Header.Generic_Binding_drops_prefix 

theorem Specific_Binding_tostr_match_tokens (o : Oracle Node) (ho : OracleTok o) (s : Str)
    (items : List (Item Node))
    (hm : ((planSpecificBinding s).bind (runSlots o)).map arrangeSpecificBinding = .ok items) :
    ∃ t, tostrSpecificBinding o items = .ok t ∧ toks t = toks s ∧
      ((∀ i ∈ items, net (i.text o) = 0) → net t = 0) :=
  _root_.Fp.Header.Specific_Binding_tostr_match_tokens o ho s items hm

theorem wordA_tostr_match_tokens (o : Oracle Node) (ho : OracleTok o) (kw : Str)
    (c : ClassId) (req : Bool) (s : Str) (items : List (Item Node)) (hk : net kw = 0)
    (hm : (combiPlan (.word [kw] false (some c) true req true) s).bind (runSlots o) = .ok items) :
    ∃ t, combiStr o (.word [kw] false (some c) true req true) items = .ok t ∧
      toks s = toks kw ++ toks (t_waRest kw s) ∧
      toks t = (if WaPlain kw s then toks s
                else toks kw ++ (toks "::".toList ++ toks (t_waRest kw s))) ∧
      ((∀ i ∈ items, net (i.text o) = 0) → net t = 0) :=
  _root_.Fp.Header.wordA_tostr_match_tokens o ho kw c req s items hk hm

theorem Final_Binding_tostr_match_tokens (o : Oracle Node) (ho : OracleTok o) (s : Str)
    (items : List (Item Node)) (hm : (combiPlan specFinalBinding s).bind (runSlots o) = .ok items) :
    ∃ t, combiStr o specFinalBinding items = .ok t ∧
      toks t = (if WaPlain "FINAL".toList s then toks s
                else toks "FINAL".toList ++ (toks "::".toList ++ toks (t_waRest "FINAL".toList s))) ∧
      ((∀ i ∈ items, net (i.text o) = 0) → net t = 0) :=
  _root_.Fp.Header.Final_Binding_tostr_match_tokens o ho s items hm

theorem Import_Stmt_tostr_match_tokens (o : Oracle Node) (ho : OracleTok o) (s : Str)
    (items : List (Item Node)) (hm : (combiPlan specImport s).bind (runSlots o) = .ok items) :
    ∃ t, combiStr o specImport items = .ok t ∧
      toks t = (if WaPlain "IMPORT".toList s then toks s
                else toks "IMPORT".toList ++ (toks "::".toList ++ toks (t_waRest "IMPORT".toList s))) ∧
      ((∀ i ∈ items, net (i.text o) = 0) → net t = 0) :=
  _root_.Fp.Header.Import_Stmt_tostr_match_tokens o ho s items hm

theorem Enumerator_Def_Stmt_tostr_match_tokens (o : Oracle Node) (ho : OracleTok o) (s : Str)
    (items : List (Item Node)) (hm : (combiPlan specEnumerator s).bind (runSlots o) = .ok items) :
    ∃ t, combiStr o specEnumerator items = .ok t ∧
      toks t = (if WaPlain "ENUMERATOR".toList s then toks s
                else toks "ENUMERATOR".toList ++
                  (toks "::".toList ++ toks (t_waRest "ENUMERATOR".toList s))) ∧
      ((∀ i ∈ items, net (i.text o) = 0) → net t = 0) :=
  _root_.Fp.Header.Enumerator_Def_Stmt_tostr_match_tokens o ho s items hm

theorem wordA_witness  :
    (combiPlan specFinalBinding "final f".toList).bind (runSlots t_echoH)
      = .ok [.str "FINAL".toList, .node "f".toList] ∧
    combiStr t_echoH specFinalBinding [.str "FINAL".toList, .node "f".toList] = .ok "FINAL :: f".toList ∧
    WaPlain "FINAL".toList "final f".toList = false ∧
    (combiPlan specImport "import".toList).bind (runSlots t_echoH)
      = .ok [.str "IMPORT".toList, .none] ∧
    WaPlain "IMPORT".toList "import".toList = true ∧
    (combiPlan specImport "import :: a".toList).bind (runSlots t_echoH)
      = .ok [.str "IMPORT".toList, .node "a".toList] ∧
    WaPlain "IMPORT".toList "import :: a".toList = true :=
  _root_.Fp.Header.wordA_witness 

theorem binaryArrow_tostr_match_tokens_partial (o : Oracle Node) (ho : OracleTok o) (lhsC rhsC : ClassId)
    (s : Str) (items : List (Item Node))
    (hm : ((planBinaryArrow lhsC rhsC s).bind (runSlots o)).map List.reverse = .ok items)
    (hs : SrmOK s) :
    ∃ t, tostrBinary o items = .ok t ∧ toks t = toks s ∧
      ((∀ i ∈ items, net (i.text o) = 0) → net t = 0) :=
  _root_.Fp.Header.binaryArrow_tostr_match_tokens_partial o ho lhsC rhsC s items hm hs

theorem Association_tostr_match_tokens_partial (o : Oracle Node) (ho : OracleTok o)
    (s : Str) (items : List (Item Node))
    (hm : ((planBinaryArrow C.Associate_Name C.Selector s).bind (runSlots o)).map List.reverse = .ok items)
    (hs : SrmOK s) :
    ∃ t, tostrBinary o items = .ok t ∧ toks t = toks s ∧
      ((∀ i ∈ items, net (i.text o) = 0) → net t = 0) :=
  _root_.Fp.Header.Association_tostr_match_tokens_partial o ho s items hm hs

theorem Proc_Decl_tostr_match_tokens_partial (std : Std) (o : Oracle Node) (ho : OracleTok o)
    (s : Str) (items : List (Item Node)) (hm : matchProcDecl std o s = .ok items) (hs : SrmOK s) :
    ∃ t, tostrBinary o items = .ok t ∧ toks t = toks s ∧
      ((∀ i ∈ items, net (i.text o) = 0) → net t = 0) :=
  _root_.Fp.Header.Proc_Decl_tostr_match_tokens_partial std o ho s items hm hs

theorem planDerivedType_total  :
    PlanTotal planDerivedType :=
  _root_.Fp.Header.planDerivedType_total 

theorem planGenericBinding_total  :
    PlanTotal planGenericBinding :=
  _root_.Fp.Header.planGenericBinding_total 

theorem planSpecificBinding_total  :
    PlanTotal planSpecificBinding :=
  _root_.Fp.Header.planSpecificBinding_total 

theorem planProcedureDeclaration_total  :
    PlanTotal planProcedureDeclaration :=
  _root_.Fp.Header.planProcedureDeclaration_total 

theorem planProcComponentDef_total  :
    PlanTotal planProcComponentDef :=
  _root_.Fp.Header.planProcComponentDef_total 

theorem planBinaryArrow_total (a b : ClassId) :
    PlanTotal (planBinaryArrow a b) :=
  _root_.Fp.Header.planBinaryArrow_total a b

theorem Block_Data_Stmt_tostr_match_tokens (o : Oracle Node) (ho : OracleTok o) (s : Str)
    (items : List (Item Node)) (hm : (planBlockData s).bind (runSlots o) = .ok items) :
    ∃ t, tostrBlockData o items = .ok t ∧ toks t = toks s ∧
      ((∀ i ∈ items, net (i.text o) = 0) → net t = 0) :=
  _root_.Fp.Header.u_blockData_tostr_match_tokens o ho s items hm

theorem Block_Data_Stmt_glued_witness  :
    (planBlockData "blockdatax".toList).bind (runSlots u_echoH) = .ok [.node "x".toList] ∧
    tostrBlockData u_echoH [.node "x".toList] = .ok "BLOCK DATA x".toList :=
  _root_.Fp.Header.u_blockData_glued_witness 

theorem Language_Binding_Spec_tostr_match_tokens (o : Oracle Node) (ho : OracleTok o) (s : Str)
    (items : List (Item Node)) (hm : (planLanguageBinding s).bind (runSlots o) = .ok items) :
    ∃ t, tostrLanguageBinding o items = .ok t ∧ toks t = toks s ∧
      ((∀ i ∈ items, net (i.text o) = 0) → net t = 0) :=
  _root_.Fp.Header.u_languageBinding_tostr_match_tokens o ho s items hm

theorem Suffix_tostr_match_tokens (o : Oracle Node) (ho : OracleTok o) (s : Str)
    (items : List (Item Node)) (hk : kwIs "RESULT".toList s = true)
    (hm : (planSuffix s).bind (runSlots o) = .ok items) :
    ∃ t, tostrSuffix o items = .ok t ∧ toks t = toks s ∧
      ((∀ i ∈ items, net (i.text o) = 0) → net t = 0) :=
  _root_.Fp.Header.u_suffix_tostr_match_tokens_partial o ho s items hk hm

theorem Suffix_tostr_match_reorder (o : Oracle Node) (ho : OracleTok o) (s : Str)
    (items : List (Item Node)) (hk : kwIs "RESULT".toList s = false)
    (hm : (planSuffix s).bind (runSlots o) = .ok items) :
    ∃ t a b, tostrSuffix o items = .ok t ∧ toks s = a ++ b ∧ toks t = b ++ a ∧
      (∃ x y, items = [x, .node y] ∧ a = toks (o.str y)) ∧
      ((∀ i ∈ items, net (i.text o) = 0) → net t = 0) :=
  _root_.Fp.Header.u_suffix_tostr_match_reorder o ho s items hk hm

theorem Suffix_tostr_match_perm (o : Oracle Node) (ho : OracleTok o) (s : Str)
    (items : List (Item Node)) (hm : (planSuffix s).bind (runSlots o) = .ok items) :
    ∃ t, tostrSuffix o items = .ok t ∧ (toks t).Perm (toks s) ∧
      ((∀ i ∈ items, net (i.text o) = 0) → net t = 0) :=
  _root_.Fp.Header.u_suffix_tostr_match_perm o ho s items hm

theorem Suffix_reorders_witness  :
    (planSuffix "bind(c) result(r)".toList).bind (runSlots u_echoH)
      = .ok [.node "r".toList, .node "bind(c)".toList] ∧
    tostrSuffix u_echoH [.node "r".toList, .node "bind(c)".toList] = .ok "RESULT(r) bind(c)".toList ∧
    toks "RESULT(r) bind(c)".toList ≠ toks "bind(c) result(r)".toList :=
  _root_.Fp.Header.u_suffix_reorders_witness 

theorem Suffix_core (o : Oracle Node) (ho : OracleTok o) (s : Str)
    (items : List (Item Node)) (hm : (planSuffix s).bind (runSlots o) = .ok items) :
    ∃ t a b, tostrSuffix o items = .ok t ∧
      ((kwIs "RESULT".toList s = true ∧ toks s = b ++ a) ∨
       (kwIs "RESULT".toList s = false ∧ toks s = a ++ b ∧
          ∃ x y, items = [x, .node y] ∧ a = toks (o.str y))) ∧
      toks t = b ++ a ∧
      ((∀ i ∈ items, net (i.text o) = 0) → net t = 0) :=
  _root_.Fp.Header.u_suffix_core o ho s items hm

theorem splitWs_join_tokens (s : Str) :
    toks (Combi.joinStr [' '] (splitWs s)) = toks s :=
  _root_.Fp.Header.u_toks_join_splitWs s

theorem Prefix_tostr_match_tokens (o : Oracle Node) (ho : OracleTok o) (s : Str)
    (items : List (Item Node))
    (hm : ((planPrefix s).bind (runSlots o)).map (arrangePrefix s) = .ok items) :
    ∃ t, tostrPrefix o items = .ok t ∧ toks t = toks s ∧
      ((∀ i ∈ items, net (i.text o) = 0) → net t = 0) :=
  _root_.Fp.Header.u_prefix_tostr_match_tokens o ho s items hm

theorem Prefix_rejects (o : Oracle Node) (hto : OracleTotal o) (s : Str)
    (h : hasDup (u_prefixKws s) = true ∨
      ((u_prefixKws s).contains "ELEMENTAL".toList && (u_prefixKws s).contains "RECURSIVE".toList) = true) :
    (planPrefix s).bind (runSlots o) = .noMatch :=
  _root_.Fp.Header.u_prefix_rejects o hto s h

theorem Prefix_keywords_exact (w : Str) :
    isPrefixKw w = true ↔ upper w ∈ ["ELEMENTAL".toList, "IMPURE".toList, "MODULE".toList,
      "PURE".toList, "RECURSIVE".toList] :=
  _root_.Fp.Header.u_prefix_keywords_exact w

theorem Prefix_Spec_tostr_match_tokens (o : Oracle Node) (_ho : OracleTok o) (s : Str)
    (items : List (Item Node)) (hm : (planPrefixSpec s).bind (runSlots o) = .ok items) :
    ∃ t, tostrString o items = .ok t ∧ toks t = toks s ∧
      ((∀ i ∈ items, net (i.text o) = 0) → net t = 0) :=
  _root_.Fp.Header.u_prefixSpec_tostr_match_tokens o _ho s items hm

theorem planPrefixSpec_iff (s : Str) :
    planPrefixSpec s = .ok [.str (upper s)] ↔ isPrefixKw s = true :=
  _root_.Fp.Header.u_planPrefixSpec_iff s

theorem Dummy_Arg_tostr_match_tokens (o : Oracle Node) (_ho : OracleTok o) (s : Str)
    (items : List (Item Node))
    (hm : (if s == ['*'] then Res.ok [Slot.str s] else .noMatch).bind (runSlots o) = .ok items) :
    ∃ t, tostrString o items = .ok t ∧ toks t = toks s ∧
      ((∀ i ∈ items, net (i.text o) = 0) → net t = 0) :=
  _root_.Fp.Header.u_dummyArg_tostr_match_tokens o _ho s items hm

theorem planKeyword_iff (kw s : Str) :
    planKeyword kw s = .ok [.str kw] ↔ upper s = kw :=
  _root_.Fp.Header.u_planKeyword_iff kw s

theorem planKeyword_noMatch (kw s : Str) (h : upper s ≠ kw) :
    planKeyword kw s = .noMatch :=
  _root_.Fp.Header.u_planKeyword_noMatch kw s h

theorem Keyword_Stmt_tostr_match_tokens (o : Oracle Node) (_ho : OracleTok o) (kw s : Str)
    (items : List (Item Node)) (hm : (planKeyword kw s).bind (runSlots o) = .ok items) :
    ∃ t, tostrString o items = .ok t ∧ toks t = toks s ∧
      ((∀ i ∈ items, net (i.text o) = 0) → net t = 0) :=
  _root_.Fp.Header.u_keyword_tostr_match_tokens o _ho kw s items hm

theorem planKeywords_iff (kws : List String) (s : Str) :
    planKeywords kws s = .ok [.str (upper s)] ↔ ∃ k ∈ kws, k.toList = upper s :=
  _root_.Fp.Header.u_planKeywords_iff kws s

theorem Keywords_tostr_match_tokens (o : Oracle Node) (_ho : OracleTok o) (kws : List String) (s : Str)
    (items : List (Item Node)) (hm : (planKeywords kws s).bind (runSlots o) = .ok items) :
    ∃ t, tostrString o items = .ok t ∧ toks t = toks s ∧
      ((∀ i ∈ items, net (i.text o) = 0) → net t = 0) :=
  _root_.Fp.Header.u_keywords_tostr_match_tokens o _ho kws s items hm

theorem Enum_Def_Stmt_tostr_match_tokens (o : Oracle Node) (_ho : OracleTok o) (s : Str)
    (items : List (Item Node)) (hm : (planEnumDef s).bind (runSlots o) = .ok items) :
    ∃ t, tostrString o items = .ok t ∧ toks t = toks s ∧
      ((∀ i ∈ items, net (i.text o) = 0) → net t = 0) :=
  _root_.Fp.Header.u_enumDef_tostr_match_tokens o _ho s items hm

theorem Program_Stmt_tostr_match_tokens (o : Oracle Node) (ho : OracleTok o) (s : Str)
    (items : List (Item Node)) (hm : (combiPlan specProgram s).bind (runSlots o) = .ok items) :
    ∃ t, combiStr o specProgram items = .ok t ∧ toks t = toks s ∧
      ((∀ i ∈ items, net (i.text o) = 0) → net t = 0) :=
  _root_.Fp.Header.u_program_tostr_match_tokens o ho s items hm

theorem Module_Stmt_tostr_match_tokens (o : Oracle Node) (ho : OracleTok o) (s : Str)
    (items : List (Item Node)) (hm : (combiPlan specModule s).bind (runSlots o) = .ok items) :
    ∃ t, combiStr o specModule items = .ok t ∧ toks t = toks s ∧
      ((∀ i ∈ items, net (i.text o) = 0) → net t = 0) :=
  _root_.Fp.Header.u_module_tostr_match_tokens o ho s items hm

theorem Block_Stmt_tostr_match_tokens (o : Oracle Node) (s : Str)
    (items : List (Item Node)) (hm : (planBlockStmt s).bind (runSlots o) = .ok items) :
    items = [.str "BLOCK".toList, .str "block:".toList] ∧
    tostrOf .f2008 o C.Block_Stmt items = some (.ok "BLOCK".toList) ∧
    toks "BLOCK".toList = toks s ∧ net "BLOCK".toList = 0 :=
  _root_.Fp.Header.u_blockStmt_tostr_match_tokens o s items hm

theorem Critical_Stmt_tostr_match_tokens (o : Oracle Node) (s : Str)
    (items : List (Item Node)) (hm : (combiPlan specCriticalWord s).bind (runSlots o) = .ok items) :
    items = [.str "CRITICAL".toList, .none] ∧
    tostrOf .f2008 o C.Critical_Stmt items = some (.ok "CRITICAL".toList) ∧
    toks "CRITICAL".toList = toks s ∧ net "CRITICAL".toList = 0 :=
  _root_.Fp.Header.u_criticalStmt_tostr_match_tokens o s items hm

theorem planBlockData_total (s : Str) (e : Exc) :
    planBlockData s ≠ .raises e :=
  _root_.Fp.Header.u_planBlockData_total s e

theorem planLanguageBinding_total (s : Str) (e : Exc) :
    planLanguageBinding s ≠ .raises e :=
  _root_.Fp.Header.u_planLanguageBinding_total s e

theorem planSuffix_total (s : Str) (e : Exc) :
    planSuffix s ≠ .raises e :=
  _root_.Fp.Header.u_planSuffix_total s e

theorem planPrefix_total (s : Str) (e : Exc) :
    planPrefix s ≠ .raises e :=
  _root_.Fp.Header.u_planPrefix_total s e

theorem planPrefixSpec_total (s : Str) (e : Exc) :
    planPrefixSpec s ≠ .raises e :=
  _root_.Fp.Header.u_planPrefixSpec_total s e

theorem planDummyArg_total (s : Str) (e : Exc) :
    (if s == ['*'] then Res.ok [Slot.str s] else .noMatch) ≠ .raises e :=
  _root_.Fp.Header.u_planDummyArg_total s e

theorem planKeyword_total (kw s : Str) (e : Exc) :
    planKeyword kw s ≠ .raises e :=
  _root_.Fp.Header.u_planKeyword_total kw s e

theorem planKeywords_total (kws : List String) (s : Str) (e : Exc) :
    planKeywords kws s ≠ .raises e :=
  _root_.Fp.Header.u_planKeywords_total kws s e

theorem planEnumDef_total (s : Str) (e : Exc) :
    planEnumDef s ≠ .raises e :=
  _root_.Fp.Header.u_planEnumDef_total s e

theorem planProgram_total (s : Str) (e : Exc) :
    combiPlan specProgram s ≠ .raises e :=
  _root_.Fp.Header.u_planProgram_total s e

theorem planModule_total (s : Str) (e : Exc) :
    combiPlan specModule s ≠ .raises e :=
  _root_.Fp.Header.u_planModule_total s e

theorem planCritical_total (s : Str) (e : Exc) :
    combiPlan specCriticalWord s ≠ .raises e :=
  _root_.Fp.Header.u_planCritical_total s e

theorem planBlockStmt_total (s : Str) (e : Exc) :
    planBlockStmt s ≠ .raises e :=
  _root_.Fp.Header.u_planBlockStmt_total s e

theorem Block_Data_Stmt_match_tostr_fixpoint_0 (o : Oracle Node) :
    ∃ t, tostrBlockData o [.none] = .ok t ∧ (planBlockData t).bind (runSlots o) = .ok [.none] :=
  _root_.Fp.Header.u_blockData_match_tostr_fixpoint_0 o

theorem Block_Data_Stmt_match_tostr_fixpoint (o : Oracle Node) (a : Node)
    (hrt : OracleRT o C.Block_Data_Name a)
    (hl : lstrip (o.str a) = o.str a) (hne : o.str a ≠ []) :
    ∃ t, tostrBlockData o [.node a] = .ok t ∧ (planBlockData t).bind (runSlots o) = .ok [.node a] :=
  _root_.Fp.Header.u_blockData_match_tostr_fixpoint o a hrt hl hne

theorem Block_Data_Stmt_fixpoint_needs_lstrip  :
    tostrBlockData u_echoH [.node " x".toList] = .ok "BLOCK DATA  x".toList ∧
    (planBlockData "BLOCK DATA  x".toList).bind (runSlots u_echoH) = .ok [.node "x".toList] :=
  _root_.Fp.Header.u_blockData_fixpoint_needs_lstrip 

theorem Block_Data_Stmt_fixpoint_needs_nonempty  :
    tostrBlockData u_echoH [.node "".toList] = .ok "BLOCK DATA ".toList ∧
    (planBlockData "BLOCK DATA ".toList).bind (runSlots u_echoH) = .ok [.none] :=
  _root_.Fp.Header.u_blockData_fixpoint_needs_nonempty 

theorem Language_Binding_Spec_match_tostr_fixpoint_0 (o : Oracle Node) :
    ∃ t, tostrLanguageBinding o [.none] = .ok t ∧
      (planLanguageBinding t).bind (runSlots o) = .ok [.none] :=
  _root_.Fp.Header.u_languageBinding_match_tostr_fixpoint_0 o

theorem Prefix_Spec_match_tostr_fixpoint (o : Oracle Node) (k : Str) (hk : k ∈ prefixKeywords) :
    ∃ t, tostrString o [.str k] = .ok t ∧ (planPrefixSpec t).bind (runSlots o) = .ok [.str k] :=
  _root_.Fp.Header.u_prefixSpec_match_tostr_fixpoint o k hk

/-! ## non-vacuity -/

/-- every hypothesis of `end_name_discipline` is satisfiable: `nam: if (a) then` … `end if NAM` -/
example : namesAgree (cfgOf .ifC) { startName := some "nam".toList }
    { cls := "End_If_Stmt", name := some "NAM".toList } = .accepted := by decide
example : NameWF (some "nam".toList) := by intro s h; cases h; decide
example : EnderFor .ifC { cls := "End_If_Stmt", name := some "NAM".toList } := ⟨rfl, .inr rfl⟩
/-- `label_name_printed` on `10 nam: IF (a) THEN` -/
example : TextOK "IF (a) THEN".toList := by decide
example : tofortran (some 10) (some "nam".toList) "IF (a) THEN".toList [] false = "10 nam:IF (a) THEN".toList := by decide
example : Fp.Reader.extractLabel "10 nam:IF (a) THEN".toList = (some 10, "nam:IF (a) THEN".toList) := by decide
example : Fp.Reader.extractName "nam:IF (a) THEN".toList = (some "nam".toList, "IF (a) THEN".toList) := by decide


end Fp.Header.Props

#print axioms Fp.Header.Props.end_name_discipline_spec
#print axioms Fp.Header.Props.end_name_discipline
#print axioms Fp.Header.Props.end_name_mismatch_verdict
#print axioms Fp.Header.Props.do_label_rule
#print axioms Fp.Header.Props.do_continue_closes
#print axioms Fp.Header.Props.mid_name_discipline
#print axioms Fp.Header.Props.mid_not_tested
#print axioms Fp.Header.Props.kinds_requiring_end_name
#print axioms Fp.Header.Props.kinds_exiting_on_mismatch
#print axioms Fp.Header.Props.kinds_not_comparing
#print axioms Fp.Header.Props.interface_names_never_compared
#print axioms Fp.Header.Props.witness_interface_mismatch_accepted
#print axioms Fp.Header.Props.witness_module_mismatch_exits
#print axioms Fp.Header.Props.witness_program_mismatch_syntax
#print axioms Fp.Header.Props.witness_blockdata_unnamed_named_end
#print axioms Fp.Header.Props.witness_construct_requires_name
#print axioms Fp.Header.Props.witness_unit_does_not_require_name
#print axioms Fp.Header.Props.witness_derived_type
#print axioms Fp.Header.Props.witness_case_insensitive
#print axioms Fp.Header.Props.witness_label_do
#print axioms Fp.Header.Props.forall_without_match_names_accepts_mismatch
#print axioms Fp.Header.Props.label_name_printed
#print axioms Fp.Header.Props.label_zero_dropped
#print axioms Fp.Header.Props.tofortran_fixed_label
#print axioms Fp.Header.Props.End_Stmt_tostr_match_tokens_generic
#print axioms Fp.Header.Props.End_Stmt_tostr_match_tokens
#print axioms Fp.Header.Props.End_Stmt_tostr_exact
#print axioms Fp.Header.Props.End_Stmt_match_items
#print axioms Fp.Header.Props.End_Stmt_shape_generic
#print axioms Fp.Header.Props.End_Stmt_shape_converse
#print axioms Fp.Header.Props.End_Stmt_slots
#print axioms Fp.Header.Props.End_Stmt_shape
#print axioms Fp.Header.Props.End_Stmt_requires_type
#print axioms Fp.Header.Props.End_Stmt_requires_type_END
#print axioms Fp.Header.Props.End_Stmt_no_name_class
#print axioms Fp.Header.Props.End_Stmt_other_keyword_rejected
#print axioms Fp.Header.Props.End_Block_Data_blanks_witness
#print axioms Fp.Header.Props.End_Stmt_print_witness
#print axioms Fp.Header.Props.End_Stmt_glued_name_witness
#print axioms Fp.Header.Props.End_Do_witness
#print axioms Fp.Header.Props.End_Select_both_witness
#print axioms Fp.Header.Props.End_Enum_witness
#print axioms Fp.Header.Props.End_Stmt_match_total_generic
#print axioms Fp.Header.Props.End_Stmt_match_total
#print axioms Fp.Header.Props.End_Stmt_tostr_total
#print axioms Fp.Header.Props.End_Stmt_match_tostr_fixpoint_bare
#print axioms Fp.Header.Props.End_Stmt_match_tostr_fixpoint_typed
#print axioms Fp.Header.Props.End_Stmt_match_tostr_fixpoint_named
#print axioms Fp.Header.Props.End_Stmt_match_tostr_fixpoint
#print axioms Fp.Header.Props.End_Stmt_fixpoint_counterexamples
#print axioms Fp.Header.Props.enderOf_name_none_iff_generic
#print axioms Fp.Header.Props.enderOf_name_none_iff
#print axioms Fp.Header.Props.End_Stmt_empty_type_witness
#print axioms Fp.Header.Props.Else_Stmt_tostr_match_tokens
#print axioms Fp.Header.Props.Else_Stmt_glued_witness
#print axioms Fp.Header.Props.elsewhereRest_spec
#print axioms Fp.Header.Props.Elsewhere_Stmt_tostr_match_tokens
#print axioms Fp.Header.Props.Masked_Elsewhere_Stmt_tostr_match_tokens
#print axioms Fp.Header.Props.Interface_Stmt_tostr_match_tokens
#print axioms Fp.Header.Props.Interface_Stmt_glued_witness
#print axioms Fp.Header.Props.Interface_Stmt_abstract_name_witness
#print axioms Fp.Header.Props.Generic_Spec_tostr_match_tokens
#print axioms Fp.Header.Props.Dtio_Generic_Spec_tostr_match_tokens
#print axioms Fp.Header.Props.Extended_Intrinsic_Op_tostr_match_tokens
#print axioms Fp.Header.Props.Extended_Intrinsic_Op_unanchored
#print axioms Fp.Header.Props.startsIntrinsicOp_plus
#print axioms Fp.Header.Props.Generic_Spec_accepts_unbalanced_witness
#print axioms Fp.Header.Props.Procedure_Stmt_f2003_tostr_match_tokens
#print axioms Fp.Header.Props.Procedure_Stmt_f2003_invents_module
#print axioms Fp.Header.Props.Procedure_Stmt_f2008_tostr_match_tokens
#print axioms Fp.Header.Props.Select_Type_Stmt_tostr_match_tokens
#print axioms Fp.Header.Props.Type_Guard_Stmt_tostr_match_tokens
#print axioms Fp.Header.Props.Type_Attr_Spec_tostr_match_tokens
#print axioms Fp.Header.Props.Proc_Attr_Spec_tostr_match_tokens
#print axioms Fp.Header.Props.Parent_Identifier_tostr_match_tokens
#print axioms Fp.Header.Props.Submodule_Stmt_tostr_match_tokens
#print axioms Fp.Header.Props.Submodule_Stmt_not_raises
#print axioms Fp.Header.Props.splitparen_pieces3_mid
#print axioms Fp.Header.Props.planElse_total
#print axioms Fp.Header.Props.planElsewhere_total
#print axioms Fp.Header.Props.planMaskedElsewhere_total
#print axioms Fp.Header.Props.planInterface_total
#print axioms Fp.Header.Props.planGenericSpec_total
#print axioms Fp.Header.Props.planDtio_total
#print axioms Fp.Header.Props.planExtendedIntrinsicOp_total
#print axioms Fp.Header.Props.planProcedureStmt_total
#print axioms Fp.Header.Props.planSelectType_total
#print axioms Fp.Header.Props.planTypeGuard_total
#print axioms Fp.Header.Props.planTypeAttrSpec_total
#print axioms Fp.Header.Props.planProcAttrSpec_total
#print axioms Fp.Header.Props.planParentIdentifier_total
#print axioms Fp.Header.Props.planSubmodule_total
#print axioms Fp.Header.Props.Else_Stmt_match_tostr_fixpoint_none
#print axioms Fp.Header.Props.Else_Stmt_match_tostr_fixpoint
#print axioms Fp.Header.Props.Else_Stmt_fixpoint_counter
#print axioms Fp.Header.Props.Elsewhere_Stmt_match_tostr_fixpoint_none
#print axioms Fp.Header.Props.Elsewhere_Stmt_match_tostr_fixpoint
#print axioms Fp.Header.Props.Elsewhere_Stmt_fixpoint_counter
#print axioms Fp.Header.Props.Masked_Elsewhere_Stmt_match_tostr_fixpoint_1
#print axioms Fp.Header.Props.Masked_Elsewhere_Stmt_match_tostr_fixpoint_2
#print axioms Fp.Header.Props.Masked_Elsewhere_Stmt_fixpoint_counter
#print axioms Fp.Header.Props.Interface_Stmt_match_tostr_fixpoint_none
#print axioms Fp.Header.Props.Interface_Stmt_match_tostr_fixpoint_abstract
#print axioms Fp.Header.Props.Interface_Stmt_match_tostr_fixpoint
#print axioms Fp.Header.Props.Interface_Stmt_fixpoint_counter
#print axioms Fp.Header.Props.Generic_Spec_match_tostr_fixpoint
#print axioms Fp.Header.Props.Generic_Spec_match_tostr_fixpoint_assignment
#print axioms Fp.Header.Props.Generic_Spec_fixpoint_counter
#print axioms Fp.Header.Props.Select_Type_Stmt_match_tostr_fixpoint_1
#print axioms Fp.Header.Props.Select_Type_Stmt_match_tostr_fixpoint_2
#print axioms Fp.Header.Props.Select_Type_Stmt_fixpoint_counter
#print axioms Fp.Header.Props.Select_Type_Stmt_fixpoint_counter2
#print axioms Fp.Header.Props.Type_Guard_Stmt_match_tostr_fixpoint_1
#print axioms Fp.Header.Props.Type_Guard_Stmt_match_tostr_fixpoint_2
#print axioms Fp.Header.Props.Type_Guard_Stmt_match_tostr_fixpoint_default
#print axioms Fp.Header.Props.Type_Guard_Stmt_match_tostr_fixpoint_defaultN
#print axioms Fp.Header.Props.Type_Guard_Stmt_fixpoint_counter
#print axioms Fp.Header.Props.List_tostr_match_tokens
#print axioms Fp.Header.Props.Associate_Stmt_tostr_match_tokens_partial
#print axioms Fp.Header.Props.PASS_Arg_Name_tostr_match_tokens_partial
#print axioms Fp.Header.Props.Subroutine_Stmt_tostr_match_tokens_partial
#print axioms Fp.Header.Props.Function_Stmt_tostr_match_tokens_partial
#print axioms Fp.Header.Props.Entry_Stmt_tostr_match_tokens_partial
#print axioms Fp.Header.Props.c1242_rejects
#print axioms Fp.Header.Props.c1242_rejects_function
#print axioms Fp.Header.Props.c1242_only_then
#print axioms Fp.Header.Props.c1242_only_then_function
#print axioms Fp.Header.Props.nameMatch_spec
#print axioms Fp.Header.Props.witness_subroutine_parens_dropped
#print axioms Fp.Header.Props.witness_subroutine_glued_prefix
#print axioms Fp.Header.Props.witness_subroutine_glued_name
#print axioms Fp.Header.Props.witness_subroutine_key_leaks
#print axioms Fp.Header.Props.witness_function_key_leaks
#print axioms Fp.Header.Props.witness_function_needs_parens
#print axioms Fp.Header.Props.witness_entry_parens_invented
#print axioms Fp.Header.Props.witness_c1242
#print axioms Fp.Header.Props.planSubroutine_total
#print axioms Fp.Header.Props.planFunction_total
#print axioms Fp.Header.Props.planEntry_total
#print axioms Fp.Header.Props.Subroutine_Stmt_total
#print axioms Fp.Header.Props.Function_Stmt_total
#print axioms Fp.Header.Props.Entry_Stmt_total
#print axioms Fp.Header.Props.Subroutine_Stmt_total_srmOK
#print axioms Fp.Header.Props.Function_Stmt_total_srmOK
#print axioms Fp.Header.Props.Entry_Stmt_total_srmOK
#print axioms Fp.Header.Props.Subroutine_Stmt_match_tostr_fixpoint
#print axioms Fp.Header.Props.Subroutine_Stmt_match_tostr_fixpoint_args
#print axioms Fp.Header.Props.witness_fixpoint_name_needed
#print axioms Fp.Header.Props.witness_fixpoint_paren_needed
#print axioms Fp.Header.Props.Header_matchOf_total
#print axioms Fp.Header.Props.Header_matchOf_total_of_tokenise
#print axioms Fp.Header.Props.Header_planOf_totalH
#print axioms Fp.Header.Props.Header_planOf_slotsTotal
#print axioms Fp.Header.Props.Header_runSlots_total
#print axioms Fp.Header.Props.Submodule_Stmt_IndexError_unreachable
#print axioms Fp.Header.Props.Submodule_Stmt_plan_total
#print axioms Fp.Header.Props.Block_Stmt_plan_total
#print axioms Fp.Header.Props.Entry_Stmt_plan_total
#print axioms Fp.Header.Props.Proc_Component_Def_Stmt_match_total
#print axioms Fp.Header.Props.Subroutine_Stmt_match_total
#print axioms Fp.Header.Props.Function_Stmt_match_total
#print axioms Fp.Header.Props.Proc_Decl_match_total
#print axioms Fp.Header.Props.Header_combiPlan_total
#print axioms Fp.Header.Props.Block_Data_Stmt_tostr_total_on_matched
#print axioms Fp.Header.Props.Suffix_tostr_total_on_matched
#print axioms Fp.Header.Props.Language_Binding_Spec_tostr_total_on_matched
#print axioms Fp.Header.Props.Entry_Stmt_tostr_total_on_matched
#print axioms Fp.Header.Props.Submodule_Stmt_tostr_total_on_matched
#print axioms Fp.Header.Props.Parent_Identifier_tostr_total_on_matched
#print axioms Fp.Header.Props.Interface_Stmt_tostr_total_on_matched
#print axioms Fp.Header.Props.Generic_Spec_tostr_total_on_matched
#print axioms Fp.Header.Props.Type_Attr_Spec_tostr_total_on_matched
#print axioms Fp.Header.Props.Proc_Attr_Spec_tostr_total_on_matched
#print axioms Fp.Header.Props.Generic_Binding_tostr_total_on_matched
#print axioms Fp.Header.Props.Procedure_Declaration_Stmt_tostr_total_on_matched
#print axioms Fp.Header.Props.Select_Type_Stmt_tostr_total_on_matched
#print axioms Fp.Header.Props.Type_Guard_Stmt_tostr_total_on_matched
#print axioms Fp.Header.Props.Else_Stmt_tostr_total_on_matched
#print axioms Fp.Header.Props.Masked_Elsewhere_Stmt_tostr_total_on_matched
#print axioms Fp.Header.Props.Prefix_Spec_tostr_total_on_matched
#print axioms Fp.Header.Props.Extended_Intrinsic_Op_tostr_total_on_matched
#print axioms Fp.Header.Props.Enum_Def_Stmt_tostr_total_on_matched
#print axioms Fp.Header.Props.Derived_Type_Stmt_tostr_match_tokens
#print axioms Fp.Header.Props.Derived_Type_Stmt_glued_witness
#print axioms Fp.Header.Props.Generic_Binding_exact
#print axioms Fp.Header.Props.Generic_Binding_tostr_match_tokens_partial
#print axioms Fp.Header.Props.Generic_Binding_arrow_regression
#print axioms Fp.Header.Props.Generic_Binding_drops_prefix
#print axioms Fp.Header.Props.Specific_Binding_tostr_match_tokens
#print axioms Fp.Header.Props.wordA_tostr_match_tokens
#print axioms Fp.Header.Props.Final_Binding_tostr_match_tokens
#print axioms Fp.Header.Props.Import_Stmt_tostr_match_tokens
#print axioms Fp.Header.Props.Enumerator_Def_Stmt_tostr_match_tokens
#print axioms Fp.Header.Props.wordA_witness
#print axioms Fp.Header.Props.binaryArrow_tostr_match_tokens_partial
#print axioms Fp.Header.Props.Association_tostr_match_tokens_partial
#print axioms Fp.Header.Props.Proc_Decl_tostr_match_tokens_partial
#print axioms Fp.Header.Props.planDerivedType_total
#print axioms Fp.Header.Props.planGenericBinding_total
#print axioms Fp.Header.Props.planSpecificBinding_total
#print axioms Fp.Header.Props.planProcedureDeclaration_total
#print axioms Fp.Header.Props.planProcComponentDef_total
#print axioms Fp.Header.Props.planBinaryArrow_total
#print axioms Fp.Header.Props.Block_Data_Stmt_tostr_match_tokens
#print axioms Fp.Header.Props.Block_Data_Stmt_glued_witness
#print axioms Fp.Header.Props.Language_Binding_Spec_tostr_match_tokens
#print axioms Fp.Header.Props.Suffix_tostr_match_tokens
#print axioms Fp.Header.Props.Suffix_tostr_match_reorder
#print axioms Fp.Header.Props.Suffix_tostr_match_perm
#print axioms Fp.Header.Props.Suffix_reorders_witness
#print axioms Fp.Header.Props.Suffix_core
#print axioms Fp.Header.Props.splitWs_join_tokens
#print axioms Fp.Header.Props.Prefix_tostr_match_tokens
#print axioms Fp.Header.Props.Prefix_rejects
#print axioms Fp.Header.Props.Prefix_keywords_exact
#print axioms Fp.Header.Props.Prefix_Spec_tostr_match_tokens
#print axioms Fp.Header.Props.planPrefixSpec_iff
#print axioms Fp.Header.Props.Dummy_Arg_tostr_match_tokens
#print axioms Fp.Header.Props.planKeyword_iff
#print axioms Fp.Header.Props.planKeyword_noMatch
#print axioms Fp.Header.Props.Keyword_Stmt_tostr_match_tokens
#print axioms Fp.Header.Props.planKeywords_iff
#print axioms Fp.Header.Props.Keywords_tostr_match_tokens
#print axioms Fp.Header.Props.Enum_Def_Stmt_tostr_match_tokens
#print axioms Fp.Header.Props.Program_Stmt_tostr_match_tokens
#print axioms Fp.Header.Props.Module_Stmt_tostr_match_tokens
#print axioms Fp.Header.Props.Block_Stmt_tostr_match_tokens
#print axioms Fp.Header.Props.Critical_Stmt_tostr_match_tokens
#print axioms Fp.Header.Props.planBlockData_total
#print axioms Fp.Header.Props.planLanguageBinding_total
#print axioms Fp.Header.Props.planSuffix_total
#print axioms Fp.Header.Props.planPrefix_total
#print axioms Fp.Header.Props.planPrefixSpec_total
#print axioms Fp.Header.Props.planDummyArg_total
#print axioms Fp.Header.Props.planKeyword_total
#print axioms Fp.Header.Props.planKeywords_total
#print axioms Fp.Header.Props.planEnumDef_total
#print axioms Fp.Header.Props.planProgram_total
#print axioms Fp.Header.Props.planModule_total
#print axioms Fp.Header.Props.planCritical_total
#print axioms Fp.Header.Props.planBlockStmt_total
#print axioms Fp.Header.Props.Block_Data_Stmt_match_tostr_fixpoint_0
#print axioms Fp.Header.Props.Block_Data_Stmt_match_tostr_fixpoint
#print axioms Fp.Header.Props.Block_Data_Stmt_fixpoint_needs_lstrip
#print axioms Fp.Header.Props.Block_Data_Stmt_fixpoint_needs_nonempty
#print axioms Fp.Header.Props.Language_Binding_Spec_match_tostr_fixpoint_0
#print axioms Fp.Header.Props.Prefix_Spec_match_tostr_fixpoint
