"""C19 — the legacy statement-level parser (fparser1) round-trips its own output."""
import random
import re
from fv import real, engine, findings
from fv.props import util
from fv.model import get_model
from fv import cosim_norm as CN

RULE = ("generated programs of the F77/F90 subset fparser1 supports (program/subroutine/function/module, IF-THEN/ELSE IF/ELSE, "
        "DO/END DO, label DO + CONTINUE, shared labels, SELECT CASE, WHERE, FORALL, ASSOCIATE, INTERFACE, TYPE), free and fixed form, "
        "some deliberately broken; oracle: for every accepted P, body(str(parse1(str(parse1 P)))) == body(str(parse1 P)) "
        "(ignoring indentation, blanks after a label, the header line), same block structure, and the expression text of every "
        "statement carried over (Lean-computed normeq of each printed statement with its source statement); co-simulation: the "
        "nesting computed by the Lean model Fp.One.nest1 over independently classified lines == the real nesting (or the same "
        "error line/block). non-trivial = accepted source with >= 2 nested blocks")
ASSUMPTIONS = ["fparser1's per-statement regex parsers are leaves: their text is compared, not modelled",
               "equivalent spellings fparser1 normalises count as unchanged text: `REWIND 10` / `REWIND (10)` (also ENDFILE, BACKSPACE), "
               "`CHARACTER*8` / `CHARACTER*(*)` / `CHARACTER(LEN=…)`, the optional comma in front of a `/name/` group of COMMON and NAMELIST",
               "a statement fparser1 does not accept (its own parse error) is outside the premise and only counted"]
TIE_MODULES = ["FparserModel.One", "FparserModel.Norm", "FparserModel.One2", "FparserModel.Generated.One2Tables", "FparserModel.Proofs.One2Generated", "FparserModel.One3", "FparserModel.Generated.One3Tables", "FparserModel.Proofs.One3Generated"]


ANALYZE_SAMPLES = [
    "module m\n  implicit none\n  integer, public :: counter\n  real, private, save :: w(10)\n  integer, parameter, public :: n = 3\ncontains\n  subroutine s(a)\n    real, intent(in) :: a\n    counter = counter + 1\n  end subroutine s\nend module m\n",
    "module m2\n  private\n  public :: f\n  real, public, dimension(3) :: v\ncontains\n  function f(x)\n    real :: f, x\n    f = x\n  end function f\nend module m2\n",
    "subroutine t(a, b)\n  integer, intent(inout) :: a\n  real, optional, intent(in) :: b\n  common /blk/ c, d\n  data c /1.0/\n  a = 1\nend subroutine t\n",
]


def wide_sources(rng, n):
    """statements with 10-14 distinct parenthesised groups (each statement's expression text
    must be carried over unchanged)"""
    out = []
    for k in range(n):
        m = rng.randint(10, 14)
        terms = ["a(i+%d)" % j if j % 3 else "(b%d*c + %d)" % (j, j) for j in range(1, m + 1)]
        stmt = "      y = " + " + ".join(terms[:6]) + "\n     & + " + " + ".join(terms[6:])
        free = "  y = " + " + ".join(terms)
        call = "  call foo(" + ", ".join("f(x+%d)" % j for j in range(1, m + 1)) + ")"
        out.append(("subroutine w%d\n%s\n%s\nend subroutine w%d\n" % (k, free, call, k), True))
        # (fixed form would need a continuation line, which the nesting co-simulation's own line
        # classifier does not join: free form only)
    return out


def analyze_case(src, isfree, res, case):
    """analyze in {False, True}: the regenerated text must be the same and must round-trip"""
    from fparser import api
    outs = {}
    for an in (False, True):
        try:
            t = api.parse(src, isfree=isfree, isstrict=False, analyze=an, ignore_comments=True)
            outs[an] = CN.body1(str(t), isfree)
        except SystemExit:
            outs[an] = "exit"
        except Exception as e:  # noqa: BLE001
            outs[an] = "%s" % type(e).__name__
    if not isinstance(outs[True], list):
        # not accepted under analyze=True (fparser1's analyser raises on some constructs, e.g. a
        # derived-type definition inside a main program): outside the property's premise
        res["counts"]["analyze-not-accepted:" + str(outs[True])] = res["counts"].get("analyze-not-accepted:" + str(outs[True]), 0) + 1
        return
    if isinstance(outs[False], list) and outs[True] != outs[False]:
        d = next(((a, b) for a, b in zip(outs[False], outs[True]) if a != b), (len(outs[False]), len(outs[True])))
        sig = "analyze-changes-text:" + util.stmt_kind(str(d[0]))
        known = findings.classify("C19", src, {"analyze": True, "diff": d})
        res["findings"].append({"signature": known or sig, "what": "analyze=True prints %r where analyze=False prints %r" % (d[1], d[0]),
                                "replay": {"case": case, "source": src, "isfree": isfree}})
    # and the analyze=True output must round-trip as well
    from fparser import api as _api
    try:
        t1 = _api.parse(src, isfree=isfree, isstrict=False, analyze=True, ignore_comments=True)
        s1 = str(t1)
        t2 = _api.parse("\n".join(s1.split("\n")[1:]) + "\n", isfree=isfree, isstrict=False, analyze=True, ignore_comments=True)
        if CN.body1(str(t2), isfree) != CN.body1(s1, isfree):
            res["findings"].append({"signature": "analyze-roundtrip-unstable", "what": "analyze=True output does not round-trip",
                                    "replay": {"case": case, "source": src, "isfree": isfree}})
    except SystemExit:
        pass
    except Exception:  # noqa: BLE001
        pass


def _canon1(line):
    """equivalent spellings fparser1 normalises (stated in ASSUMPTIONS): the unit of a file
    positioning statement in parentheses, `CHARACTER*n` as `CHARACTER(LEN=n)`, the optional
    comma in front of a `/name/` group of COMMON / NAMELIST"""
    l = line
    l = re.sub(r"(?i)((?:^|\))\s*(?:\d+\s+)?(?:endfile|backspace|rewind))\s+(\w+)\s*$", r"\1 (\2)", l)
    l = re.sub(r"(?i)^(\s*(?:\d+\s+)?character)\s*\*\s*(\d+)", r"\1(LEN=\2)", l)
    l = re.sub(r"(?i)^(\s*(?:\d+\s+)?character)\s*\*\s*\(([^()]*)\)", r"\1(LEN=\2)", l)
    if re.match(r"(?i)^\s*(\d+\s+)?(common|namelist)\b", l):
        l = re.sub(r",\s*/", " /", l)
    return l


def run_zoo(case):
    """single statements of every kind the program generator knows (USE lists, declarations,
    specification statements, I/O, actions, FORMAT), each inside a subroutine, through fparser1:
    printed statement == source statement (token oracle Fp.Norm.normeq) and fixpoint"""
    from fv import gen
    m = get_model()
    res = {"key": ["zoo", case["seed"]], "counts": {}, "findings": [], "nontrivial": True, "keys": []}
    g = gen.G(random.Random(case["seed"]), std="f2003", max_depth=1)
    zoo = [g.use_stmt()[0] for _ in range(8)] + [g.type_decl()[0] for _ in range(6)]
    zoo += [x for x in (g.spec_misc() for _ in range(10)) if isinstance(x, gen.St)]
    zoo += [g.io_stmt() for _ in range(6)] + [g.action() for _ in range(10)] + [g.format_stmt() for _ in range(2)]
    n = 0
    for st in zoo:
        if not isinstance(st, gen.St):
            continue
        line = st.text()
        kind = util.stmt_kind(line)
        src = "subroutine s\n  %s\nend subroutine s\n" % line
        rp = {"case": case, "source": src, "isfree": True}
        tree, err = CN.parse1(src, True)
        n += 1
        if tree is None:
            if isinstance(err, tuple):
                res["counts"]["zoo-not-accepted:" + kind] = res["counts"].get("zoo-not-accepted:" + kind, 0) + 1
            else:
                res["findings"].append({"signature": "fparser1-escape:" + str(err)[:40], "what": "fparser1 raised %s for %r" % (str(err)[:120], line), "replay": rp})
            continue
        res["keys"].append(line)
        res["counts"]["zoo:" + kind] = res["counts"].get("zoo:" + kind, 0) + 1
        printed = [l for l in str(tree).split("\n")[1:] if l.strip()]
        if len(printed) != 3:
            res["findings"].append({"signature": "statement-count-changed:" + kind, "what": "fparser1 printed %r for %r" % (printed, line), "replay": rp})
            continue
        r = m.ask("normeq", _canon1(line) + "\n", _canon1(printed[1]) + "\n")
        if r[0] != "eq":
            known = findings.classify("C19", line, {"printed": printed[1], "isfree": True})
            res["findings"].append({"signature": known or ("statement-text-changed:" + kind),
                                    "what": "fparser1 printed %r for %r" % (printed[1].strip()[:120], line.strip()[:120]), "replay": rp})
            continue
        s1 = str(tree)
        t2, e2 = CN.parse1("\n".join(s1.split("\n")[1:]) + "\n", True)
        if t2 is None or CN.body1(str(t2), True) != CN.body1(s1, True):
            res["findings"].append({"signature": "roundtrip-unstable:" + kind, "what": "fparser1 output %r does not round-trip" % printed[1].strip()[:120], "replay": rp})
    res["evals"] = n
    return res


# known finding F-C19-1 (pinned by one/tests/test_parsefortran.py::test_free90): an `=` inside a
# positional control specification is taken for `keyword =`
SPEC_PROBES = ["write (*, '(\"x=\", i3)') n", "allocate (c(merge(3, 4, i == 1)))", "write (6, \"(' a=', f8.2)\") x"]
SPEC_OK = ["write (unit = 6, fmt = '(a)') x", "open (10, file = 'f.dat', status = 'old')", "allocate (c(10), stat = ierr)"]


# whole-program probes: (name, source, known-finding key or None).  None = must be a fixpoint whose
# statements are all kept (regression probes of repaired defects); a key = listed known finding
PROGRAM_PROBES = [
    ("enum", "subroutine s\n  enum, bind(c)\n    enumerator :: red = 1, green\n  end enum\nend subroutine s\n", None),
    ("function-typedecl", "function f(x)\n  integer f, g\n  f = 1\nend function f\n", None),
    ("blank-common", "subroutine s\n  common /c/ d, // e\nend subroutine s\n", None),
    ("labelled-if", "subroutine s\n12 if (.false.) p = 1.0\n20 forall (i = 1:n) t(i) = 1\n30 where (a > 0) a = 1\nend subroutine s\n", None),
    ("namelist-groups", "subroutine s\n  namelist /n1/ a, b /n2/ x\nend subroutine s\n", None),
    ("where-groups", "subroutine s\n  where (arr > 0) grid = tab(j:i) + f(a(1))\nend subroutine s\n", None),
    ("print-relational", "subroutine s\n  print '(a)', k <= 3\nend subroutine s\n", None),
    ("implicit-charlen", "subroutine s\n  implicit character*10 (c)\nend subroutine s\n", "pred:one_implicit_charlen_not_reparsable"),
    ("name-function_value", "subroutine s\n  integer :: function_value\nend subroutine s\n", "pred:one_typedecl_without_colons_reads_as_function"),
    ("procedure-in-interface", "module m\n  interface gen\n    procedure a\n  end interface gen\nend module m\n", "pred:one_procedure_becomes_module_procedure"),
]


def _stmt_words(text):
    return [re.sub(r"\s+", "", l).lower() for l in text.split("\n") if l.strip() and not l.lstrip().startswith("!")]


def run_program_probes(case, res):
    for name, src, key in PROGRAM_PROBES:
        rp = {"case": case, "source": src, "isfree": True, "probe": name}
        t, err = CN.parse1(src, True)
        res["keys"].append("probe:" + name)
        bad = None
        if t is None:
            bad = "not accepted: %r" % (err,)
        else:
            s1 = str(t)
            b1 = CN.body1(s1, True)
            t2, e2 = CN.parse1("\n".join(s1.split("\n")[1:]) + "\n", True)
            if t2 is None:
                bad = "output %r is rejected by fparser1 itself: %r" % (b1, e2)
            elif CN.body1(str(t2), True) != b1:
                bad = "no fixpoint: %r then %r" % (b1, CN.body1(str(t2), True))
            elif len(b1) != len(_stmt_words(src)):
                bad = "%d statements printed for %d: %r" % (len(b1), len(_stmt_words(src)), b1)
            elif name == "procedure-in-interface" and not any(l.lower().startswith("procedure") for l in b1):
                bad = "`procedure a` printed as %r" % [l for l in b1 if "procedure" in l.lower()]
            elif name == "blank-common" and "//" not in "".join(b1).replace(" ", ""):
                bad = "blank common lost: %r" % b1
            elif name == "function-typedecl" and not any(re.match(r"(?i)integer\s*(::)?\s*g$", l) for l in b1):
                bad = "declaration of g lost: %r" % b1
        if key is None:
            if bad:
                res["findings"].append({"signature": "probe-regression:" + name, "what": "repaired defect is back (%s): %s" % (name, bad), "replay": rp})
        else:
            res["findings"].append({"signature": key if bad else "probe-now-fine:" + name,
                                    "what": ("%s: %s" % (name, bad)) if bad else ("probe %s, listed as a known finding, now round-trips: remove the finding" % name),
                                    "replay": rp})


def run_probe(case):
    m = get_model()
    res = {"key": ["probe"], "counts": {}, "findings": [], "nontrivial": True, "keys": []}
    run_program_probes(case, res)
    for line in SPEC_PROBES + SPEC_OK:
        src = "subroutine s\n  %s\nend subroutine s\n" % line
        tree, err = CN.parse1(src, True)
        res["keys"].append(line)
        printed = [l for l in str(tree).split("\n")[1:] if l.strip()] if tree is not None else []
        same = len(printed) == 3 and m.ask("normeq", line + "\n", printed[1] + "\n")[0] == "eq"
        rp = {"case": case, "source": src, "isfree": True}
        if line in SPEC_PROBES:
            res["findings"].append({"signature": "pred:one_spec_equals_inside_positional" if not same else "probe-now-preserved",
                                    "what": ("fparser1 printed %r for %r" % (printed[1].strip() if len(printed) == 3 else printed, line)) if not same else
                                            ("%r, listed as known finding F-C19-1, is now printed unchanged: remove the finding" % line), "replay": rp})
        elif not same:
            res["findings"].append({"signature": "statement-text-changed:probe", "what": "fparser1 printed %r for %r" % (printed, line), "replay": rp})
    return res


def run_case(case):
    if case.get("kind") == "zoo":
        return run_zoo(case)
    if case.get("kind") == "probe":
        return run_probe(case)
    rng = random.Random(case["seed"])
    m = get_model()
    res = {"key": ["c19", case["seed"]], "counts": {}, "findings": [], "nontrivial": True}
    n = 0
    nkeys = 0
    if case.get("analyze"):
        for src in ANALYZE_SAMPLES:
            analyze_case(src, True, res, case)
    for src, isfree in (wide_sources(rng, 3) if case.get("analyze") else []) + list(CN.gen_sources(rng, case["n"])):
        n += 1
        if n % 4 == 0:
            analyze_case(src, isfree, res, case)
        r = CN.check_nest1(m, src, isfree)
        res["counts"]["real:" + r["real"][0]] = res["counts"].get("real:" + r["real"][0], 0) + 1
        res["counts"]["form:" + ("free" if isfree else "fixed")] = res["counts"].get("form:" + ("free" if isfree else "fixed"), 0) + 1
        rp = {"case": case, "source": src, "isfree": isfree}
        if r["real"][0] == "other":
            known = findings.classify("C19", src, {"isfree": isfree, "err": r["real"][1]})
            res["findings"].append({"signature": known or ("fparser1-escape:" + str(r["real"][1])[:40]),
                                    "what": "fparser1 raised something other than AnalyzeError: %s" % str(r["real"][1])[:200], "replay": rp})
            continue
        if r["real"][0] == "ok" and r["real"][1].count("(") >= 3:
            nkeys += 1
            res.setdefault("keys", []).append("%d:%d" % (case["seed"], n))
        if not r["agree"]:
            res["findings"].append({"signature": "correspondence:Fp.One", "no_input": True,
                                    "what": "nesting: real %r vs model %r" % (r["real"], r["model"]), "replay": rp})
        if r["c19"] is False:
            known = findings.classify("C19", src, {"isfree": isfree, "shared": r["shared"], "lost_header": r.get("lost_header")})
            res["findings"].append({"signature": known or ("roundtrip-unstable:" + str(r.get("c19_detail"))[:40]),
                                    "what": "fparser1 output does not round-trip: %s" % r.get("c19_detail"), "replay": rp})
        elif r["c19"] is True and r.get("c19_struct") is False:
            res["findings"].append({"signature": "roundtrip-structure-differs", "what": "same text but different block structure after re-parse", "replay": rp})
        # expression text carried over: every printed statement == its source statement (token-wise)
        if r["real"][0] == "ok":
            tree, _ = CN.parse1(src, isfree)
            printed = [l for l in str(tree).split("\n")[1:] if l.strip()]
            if isfree:
                srcl = [l for l in src.split("\n") if l.strip() and not l.lstrip().startswith("!")]
            else:
                # fixed form: join continuation lines (column 6), drop comment lines
                srcl = []
                for l in src.split("\n"):
                    if not l.strip() or l[:1] in "cC*!":
                        continue
                    if len(l) > 5 and l[5] not in " 0" and l[:5].strip() == "" and srcl:
                        srcl[-1] += l[6:]
                    else:
                        srcl.append(l)
                pl2 = []
                for l in printed:
                    if len(l) > 5 and l[5] not in " 0" and l[:5].strip() == "" and pl2:
                        pl2[-1] += l[6:]
                    else:
                        pl2.append(l)
                printed = pl2
            if len(printed) == len(srcl):
                pairs = []
                for a, b in zip(srcl, printed):
                    ka = util.stmt_kind(a)
                    if ka.startswith("END") or ka in ("CONTAINS", "ELSE", "PROGRAM", "MODULE", "SUBROUTINE", "FUNCTION", "INTERFACE", "TYPE"):
                        continue     # END statements get the block name added; headers have no expression text
                    a2 = re.sub(r"(?i)^(\s*(?:\d+\s+)?(?:\w+\s*:\s*)?do\s+\d+)\s*,", r"\1 ", a)
                    pairs.append((a2, b))
                reps = m.ask_many([("normeq", a + "\n", b + "\n") for a, b in pairs]) if pairs else []
                for (a, b), rr in zip(pairs, reps):
                    if rr[0] != "eq":
                        known = findings.classify("C19", a, {"printed": b, "isfree": isfree})
                        res["findings"].append({"signature": known or ("statement-text-changed:" + util.stmt_kind(a)),
                                                "what": "fparser1 printed %r for %r" % (b.strip()[:100], a.strip()[:100]), "replay": rp})
                        break
    res["evals"] = n
    res["nkeys"] = nkeys
    res["sample"] = {"seed": case["seed"], "sources": n}
    return res


def cases(tier, seed):
    nb = util.tier_n(tier, 16, 160)
    out = [{"seed": s, "n": 40, "_timeout": 900, "analyze": i == 0} for i, s in enumerate(util.seeds(seed, nb, 19))]
    out += [{"kind": "probe", "seed": 0}]
    out += [{"kind": "zoo", "seed": s, "_timeout": 900} for s in util.seeds(seed, util.tier_n(tier, 24, 240), 191)]
    return out


def run(tier, rep, st):
    util.sub_cosim(rep, tier, "cosim_one2", "Fp.One2", 150, 1500)
    util.sub_cosim(rep, tier, "cosim_one3", "Fp.One3", 80, 800)
    results = engine.run_cases(__name__, cases(tier, rep.seed), rep)
    rep.evaluations = sum(r.get("evals", 0) for r in results)
    rep.coverage["accepted_with_nesting"] = sum(r.get("nkeys", 0) for r in results)
