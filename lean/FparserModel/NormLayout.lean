import FparserModel.Norm

/-!
# NormLayout — well-formed tokens and free-form layouts (the statement of `lexF_layout`)

A `File` is a list of statements; every statement is a list of *structured* tokens
(`WTok`: well-formed by construction plus the decidable side conditions `WTok.ok`) together
with a *layout*: blanks, `&`-continuations (with optional trailing comment, blank / comment
lines in between, optional leading `&`), trailing `!` comments, `;` or newline as statement
terminator (end of text for the last one), blank / comment / `;`-only lines between statements.

* `File.text`  — the source text (tokens AND layout);
* `File.toks`  — the token list (no layout field is looked at);
* `File.ok`    — decidable well-formedness: every token is well formed, and where two tokens
                 are written with nothing in between the first one accepts the first
                 character of the second (`okAfter`: e.g. two wordy tokens need a blank).

`Props/Norm.lean: lexF_layout` : `f.ok → lexF f.text = f.toks`.  No Mathlib.
-/
namespace Fp.Norm
open Fp

/-- characters that the lexer turns into (the start of) an operator / punctuation token -/
def opChar (c : Char) : Bool :=
  !isBlank c && c != '!' && c != '\n' && c != ';' && c != '&' && !isQuote c && !c.isDigit
    && c != '.' && !isNameStart c

/-- numeric literal `int [. frac] [e [sign] digits] [_ kind]` -/
structure NumLit where
  int : Str
  frac : Option Str := none
  exp : Option (Char × Str × Str) := none     -- letter, sign (`""`, `"+"`, `"-"`), digits
  kind : Option Str := none
  deriving DecidableEq, Repr

def fracText : Option Str → Str
  | none => []
  | some d => '.' :: d

def expText : Option (Char × Str × Str) → Str
  | none => []
  | some (e, sg, ds) => e :: (sg ++ ds)

def kindText : Option Str → Str
  | none => []
  | some k => '_' :: k

def NumLit.text (n : NumLit) : Str := n.int ++ (fracText n.frac ++ (expText n.exp ++ kindText n.kind))

def kindOK : Option Str → Bool
  | none => true
  | some k => !k.isEmpty && k.all isWord

def NumLit.ok (n : NumLit) : Bool :=
  n.int.all isDigit
  && (match n.frac with
      | none => !n.int.isEmpty
      | some d => d.all isDigit && (!n.int.isEmpty || !d.isEmpty))
  && (match n.exp with
      | none => true
      | some (e, sg, ds) =>
        isExpLetter e && (sg == [] || sg == ['+'] || sg == ['-']) && !ds.isEmpty && ds.all isDigit)
  && kindOK n.kind

/-- body of a character literal as written: the delimiter doubled -/
def encBody (q : Char) (raw : Str) : Str := raw.flatMap fun c => if c == q then [q, q] else [c]

/-- first character of a name as far as the lexer's dispatch is concerned (true for every
    ASCII letter and `_`) -/
def nameStartOK (c : Char) : Bool :=
  isNameStart c && isWord c && !isBlank c && c != '!' && c != '\n' && c != ';' && c != '&'
    && !isQuote c && !c.isDigit && c != '.'

def nameOK (w : Str) : Bool :=
  match w with
  | c :: cs => nameStartOK c && cs.all isWord
  | [] => false

/-- structured (well-formed by construction) tokens -/
inductive WTok
  | name (w : Str)
  | num (n : NumLit)
  | chr (pfx : Str) (q : Char) (raw : Str)   -- `pfx`: `[]` or a kind name ending in `_`
  | boz (w : Char) (q : Char) (raw : Str)
  | dot (ls : Str) (kind : Option Str)       -- `.ls.` [`_kind`]
  | op1 (c : Char)
  | op2 (a b : Char)
  | label (ds : Str)
  deriving DecidableEq, Repr

def WTok.text : WTok → Str
  | .name w => w
  | .num n => n.text
  | .chr pfx q raw => pfx ++ q :: (encBody q raw ++ [q])
  | .boz w q raw => w :: q :: (encBody q raw ++ [q])
  | .dot ls kind => '.' :: (ls ++ '.' :: kindText kind)
  | .op1 c => [c]
  | .op2 a b => [a, b]
  | .label ds => ds

/-- the token the lexer is expected to produce -/
def WTok.tok : WTok → Tok
  | .name w => .name w
  | .num n => .num n.text
  | .chr pfx q raw => .chr (pfx ++ q :: (encBody q raw ++ [q]))
  | .boz w q raw => .boz (w :: q :: (encBody q raw ++ [q]))
  | .dot ls kind => .dot ('.' :: (ls ++ '.' :: kindText kind))
  | .op1 c => .op [c]
  | .op2 a b => .op [a, b]
  | .label ds => .label ds

def rawOK (raw : Str) : Bool := raw.all (· != '\n')

def WTok.ok : WTok → Bool
  | .name w => nameOK w
  | .num n => n.ok
  | .chr pfx q raw =>
    isQuote q && rawOK raw && (pfx == [] || (nameOK pfx && pfx.getLast? == some '_'))
  | .boz w q raw => isQuote q && rawOK raw && isBozLetter [w] && nameStartOK w
  | .dot ls kind => !ls.isEmpty && ls.all Char.isAlpha && kindOK kind
  | .op1 c => opChar c
  | .op2 a b => isOp2 a b
  | .label ds => !ds.isEmpty && ds.all isDigit

def headIs (p : Char → Bool) (s : Str) : Bool :=
  match s with
  | c :: _ => p c
  | [] => false

/-- after an integer literal a `.` must open a dotted operator (`1.eq.2`) -/
def dotCond (s : Str) : Bool :=
  match s with
  | '.' :: r => (dottedLen r).isSome
  | _ => true

/-- `okAfter t s`: the token `t` may be followed directly by the text `s` -/
def okAfter : WTok → Str → Bool
  | .name w, s =>
    !headIs isWord s && !(headIs isQuote s && (w.getLast? == some '_' || isBozLetter w))
  | .num n, s =>
    !headIs isWord s
      && (n.frac.isSome || n.exp.isSome || n.kind.isSome || dotCond s)
  | .chr _ q _, s => !headIs (· == q) s
  | .boz _ q _, s => !headIs (· == q) s
  | .dot _ kind, s => if kind.isSome then !headIs isWord s else !headIs (· == '_') s
  | .op1 c, s => !headIs (isOp2 c) s
  | .op2 _ _, _ => true
  | .label _, s => !headIs Char.isDigit s

/-! ## layout -/

def blanks (k : Nat) : Str := List.replicate k ' '

/-- optional trailing comment (text without newline), before the newline -/
def cmtText : Option Str → Str
  | none => []
  | some cm => '!' :: cm

def cmtOK : Option Str → Bool
  | none => true
  | some cm => cm.all (· != '\n')

/-- blank / comment-only line inside a continuation -/
def fillText : List (Nat × Option Str) → Str
  | [] => []
  | (k, cm) :: r => blanks k ++ (cmtText cm ++ '\n' :: fillText r)

def fillOK (fl : List (Nat × Option Str)) : Bool := fl.all fun p => cmtOK p.2

/-- what stands between two tokens of a statement -/
inductive Gap
  | blanks (k : Nat)
  /-- `k1` blanks, `&`, `k2` blanks, optional comment, newline, blank/comment lines,
      `k3` blanks, optional leading `&` followed by `k4` blanks -/
  | cont (k1 k2 : Nat) (cm : Option Str) (fill : List (Nat × Option Str)) (k3 : Nat)
      (amp : Option Nat)
  deriving DecidableEq, Repr

def ampText : Option Nat → Str
  | none => []
  | some k => '&' :: blanks k

def Gap.text : Gap → Str
  | .blanks k => Fp.Norm.blanks k
  | .cont k1 k2 cm fl k3 amp =>
    Fp.Norm.blanks k1 ++ '&' :: (Fp.Norm.blanks k2 ++ (cmtText cm ++ '\n' :: (fillText fl ++
      (Fp.Norm.blanks k3 ++ ampText amp))))

def Gap.ok : Gap → Bool
  | .blanks _ => true
  | .cont _ _ cm fl _ _ => cmtOK cm && fillOK fl

def Gap.isEmpty : Gap → Bool
  | .blanks 0 => true
  | _ => false

/-- a line without statement: blanks then newline, comment or a stray `;` -/
inductive LineEnd
  | nl
  | cmt (cm : Str)
  | semi
  deriving DecidableEq, Repr

def LineEnd.text : LineEnd → Str
  | .nl => ['\n']
  | .cmt cm => '!' :: (cm ++ ['\n'])
  | .semi => [';']

def LineEnd.ok : LineEnd → Bool
  | .cmt cm => cm.all (· != '\n')
  | _ => true

def linesText : List (Nat × LineEnd) → Str
  | [] => []
  | (k, e) :: r => blanks k ++ (e.text ++ linesText r)

def linesOK (ls : List (Nat × LineEnd)) : Bool := ls.all fun p => p.2.ok

/-- how a statement ends: `;`, or an optional comment and a newline, or the end of the text
    (last statement only, see `File.ok`) -/
inductive Term
  | semi
  | nl (cm : Option Str)
  | eof
  deriving DecidableEq, Repr

def Term.text : Term → Str
  | .semi => [';']
  | .nl cm => cmtText cm ++ ['\n']
  | .eof => []

def Term.ok : Term → Bool
  | .semi => true
  | .nl cm => cmtOK cm
  | .eof => true

structure Stmt where
  pre : List (Nat × LineEnd) := []     -- lines without statement before it
  lead : Nat := 0                      -- indentation
  first : WTok
  rest : List (Gap × WTok) := []
  trail : Nat := 0                     -- blanks after the last token
  term : Term := .nl none
  deriving Repr

def restText : List (Gap × WTok) → Str
  | [] => []
  | (g, t) :: r => g.text ++ (t.text ++ restText r)

def Stmt.text (s : Stmt) : Str :=
  linesText s.pre ++ (blanks s.lead ++ (s.first.text ++ (restText s.rest ++
    (blanks s.trail ++ s.term.text))))

def Stmt.toks (s : Stmt) : List Tok := s.first.tok :: (s.rest.map (·.2.tok) ++ [.eos])

/-- a label is the first token of its statement; a numeral is not (it would be a label) -/
def firstOK : WTok → Bool
  | .num n => n.int.isEmpty
  | _ => true

def innerOK : WTok → Bool
  | .label _ => false
  | _ => true

/-- neighbouring tokens: if nothing is written between them, the first accepts the text of
    the second -/
def chainOK : WTok → List (Gap × WTok) → Bool
  | _, [] => true
  | t1, (g, t2) :: r =>
    g.ok && t2.ok && innerOK t2 && (!g.isEmpty || okAfter t1 t2.text) && chainOK t2 r

def Stmt.ok (s : Stmt) : Bool :=
  linesOK s.pre && s.first.ok && firstOK s.first && chainOK s.first s.rest && s.term.ok

structure File where
  stmts : List Stmt
  post : List (Nat × LineEnd) := []    -- lines without statement at the end
  deriving Repr

def stmtsText : List Stmt → Str
  | [] => []
  | s :: r => s.text ++ stmtsText r

def File.text (f : File) : Str := stmtsText f.stmts ++ linesText f.post
def File.toks (f : File) : List Tok := f.stmts.flatMap Stmt.toks
/-- only the last statement may be ended by the end of the text, and then nothing follows -/
def eofOK : List Stmt → List (Nat × LineEnd) → Bool
  | [], _ => true
  | [s], post => s.term != .eof || post.isEmpty
  | s :: r, post => s.term != .eof && eofOK r post

def File.ok (f : File) : Bool := f.stmts.all Stmt.ok && linesOK f.post && eofOK f.stmts f.post

end Fp.Norm
