"""Translator for the One3 model (lean/FparserModel/One3.lean): the statement classes of fparser1.

From the LIVE classes of fparser/one/statements.py, fparser/one/typedecl_statements.py (and the two
block_statements classes whose `match` the type declarations use: Function, SubprogramPrefix):

* one row per mirrored class: the `match` pattern string, whether `re.I` is set, and the pattern
  translated with `re._parser.parse` into the `Fp.One3.Re3` syntax tree interpreted by `Re3.m`;
* sha1 fingerprints of the NORMALISED source (ast dump without docstrings: layout and comments do not
  matter, every token does) of `process_item` / `tofortran` / the selector parsers of every mirrored
  class and of the helper functions of common/utils.py, common/readfortran.py (`Line`),
  common/splitline.py (`StringReplaceDict.__call__`), common/base_classes.py (`get_indent_tab`);
* the pattern strings of the module-level helper regexes (`is_name`, `name_re`, `is_entity_decl`) and
  of the regex literals inside the mirrored methods.

`generate(outdir)` writes `<outdir>/One3Tables.lean`; the kernel obligations over it are in
`FparserModel/Proofs/One3Generated.lean`.
"""
import ast
import hashlib
import inspect
import os
import sys
import textwrap

from fv import repo

try:
    import re._parser as sre_parse
    import re._constants as sre_c
except ImportError:  # < 3.11
    import sre_parse
    import sre_constants as sre_c

import re

MAXREPEAT = sre_c.MAXREPEAT

CLASSES = [
    "Assignment", "PointerAssignment", "GeneralAssignment", "Assign", "Call", "Goto", "ComputedGoto",
    "AssignedGoto", "Continue", "Return", "Stop", "Print", "Read", "Read0", "Read1", "Write", "Flush", "Wait",
    "Contains", "Allocate", "Deallocate", "ModuleProcedure", "Public", "Private", "Close", "Cycle", "Exit",
    "Backspace", "Endfile", "Rewind", "Open", "Format", "Save", "Data", "Nullify", "Use", "Parameter",
    "Equivalence", "Dimension", "Target", "Pointer", "Protected", "Volatile", "Value", "ArithmeticIf",
    "Intrinsic", "Inquire", "Sequence", "External", "Namelist", "Common", "Optional", "Intent", "Entry",
    "Import", "Forall", "SpecificBinding", "GenericBinding", "FinalBinding", "Allocatable",
    "Asynchronous", "Bind", "Else", "ElseIf", "Case", "TypeIs", "ClassIs", "Where", "ElseWhere",
    "Enumerator", "Pause",
    "Integer", "Real", "DoublePrecision", "Complex", "DoubleComplex", "Character", "Logical", "Byte",
    "Type", "Class", "Implicit",
]
BLOCK_CLASSES = ["Function", "SubprogramPrefix"]

METHODS = ["process_item", "tofortran", "tostr", "_parse_kind_selector", "_split_char_selector",
           "_parse_char_selector", "analyze"]

UTIL_FUNCS = ["split_comma", "specs_split_comma", "extract_bracketed_list_items", "parse_array_spec",
              "parse_bind", "parse_result"]
HELPER_RES = ["is_name", "name_re", "is_entity_decl"]


def load():
    repo.activate()
    from fparser.one import statements as S, typedecl_statements as T, block_statements as B
    from fparser.common import utils as U, readfortran as R, splitline as SL, base_classes as BC
    return S, T, B, U, R, SL, BC


def cls_of(name, S, T, B):
    for mod in (S, T):
        if hasattr(mod, name):
            return getattr(mod, name)
    return getattr(B, name)


# ---------------------------------------------------------------------------------------
# regex -> Re3
# ---------------------------------------------------------------------------------------
def _lean_char(c):
    ch = chr(c)
    esc = {"'": "'\\''", "\\": "'\\\\'", "\n": "'\\n'", "\t": "'\\t'", "\r": "'\\r'"}
    if ch in esc:
        return esc[ch]
    if 32 <= c < 127:
        return "'%s'" % ch
    return "(Char.ofNat %d)" % c


def _lean_str(s):
    return '"' + s.replace("\\", "\\\\").replace('"', '\\"').replace("\n", "\\n").replace("\t", "\\t") + '"'


_CATS = {sre_c.CATEGORY_SPACE: ".space", sre_c.CATEGORY_WORD: ".word", sre_c.CATEGORY_DIGIT: ".digit"}


def _set_items(av):
    neg = False
    out = []
    for o, a in av:
        if o is sre_c.NEGATE:
            neg = True
        elif o is sre_c.LITERAL:
            out.append("(.ch %s)" % _lean_char(a))
        elif o is sre_c.RANGE:
            out.append("(.range %s %s)" % (_lean_char(a[0]), _lean_char(a[1])))
        elif o is sre_c.CATEGORY and a in _CATS:
            out.append(_CATS[a])
        else:
            return None
    return "(.set %s [%s])" % ("true" if neg else "false", ", ".join(out))


def _c3(item):
    op, av = item
    if op is sre_c.LITERAL:
        return "(.set false [(.ch %s)])" % _lean_char(av)
    if op is sre_c.NOT_LITERAL:
        return "(.set true [(.ch %s)])" % _lean_char(av)
    if op is sre_c.ANY:
        return ".any"
    if op is sre_c.IN:
        return _set_items(av)
    return None


def _seq(terms):
    terms = [t for t in terms if t != ".eps"]
    if not terms:
        return ".eps"
    out = terms[-1]
    for t in reversed(terms[:-1]):
        out = "(.seq %s %s)" % (t, out)
    return out


_AT = None


def _at(av):
    if av is sre_c.AT_END_STRING:
        return ".eoi"
    if av is sre_c.AT_END:
        return ".eol"
    if av is sre_c.AT_BOUNDARY:
        return ".wb"
    if av in (sre_c.AT_BEGINNING, sre_c.AT_BEGINNING_STRING):
        return ".bos"
    return ".unsupported"


def _items(items):
    terms = []
    for op, av in items:
        if op is sre_c.AT:
            terms.append(_at(av))
        elif op in (sre_c.MAX_REPEAT, sre_c.MIN_REPEAT):
            lo, hi, sub = av
            sub = list(sub)
            one = _c3(sub[0]) if len(sub) == 1 else None
            greedy = op is sre_c.MAX_REPEAT
            if greedy and lo == 0 and hi == MAXREPEAT and one:
                terms.append("(.many %s)" % one)
            elif greedy and lo == 1 and hi == MAXREPEAT and one:
                terms.append("(.many1 %s)" % one)
            elif (not greedy) and lo == 0 and hi == MAXREPEAT and one:
                terms.append("(.lazy %s)" % one)
            elif greedy and lo == 0 and hi == 1:
                terms.append("(.opt %s)" % _items(sub))
            elif greedy and lo == 0 and hi == MAXREPEAT:
                terms.append("(.star %s)" % _items(sub))
            elif greedy and lo == 1 and hi == MAXREPEAT:
                terms.append("(.plus %s)" % _items(sub))
            else:
                terms.append(".unsupported")
        elif op is sre_c.SUBPATTERN:
            terms.append(_items(list(av[3])))
        elif op is sre_c.BRANCH:
            alts = [_items(list(a)) for a in av[1]]
            out = alts[-1]
            for a in reversed(alts[:-1]):
                out = "(.alt %s %s)" % (a, out)
            terms.append(out)
        else:
            one = _c3((op, av))
            terms.append("(.chr %s)" % one if one else ".unsupported")
    return _seq(terms)


def regex_to_re3(pattern, flags=0):
    if pattern is None:
        return ".unsupported"
    return _items(list(sre_parse.parse(pattern, flags & ~re.I)))


def _pattern(match):
    obj = getattr(match, "__self__", None)
    return getattr(obj, "pattern", None), getattr(obj, "flags", 0)


# ---------------------------------------------------------------------------------------
# fingerprints
# ---------------------------------------------------------------------------------------
class _NoDoc(ast.NodeTransformer):
    def _strip(self, node):
        self.generic_visit(node)
        if node.body and isinstance(node.body[0], ast.Expr) and isinstance(getattr(node.body[0], "value", None), ast.Constant) \
                and isinstance(node.body[0].value.value, str):
            node.body = node.body[1:] or [ast.Pass()]
        return node

    visit_FunctionDef = _strip
    visit_ClassDef = _strip


def normalised(fn):
    src = textwrap.dedent(inspect.getsource(fn))
    tree = _NoDoc().visit(ast.parse(src))
    return ast.dump(tree, annotate_fields=False, include_attributes=False)


def fingerprint(fn):
    return hashlib.sha1(normalised(fn).encode("utf-8")).hexdigest()[:16]


def regex_literals(fn):
    """the string literals passed to re.match / re.compile inside a function"""
    out = []
    tree = ast.parse(textwrap.dedent(inspect.getsource(fn)))
    for n in ast.walk(tree):
        if isinstance(n, ast.Call) and isinstance(n.func, ast.Attribute) and n.func.attr in ("match", "compile", "search") \
                and isinstance(n.func.value, ast.Name) and n.func.value.id == "re" and n.args \
                and isinstance(n.args[0], ast.Constant) and isinstance(n.args[0].value, str):
            out.append(n.args[0].value)
    return out


def _owner(cls, meth):
    for k in cls.__mro__:
        if meth in k.__dict__:
            return k
    return None


def _unwrap(f):
    # `analyze` is wrapped by show_item_on_failure
    while getattr(f, "__closure__", None) and f.__name__ == "new_func":
        f = f.__closure__[f.__code__.co_freevars.index("func")].cell_contents
    return f


def collect():
    S, T, B, U, R, SL, BC = load()
    rows = []
    fps = []
    seen = set()
    lits = []
    for name in CLASSES + BLOCK_CLASSES:
        cls = cls_of(name, S, T, B)
        pat, fl = _pattern(getattr(cls, "match", None))
        rows.append(dict(cls=name, pattern=pat or "", ic=bool(fl & re.I), re=regex_to_re3(pat, fl)))
        if name in BLOCK_CLASSES:
            continue
        for meth in METHODS:
            own = _owner(cls, meth)
            if own is None or own in (object,):
                continue
            key = "%s.%s" % (own.__name__, meth)
            if key in seen:
                continue
            if own.__module__.endswith("base_classes") and meth != "tofortran":
                continue
            seen.add(key)
            fn = _unwrap(own.__dict__[meth])
            fps.append((key, fingerprint(fn)))
            for l in regex_literals(fn):
                lits.append((key, l))
        ire = getattr(cls, "item_re", None)
        if ire is not None and "GeneralAssignment.item_re" not in seen:
            seen.add("GeneralAssignment.item_re")
            p, f2 = _pattern(ire)
            lits.append(("GeneralAssignment.item_re", p))
    for fn in UTIL_FUNCS:
        fps.append(("utils." + fn, fingerprint(getattr(U, fn))))
    for meth in ("__init__", "has_map", "apply_map", "copy", "clone", "get_line"):
        fps.append(("Line." + meth, fingerprint(R.Line.__dict__[meth])))
    fps.append(("StringReplaceDict.__call__", fingerprint(SL.StringReplaceDict.__dict__["__call__"])))
    fps.append(("Statement.get_indent_tab", fingerprint(BC.Statement.__dict__["get_indent_tab"])))
    fps.append(("Statement.__init__", fingerprint(BC.Statement.__dict__["__init__"])))
    helpers = []
    for h in HELPER_RES:
        p, f2 = _pattern(getattr(U, h))
        helpers.append((h, "%s%s" % (p, "/i" if f2 & re.I else "")))
    for k, l in lits:
        helpers.append((k, l))
    # the class lists walked by Allocate / Implicit
    helpers.append(("block_statements.type_spec", ",".join(c.__name__ for c in B.type_spec)))
    helpers.append(("typedecl_statements.declaration_type_spec", ",".join(c.__name__ for c in T.declaration_type_spec)))
    helpers.append(("FinalBinding.stmtname", getattr(S.FinalBinding, "stmtname", "")))
    return dict(rows=rows, fps=fps, helpers=helpers)


def render(t):
    L = []
    L.append("import FparserModel.One3")
    L.append("/-!")
    L.append("GENERATED by fv/extract_one3.py - do not edit.")
    L.append("Statement classes of fparser1 (fparser/one/statements.py, typedecl_statements.py), read from the live classes:")
    for r in t["rows"]:
        L.append("    %-18s %s%r" % (r["cls"], "re.I " if r["ic"] else "     ", r["pattern"]))
    L.append("-/")
    L.append("namespace Fp.One3.Gen")
    L.append("open Fp Fp.One3")
    L.append("")
    for k, r in enumerate(t["rows"]):
        L.append("def row%d : Row :=" % k)
        L.append("  { cls := %s, ic := %s," % (_lean_str(r["cls"]), "true" if r["ic"] else "false"))
        L.append("    pattern := %s," % _lean_str(r["pattern"]))
        L.append("    re := %s }" % r["re"])
        L.append("")
    L.append("def fingerprints : List (String × String) := [")
    L.append(",\n".join("  (%s, %s)" % (_lean_str(a), _lean_str(b)) for a, b in t["fps"]))
    L.append("]")
    L.append("")
    L.append("def helperPatterns : List (String × String) := [")
    L.append(",\n".join("  (%s, %s)" % (_lean_str(a), _lean_str(b)) for a, b in t["helpers"]))
    L.append("]")
    L.append("")
    L.append("def tables : Tables :=")
    L.append("  { rows := [%s]," % ", ".join("row%d" % k for k in range(len(t["rows"]))))
    L.append("    fingerprints := fingerprints,")
    L.append("    helperPatterns := helperPatterns }")
    L.append("")
    L.append("end Fp.One3.Gen")
    return "\n".join(L) + "\n"


def render_expected(t):
    """the text of the `expected…` definitions of Proofs/One3Generated.lean (development aid:
    printed by `python -m fv.extract_one3 --expected`, pasted once; the proofs file is NOT generated)"""
    L = []
    L.append("def expectedPatterns : List (String × Bool × String) := [")
    L.append(",\n".join("  (%s, %s, %s)" % (_lean_str(r["cls"]), "true" if r["ic"] else "false", _lean_str(r["pattern"])) for r in t["rows"]))
    L.append("]")
    L.append("")
    L.append("def expectedFingerprints : List (String × String) := [")
    L.append(",\n".join("  (%s, %s)" % (_lean_str(a), _lean_str(b)) for a, b in t["fps"]))
    L.append("]")
    L.append("")
    L.append("def expectedHelpers : List (String × String) := [")
    L.append(",\n".join("  (%s, %s)" % (_lean_str(a), _lean_str(b)) for a, b in t["helpers"]))
    L.append("]")
    return "\n".join(L) + "\n"


def generate(outdir=None):
    """Write One3Tables.lean into `outdir` (default: lean/FparserModel/Generated of this tree)."""
    if outdir is None:
        outdir = os.path.join(os.path.dirname(os.path.dirname(os.path.abspath(__file__))),
                              "lean", "FparserModel", "Generated")
    os.makedirs(outdir, exist_ok=True)
    t = collect()
    path = os.path.join(outdir, "One3Tables.lean")
    text = render(t)
    old = None
    if os.path.exists(path):
        with open(path, encoding="utf-8") as f:
            old = f.read()
    if old != text:
        with open(path, "w", encoding="utf-8") as f:
            f.write(text)
    return path


if __name__ == "__main__":
    if len(sys.argv) > 1 and sys.argv[1] == "--expected":
        sys.stdout.write(render_expected(collect()))
    else:
        print(generate(sys.argv[1] if len(sys.argv) > 1 else None))
