import FparserModel.Proofs.RestPlain
/-!
Property C06 for the Rest classes: which exceptions can ESCAPE from a modelled `match`
(`FparserModel/Rest.lean`).  Toolkit of `Proofs/IoStmtTotal.lean`.
-/
namespace Fp.Rest
open Fp Fp.Splitline Fp.IoStmt

variable {Node : Type}

/-! ## the plans that raise nothing of their own -/

theorem planPos_total (kw : Str) : PlanTotal (planPos kw) := by
  apply planTotal_of_resTotal
  intro s
  unfold planPos
  repeat rt_step

theorem planReturn_total : PlanTotal planReturn := by
  apply planTotal_of_resTotal
  intro s
  unfold planReturn
  repeat rt_step

theorem planBind_total : PlanTotal planBind := by
  apply planTotal_of_resTotal
  intro s
  unfold planBind
  repeat rt_step

theorem planTarget_total : PlanTotal planTarget := by
  apply planTotal_of_resTotal
  intro s
  unfold planTarget
  repeat rt_step

theorem planTypeParamDecl_total : PlanTotal planTypeParamDecl := by
  apply planTotal_of_resTotal
  intro s
  unfold planTypeParamDecl
  repeat rt_step

theorem planEnumerator_total : PlanTotal planEnumerator := by
  apply planTotal_of_resTotal
  intro s
  unfold planEnumerator
  repeat rt_step

theorem planTypeParamDef_total : PlanTotal planTypeParamDef := by
  apply planTotal_of_resTotal
  intro s
  unfold planTypeParamDef
  repeat rt_step

theorem planStmtFunction_total : PlanTotal planStmtFunction := by
  apply planTotal_of_resTotal
  intro s
  unfold planStmtFunction
  repeat rt_step

theorem planWhereConstruct_total : PlanTotal planWhereConstruct := by
  apply planTotal_of_resTotal
  intro s
  unfold planWhereConstruct
  repeat rt_step

theorem planDeclTypeSpec_total : PlanTotal planDeclTypeSpec := by
  apply planTotal_of_resTotal
  intro s
  unfold planDeclTypeSpec
  repeat rt_step

theorem planRename_total : PlanTotal planRename := by
  apply planTotal_of_resTotal
  intro s
  unfold planRename
  repeat rt_step

theorem planInclude_total : PlanTotal planInclude := by
  apply planTotal_of_resTotal
  intro s
  unfold planInclude
  repeat rt_step

theorem planDeferredShape_total : PlanTotal planDeferredShape := by
  apply planTotal_of_resTotal
  intro s
  unfold planDeferredShape
  repeat rt_step

theorem planShapeSpec_total (l u : ClassId) : PlanTotal (planShapeSpec l u) := by
  apply planTotal_of_resTotal
  intro s
  unfold planShapeSpec
  repeat rt_step

theorem planAssumedSize_total : PlanTotal planAssumedSize := by
  apply planTotal_of_resTotal
  intro s
  unfold planAssumedSize
  repeat rt_step

theorem planIoImpliedDo_total : PlanTotal planIoImpliedDo := by
  apply planTotal_of_resTotal
  intro s
  unfold planIoImpliedDo
  repeat rt_step

theorem planDefinedOp_total : PlanTotal planDefinedOp := by
  apply planTotal_of_resTotal
  intro s
  unfold planDefinedOp
  repeat rt_step

theorem planPositionEditDesc_total : PlanTotal planPositionEditDesc := by
  apply planTotal_of_resTotal
  intro s
  unfold planPositionEditDesc
  repeat rt_step

theorem planCrayPointerStmt_total : PlanTotal planCrayPointerStmt := by
  apply planTotal_of_resTotal
  intro s
  unfold planCrayPointerStmt
  split
  · exact ResTotal.noMatch
  · exact resTotal_of_planTotal (combiPlan_total _ (by decide)) s

theorem planIoImpliedDoControl_total : PlanTotal planIoImpliedDoControl := by
  apply planTotal_of_resTotal
  intro s
  unfold planIoImpliedDoControl
  apply ResTotal.tok_bind; intro r
  split
  · rt_leaf
  dsimp only
  split
  · rt_leaf
  · refine ResTotal.ok (NoRaise.cons rfl (NoRaise.append (NoRaise.map_child _ _ _) ?_))
    split <;> simp

/-! ## Target_Entity_Decl: `tokAfter` puts the tokeniser's `KeyError` AFTER the `Name(...)` call -/

/-- as `ResTotal`, but a `Slot.raise .keyError` may sit among the slots -/
def ResTotalK (x : Res (List Slot)) : Prop :=
  (∀ e, x = .raises e → e = .keyError) ∧ (∀ slots, x = .ok slots → RaiseK slots)

/-- as `PlanTotal`, but the only `Slot.raise` allowed among the slots is the tokeniser's `KeyError` -/
def PlanTotalK (plan : Str → Res (List Slot)) : Prop :=
  ∀ s, (∀ e, plan s = .raises e → e = .keyError) ∧
    (∀ slots, plan s = .ok slots → ∀ e, Slot.raise e ∈ slots → e = .keyError)

theorem raiseK_of_noRaise {l : List Slot} (h : NoRaise l) : RaiseK l :=
  fun e he => absurd he (h.not_mem e)

theorem ResTotal.toK {x : Res (List Slot)} (h : ResTotal x) : ResTotalK x :=
  ⟨h.1, fun slots hs => raiseK_of_noRaise (h.2 slots hs)⟩

theorem PlanTotal.toK {plan : Str → Res (List Slot)} (h : PlanTotal plan) : PlanTotalK plan :=
  fun s => ⟨(h s).1, fun slots hs e he => absurd he ((h s).2 slots hs e)⟩

theorem tokAfter_totalK {pre : List Slot} (x : Str) {k : SrmResult → Res (List Slot)} (hpre : NoRaise pre)
    (h : ∀ r, ResTotalK (k r)) : ResTotalK (tokAfter pre x k) := by
  unfold tokAfter
  split
  · exact h _
  · exact ResTotal.toK ResTotal.noMatch
  · rename_i e he
    obtain ⟨rfl, _⟩ := tok_raises he
    refine ⟨fun _ h => (by cases h), fun slots hs => ?_⟩
    cases hs
    intro e he
    rcases List.mem_append.1 he with h1 | h1
    · exact absurd h1 (hpre.not_mem e)
    · simpa using h1

theorem planTargetEntityDecl_totalK : PlanTotalK planTargetEntityDecl := by
  intro s
  show ResTotalK (planTargetEntityDecl s)
  unfold planTargetEntityDecl
  split
  · exact ResTotal.toK ResTotal.noMatch
  dsimp only
  split
  · exact ResTotal.toK (by rt_leaf)
  split
  · refine tokAfter_totalK _ (by simp) fun r => ResTotal.toK ?_
    repeat rt_step
  · exact ResTotal.toK (by rt_leaf)

/-- the `Slot.raise .keyError` is really there when the tokeniser fails: `PlanTotal` itself is FALSE for this plan
    (in the model; `Combi.tokenise = none` is not known to be reachable) -/
theorem planTargetEntityDecl_slots_of_keyError (s nm rest : Str) (h1 : nameMatch s = some (nm, rest))
    (h2 : startsC '(' (lstrip rest) = true) (h3 : Combi.tokenise (lstrip rest) = none) :
    planTargetEntityDecl s = .ok [.child R.Name nm, .raise .keyError] := by
  have h4 : (lstrip rest).isEmpty = false := by
    cases h : lstrip rest with
    | nil => rw [h] at h2; cases h2
    | cons _ _ => rfl
  simp [planTargetEntityDecl, h1, h2, h4, tokAfter, tok, h3]

/-- an exception escaping from a match whose plan is `PlanTotalK` -/
theorem plan_match_totalK (plan : Str → Res (List Slot)) (hp : PlanTotalK plan) (o : Oracle Node) (s : Str) (e : Exc)
    (h : (plan s).bind (runSlots o) = .raises e) : e = .keyError ∨ ∃ c t, o.call c t = .raises e := by
  rcases Res.bind_eq_raises h with h1 | ⟨slots, h1, h2⟩
  · exact .inl ((hp s).1 e h1)
  · rcases runSlots_raises h2 with h3 | ⟨c, t, _, h3⟩
    · exact .inl ((hp s).2 slots h1 e h3)
    · exact .inr ⟨c, t, h3⟩

/-! ## Hollerith_Item: the `ValueError` of `int(...)` is unreachable -/

theorem planHollerith_not_raises (s : Str) (e : Exc) : planHollerith s ≠ .raises e := by
  intro h
  unfold planHollerith at h
  split at h
  · cases h
  split at h
  · cases h
  dsimp only at h
  split at h
  · cases h
  rename_i m hm
  split at h
  · rename_i hn
    obtain ⟨n, hn'⟩ := hollerith_count_int hm
    rw [hn'] at hn; cases hn
  · try dsimp only at h
    split at h
    · cases h
    split at h <;> cases h

theorem planHollerith_total : PlanTotal planHollerith := by
  intro s
  refine ⟨fun e h => absurd h (planHollerith_not_raises s e), fun slots hs e => ?_⟩
  unfold planHollerith at hs
  split at hs
  · cases hs
  split at hs
  · cases hs
  dsimp only at hs
  split at hs
  · cases hs
  split at hs
  · cases hs
  try dsimp only at hs
  split at hs
  · cases hs
  split at hs
  · cases hs
  · cases hs; simp

/-! ## Cray_Pointer_Decl: REPAIRED in /repo (`if not pointee_str: return None` before `pointee_str[-1]`):
    the plan raises nothing of its own any more -/

theorem planCrayPointerDecl_total : PlanTotal planCrayPointerDecl := by
  apply planTotal_of_resTotal
  intro s
  unfold planCrayPointerDecl
  repeat rt_step

/-- REGRESSION witnesses: `pointer (a,)` used to let `IndexError` escape; now "no match", whatever the children do -/
theorem planCrayPointerDecl_empty_pointee_regression :
    planCrayPointerDecl "(a,)".toList = .noMatch ∧ planCrayPointerDecl " ( a , ) ".toList = .noMatch ∧
    planCrayPointerDecl "(,)".toList = .noMatch ∧
    (planCrayPointerDecl "(a,)".toList).bind (runSlots echoOracle) = .noMatch := by
  decide +kernel

theorem crayPointerDecl_match_total (o : Oracle Node) (s : Str) (e : Exc)
    (h : (planCrayPointerDecl s).bind (runSlots o) = .raises e) :
    e = .keyError ∨ ∃ c t, o.call c t = .raises e :=
  plan_match_total _ planCrayPointerDecl_total o s e h

/-! ## Data_Edit_Desc: `string[0]` on the empty string -/

theorem planDataEditDesc_nil : planDataEditDesc [] = .raises .indexError := rfl

theorem planDataEditDesc_cons_total (c0 : Char) (rest : Str) : ResTotal (planDataEditDesc (c0 :: rest)) := by
  unfold planDataEditDesc
  dsimp only
  repeat rt_step

/-- **exact characterisation**: the only exception of the plan is the IndexError on the empty string -/
theorem planDataEditDesc_raises_iff (s : Str) (e : Exc) :
    planDataEditDesc s = .raises e ↔ s = [] ∧ e = .indexError := by
  constructor
  · intro h
    cases s with
    | nil => cases h; exact ⟨rfl, rfl⟩
    | cons c0 rest =>
      have h1 := (planDataEditDesc_cons_total c0 rest).1 e h
      subst h1
      exfalso
      unfold planDataEditDesc at h
      dsimp only at h
      repeat' split at h
      all_goals cases h
  · rintro ⟨rfl, rfl⟩; rfl

/- intended (FALSE for /repo): `PlanTotal planDataEditDesc` -/
theorem planDataEditDesc_partial (s : Str) (hs : s ≠ []) :
    (∀ e, planDataEditDesc s ≠ .raises e) ∧
    (∀ slots, planDataEditDesc s = .ok slots → ∀ e, Slot.raise e ∉ slots) := by
  refine ⟨fun e h => hs ((planDataEditDesc_raises_iff s e).1 h).1, fun slots h e => ?_⟩
  cases s with
  | nil => exact absurd rfl hs
  | cons c0 rest => exact ((planDataEditDesc_cons_total c0 rest).2 slots h).not_mem e

theorem planDataEditDesc_indexError_witness :
    planDataEditDesc [] = .raises .indexError ∧
    (planDataEditDesc []).bind (runSlots echoOracle) = .raises .indexError := by decide

theorem dataEditDesc_match_total (o : Oracle Node) (s : Str) (e : Exc)
    (h : (planDataEditDesc s).bind (runSlots o) = .raises e) :
    (∃ c t, o.call c t = .raises e) ∨ (e = .indexError ∧ s = []) := by
  rcases Res.bind_eq_raises h with h1 | ⟨slots, h1, h2⟩
  · obtain ⟨h3, h4⟩ := (planDataEditDesc_raises_iff s e).1 h1
    exact .inr ⟨h4, h3⟩
  · cases s with
    | nil => cases h1
    | cons c0 rest =>
      exact .inl (runSlots_noRaise_raises ((planDataEditDesc_cons_total c0 rest).2 slots h1) h2)

/-! ## Data_Edit_Desc_C1002: REPAIRED in /repo (`if not my_str: return None` before `my_str[0]`):
    the plan raises nothing of its own any more -/

theorem planDataEditDescC1002_total : PlanTotal planDataEditDescC1002 := by
  apply planTotal_of_resTotal
  intro s
  unfold planDataEditDescC1002
  repeat rt_step

/-- REGRESSION witnesses: `10 format(E)` / `format(g)` used to let `IndexError` escape; now "no match" -/
theorem planDataEditDescC1002_bare_letter_regression :
    planDataEditDescC1002 "E".toList = .noMatch ∧ planDataEditDescC1002 "g ".toList = .noMatch ∧
    planDataEditDescC1002 " e".toList = .noMatch ∧
    (planDataEditDescC1002 "E".toList).bind (runSlots echoOracle) = .noMatch := by
  decide +kernel

theorem dataEditDescC1002_match_total (o : Oracle Node) (s : Str) (e : Exc)
    (h : (planDataEditDescC1002 s).bind (runSlots o) = .raises e) :
    e = .keyError ∨ ∃ c t, o.call c t = .raises e :=
  plan_match_total _ planDataEditDescC1002_total o s e h

/-! ## the child-dependent matchers -/

theorem matchPositionSpec_total (o : Oracle Node) (s : Str) (e : Exc)
    (h : matchPositionSpec o s = .raises e) : ∃ c t, o.call c t = .raises e := by
  unfold matchPositionSpec at h
  exact tableOr_total (unitDefault_total o s e) h

theorem matchWaitSpec_total (o : Oracle Node) (s : Str) (e : Exc)
    (h : matchWaitSpec o s = .raises e) : ∃ c t, o.call c t = .raises e := by
  unfold matchWaitSpec at h
  exact tableOr_total (unitDefault_total o s e) h

theorem wordRows_total (o : Oracle Node) : ∀ (rows : List WordRow) (s : Str) (e : Exc),
    wordRows o rows s = .raises e → ∃ c t, o.call c t = .raises e
  | [], s, e, h => by cases h
  | .kw k c :: rest, s, e, h => by
    unfold wordRows at h
    split at h
    · exact wordRows_total o rest s e h
    · rename_i slots hs
      split at h
      · cases h
      · exact wordRows_total o rest s e h
      · rename_i e' he'
        cases h
        exact runSlots_noRaise_raises (noRaise_ofCombi (wordSplit1_noCrash _ _ _ _ _ slots hs)) he'
  | .dbl w v :: rest, s, e, h => by
    unfold wordRows at h
    split at h
    · cases h
    · exact wordRows_total o rest s e h

theorem matchIntrinsicTypeSpec_total (o : Oracle Node) (s : Str) (e : Exc)
    (h : matchIntrinsicTypeSpec o s = .raises e) : ∃ c t, o.call c t = .raises e :=
  wordRows_total o _ s e h

theorem natureScan_total (o : Oracle Node) : ∀ (ws : List Str) (acc : Option Node) (e : Exc),
    natureScan o ws acc = .raises e → ∃ c t, o.call c t = .raises e
  | [], acc, e, h => by cases h
  | w :: ws, acc, e, h => by
    unfold natureScan at h
    split at h
    · exact natureScan_total o ws _ e h
    · exact natureScan_total o ws _ e h
    · rename_i e' he'
      cases h
      exact ⟨_, _, he'⟩

theorem useTail_total (o : Oracle Node) (nat dc : Item Node) (line : Str) (e : Exc)
    (h : useTail o nat dc line = .raises e) : ∃ c t, o.call c t = .raises e := by
  unfold useTail at h
  split at h
  · exact ⟨_, _, Res.map_eq_raises h⟩
  · try dsimp only at h
    split at h
    · cases h
    rcases Res.bind_eq_raises h with h1 | ⟨nm, _, h2⟩
    · exact ⟨_, _, h1⟩
    · try dsimp only at h2
      repeat' split at h2
      all_goals first | cases h2 | exact ⟨_, _, Res.map_eq_raises h2⟩

theorem matchUse_total (o : Oracle Node) (s : Str) (e : Exc)
    (h : matchUse o s = .raises e) : ∃ c t, o.call c t = .raises e := by
  unfold matchUse at h
  try dsimp only at h
  split at h
  · cases h
  split at h
  · cases h
  split at h
  · cases h
  try dsimp only at h
  split at h
  · rcases Res.bind_eq_raises h with h1 | ⟨nat, _, h2⟩
    · split at h1
      · try dsimp only at h1
        split at h1
        · cases h1
        · exact ⟨_, _, Res.map_eq_raises h1⟩
      · split at h1
        · cases h1
        · cases h1
    · try dsimp only at h2
      split at h2
      · cases h2
      · exact useTail_total o _ _ _ e h2
  · rcases Res.bind_eq_raises h with h1 | ⟨f, _, h2⟩
    · exact natureScan_total o _ _ e h1
    · split at h2
      · cases h2
      · exact useTail_total o _ _ _ e h2

/-- the two-element slot lists of `Format_Item_C1002.match` -/
theorem run_pair_raises {o : Oracle Node} {c1 c2 : ClassId} {t1 t2 : Str} {e : Exc}
    (h : runSlots o [.child c1 t1, .child c2 t2] = .raises e) : ∃ c t, o.call c t = .raises e :=
  runSlots_noRaise_raises (by simp) h

theorem matchFormatItemC1002_total (k : Kinds Node) (o : Oracle Node) (s : Str) (e : Exc)
    (h : matchFormatItemC1002 k o s = .raises e) : e = .keyError ∨ ∃ c t, o.call c t = .raises e := by
  unfold matchFormatItemC1002 at h
  split at h
  · cases h
  try dsimp only at h
  split at h
  · cases h
  split at h
  · split at h
    · exact .inr (run_pair_raises h)
    split at h
    · exact .inr (run_pair_raises h)
    try dsimp only at h
    have hfall : ∀ ss : Str, ((tok ss).bind fun r =>
        match Combi.cutFirst '/' r.text with
        | some (l, rt) =>
          runSlots o [.child C.Format_Item (applyMap r.map (rstrip l)),
                      .child C.Format_Item ('/' :: applyMap r.map (lstrip rt))]
        | none =>
          match Combi.cutFirst ':' r.text with
          | some (l, rt) =>
            runSlots o [.child C.Format_Item (applyMap r.map (rstrip l)),
                        .child C.Format_Item (':' :: applyMap r.map (lstrip rt))]
          | none => .noMatch) = .raises e → e = .keyError ∨ ∃ c t, o.call c t = .raises e := by
      intro ss hf
      rcases Res.bind_eq_raises hf with h1 | ⟨r, _, h2⟩
      · exact .inl (tok_raises h1).1
      · split at h2
        · exact .inr (run_pair_raises h2)
        · split at h2
          · exact .inr (run_pair_raises h2)
          · cases h2
    split at h
    · split at h
      · exact .inr (run_pair_raises h)
      split at h
      · split at h
        · split at h <;> cases h
        · cases h
        · cases h
        · rename_i e' he'
          cases h
          exact .inr (run_pair_raises he')
      · exact hfall _ h
    · exact hfall _ h
  · cases h

theorem matchExprKind_total (k : Kinds Node) (excluded : List String) (o : Oracle Node) (s : Str) (e : Exc)
    (h : matchExprKind k excluded o s = .raises e) : ∃ c t, o.call c t = .raises e := by
  unfold matchExprKind at h
  split at h
  · split at h <;> cases h
  · cases h
  · rename_i e' he'
    cases h
    exact ⟨_, _, he'⟩

theorem matchStopCode_total (o : Oracle Node) (s : Str) (e : Exc)
    (h : matchStopCode o s = .raises e) : ∃ c t, o.call c t = .raises e := by
  unfold matchStopCode at h
  split at h
  · cases h
  split at h
  · cases h
  · exact ⟨_, _, Res.map_eq_raises h⟩

/-! ## the dispatch -/

/-- what can escape from a match of class `c` -/
def Escapes (o : Oracle Node) (c : ClassId) (e : Exc) : Prop :=
  e = .keyError ∨ (∃ c' t, o.call c' t = .raises e) ∨
    (e = .indexError ∧ c = C.Data_Edit_Desc)

theorem escapes_of_two {o : Oracle Node} {c : ClassId} {e : Exc}
    (h : e = .keyError ∨ ∃ c' t, o.call c' t = .raises e) : Escapes o c e :=
  h.elim .inl fun h => .inr (.inl h)

theorem planOf_match_total (o : Oracle Node) (c : ClassId) (plan : Str → Res (List Slot))
    (h : planOf c = some plan) (s : Str) (e : Exc) (hm : (plan s).bind (runSlots o) = .raises e) :
    Escapes o c e := by
  unfold planOf at h
  by_cases h1 : (c == R.Flush_Stmt) = true
  · rw [if_pos h1] at h; cases h; exact escapes_of_two (plan_match_total _ (planPos_total kwFlush) o s e hm)
  rw [if_neg h1] at h; clear h1
  by_cases h1 : (c == R.Backspace_Stmt) = true
  · rw [if_pos h1] at h; cases h; exact escapes_of_two (plan_match_total _ (planPos_total kwBackspace) o s e hm)
  rw [if_neg h1] at h; clear h1
  by_cases h1 : (c == R.Endfile_Stmt) = true
  · rw [if_pos h1] at h; cases h; exact escapes_of_two (plan_match_total _ (planPos_total kwEndfile) o s e hm)
  rw [if_neg h1] at h; clear h1
  by_cases h1 : (c == R.Rewind_Stmt) = true
  · rw [if_pos h1] at h; cases h; exact escapes_of_two (plan_match_total _ (planPos_total kwRewind) o s e hm)
  rw [if_neg h1] at h; clear h1
  by_cases h1 : (c == R.Return_Stmt) = true
  · rw [if_pos h1] at h; cases h; exact escapes_of_two (plan_match_total _ planReturn_total o s e hm)
  rw [if_neg h1] at h; clear h1
  by_cases h1 : (c == R.Bind_Stmt) = true
  · rw [if_pos h1] at h; cases h; exact escapes_of_two (plan_match_total _ planBind_total o s e hm)
  rw [if_neg h1] at h; clear h1
  by_cases h1 : (c == R.Target_Stmt) = true
  · rw [if_pos h1] at h; cases h; exact escapes_of_two (plan_match_total _ planTarget_total o s e hm)
  rw [if_neg h1] at h; clear h1
  by_cases h1 : (c == R.Target_Entity_Decl) = true
  · rw [if_pos h1] at h; cases h; exact escapes_of_two (plan_match_totalK _ planTargetEntityDecl_totalK o s e hm)
  rw [if_neg h1] at h; clear h1
  by_cases h1 : (c == R.Type_Param_Decl) = true
  · rw [if_pos h1] at h; cases h; exact escapes_of_two (plan_match_total _ planTypeParamDecl_total o s e hm)
  rw [if_neg h1] at h; clear h1
  by_cases h1 : (c == R.Enumerator) = true
  · rw [if_pos h1] at h; cases h; exact escapes_of_two (plan_match_total _ planEnumerator_total o s e hm)
  rw [if_neg h1] at h; clear h1
  by_cases h1 : (c == R.Type_Param_Def_Stmt) = true
  · rw [if_pos h1] at h; cases h; exact escapes_of_two (plan_match_total _ planTypeParamDef_total o s e hm)
  rw [if_neg h1] at h; clear h1
  by_cases h1 : (c == R.Stmt_Function_Stmt) = true
  · rw [if_pos h1] at h; cases h; exact escapes_of_two (plan_match_total _ planStmtFunction_total o s e hm)
  rw [if_neg h1] at h; clear h1
  by_cases h1 : (c == R.Where_Construct_Stmt) = true
  · rw [if_pos h1] at h; cases h; exact escapes_of_two (plan_match_total _ planWhereConstruct_total o s e hm)
  rw [if_neg h1] at h; clear h1
  by_cases h1 : (c == R.Declaration_Type_Spec) = true
  · rw [if_pos h1] at h; cases h; exact escapes_of_two (plan_match_total _ planDeclTypeSpec_total o s e hm)
  rw [if_neg h1] at h; clear h1
  by_cases h1 : (c == R.Rename) = true
  · rw [if_pos h1] at h; cases h; exact escapes_of_two (plan_match_total _ planRename_total o s e hm)
  rw [if_neg h1] at h; clear h1
  by_cases h1 : (c == R.Include_Stmt) = true
  · rw [if_pos h1] at h; cases h; exact escapes_of_two (plan_match_total _ planInclude_total o s e hm)
  rw [if_neg h1] at h; clear h1
  by_cases h1 : (c == R.Deferred_Shape_Spec) = true
  · rw [if_pos h1] at h; cases h; exact escapes_of_two (plan_match_total _ planDeferredShape_total o s e hm)
  rw [if_neg h1] at h; clear h1
  by_cases h1 : (c == R.Allocate_Shape_Spec) = true
  · rw [if_pos h1] at h; cases h; exact escapes_of_two (plan_match_total _ (planShapeSpec_total _ _) o s e hm)
  rw [if_neg h1] at h; clear h1
  by_cases h1 : (c == R.Explicit_Shape_Spec) = true
  · rw [if_pos h1] at h; cases h; exact escapes_of_two (plan_match_total _ (planShapeSpec_total _ _) o s e hm)
  rw [if_neg h1] at h; clear h1
  by_cases h1 : (c == R.Assumed_Size_Spec) = true
  · rw [if_pos h1] at h; cases h; exact escapes_of_two (plan_match_total _ planAssumedSize_total o s e hm)
  rw [if_neg h1] at h; clear h1
  by_cases h1 : (c == R.Cray_Pointer_Decl) = true
  · rw [if_pos h1] at h; cases h; exact escapes_of_two (plan_match_total _ planCrayPointerDecl_total o s e hm)
  rw [if_neg h1] at h; clear h1
  by_cases h1 : (c == R.Cray_Pointer_Stmt) = true
  · rw [if_pos h1] at h; cases h; exact escapes_of_two (plan_match_total _ planCrayPointerStmt_total o s e hm)
  rw [if_neg h1] at h; clear h1
  by_cases h1 : (c == R.Io_Implied_Do) = true
  · rw [if_pos h1] at h; cases h; exact escapes_of_two (plan_match_total _ planIoImpliedDo_total o s e hm)
  rw [if_neg h1] at h; clear h1
  by_cases h1 : (c == R.Io_Implied_Do_Control) = true
  · rw [if_pos h1] at h; cases h; exact escapes_of_two (plan_match_total _ planIoImpliedDoControl_total o s e hm)
  rw [if_neg h1] at h; clear h1
  by_cases h1 : (c == R.Defined_Op) = true
  · rw [if_pos h1] at h; cases h; exact escapes_of_two (plan_match_total _ planDefinedOp_total o s e hm)
  rw [if_neg h1] at h; clear h1
  by_cases h1 : (c == C.Data_Edit_Desc) = true
  · rw [if_pos h1] at h; cases h
    rcases dataEditDesc_match_total o s e hm with h2 | ⟨h2, _⟩
    · exact .inr (.inl h2)
    · exact .inr (.inr ⟨h2, by simpa using h1⟩)
  rw [if_neg h1] at h; clear h1
  by_cases h1 : (c == R.Data_Edit_Desc_C1002) = true
  · rw [if_pos h1] at h; cases h; exact escapes_of_two (plan_match_total _ planDataEditDescC1002_total o s e hm)
  rw [if_neg h1] at h; clear h1
  by_cases h1 : (c == C.Hollerith_Item) = true
  · rw [if_pos h1] at h; cases h; exact escapes_of_two (plan_match_total _ planHollerith_total o s e hm)
  rw [if_neg h1] at h; clear h1
  by_cases h1 : (c == R.Position_Edit_Desc) = true
  · rw [if_pos h1] at h; cases h; exact escapes_of_two (plan_match_total _ planPositionEditDesc_total o s e hm)
  rw [if_neg h1] at h; clear h1
  cases h

/-- **match_total** for every class modelled in `Rest.lean`: an exception escaping from `match` is the `KeyError` of
    string_replace_map's un-nesting loop, or was raised inside a child call, or is the `IndexError` of
    `Data_Edit_Desc.match("")` (`string[0]`; latent: no rule hands the empty string to Data_Edit_Desc).
    Since the repairs of `Cray_Pointer_Decl.match` and `Data_Edit_Desc_C1002.match` these two classes are like the others. -/
theorem matchOf_total (k : Kinds Node) (o : Oracle Node) (c : ClassId) (s : Str) (e : Exc)
    (h : matchOf k o c s = some (.raises e)) :
    e = .keyError ∨ (∃ c' t, o.call c' t = .raises e) ∨ (e = .indexError ∧ c = C.Data_Edit_Desc) := by
  show Escapes o c e
  unfold matchOf at h
  split at h
  · rename_i plan hp
    have h1 := Res.map_eq_raises (Res.map_eq_raises (Option.some.inj h))
    exact planOf_match_total o c plan hp s e h1
  · split at h
    · exact escapes_of_two (.inr (matchPositionSpec_total o s e (Res.map_eq_raises (Option.some.inj h))))
    split at h
    · exact escapes_of_two (.inr (matchWaitSpec_total o s e (Res.map_eq_raises (Option.some.inj h))))
    split at h
    · exact escapes_of_two (.inr (matchIntrinsicTypeSpec_total o s e (Res.map_eq_raises (Option.some.inj h))))
    split at h
    · exact escapes_of_two (.inr (matchUse_total o s e (Res.map_eq_raises (Option.some.inj h))))
    split at h
    · exact escapes_of_two (matchFormatItemC1002_total k o s e (Res.map_eq_raises (Option.some.inj h)))
    split at h
    · exact escapes_of_two (.inr (matchExprKind_total k _ o s e (Option.some.inj h)))
    split at h
    · exact escapes_of_two (.inr (matchExprKind_total k _ o s e (Option.some.inj h)))
    split at h
    · exact escapes_of_two (.inr (matchExprKind_total k _ o s e (Option.some.inj h)))
    split at h
    · exact escapes_of_two (.inr (matchExprKind_total k _ o s e (Option.some.inj h)))
    split at h
    · exact escapes_of_two (.inr (matchStopCode_total o s e (Option.some.inj h)))
    · cases h

/-- the IndexError disjunct is realised (only by the empty string), and the two repaired classes no longer raise -/
def echoKinds : Kinds Str := { isInst := fun _ _ => false, pOK := fun _ => false }

theorem matchOf_indexError_witness :
    matchOf echoKinds echoOracle C.Data_Edit_Desc [] = some (.raises .indexError) := by decide +kernel

theorem matchOf_repaired_regression :
    matchOf echoKinds echoOracle R.Cray_Pointer_Decl "(a,)".toList = some .noMatch ∧
    matchOf echoKinds echoOracle R.Data_Edit_Desc_C1002 "E".toList = some .noMatch := by
  refine ⟨?_, ?_⟩ <;> decide +kernel

/-- for every other class (and for Data_Edit_Desc on a non-empty text) the IoStmt form holds -/
theorem matchOf_total_other (k : Kinds Node) (o : Oracle Node) (c : ClassId) (s : Str) (e : Exc)
    (hc : c ≠ C.Data_Edit_Desc ∨ s ≠ [])
    (h : matchOf k o c s = some (.raises e)) : e = .keyError ∨ ∃ c' t, o.call c' t = .raises e := by
  rcases matchOf_total k o c s e h with h1 | h1 | ⟨he, h1⟩
  · exact .inl h1
  · exact .inr h1
  · rcases hc with hc | hs
    · exact absurd h1 hc
    · subst h1
      have hp : planOf C.Data_Edit_Desc = some planDataEditDesc := rfl
      unfold matchOf at h
      rw [hp] at h
      have h2 := Res.map_eq_raises (Res.map_eq_raises (Option.some.inj h))
      rcases dataEditDesc_match_total o s e h2 with h3 | ⟨_, h3⟩
      · exact .inr h3
      · exact absurd h3 hs

#print axioms planPos_total
#print axioms planReturn_total
#print axioms planBind_total
#print axioms planTarget_total
#print axioms planTargetEntityDecl_totalK
#print axioms planTargetEntityDecl_slots_of_keyError
#print axioms planTypeParamDecl_total
#print axioms planEnumerator_total
#print axioms planTypeParamDef_total
#print axioms planStmtFunction_total
#print axioms planWhereConstruct_total
#print axioms planDeclTypeSpec_total
#print axioms planRename_total
#print axioms planInclude_total
#print axioms planDeferredShape_total
#print axioms planShapeSpec_total
#print axioms planAssumedSize_total
#print axioms planCrayPointerStmt_total
#print axioms planIoImpliedDo_total
#print axioms planIoImpliedDoControl_total
#print axioms planDefinedOp_total
#print axioms planPositionEditDesc_total
#print axioms planHollerith_not_raises
#print axioms planHollerith_total
#print axioms plan_match_totalK
#print axioms crayPointerDecl_match_total
#print axioms planDataEditDesc_raises_iff
#print axioms planDataEditDesc_partial
#print axioms planDataEditDesc_indexError_witness
#print axioms dataEditDesc_match_total
#print axioms dataEditDescC1002_match_total
#print axioms matchPositionSpec_total
#print axioms matchWaitSpec_total
#print axioms matchIntrinsicTypeSpec_total
#print axioms matchUse_total
#print axioms matchFormatItemC1002_total
#print axioms matchExprKind_total
#print axioms matchStopCode_total
#print axioms planOf_match_total
#print axioms matchOf_total
#print axioms matchOf_indexError_witness
#print axioms matchOf_total_other

end Fp.Rest
#print axioms Fp.Rest.planCrayPointerDecl_total
#print axioms Fp.Rest.planCrayPointerDecl_empty_pointee_regression
#print axioms Fp.Rest.planDataEditDescC1002_total
#print axioms Fp.Rest.planDataEditDescC1002_bare_letter_regression
#print axioms Fp.Rest.matchOf_repaired_regression
