"""C05 — fixed-form source is recognised and parses like its free-form equivalent."""
import random
from fv import real, gen, layout, treeutil, engine, findings
from fv.props import util
from fv.model import get_model

RULE = ("generated programs rendered in fixed form (labels cols 1-5, continuation mark in col 6 from '&1+*$x', wrap column in "
        "{40,60,66,72}, early wraps, comment lines C/c/*/! incl. between continuation lines, literals crossing the wrap); oracle: "
        "detected mode == fixed and tree == tree(free canonical); free renderings (first statement in cols 1-5): detected free; "
        "detection also compared with the Lean model Fp.SourceInfo.detect; non-trivial = >= 2 wrapped statements"
        ' Correspondence: Fp.Reader (fixed-form branch) against the real reader on every second fixed-form rendering.')
ASSUMPTIONS = ["format detection is the sourceinfo heuristic; its domain restrictions are theorem hypotheses (detect_fixed/detect_free)"]
TIE_MODULES = ["FparserModel.SourceInfo", "FparserModel.Reader"]


# dedicated stream: one probe per listed boundary, so that each known finding is re-confirmed
# on every run (and a repair or a regression becomes visible)
PROBES = [
    ("fixed", "      program p\nC comment &\n      x = 1\n      end\n"),
    ("fixed", "      program p\n      outer:\n     & do i = 1, 2\n      end do outer\n      end\n"),
    ("fixed", "      program p\n      integer :\n     &: x\n      end\n"),
    ("free", "10 a = b\n20 continue\n"),
    ("free", "call foo()\ncontinue\n"),
    ("free", "      program p\n      x = 1\n      end program p\n"),
]


def run_probe(case):
    expect, src = PROBES[case["probe"]]
    res = {"key": ["probe", case["probe"]], "counts": {"mode:probe": 1}, "findings": [], "nontrivial": True}
    o = None
    r = real.make_reader(src)
    mode_real = "free" if r.format.is_free else "fixed"
    bad = None
    if mode_real != expect:
        bad = "%s-form probe detected as %s" % (expect, mode_real)
    else:
        o = real.try_parse(src)
        if o.kind != "tree":
            bad = "probe rejected: %s" % util.outcome_signature(o)
    if bad:
        known = findings.classify("C05", src, {"expect": expect})
        res["findings"].append({"signature": known or ("probe:%d" % case["probe"]), "what": bad + " | " + repr(src),
                                "replay": {"case": case, "source": src}})
    return res


def run_case(case):
    if "probe" in case:
        return run_probe(case)
    p = util.program_case(case)
    std = case["std"]
    res = {"key": [case["seed"], case["mode"], case.get("wrap")], "counts": {"mode:" + case["mode"]: 1}, "findings": []}
    canon = p.text()
    o0 = real.try_parse(canon, std=std, free=True)
    if o0.kind != "tree":
        res["nontrivial"] = False
        return res
    m = get_model()
    rng = random.Random(case["seed"] ^ 0xC05)
    if case["mode"] == "fixed":
        opts = layout.FixedOpts(wrap=case["wrap"], comments=True)
        L = layout.render_fixed(p, rng, opts)
        src = L.text()
        res["counts"].update({"lay:" + k: v for k, v in L.decisions.items()})
        res["nontrivial"] = L.decisions.get("wrap", 0) + L.decisions.get("early-wrap", 0) >= 2
        res["sample"] = {"seed": case["seed"], "wrap": case["wrap"], "head": src[:400]}
        r = real.make_reader(src)
        mode_real = "free" if r.format.is_free else "fixed"
        mode_model = m.ask("srcinfo", src)[0]
        if mode_model != mode_real:
            res["findings"].append({"signature": "correspondence:Fp.SourceInfo", "no_input": True,
                                    "what": "format detection: real %s, model %s" % (mode_real, mode_model),
                                    "replay": {"case": case, "source": src}})
        if mode_real != "fixed":
            known = findings.classify("C05", src, {"expect": "fixed"})
            res["findings"].append({"signature": known or "fixed-detected-as-free",
                                    "what": "fixed-form rendering detected as %s" % mode_real,
                                    "replay": {"case": case, "source": src}})
            return res
        if case["seed"] % 2 == 0:
            res["findings"] += util.reader_cosim(src, "fix", case=case)
            res["counts"]["reader-cosim"] = 1
        o1 = real.try_parse(src, std=std)
        if o1.kind != "tree":
            res["findings"].append({"signature": "fixed-reject:" + util.outcome_signature(o1),
                                    "what": "fixed-form rendering rejected: %s" % str(o1.exc)[:300],
                                    "replay": {"case": case, "source": src, "canonical": canon}})
            return res
        a, b = treeutil.sig(o0.tree), treeutil.sig(o1.tree)
        if a != b:
            d = treeutil.first_diff(a, b)
            res["findings"].append({"signature": "fixed-tree-differs:" + (str(d[1])[:40] if d else "?"),
                                    "what": "tree(fixed) differs from tree(free) at %s: %s vs %s" % d,
                                    "replay": {"case": case, "source": src, "canonical": canon}})
    else:
        L = layout.render_free(p, case["seed"] ^ 0xC05, layout.FreeOpts(comments=True, indent=case.get("indent", "tree")))
        src = L.text()
        res["nontrivial"] = True
        res["sample"] = {"seed": case["seed"], "mode": "free", "head": src[:200]}
        r = real.make_reader(src)
        mode_real = "free" if r.format.is_free else "fixed"
        mode_model = m.ask("srcinfo", src)[0]
        if mode_model != mode_real:
            res["findings"].append({"signature": "correspondence:Fp.SourceInfo", "no_input": True,
                                    "what": "format detection: real %s, model %s" % (mode_real, mode_model),
                                    "replay": {"case": case, "source": src}})
        if mode_real != "free":
            known = findings.classify("C05", src, {"expect": "free"})
            res["findings"].append({"signature": known or "free-detected-as-fixed",
                                    "what": "free-form source (first statement in cols 1-5) detected as fixed",
                                    "replay": {"case": case, "source": src}})
    return res


def cases(tier, seed):
    n = util.tier_n(tier, 200, 2500)
    out = [{"probe": i} for i in range(len(PROBES))]
    wraps = [72, 72, 66, 60, 40]
    for i, s in enumerate(util.seeds(seed, n, 5)):
        if i % 4 == 3:
            out.append({"seed": s, "std": "f2008", "mode": "free", "indent": ["tree", "none", "random"][i % 3]})
        else:
            out.append({"seed": s, "std": "f2008" if i % 3 else "f2003", "mode": "fixed", "wrap": wraps[i % len(wraps)]})
    return out


def run(tier, rep, st):
    engine.run_cases(__name__, cases(tier, rep.seed), rep)
