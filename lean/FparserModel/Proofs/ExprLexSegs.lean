import FparserModel.Proofs.ExprLexScan

/-!
From a checked segmentation (`checkSegs`) to the behaviour of every operator scanner on the
line, and from there to the token-level splitting functions of `Fp.Expr`.
-/
namespace Fp.ExprLex
open Fp Fp.Expr

/-- the pieces `re.split` must produce, read off the segments -/
def piecesOf (q : Pat) : List Seg → Str → List Str
  | [], cur => [cur.reverse]
  | .gap s :: rest, cur => piecesOf q rest (s.reverse ++ cur)
  | .word k s :: rest, cur =>
    if inCls k q then cur.reverse :: s :: piecesOf q rest [] else piecesOf q rest (s.reverse ++ cur)

/-- no `/=` word when the pattern is `mult_op` -/
def cleanFor (q : Pat) (sg : List Seg) : Prop := ∀ k s, Seg.word k s ∈ sg → tolerated k q = false

theorem mem_allPats (q : Pat) : q ∈ allPats := by cases q <;> simp [allPats]

theorem flat_cons (x : Seg) (rest : List Seg) : flat (x :: rest) = x.text ++ flat rest := by
  simp [flat]

theorem flat_nil : flat [] = [] := rfl

theorem flat_append (a b : List Seg) : flat (a ++ b) = flat a ++ flat b := by
  simp [flat]

theorem cleanFor_tail {q : Pat} {x : Seg} {rest : List Seg} (h : cleanFor q (x :: rest)) :
    cleanFor q rest := fun k s hm => h k s (List.mem_cons_of_mem _ hm)

theorem segOK_gap {prev : Option Char} {s after : Str} (h : segOK prev (.gap s) after = true) :
    (∀ q, noHit q prev s after = true) ∧ headIs (dropSp s) '=' = false := by
  simp only [segOK, Bool.and_eq_true, Bool.not_eq_true'] at h
  exact ⟨fun q => List.all_eq_true.mp h.1 q (mem_allPats q), h.2⟩

theorem segOK_word {prev : Option Char} {k : TK} {s after : Str}
    (h : segOK prev (.word k s) after = true) :
    s ≠ [] ∧
    (∀ q, inCls k q = true → matchAt q prev (s ++ after) = some s.length) ∧
    (∀ q, inCls k q = false → tolerated k q = false → noHit q prev s after = true) ∧
    (∀ w, k = .dotted w → nonDefinedMatch (upper (strip s)) = (dotClass w != .other)) ∧
    (∃ n, tokAt s = some (k, n)) ∧ startsBlank s = false ∧ endsBlank s = false := by
  simp only [segOK, Bool.and_eq_true, Bool.not_eq_true'] at h
  obtain ⟨⟨⟨⟨⟨hne, hall⟩, hex⟩, htok⟩, hsb⟩, heb⟩ := h
  refine ⟨by simpa using hne, ?_, ?_, ?_, ?_, hsb, heb⟩
  · intro q hq
    have := List.all_eq_true.mp hall q (mem_allPats q)
    simp only [hq, ↓reduceIte] at this
    simpa using this
  · intro q hq ht
    have := List.all_eq_true.mp hall q (mem_allPats q)
    simpa only [hq, ht, Bool.false_eq_true, ↓reduceIte] using this
  · intro w hk
    subst hk
    simpa using hex
  · split at htok
    · rename_i k' n heq
      have : k' = k := by simpa using htok
      subst this
      exact ⟨n, heq⟩
    · cases htok

/-- **the scanners see the segments** -/
theorem scan_segs (q : Pat) : ∀ (sg : List Seg) (prev : Option Char) (cur : Str),
    checkSegs prev sg = true → cleanFor q sg → scan q prev (flat sg) 0 cur = piecesOf q sg cur
  | [], prev, cur, _, _ => by simp [flat_nil, scan, piecesOf]
  | .gap s :: rest, prev, cur, h, hc => by
    simp only [checkSegs, Bool.and_eq_true, Seg.text] at h
    rw [flat_cons, Seg.text, scan_skip q s prev (flat rest) cur ((segOK_gap h.1).1 q), piecesOf]
    exact scan_segs q rest _ _ h.2 (cleanFor_tail hc)
  | .word k s :: rest, prev, cur, h, hc => by
    simp only [checkSegs, Bool.and_eq_true, Seg.text] at h
    obtain ⟨hne, hin1, hin0, _, _, _, _⟩ := segOK_word h.1
    rw [flat_cons, Seg.text, piecesOf]
    by_cases hin : inCls k q = true
    · simp only [hin, ↓reduceIte]
      rw [scan_take q s prev (flat rest) cur hne (hin1 q hin)]
      rw [scan_segs q rest _ _ h.2 (cleanFor_tail hc)]
    · have htol : tolerated k q = false := hc k s (List.mem_cons_self ..)
      simp only [hin, Bool.false_eq_true, ↓reduceIte]
      rw [scan_skip q s prev (flat rest) cur (hin0 q (by simpa using hin) htol)]
      exact scan_segs q rest _ _ h.2 (cleanFor_tail hc)

end Fp.ExprLex
