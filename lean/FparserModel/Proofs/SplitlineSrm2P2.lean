import FparserModel.Proofs.SplitlineSrm2Iface
/-!
Phase 2 of `string_replace_map` (exponent constants → `F2PY_REAL_CONSTANT_n_`) as a token list.

The list of constants is computed once; every constant is then replaced everywhere in the
current text (`str.replace`).  On a well-formed token text (genuine bound closed keys, `F2PY`-free
expansion) this keeps the expansion (`valJoin`) unchanged, PROVIDED no found constant contains
`F2PY` or ends in a non-empty proper prefix of a placeholder (`_`, `F`, `F2`, `F2P`; `FoundsOK`):
otherwise an occurrence may straddle into a following placeholder
(`2e3 + 1e5_2e3 + 1e5_F`, `… 1e5_a1.e5 + 1e5_a_'…'`).
-/
namespace Fp.Splitline
open Fp

/-! ## (1) shape of a found constant -/

/-- digits, then `.` or (after at least one digit) an exponent letter -/
def ExpShape (f : Str) : Prop :=
  ∃ fd x ft, f = fd ++ x :: ft ∧ (∀ c ∈ fd, isDigit c = true) ∧ isDigit x = false ∧
    ((x = '.') ∨ (isExpChar x = true ∧ fd ≠ []))

theorem isExpChar_not_digit {e : Char} (h : isExpChar e = true) : isDigit e = false ∧ e ≠ '.' := by
  unfold isExpChar at h
  simp only [Bool.or_eq_true, beq_iff_eq] at h
  rcases h with ((rfl | rfl) | rfl) | rfl <;> decide

theorem ExpShape.ne_nil {f : Str} (h : ExpShape f) : f ≠ [] := by
  obtain ⟨fd, x, ft, rfl, _⟩ := h
  simp

theorem mem_takeWhile_digit : ∀ (s : Str) (c : Char), c ∈ s.takeWhile isDigit → isDigit c = true
  | [], c, h => by simp at h
  | a :: s, c, h => by
    rw [List.takeWhile_cons] at h
    split at h
    · rename_i ha
      rcases List.mem_cons.mp h with rfl | h
      · exact ha
      · exact mem_takeWhile_digit s c h
    · simp at h

theorem expMatch_shape {s f r : Str} (h : expMatch s = some (f, r)) : ExpShape f := by
  have hd1 : ∀ c ∈ s.takeWhile isDigit, isDigit c = true := mem_takeWhile_digit s
  unfold expMatch at h
  simp only at h
  split at h
  · cases h
  · cases h
  · rename_i m e r' hm
    split at h
    · rename_i he
      rw [Option.ite_none_left_eq_some] at h
      obtain ⟨_, h⟩ := h
      simp only [Option.some.injEq, Prod.mk.injEq] at h
      obtain ⟨hf, _⟩ := h
      have hf' : ∃ tl, f = m ++ e :: tl := by
        rw [← hf]; simp only [List.append_assoc, List.cons_append]; exact ⟨_, rfl⟩
      clear hf
      obtain ⟨tl, hf⟩ := hf'
      split at hm
      · rename_i r2 hr1
        split at hm
        · cases hm
        · simp only [Option.some.injEq, Prod.mk.injEq] at hm
          obtain ⟨hm1, _⟩ := hm
          refine ⟨s.takeWhile isDigit, '.', List.takeWhile isDigit r2 ++ e :: tl, ?_, hd1, by decide, .inl rfl⟩
          rw [hf, ← hm1]
          simp only [List.append_assoc, List.cons_append]
      · split at hm
        · cases hm
        · rename_i hne
          simp only [Option.some.injEq, Prod.mk.injEq] at hm
          obtain ⟨hm1, _⟩ := hm
          refine ⟨s.takeWhile isDigit, e, tl, ?_, hd1, (isExpChar_not_digit he).1, .inr ⟨he, ?_⟩⟩
          · rw [hf, ← hm1]
          · intro h0; rw [h0] at hne; simp at hne
    · cases h

theorem expFindAll_shape : ∀ (fuel : Nat) (b : Bool) (s : Str), ∀ f ∈ expFindAll fuel b s, ExpShape f := by
  intro fuel
  induction fuel with
  | zero => intro b s f hf; simp [expFindAll] at hf
  | succ n ih =>
    intro b s f hf
    cases s with
    | nil => simp [expFindAll] at hf
    | cons c cs =>
      unfold expFindAll at hf
      split at hf
      · split at hf
        · rename_i m rest hm
          rcases List.mem_cons.mp hf with h | h
          · subst h; exact expMatch_shape hm
          · exact ih _ _ f h
        · split at hf
          · split at hf
            · rename_i m rest hm
              rcases List.mem_cons.mp hf with h | h
              · subst h; exact expMatch_shape hm
              · exact ih _ _ f h
            · exact ih _ _ f hf
          · exact ih _ _ f hf
      · split at hf
        · split at hf
          · rename_i m rest hm
            rcases List.mem_cons.mp hf with h | h
            · subst h; exact expMatch_shape hm
            · exact ih _ _ f h
          · exact ih _ _ f hf
        · exact ih _ _ f hf

theorem expConsts_shape (s : Str) : ∀ f ∈ expConsts s, ExpShape f :=
  expFindAll_shape _ _ _

/-! ## (2) where a found constant can start -/

/-- necessary condition for an `ExpShape` text to be a prefix of `s` -/
def canStart (s : Str) : Bool :=
  (match s.head? with
    | some c => isDigit c || c == '.'
    | none => false) &&
  (match (s.dropWhile isDigit).head? with
    | some x => x == '.' || isExpChar x
    | none => false)

theorem canStart_of_match {f s r : Str} (hs : ExpShape f) (h : stripPrefix? f s = some r) :
    canStart s = true := by
  obtain ⟨fd, x, ft, rfl, hfd, hx, hx'⟩ := hs
  have hs := stripPrefix?_eq_some h
  have hs' : s = fd ++ (x :: (ft ++ r)) := by rw [hs]; simp
  obtain ⟨_, h2⟩ := takeWhile_digits fd (x :: (ft ++ r)) hfd (by intro c hc; simp at hc; subst hc; exact hx)
  unfold canStart
  rw [← hs'] at h2
  rw [h2]
  have hx2 : (x == '.' || isExpChar x) = true := by
    rcases hx' with rfl | ⟨he, _⟩
    · rfl
    · simp [he]
  simp only [List.head?_cons, hx2, Bool.and_true]
  cases fd with
  | nil =>
    rcases hx' with rfl | ⟨_, hne⟩
    · rw [hs']; rfl
    · exact absurd rfl hne
  | cons d fd =>
    rw [hs']
    simp [hfd d (by simp)]

theorem noStart {f s : Str} (hs : ExpShape f) (h : canStart s = false) : stripPrefix? f s = none := by
  cases hm : stripPrefix? f s with
  | none => rfl
  | some r => rw [canStart_of_match hs hm] at h; cases h

/-! ## (3) no occurrence starts inside a closed key -/

/-- no occurrence of `f` starts at a position of `k` in the text `k ++ Z` -/
def NoMatchIn (f : Str) : Str → Str → Prop
  | [], _ => True
  | a :: k, Z => stripPrefix? f (a :: (k ++ Z)) = none ∧ NoMatchIn f k Z

theorem NoMatchIn_append (f a b Z : Str) (h1 : NoMatchIn f a (b ++ Z)) (h2 : NoMatchIn f b Z) :
    NoMatchIn f (a ++ b) Z := by
  induction a with
  | nil => exact h2
  | cons c a ih =>
    obtain ⟨h3, h4⟩ := h1
    refine ⟨?_, ih h4⟩
    simpa using h3

theorem NoMatchIn_digits {f : Str} (hs : ExpShape f) (Z : Str) :
    ∀ ds : Str, (∀ c ∈ ds, isDigit c = true) → NoMatchIn f ds ('_' :: Z)
  | [], _ => trivial
  | d :: ds, h => by
    refine ⟨noStart hs ?_, NoMatchIn_digits hs Z ds (fun c hc => h c (by simp [hc]))⟩
    obtain ⟨_, h2⟩ := takeWhile_digits (d :: ds) ('_' :: Z) h (by intro c hc; simp at hc; subst hc; decide)
    unfold canStart
    simp only [List.cons_append] at h2
    rw [h2]
    simp only [List.head?_cons]
    have : ('_' == '.' || isExpChar '_') = false := by decide
    rw [this]; simp

theorem canStart_nondigit (a : Char) (s : Str) (h : (isDigit a || a == '.') = false) :
    canStart (a :: s) = false := by
  unfold canStart
  simp only [List.head?_cons, h, Bool.false_and]

theorem canStart_2P (s : Str) : canStart ('2' :: 'P' :: s) = false := by
  unfold canStart
  have h1 : isDigit '2' = true := by decide
  have h2 : isDigit 'P' = false := by decide
  simp only [List.dropWhile_cons, h1, h2, if_true, Bool.false_eq_true, if_false, List.head?_cons]
  decide

theorem NoMatchIn_strPrefix {f : Str} (hs : ExpShape f) (Z : Str) : NoMatchIn f strPrefix Z := by
  unfold strPrefix
  refine ⟨?_, ?_, ?_, ?_, ?_, ?_, ?_, ?_, ?_, ?_, ?_, ?_, ?_, ?_, ?_, ?_, ?_, ?_, ?_, ?_, ?_, ?_, trivial⟩
  case refine_3 => exact noStart hs (canStart_2P _)
  all_goals exact noStart hs (canStart_nondigit _ _ (by decide))

theorem NoMatchIn_realPrefix {f : Str} (hs : ExpShape f) (Z : Str) : NoMatchIn f realPrefix Z := by
  unfold realPrefix
  refine ⟨?_, ?_, ?_, ?_, ?_, ?_, ?_, ?_, ?_, ?_, ?_, ?_, ?_, ?_, ?_, ?_, ?_, ?_, ?_, trivial⟩
  case refine_2 => exact noStart hs (canStart_2P _)
  all_goals exact noStart hs (canStart_nondigit _ _ (by decide))

theorem NoMatchIn_numbered {f : Str} (hs : ExpShape f) (p : Str) (hp : ∀ Z, NoMatchIn f p Z)
    (j : Nat) (Z : Str) : NoMatchIn f (p ++ natStr j ++ ['_']) Z := by
  rw [List.append_assoc]
  apply NoMatchIn_append _ _ _ _ (hp _)
  apply NoMatchIn_append
  · exact NoMatchIn_digits hs Z _ (natStr_spec j).2.1
  · exact ⟨noStart hs (canStart_nondigit _ _ (by decide)), trivial⟩

theorem NoMatchIn_closed {f k : Str} (hs : ExpShape f) (hk : ClosedKey k) (Z : Str) :
    NoMatchIn f k Z := by
  rcases hk with ⟨j, rfl⟩ | ⟨j, rfl⟩
  · exact NoMatchIn_numbered hs _ (NoMatchIn_strPrefix hs) j Z
  · exact NoMatchIn_numbered hs _ (NoMatchIn_realPrefix hs) j Z

/-! ## (4) `str.replace` without fuel -/

theorem stripPrefix?_length {old s rest : Str} (hne : old ≠ []) (h : stripPrefix? old s = some rest) :
    rest.length < s.length := by
  rw [stripPrefix?_eq_some h]
  cases old with
  | nil => exact absurd rfl hne
  | cons a o => simp; omega

theorem replaceAllAux_fuel (old new : Str) :
    ∀ (fuel fuel' : Nat) (s : Str), s.length < fuel → s.length < fuel' →
      replaceAllAux old new fuel s = replaceAllAux old new fuel' s := by
  intro fuel
  induction fuel with
  | zero => intro fuel' s h; omega
  | succ n ih =>
    intro fuel' s h h'
    cases fuel' with
    | zero => omega
    | succ n' =>
      cases s with
      | nil => simp [replaceAllAux]
      | cons c cs =>
        unfold replaceAllAux
        split
        · rfl
        · rename_i hne
          split
          · rename_i rest hm
            have hne' : old ≠ [] := by intro h0; rw [h0] at hne; simp at hne
            have := stripPrefix?_length hne' hm
            rw [ih n' rest (by omega) (by omega)]
          · rw [ih n' cs (by simp at h; omega) (by simp at h'; omega)]

/-- `s.replace(f, k)` -/
def ra (f k s : Str) : Str := replaceAll s f k

theorem ra_nil (f k : Str) : ra f k [] = [] := by
  simp [ra, replaceAll, replaceAllAux]

theorem ra_match {f k : Str} (hne : f ≠ []) {c : Char} {cs rest : Str}
    (h : stripPrefix? f (c :: cs) = some rest) : ra f k (c :: cs) = k ++ ra f k rest := by
  have hl := stripPrefix?_length hne h
  have he : f.isEmpty = false := by cases f with | nil => exact absurd rfl hne | cons _ _ => rfl
  unfold ra replaceAll
  conv => lhs; unfold replaceAllAux
  simp only [he, Bool.false_eq_true, if_false, h]
  rw [replaceAllAux_fuel f k _ (rest.length + 1) rest (by simpa using hl) (by omega)]

theorem ra_skip {f k : Str} {c : Char} {cs : Str}
    (h : stripPrefix? f (c :: cs) = none) : ra f k (c :: cs) = c :: ra f k cs := by
  unfold ra replaceAll
  conv => lhs; unfold replaceAllAux
  split
  · rename_i he
    cases f with
    | nil => simp [stripPrefix?] at h
    | cons _ _ => simp at he
  · simp only [h]
    rfl

/-! ## (5a) a closed key is copied -/

theorem ra_key {f new : Str} (Z : Str) : ∀ k : Str, NoMatchIn f k Z → ra f new (k ++ Z) = k ++ ra f new Z
  | [], _ => rfl
  | a :: k, h => by
    obtain ⟨h1, h2⟩ := h
    show ra f new (a :: (k ++ Z)) = a :: (k ++ ra f new Z)
    rw [ra_skip h1, ra_key Z k h2]

/-! ## (5b,5c,6) a stretch of plain text in front of a key or of the end -/

/-- what may follow a stretch of plain text: nothing, or a closed key -/
def ZOK (Z : Str) : Prop :=
  Z = [] ∨ (∃ t, Z = 'F' :: '2' :: 'P' :: 'Y' :: t) ∨ (∃ t, Z = '_' :: 'F' :: '2' :: 'P' :: 'Y' :: t)

theorem ZOK_closed {k : Str} (hk : ClosedKey k) (R : Str) : ZOK (k ++ R) := by
  rcases hk with ⟨j, rfl⟩ | ⟨j, rfl⟩
  · exact .inr (.inr ⟨_, rfl⟩)
  · exact .inr (.inl ⟨_, rfl⟩)

/-- the constant ends with a non-empty proper prefix of a placeholder
    (`_`, `F`, `F2`, `F2P`, also after `_`) -/
def badEnd (f : Str) : Bool :=
  match f.reverse with
  | '_' :: _ => true
  | 'F' :: _ => true
  | '2' :: 'F' :: _ => true
  | 'P' :: '2' :: 'F' :: _ => true
  | _ => false

theorem badEnd_us (X : Str) : badEnd (X ++ ['_']) = true := by
  unfold badEnd; rw [List.reverse_append]; rfl
theorem badEnd_F (X : Str) : badEnd (X ++ ['F']) = true := by
  unfold badEnd; rw [List.reverse_append]; rfl
theorem badEnd_F2 (X : Str) : badEnd (X ++ ['F', '2']) = true := by
  unfold badEnd; rw [List.reverse_append]; rfl
theorem badEnd_F2P (X : Str) : badEnd (X ++ ['F', '2', 'P']) = true := by
  unfold badEnd; rw [List.reverse_append]; rfl

theorem not_free_F2PY (X t : Str) : ¬ Free (X ++ 'F' :: '2' :: 'P' :: 'Y' :: t) := by
  intro h
  have h1 := (Free_cons.mp (Free_append_right X _ h)).1
  simp [hasPatAt] at h1

/-- an occurrence that starts in a stretch of plain text ends in it -/
theorem no_straddle {f X Z r : Str} (hF : Free f) (hb : badEnd f = false) (hZ : ZOK Z)
    (h : X ++ Z = f ++ r) : ∃ r', X = f ++ r' := by
  rcases List.append_eq_append_iff.mp h with ⟨a', hf, hz⟩ | ⟨c', hx, _⟩
  · cases a' with
    | nil => exact ⟨[], by simpa using hf.symm⟩
    | cons a a' =>
      exfalso
      subst hf
      rcases hZ with rfl | ⟨t, rfl⟩ | ⟨t, rfl⟩
      · simp at hz
      · rcases a' with _ | ⟨a1, _ | ⟨a2, _ | ⟨a3, a'⟩⟩⟩
        · simp only [List.cons_append, List.nil_append, List.cons.injEq] at hz
          obtain ⟨rfl, _⟩ := hz
          rw [badEnd_F] at hb; cases hb
        · simp only [List.cons_append, List.nil_append, List.cons.injEq] at hz
          obtain ⟨rfl, rfl, _⟩ := hz
          rw [badEnd_F2] at hb; cases hb
        · simp only [List.cons_append, List.nil_append, List.cons.injEq] at hz
          obtain ⟨rfl, rfl, rfl, _⟩ := hz
          rw [badEnd_F2P] at hb; cases hb
        · simp only [List.cons_append, List.cons.injEq] at hz
          obtain ⟨rfl, rfl, rfl, rfl, _⟩ := hz
          exact not_free_F2PY X a' hF
      · simp only [List.cons_append, List.cons.injEq] at hz
        obtain ⟨rfl, hz⟩ := hz
        have e : ∀ a' : Str, X ++ '_' :: a' = (X ++ ['_']) ++ a' := by intro a'; simp
        rw [e] at hF hb
        rcases a' with _ | ⟨a1, _ | ⟨a2, _ | ⟨a3, _ | ⟨a4, a'⟩⟩⟩⟩
        · rw [List.append_nil, badEnd_us] at hb; cases hb
        · simp only [List.cons_append, List.nil_append, List.cons.injEq] at hz
          obtain ⟨rfl, _⟩ := hz
          rw [badEnd_F] at hb; cases hb
        · simp only [List.cons_append, List.nil_append, List.cons.injEq] at hz
          obtain ⟨rfl, rfl, _⟩ := hz
          rw [badEnd_F2] at hb; cases hb
        · simp only [List.cons_append, List.nil_append, List.cons.injEq] at hz
          obtain ⟨rfl, rfl, rfl, _⟩ := hz
          rw [badEnd_F2P] at hb; cases hb
        · simp only [List.cons_append, List.cons.injEq] at hz
          obtain ⟨rfl, rfl, rfl, rfl, _⟩ := hz
          exact not_free_F2PY _ a' hF
  · exact ⟨c', hx⟩

theorem ClosedKey.keyOK {k : Str} (h : ClosedKey k) (rest : Str) : KeyOK k rest := by
  rcases h with h | h
  · exact .inl h
  · exact .inr (.inl h)

theorem WFk_append {m : Map} : ∀ (a b : List Tok), WFk m a → Closed a → WFk m b → WFk m (a ++ b)
  | [], _, _, _, hb => hb
  | .chunk _ :: a, b, ha, hc, hb => WFk_append a b ha hc hb
  | .key _ _ :: a, b, ha, hc, hb =>
    ⟨hc.1.keyOK _, ha.2.1, WFk_append a b ha.2.2 hc.2 hb⟩

theorem Closed_append2 : ∀ (a b : List Tok), Closed a → Closed b → Closed (a ++ b)
  | [], _, _, hb => hb
  | .chunk _ :: a, b, ha, hb => Closed_append2 a b ha hb
  | .key _ _ :: a, b, ha, hb => ⟨ha.1, Closed_append2 a b ha.2 hb⟩

/-- the parameters of one replacement -/
structure StepOK (m : Map) (f new : Str) : Prop where
  shape : ExpShape f
  free : Free f
  last : badEnd f = false
  closed : ClosedKey new
  get : m.get? new = some f

theorem ra_stretch {m : Map} {f new : Str} (ok : StepOK m f new) (Z : Str) (hZ : ZOK Z) :
    ∀ (n : Nat) (X : Str), X.length ≤ n →
      ∃ ts, ra f new (X ++ Z) = rawJoin ts ++ ra f new Z ∧ valJoin ts = X ∧ WFk m ts ∧ Closed ts := by
  intro n
  induction n with
  | zero =>
    intro X hn
    have : X = [] := List.eq_nil_of_length_eq_zero (by omega)
    subst this
    exact ⟨[], rfl, rfl, trivial, trivial⟩
  | succ n ih =>
    intro X hn
    cases X with
    | nil => exact ⟨[], rfl, rfl, trivial, trivial⟩
    | cons a X =>
      cases hm : stripPrefix? f (a :: (X ++ Z)) with
      | some r =>
        have he := stripPrefix?_eq_some hm
        obtain ⟨r', hr'⟩ := no_straddle (X := a :: X) ok.free ok.last hZ he
        have hr : r = r' ++ Z := by
          rw [show a :: (X ++ Z) = (a :: X) ++ Z from rfl, hr', List.append_assoc] at he
          exact (List.append_cancel_left he).symm
        have hlen : r'.length ≤ n := by
          have := congrArg List.length hr'
          have hne := ok.shape.ne_nil
          cases f with
          | nil => exact absurd rfl hne
          | cons _ _ => simp at this hn; omega
        obtain ⟨ts, h1, h2, h3, h4⟩ := ih r' hlen
        refine ⟨.key new f :: ts, ?_, ?_, ⟨ok.closed.keyOK _, ok.get, h3⟩, ⟨ok.closed, h4⟩⟩
        · show ra f new (a :: (X ++ Z)) = _
          rw [ra_match ok.shape.ne_nil hm, hr, h1]
          simp [Tok.raw]
        · rw [valJoin_cons, h2, hr']; rfl
      | none =>
        obtain ⟨ts, h1, h2, h3, h4⟩ := ih X (by simp at hn; omega)
        refine ⟨.chunk [a] :: ts, ?_, ?_, h3, h4⟩
        · show ra f new (a :: (X ++ Z)) = _
          rw [ra_skip hm, h1]
          simp [Tok.raw]
        · rw [valJoin_cons, h2]; rfl

/-! ## (7) one replacement on a token text -/

theorem ra_toks {m m' : Map} {f new : Str} (ext : MapExt m m') (ok : StepOK m' f new) :
    ∀ ts, WFk m ts → Closed ts → ∀ X,
      ∃ ts', ra f new (X ++ rawJoin ts) = rawJoin ts' ∧ valJoin ts' = X ++ valJoin ts ∧
        WFk m' ts' ∧ Closed ts'
  | [], _, _, X => by
    obtain ⟨ts, h1, h2, h3, h4⟩ := ra_stretch ok [] (.inl rfl) X.length X (Nat.le_refl _)
    refine ⟨ts, ?_, ?_, h3, h4⟩
    · rw [rawJoin_nil, h1, ra_nil]; simp
    · rw [h2]; simp
  | .chunk s :: ts, hw, hc, X => by
    obtain ⟨ts', h1, h2, h3, h4⟩ := ra_toks ext ok ts hw hc (X ++ s)
    refine ⟨ts', ?_, ?_, h3, h4⟩
    · rw [← h1]; simp [Tok.raw]
    · rw [h2]; simp [Tok.val]
  | .key k v :: ts, hw, hc, X => by
    obtain ⟨t1, a1, a2, a3, a4⟩ :=
      ra_stretch ok (k ++ rawJoin ts) (ZOK_closed hc.1 _) X.length X (Nat.le_refl _)
    obtain ⟨t2, b1, b2, b3, b4⟩ := ra_toks ext ok ts hw.2.2 hc.2 []
    have hk := ra_key (f := f) (new := new) (rawJoin ts) k (NoMatchIn_closed ok.shape hc.1 _)
    refine ⟨t1 ++ .key k v :: t2, ?_, ?_, ?_, ?_⟩
    · rw [rawJoin_cons, show (Tok.key k v).raw = k from rfl, a1, hk]
      simp only [List.nil_append] at b1
      rw [b1]; simp [Tok.raw]
    · simp only [List.nil_append] at b2
      rw [valJoin_append, valJoin_cons, a2, b2]; simp [Tok.val]
    · exact WFk_append _ _ a3 a4 ⟨hc.1.keyOK _, ext _ _ hw.2.1, b3⟩
    · exact Closed_append2 _ _ a4 ⟨hc.1, b4⟩

/-- **one `str.replace` of a found constant by its key keeps the expansion** -/
theorem replaceAll_toks {m m' : Map} {f new : Str} (ext : MapExt m m') (ok : StepOK m' f new)
    (ts : List Tok) (hw : WF m ts) (hc : Closed ts) :
    ∃ ts', replaceAll (rawJoin ts) f new = rawJoin ts' ∧ valJoin ts' = valJoin ts ∧
      WF m' ts' ∧ Closed ts' := by
  obtain ⟨ts', h1, h2, h3, h4⟩ := ra_toks ext ok ts hw.1 hc []
  simp only [List.nil_append] at h1 h2
  exact ⟨ts', h1, h2, ⟨h3, by rw [h2]; exact hw.2⟩, h4⟩

/-! ## (8) the state -/

/-- side condition on the found constants: `F2PY`-free, and not ending in a proper prefix of a
    placeholder (so that no occurrence can straddle into a following placeholder) -/
def FoundsOK (fs : List Str) : Prop := ∀ f ∈ fs, Free f ∧ badEnd f = false

instance (fs : List Str) : Decidable (FoundsOK fs) :=
  inferInstanceAs (Decidable (∀ f ∈ fs, Free f ∧ badEnd f = false))

/-- invariant of the `finditer` loop -/
structure P2Inv (st : SrmState) : Prop where
  keys : ∀ k v, st.map.get? k = some v →
    (∃ j, j ≤ st.strIdx ∧ k = strKey j) ∨ (∃ j, j ≤ st.constIdx ∧ k = realKey j)
  rev : ∀ t k, st.rev.get? t = some k → st.map.get? k = some t
  vals : ∀ k v, st.map.get? k = some v → Free v
  constKeys : ∀ k ∈ st.constKeys, ∃ v, st.map.get? k = some v

theorem P2Inv_init : P2Inv {} := by
  constructor
  · intro a b h; simp [Map.get?] at h
  · intro a b h; simp [Map.get?] at h
  · intro a b h; simp [Map.get?] at h
  · intro k h; simp at h

theorem P2Inv.closed {st : SrmState} (h : P2Inv st) {k v : Str} (hk : st.map.get? k = some v) :
    ClosedKey k := by
  rcases h.keys k v hk with ⟨j, _, rfl⟩ | ⟨j, _, rfl⟩
  · exact .inl ⟨j, rfl⟩
  · exact .inr ⟨j, rfl⟩

theorem strKey_ne_realKey (a b : Nat) : realKey a ≠ strKey b := by
  intro h
  have := congrArg List.head? h
  rw [strKey_head, realKey_head] at this
  exact absurd this (by decide)

/-- what one iteration of the `finditer` loop does to the state -/
theorem phase2Step_state (st : SrmState) (text f : Str) (inv : P2Inv st) (hs : ExpShape f)
    (hF : Free f) (hl : badEnd f = false) :
    ∃ key, (phase2Step (st, text) f).2 = replaceAll text f key ∧
      StepOK (phase2Step (st, text) f).1.map f key ∧ P2Inv (phase2Step (st, text) f).1 ∧
      MapExt st.map (phase2Step (st, text) f).1.map ∧
      (phase2Step (st, text) f).1.exprKeys = st.exprKeys ∧
      (phase2Step (st, text) f).1.revParen = st.revParen ∧
      (phase2Step (st, text) f).1.parensIdx = st.parensIdx := by
  unfold phase2Step
  simp only
  cases hrev : st.rev.get? f with
  | some key =>
    simp only
    have hm := inv.rev _ _ hrev
    exact ⟨key, rfl, ⟨hs, hF, hl, inv.closed hm, hm⟩, inv, MapExt.refl _, trivial, trivial, trivial⟩
  | none =>
    simp only
    have hfresh : ∀ k v, st.map.get? k = some v → realKey (st.constIdx + 1) ≠ k := by
      intro k v h hk
      rcases inv.keys k v h with ⟨j, _, rfl⟩ | ⟨j, hj, rfl⟩
      · exact strKey_ne_realKey _ _ hk
      · have := realKey_inj hk
        omega
    have hext : MapExt st.map (st.map.set (realKey (st.constIdx + 1)) f) := by
      intro k v h
      rw [Map.get?_set_ne _ _ _ _ (hfresh k v h)]
      exact h
    refine ⟨realKey (st.constIdx + 1), rfl,
      ⟨hs, hF, hl, .inr ⟨_, rfl⟩, Map.get?_set_self _ _ _⟩, ⟨?_, ?_, ?_, ?_⟩, hext, trivial, trivial, trivial⟩
    · intro k v h
      by_cases hk : realKey (st.constIdx + 1) = k
      · exact .inr ⟨st.constIdx + 1, Nat.le_refl _, hk.symm⟩
      · simp only at h
        rw [Map.get?_set_ne _ _ _ _ hk] at h
        rcases inv.keys k v h with ⟨j, hj, rfl⟩ | ⟨j, hj, rfl⟩
        · exact .inl ⟨j, hj, rfl⟩
        · exact .inr ⟨j, by simp only; omega, rfl⟩
    · intro t k h
      simp only at h ⊢
      by_cases ht : f = t
      · subst ht
        rw [Map.get?_set_self] at h
        cases h
        exact Map.get?_set_self _ _ _
      · rw [Map.get?_set_ne _ _ _ _ ht] at h
        exact hext _ _ (inv.rev t k h)
    · intro k v h
      simp only at h
      by_cases hk : realKey (st.constIdx + 1) = k
      · subst hk
        rw [Map.get?_set_self] at h
        cases h
        exact hF
      · rw [Map.get?_set_ne _ _ _ _ hk] at h
        exact inv.vals k v h
    · intro k hk
      simp only at hk ⊢
      rcases List.mem_append.mp hk with hk | hk
      · obtain ⟨v, hv⟩ := inv.constKeys k hk
        exact ⟨v, hext _ _ hv⟩
      · simp at hk; subst hk
        exact ⟨f, Map.get?_set_self _ _ _⟩

/-! ## (9) the loop -/

theorem foldl_phase2Step_spec :
    ∀ (fs : List Str), FoundsOK fs → (∀ f ∈ fs, ExpShape f) →
    ∀ (st : SrmState) (ts : List Tok), P2Inv st → WF st.map ts → Closed ts →
    ∃ ts', (fs.foldl phase2Step (st, rawJoin ts)).2 = rawJoin ts' ∧ valJoin ts' = valJoin ts ∧
      WF (fs.foldl phase2Step (st, rawJoin ts)).1.map ts' ∧ Closed ts' ∧
      P2Inv (fs.foldl phase2Step (st, rawJoin ts)).1 ∧
      MapExt st.map (fs.foldl phase2Step (st, rawJoin ts)).1.map ∧
      (fs.foldl phase2Step (st, rawJoin ts)).1.exprKeys = st.exprKeys ∧
      (fs.foldl phase2Step (st, rawJoin ts)).1.revParen = st.revParen ∧
      (fs.foldl phase2Step (st, rawJoin ts)).1.parensIdx = st.parensIdx
  | [], _, _, st, ts, inv, hw, hc => ⟨ts, rfl, rfl, hw, hc, inv, MapExt.refl _, rfl, rfl, rfl⟩
  | f :: fs, hok, hsh, st, ts, inv, hw, hc => by
    obtain ⟨hF, hl⟩ := hok f (by simp)
    obtain ⟨key, e1, ok, inv1, ext1, q1, q2, q3⟩ :=
      phase2Step_state st (rawJoin ts) f inv (hsh f (by simp)) hF hl
    obtain ⟨ts1, r1, r2, r3, r4⟩ := replaceAll_toks ext1 ok ts hw hc
    obtain ⟨ts', s1, s2, s3, s4, s5, s6, s7, s8, s9⟩ :=
      foldl_phase2Step_spec fs (fun g hg => hok g (by simp [hg])) (fun g hg => hsh g (by simp [hg]))
        (phase2Step (st, rawJoin ts) f).1 ts1 inv1 r3 r4
    have hstep : phase2Step (st, rawJoin ts) f = ((phase2Step (st, rawJoin ts) f).1, rawJoin ts1) := by
      rw [← r1, ← e1]
    rw [List.foldl_cons, hstep]
    exact ⟨ts', s1, s2.trans r2, s3, s4, s5, ext1.trans s6, s7.trans q1, s8.trans q2, s9.trans q3⟩

/-- **phase 2 as a token list**: on a well-formed token text with closed keys, and when no found
    constant contains `F` or ends in `_`, the loop yields a well-formed token text with the same
    expansion. -/
theorem phase2_spec (st : SrmState) (ts : List Tok) (hinv : P2Inv st) (hw : WF st.map ts) (hc : Closed ts)
    (hf : FoundsOK (expConsts (rawJoin ts))) :
    ∃ ts', (phase2 st (rawJoin ts)).2 = rawJoin ts' ∧ valJoin ts' = valJoin ts ∧
      WF (phase2 st (rawJoin ts)).1.map ts' ∧ Closed ts' ∧ P2Inv (phase2 st (rawJoin ts)).1 ∧
      MapExt st.map (phase2 st (rawJoin ts)).1.map ∧
      (phase2 st (rawJoin ts)).1.exprKeys = st.exprKeys ∧ (phase2 st (rawJoin ts)).1.revParen = st.revParen ∧
      (phase2 st (rawJoin ts)).1.parensIdx = st.parensIdx :=
  foldl_phase2Step_spec (expConsts (rawJoin ts)) hf (expConsts_shape _) st ts hinv hw hc

/-- the invariant of the loop gives the interface of phase 3 -/
theorem phase2_M2OK (st' : SrmState) (h : P2Inv st') (h1 : st'.exprKeys = []) (h2 : st'.revParen = []) :
    M2OK st' :=
  ⟨fun _ _ hk => h.closed hk, h.vals, h.constKeys, h1, h2⟩

/-- phase 1 establishes the invariant of the loop -/
theorem P2Inv_of_phase1 (d : Discipline) (hd : d.lookupTrimmed = true) (segs : List Seg)
    (hF : Free (segsJoin segs)) : P2Inv (phase1 d {} segs).1 := by
  obtain ⟨ts, _, _, _, _, hm, hp, _, _⟩ := phase1_M2OK d hd segs hF
  exact ⟨fun k v h => .inl (hp.keys k v h), hp.rev, hm.valsFree, hm.constKeys⟩

/-! ## non-vacuity -/

example : expConsts "x = 1.0e-3_dp*y + 2d0".toList = ["1.0e-3_dp".toList, "2d0".toList] := by
  decide +kernel
example : FoundsOK (expConsts "x = 1.0e-3_dp*y + 2d0".toList) := by decide +kernel
/-- the side condition fails on the straddling counter-examples: a constant ending in `F` … -/
example : ¬ FoundsOK (expConsts "2e3 + 1e5_2e3 + 1e5_F".toList) := by decide +kernel
/-- … and a constant ending in `_` (the text after phase 1 of `'1.e5' + 1.e5 + 1e5_a1.e5 + 1e5_a_`) -/
example : ¬ FoundsOK (expConsts "'_F2PY_STRING_CONSTANT_1_' + 1.e5 + 1e5_a1.e5 + 1e5_a_".toList) := by
  decide +kernel
/-- a constant containing a capital `F` (rejected by the `F`-free version) is accepted -/
example : expConsts "x = 1e5_FOO".toList = ["1e5_FOO".toList] ∧
    FoundsOK (expConsts "x = 1e5_FOO".toList) ∧ 'F' ∈ "1e5_FOO".toList := by decide +kernel
/-- a concrete instance of all the hypotheses of `phase2_spec` -/
example : P2Inv {} ∧ WF ({} : SrmState).map [.chunk "x = 1.0e-3_dp*y + 2d0".toList] ∧
    Closed [.chunk "x = 1.0e-3_dp*y + 2d0".toList] ∧
    FoundsOK (expConsts (rawJoin [.chunk "x = 1.0e-3_dp*y + 2d0".toList])) :=
  ⟨P2Inv_init, ⟨trivial, by decide +kernel⟩, trivial, by decide +kernel⟩
/-- … and what the loop does on it -/
example : (phase2 {} "x = 1.0e-3_dp*y + 2d0".toList).2
    = "x = F2PY_REAL_CONSTANT_1_*y + F2PY_REAL_CONSTANT_2_".toList := by decide +kernel

#print axioms phase2_spec
#print axioms phase2_M2OK
#print axioms P2Inv_of_phase1

end Fp.Splitline
