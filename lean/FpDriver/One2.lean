import FparserModel.Wire
import FparserModel.One2

/-! driver commands of the One2 model (fparser1 block parser over the generated tables)

* `one2.run ic items` → `ok`, S-expression, printed lines, restep flag, round-2 status
                         (`ok` | `err;kind;id;class`), round-2 S-expression, round-2 printed lines
                       | `err`, `nopattern`|`assertion`|`fuel`, item id, block class name
  `ic` = `1`/`0` (`ignore_comments`); `items`: one item per line, fields separated by U+001F:
  `id`, `label|-`, construct name, text (`get_line()`), `1|0` comment, statement classes matching
  (names, `,`-separated), invalid Begin classes, oracle name, entity decls (U+001E-separated),
  `1|0` typed function header, classes that cut the header down (`needs`, optional 11th field).
  Printed lines: `id;S;Class` | `id;B;Class;name;cname;basehdr` | `id;E;[label ]END …`
* `one2.classify text` → Begin classes whose translated regex matches, END classes whose
                         translated regex matches (names, `,`-separated)
-/
namespace FpDriver.One2
open Fp Fp.Wire Fp.One2

def ok (fs : List String) : String := "OK\t" ++ "\t".intercalate (fs.map enc)

def T : Tables := Fp.One2.Gen.tables

def splitNames (s : String) : List String := (s.splitOn ",").filter (· != "")

def parseItem (row : String) : Option Item :=
  match row.splitOn "\x1f" with
  | [id, lab, cname, text, com, cands, inv, oname, decls, typed, needs] =>
    some { id := id.toNat!, label := if lab == "-" then none else lab.toNat?,
           cname := cname.toList, text := text.toList, isComment := com == "1",
           cands := (splitNames cands).map (classId T), invalid := (splitNames inv).map (classId T),
           oname := oname.toList,
           decls := ((decls.splitOn "\x1e").filter (· != "")).map String.toList,
           typedHdr := typed == "1", needs := (splitNames needs).map (classId T) }
  | [id, lab, cname, text, com, cands, inv, oname, decls, typed] =>
    some { id := id.toNat!, label := if lab == "-" then none else lab.toNat?,
           cname := cname.toList, text := text.toList, isComment := com == "1",
           cands := (splitNames cands).map (classId T), invalid := (splitNames inv).map (classId T),
           oname := oname.toList,
           decls := ((decls.splitOn "\x1e").filter (· != "")).map String.toList,
           typedHdr := typed == "1" }
  | _ => none

def parseItems (s : String) : Option (List Item) :=
  ((s.splitOn "\n").filter (· != "")).mapM parseItem

def showLines (ls : List PLine) : String := "\n".intercalate (ls.map (showPLine T))

def showErr : Err → List String
  | .nopattern id r => ["nopattern", toString id, (rowAt T r).cls]
  | .assertion id => ["assertion", toString id, ""]
  | .fuel => ["fuel", "0", ""]

def handle (cmd : String) (args : List String) : Option String :=
  match cmd, args with
  | "one2.run", [ic, t] =>
    match parseItems (dec t) with
    | none => some ("ERR\t" ++ enc "one2.run: bad item encoding")
    | some is =>
      let icb := dec ic == "1"
      match parse1 T icb is with
      | .error e => some (ok ("err" :: showErr e))
      | .ok f =>
        let p := print1 T f
        let r2 := parse1 T icb (items T p)
        let (st, s2, p2) := match r2 with
          | .ok f2 => ("ok", "(0" ++ showForest f2 ++ ")", showLines (print1 T f2))
          | .error e => (";".intercalate ("err" :: showErr e), "", "")
        some (ok ["ok", "(0" ++ showForest f ++ ")", showLines p, toString (restep T topCtx f), st, s2, p2])
  | "one2.classify", [t] =>
    let s := decL t
    let bs := (T.rows.filter fun r => r.beginPat != "" && r.beginRe.matches s).map (·.cls)
    let es := (T.rows.filter fun r => r.endPat != "" && r.endRe.matches s).map (·.endCls)
    some (ok [",".intercalate bs, ",".intercalate es.eraseDups])
  | _, _ => none

end FpDriver.One2
