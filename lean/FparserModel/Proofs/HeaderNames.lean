import FparserModel.Header
/-!
The NAME DISCIPLINE of `BlockBase.match` (`namesAgree`, `midAgree`) in closed form, for every kind
of block, every opening statement and every closing statement.
-/
namespace Fp.Header
open Fp Fp.IoStmt

/-- names found by the reader / the `Name` class are never empty -/
def NameWF (x : Option Str) : Prop := ∀ s, x = some s → s ≠ []

theorem truthy_some {s : Str} (h : s ≠ []) : truthy (some s) = true := by
  cases s with
  | nil => exact absurd rfl h
  | cons _ _ => rfl

theorem truthy_none : truthy none = false := rfl

theorem truthy_of_wf {x : Option Str} (h : NameWF x) : truthy x = x.isSome := by
  cases x with
  | none => rfl
  | some s => simp [truthy_some (h s rfl)]

/-- the name of the opening statement that the kind compares the END name with -/
def openerName (k : BKind) (o : Opener) : Option Str :=
  if (cfgOf k).matchNames || k == .doLabel then o.startName else o.name

/-- the kinds whose END name is compared at all (NOT: interface blocks, enum definitions) -/
def comparesNames (k : BKind) : Bool := !(k == .interface || k == .enumDef)

/-- a named opening statement REQUIRES the name on the END statement (constructs; not program
    units, not derived types) -/
def requiresEndName (k : BKind) : Bool :=
  (cfgOf k).strictNames || k == .doLabel

/-- a differing END name ends the process (`reader.error` → `sys.exit(1)`) instead of raising
    `FortranSyntaxError` (finding F-C06-1): the program units except the main program -/
def exitsOnMismatch (k : BKind) : Bool :=
  !(cfgOf k).matchNames && (cfgOf k).startGetName && !(k == .doLabel)

/-- the closing statement is of the kind's END class and carries a name slot -/
def EnderFor (k : BKind) (e : Ender) : Prop :=
  e.named = true ∧ (k = .doLabel ∨ e.cls = (cfgOf k).endCls)

/-- the closed form of `namesAgree` for an `END …` statement whose label (labelled DO) agrees -/
def disciplineSpec (k : BKind) (o : Opener) (e : Ender) : Verdict :=
  if !comparesNames k then .accepted else
  match openerName k o, e.name with
  | none, none => .accepted
  | some _, none => if requiresEndName k then .syntaxError else .accepted
  | none, some _ => .syntaxError
  | some a, some b =>
    if lower a = lower b then .accepted
    else if exitsOnMismatch k then .systemExit else .syntaxError

theorem lowerO_some (s : Str) : lowerO (some s) = lower s := rfl

theorem namesAgree_spec (k : BKind) (o : Opener) (e : Ender)
    (hn : NameWF o.name) (hs : NameWF o.startName) (he : NameWF e.name)
    (hk : EnderFor k e) (hl : k = .doLabel → o.label = e.label)
    (hp : k = .mainProgram → o.name = o.startName) :
    namesAgree (cfgOf k) o e = disciplineSpec k o e := by
  obtain ⟨hnamed, hcls⟩ := hk
  have t1 := truthy_of_wf hn
  have t2 := truthy_of_wf hs
  have t3 := truthy_of_wf he
  cases k <;>
  · simp only [namesAgree, midAgree, tailAgree, disciplineSpec, cfgOf, construct, unit, openerName,
      comparesNames, requiresEndName, exitsOnMismatch, hnamed, t2, t3] <;>
    first
    | (have hl' := hl rfl
       rcases hso : o.startName with _ | a <;> rcases heo : e.name with _ | b <;>
         simp_all [lowerO])
    | (have hp' := hp rfl
       rcases hso : o.startName with _ | a <;> rcases heo : e.name with _ | b <;>
         simp_all [lowerO]
       )
    | (rcases hcls with h | h
       · cases h
       · rcases hso : o.startName with _ | a <;> rcases hno : o.name with _ | c <;>
           rcases heo : e.name with _ | b <;> simp_all [lowerO, cfgOf, construct, unit] <;>
         try (by_cases hab : lower a = lower b
              · simp [hab]
              · have hab' : ¬ lower b = lower a := fun h => hab h.symm
                simp [hab, hab']))


/-- **the name discipline, one statement for every kind**: an `END …` statement (of the kind's END
    class, label agreeing for a labelled DO) is accepted iff the kind does not compare names at all
    (interface, enum), or the END carries no name (and, for the kinds that REQUIRE it, the opener is
    unnamed too), or both carry a name and the names agree up to case. -/
theorem end_name_discipline_iff (k : BKind) (o : Opener) (e : Ender)
    (hn : NameWF o.name) (hs : NameWF o.startName) (he : NameWF e.name)
    (hk : EnderFor k e) (hl : k = .doLabel → o.label = e.label)
    (hp : k = .mainProgram → o.name = o.startName) :
    namesAgree (cfgOf k) o e = .accepted ↔
      (comparesNames k = false ∨
       (e.name = none ∧ (requiresEndName k = true → openerName k o = none)) ∨
       (∃ a b, openerName k o = some a ∧ e.name = some b ∧ lower a = lower b)) := by
  rw [namesAgree_spec k o e hn hs he hk hl hp]
  unfold disciplineSpec
  cases hc : comparesNames k
  · simp
  · rcases hon : openerName k o with _ | a <;> rcases hen : e.name with _ | b
    · simp
    · simp
    · cases hr : requiresEndName k <;> simp
    · by_cases hab : lower a = lower b
      · simp [hab]
      · cases hx : exitsOnMismatch k <;> simp [hab]

/-- what a rejected END name is: `SystemExit` exactly for a DIFFERING name on the END of a program
    unit other than the main program (F-C06-1), `FortranSyntaxError` otherwise -/
theorem end_name_mismatch_verdict (k : BKind) (o : Opener) (e : Ender)
    (hn : NameWF o.name) (hs : NameWF o.startName) (he : NameWF e.name)
    (hk : EnderFor k e) (hl : k = .doLabel → o.label = e.label)
    (hp : k = .mainProgram → o.name = o.startName) :
    (namesAgree (cfgOf k) o e = .systemExit ↔
      (exitsOnMismatch k = true ∧ comparesNames k = true ∧
        ∃ a b, openerName k o = some a ∧ e.name = some b ∧ lower a ≠ lower b)) ∧
    namesAgree (cfgOf k) o e ≠ .noMatch ∧ namesAgree (cfgOf k) o e ≠ .goesOn := by
  rw [namesAgree_spec k o e hn hs he hk hl hp]
  unfold disciplineSpec
  cases hc : comparesNames k
  · simp
  · rcases hon : openerName k o with _ | a <;> rcases hen : e.name with _ | b
    · simp
    · simp
    · cases hr : requiresEndName k <;> simp
    · by_cases hab : lower a = lower b
      · simp [hab]
      · cases hx : exitsOnMismatch k <;> simp [hab]

/-- the LABEL rule of a labelled DO: a closing statement whose label differs from the DO label
    never closes the loop — an `END DO` makes the whole block fail (`return None`), a CONTINUE is
    body content — whatever the names are -/
theorem do_label_rule (o : Opener) (e : Ender) (h : o.label ≠ e.label) :
    namesAgree (cfgOf .doLabel) o e = if e.isEndDoStmt then .noMatch else .goesOn := by
  simp [namesAgree, midAgree, cfgOf, construct, h]

/-- … and a CONTINUE with the DO label closes it without any name test -/
theorem do_continue_closes (o : Opener) (e : Ender) (h : o.label = e.label) (hc : e.named = false) :
    namesAgree (cfgOf .doLabel) o e = .accepted := by
  simp [namesAgree, midAgree, tailAgree, cfgOf, construct, h, hc]

/-- intermediate statements (ELSE / ELSEWHERE / TYPE IS … with a construct name): no name is
    always fine; a name must equal the construct name up to case -/
theorem mid_name_discipline (k : BKind) (o : Opener) (cls : String) (n : Option Str)
    (hs : NameWF o.startName) (hn : NameWF n) (hm : (cfgOf k).nameClasses.contains cls = true)
    (hmn : (cfgOf k).matchNames = true) :
    midAgree (cfgOf k) o cls n = .accepted ↔
      (n = none ∨ ∃ a b, o.startName = some a ∧ n = some b ∧ lower a = lower b) := by
  have t2 := truthy_of_wf hs
  have t3 := truthy_of_wf hn
  unfold midAgree
  rw [hm, hmn]
  rcases hso : o.startName with _ | a <;> rcases hno : n with _ | b <;> simp_all [lowerO]
  by_cases hab : lower a = lower b
  · simp [hab]
  · have hab' : ¬ lower b = lower a := fun h => hab h.symm
    simp [hab, hab']

/-- a statement whose class is not in `match_name_classes` is never tested -/
theorem mid_not_tested (k : BKind) (o : Opener) (cls : String) (n : Option Str)
    (hm : (cfgOf k).nameClasses.contains cls = false) : midAgree (cfgOf k) o cls n = .accepted := by
  unfold midAgree
  rw [hm]
  simp

/-! ### the per-kind classification, by evaluation (changes with the generated flag table) -/

theorem kinds_requiring_end_name :
    BKind.all.filter requiresEndName =
      [.ifC, .caseC, .selectType, .whereC, .forallC, .associate, .blockC, .critical, .doNonlabel,
       .doLabel] := by decide

theorem kinds_exiting_on_mismatch :
    BKind.all.filter exitsOnMismatch =
      [.module, .submodule, .subroutine, .subroutineBody, .function, .functionBody, .blockData] := by
  decide

theorem kinds_not_comparing : BKind.all.filter (fun k => !comparesNames k) = [.interface, .enumDef] := by
  decide

/-- the comparison really is absent for these two: whatever the names, the END is accepted -/
theorem interface_names_never_compared (o : Opener) (e : Ender) :
    namesAgree (cfgOf .interface) o e = .accepted ∧ namesAgree (cfgOf .enumDef) o e = .accepted := by
  constructor <;> simp [namesAgree, midAgree, tailAgree, cfgOf, unit]

/-! ### witnesses of every deviation (replayed on the real parser by fv/cosim_header.py) -/

def nm (s : String) : Option Str := some s.toList

/-- `interface a` … `end interface b` is ACCEPTED (the names of an interface block are not compared) -/
theorem witness_interface_mismatch_accepted :
    namesAgree (cfgOf .interface) {} { cls := "End_Interface_Stmt", name := nm "b" } = .accepted := by
  decide
/-- `module m` … `end module q` → SystemExit (F-C06-1) -/
theorem witness_module_mismatch_exits :
    namesAgree (cfgOf .module) { name := nm "m" } { cls := "End_Module_Stmt", name := nm "q" }
      = .systemExit := by decide
/-- `program p` … `end program q` → FortranSyntaxError -/
theorem witness_program_mismatch_syntax :
    namesAgree (cfgOf .mainProgram) { name := nm "p", startName := nm "p" }
      { cls := "End_Program_Stmt", name := nm "q" } = .syntaxError := by decide
/-- `block data` … `end block data q` → FortranSyntaxError -/
theorem witness_blockdata_unnamed_named_end :
    namesAgree (cfgOf .blockData) {} { cls := "End_Block_Data_Stmt", name := nm "q" } = .syntaxError := by
  decide
/-- `nam: if (a) then` … `end if` → FortranSyntaxError (the END name is REQUIRED) -/
theorem witness_construct_requires_name :
    namesAgree (cfgOf .ifC) { startName := nm "nam" } { cls := "End_If_Stmt" } = .syntaxError := by decide
/-- `subroutine s` … `end subroutine` is accepted (program units do not require it) -/
theorem witness_unit_does_not_require_name :
    namesAgree (cfgOf .subroutine) { name := nm "s" } { cls := "End_Subroutine_Stmt" } = .accepted := by
  decide
/-- `type :: t` … `end type` is accepted, `end type T` too, `end type u` is a FortranSyntaxError -/
theorem witness_derived_type :
    namesAgree (cfgOf .derivedType) { startName := nm "t" } { cls := "End_Type_Stmt" } = .accepted ∧
    namesAgree (cfgOf .derivedType) { startName := nm "t" } { cls := "End_Type_Stmt", name := nm "T" }
      = .accepted ∧
    namesAgree (cfgOf .derivedType) { startName := nm "t" } { cls := "End_Type_Stmt", name := nm "u" }
      = .syntaxError := by decide
/-- case-insensitive: `nam: do` … `end do NaM` -/
theorem witness_case_insensitive :
    namesAgree (cfgOf .doNonlabel) { startName := nm "nam" } { cls := "End_Do_Stmt", name := nm "NaM" }
      = .accepted := by decide
/-- labelled DO: `do 10 …` / `20 end do` → the block fails; `10 end do nam` under `nam: do 10` is
    accepted, without the name a FortranSyntaxError -/
theorem witness_label_do :
    namesAgree (cfgOf .doLabel) { label := some 10 } { cls := "End_Do_Stmt", label := some 20 } = .noMatch ∧
    namesAgree (cfgOf .doLabel) { label := some 10 }
      { cls := "Continue_Stmt", label := some 20, isEndDoStmt := false, named := false } = .goesOn ∧
    namesAgree (cfgOf .doLabel) { label := some 10, startName := nm "nam" }
      { cls := "End_Do_Stmt", label := some 10, name := nm "nam" } = .accepted ∧
    namesAgree (cfgOf .doLabel) { label := some 10, startName := nm "nam" }
      { cls := "End_Do_Stmt", label := some 10 } = .syntaxError := by decide

/-- if `Forall_Construct.match` stopped passing `match_names` (cfg with the flag cleared), a
    differing END name would be accepted: the theorem above depends on the flag -/
theorem forall_without_match_names_accepts_mismatch :
    namesAgree { cfgOf .forallC with matchNames := false, strictNames := false }
      { startName := nm "a" } { cls := "End_Forall_Stmt", name := nm "b" } = .accepted ∧
    namesAgree (cfgOf .forallC) { startName := nm "a" } { cls := "End_Forall_Stmt", name := nm "b" }
      = .syntaxError := by decide

end Fp.Header
