import FparserModel.Proofs.Block3Gain

/-!
# M-D proofs, part 11 (C16): `BlockBase.match` and `Main_Program0.match`, success side
-/
namespace Fp.Block

variable {env : Env} {S : Cls → Bool}

/-- the start phase, when it goes on to the loop -/
theorem blockStart_G (hd : Discipline env S) {f : F} (hf : FT env S f) {fuel : Nat} {cfg : Cfg}
    {s : St} {rc : List Tree} {startT : Option Tree} {tn : Option Name}
    {sl : Option (Option Nat)} {sn : Option (Option Name)} {s1 : St}
    (heq : blockStart env f fuel cfg s = (.go rc startT tn sl sn, s1)) (hB : B s1 = B s) :
    ∃ s2, LogExt s s2 ∧ s1 = enterState tn s2 ∧
      ((cfg.start = none ∧ rc = [] ∧ tn = none ∧ s2 = s) ∨
       (∃ sc t rc0, cfg.start = some sc ∧ rc = t :: rc0 ∧ (∀ x ∈ rc0, plainLeaf x) ∧
          tn = tableNameOf (infoOf env.tbl t) ∧ Gain s s2 (scopeSkeleton env.tbl t) ∧
          (S sc = false → plainT t))) := by
  unfold blockStart at heq
  split at heq
  · rename_i hst
    simp only [Prod.mk.injEq, StartRes.go.injEq] at heq
    obtain ⟨⟨rfl, _, rfl, _, _⟩, rfl⟩ := heq
    exact ⟨s, LogExt.refl _, rfl, Or.inl ⟨hst, rfl, rfl, rfl⟩⟩
  · rename_i sc hst
    split at heq
    · simp at heq
    · rename_i rc0 sa h1
      have ss1 : SS s sa := by have := addCID_ss (env := env) fuel [] s; rw [h1] at this; exact this
      have l1 : LogExt s sa := by
        have := addCID_rel (L env) fuel [] s; rw [h1] at this; exact this
      have m1 := B_mono l1
      obtain ⟨new, hn, hpl⟩ := addCID_pl hd h1
      simp at hn; subst hn
      split at heq
      · simp at heq
      · simp at heq
      · rename_i t sb h2
        have l2 : LogExt sa sb := by
          have := callCatch_rel hf.base.log sc sa; rw [h2] at this; exact this
        have m2 := B_mono l2
        have h2' := callCatch_tree h2
        split at heq
        · simp at heq
        · split at heq
          · simp at heq
          · simp only [Prod.mk.injEq, StartRes.go.injEq] at heq
            obtain ⟨⟨rfl, _, rfl, _, _⟩, rfl⟩ := heq
            have m3 := B_mono (enterState_log (tableNameOf (infoOf env.tbl t)) sb)
            refine ⟨sb, l1.trans l2, rfl, Or.inr ⟨sc, t, _, hst, rfl, hpl, rfl, ?_, ?_⟩⟩
            · exact Gain.pre_ss ss1 (hf.spec _ _ _ _ h2' (by omega) t rfl)
            · intro hS; exact hf.pl sc sa t hS (by rw [h2'])

theorem blockTail_tuple {cfg : Cfg} {startT : Option Tree} {tn : Option Name} {v : LoopVars}
    {fe : Bool} {s3 : St} {c : List Tree} {s' : St}
    (heq : blockTail env cfg startT tn v fe s3 = (.tuple c, s')) : c = v.rc.reverse ∧ s' = s3 := by
  unfold blockTail at heq
  split at heq
  · split at heq <;> simp at heq
  · split at heq
    · simp at heq
    · split at heq
      · simp only [Prod.mk.injEq, MRes.tuple.injEq] at heq
        exact ⟨heq.1.symm, heq.2.symm⟩
      · simp at heq
      · split at heq
        · split at heq <;> simp at heq
        · simp at heq
      · split at heq
        · split at heq <;> simp at heq
        · simp at heq

theorem blockFinish_tuple {cfg : Cfg} {startT : Option Tree} {tn : Option Name} {res : LoopRes}
    {sL : St} {c : List Tree} {s' : St}
    (heq : blockFinish env cfg startT tn res sL = (.tuple c, s')) :
    ∃ v fe, res = .done v fe ∧ condExit (truthy tn) sL = (true, s') ∧ c = v.rc.reverse := by
  unfold blockFinish at heq
  split at heq
  · split at heq
    · unfold blockCleanup at heq
      split at heq
      · simp at heq
      · split at heq <;> simp at heq
    · simp at heq
  · simp at heq
  · rename_i v fe
    split at heq
    · simp at heq
    · rename_i s3 h3
      obtain ⟨hc, hs⟩ := blockTail_tuple heq
      subst hs
      exact ⟨v, fe, rfl, h3, hc⟩

/-- entering a named scope without a boundary event -/
theorem enterState_some_B {n : Name} {s2 : St} (hB : B (enterState (some n) s2) = B s2) :
    n ≠ 0 ∧ s2.sym.clashes n = false ∧ enterState (some n) s2 = s2.enter n := by
  have hen : ∀ x : St, B (x.enter n) = B x := by
    intro x; simp [B, St.enter, List.filter_cons, isBad]
  by_cases hn : n = 0
  · exfalso
    subst hn
    have hb : B (enterState (some 0) s2) =
        B ((ghostIf (s2.sym.clashes 0) Ghost.nameClash s2).enter 0) + 1 := by
      simp only [enterState, beq_self_eq_true, ghostIf, if_true]
      rw [B_ev_bad _ _ rfl]
    have : B s2 ≤ B ((ghostIf (s2.sym.clashes 0) Ghost.nameClash s2).enter 0) :=
      B_mono ((ghostIf_log _ _ _).trans ⟨[Ev.enter 0], rfl⟩)
    omega
  · have hn' : (n == 0) = false := by simp [hn]
    cases hc : s2.sym.clashes n with
    | true =>
      exfalso
      have : B (enterState (some n) s2) = B s2 + 1 := by
        simp only [enterState, hn', ghostIf, hc, if_true, Bool.false_eq_true, if_false]
        rw [hen, B_ev_bad _ _ rfl]
      omega
    | false =>
      refine ⟨hn, rfl, ?_⟩
      simp [enterState, hn', ghostIf, hc]

/-- the table opened for the start statement (if any) around the tables of the content -/
def tnSk (tn : Option Name) (x : Forest) : Forest :=
  match tn with
  | some n => [SNode.mk n x]
  | none => x

/-- `BlockBase.match(cfg)` returned a content tuple -/
theorem blockMatch_G (hd : Discipline env S) {f : F} (hf : FT env S f) {fuel : Nat} {cfg : Cfg}
    {s : St} {content : List Tree} {s' : St}
    (hcls : ∀ c ∈ blockClasses env cfg, S c = false)
    (hhook : cfg.doHook = true → ∀ d ∈ cfg.start.toList, S d = false)
    (heq : blockMatch env f fuel cfg s = (.tuple content, s')) (hB : B s' = B s) :
    Gain s s' (blockSk env.tbl cfg content) ∧
    ((∀ sc ∈ cfg.start.toList, S sc = false) → ∀ k ∈ content, plainT k) := by
  unfold blockMatch at heq
  split at heq
  · rename_i r0 s1 h1
    exfalso
    simp only [Prod.mk.injEq] at heq
    obtain ⟨rfl, _⟩ := heq
    unfold blockStart at h1
    split at h1
    · simp at h1
    · split at h1
      · simp at h1
      · split at h1
        · simp at h1
        · simp at h1
        · split at h1
          · simp at h1
          · split at h1 <;> simp at h1
  · rename_i rc0 startT tn sl sn s1 h1
    simp only at heq
    generalize hlr : blockLoop env f cfg (blockClasses env cfg) startT sn fuel 0
      (loopVars0 cfg rc0 sl) s1 = lr at heq
    obtain ⟨res, sL⟩ := lr
    simp only at heq
    obtain ⟨v, fe, rfl, h3, rfl⟩ := blockFinish_tuple heq
    have l1L : LogExt s1 sL := by
      have := blockLoop_rel (L env) hf.base.log cfg (blockClasses env cfg) startT sn fuel 0
        (loopVars0 cfg rc0 sl) s1
      rw [hlr] at this; exact this
    have lL' : LogExt sL s' := by
      have := condExit_log (truthy tn) sL; rw [h3] at this; exact this
    have m2 := B_mono l1L; have m3 := B_mono lL'
    have l01 : LogExt s s1 := by
      obtain ⟨s2', l02', hs⟩ := blockStart_rel (L env) hf.base.log fuel cfg s _ _ h1
      rw [hs]; exact l02'.trans (enterState_log tn s2')
    have m01 := B_mono l01
    obtain ⟨s2, l02, hs1, hcase⟩ := blockStart_G hd hf h1 (by omega)
    subst hs1
    have m02 := B_mono l02
    have me := B_mono (enterState_log tn s2)
    obtain ⟨new, hnew, gL, pnew⟩ := blockLoop_G hd hf hcls hhook hlr (by omega)
    simp only [loopVars0] at hnew
    -- the scope bracket
    have hbr : Gain s2 s' (tnSk tn (skL env.tbl new.reverse)) := by
      cases tn with
      | none =>
        have h3' : sL = s' := by simpa [truthy, condExit] using h3
        subst h3'
        simpa [enterState, tnSk] using gL
      | some n =>
        obtain ⟨hn0, hcl, hen⟩ := enterState_some_B (n := n) (s2 := s2) (by omega)
        rw [hen] at gL
        obtain ⟨s3, he3, g3⟩ := Gain.bracket (noclash_top hcl) gL
        have ht : truthy (some n) = true := by simp [truthy, hn0]
        have h3' : sL.exit = (true, s') := by simpa [ht, condExit] using h3
        rw [he3] at h3'
        simp only [Prod.mk.injEq, true_and] at h3'
        subst h3'
        exact g3
    rcases hcase with ⟨hst, hrc, htn, hs2⟩ | ⟨sc, t, rc0', hst, hrc, hpre, htn, gst, hplt⟩
    · subst hrc htn hs2
      refine ⟨?_, ?_⟩
      · simp only [blockSk, hst, Option.isSome_none, Bool.false_eq_true, if_false, hnew,
          List.append_nil]
        simpa [tnSk] using hbr
      · intro _ k hk
        rw [hnew] at hk
        simp only [List.append_nil, List.mem_reverse] at hk
        exact pnew k hk
    · subst hrc
      have hcont : v.rc.reverse = rc0'.reverse ++ t :: new.reverse := by
        rw [hnew]; simp
      refine ⟨?_, ?_⟩
      · simp only [blockSk, hst, Option.isSome_some, if_true, hcont]
        rw [skStart_skip (fun x hx => hpre x (by simpa using hx))]
        have hall : ∀ x ∈ new.reverse, plainT x := fun x hx => pnew x (by simpa using hx)
        cases t with
        | leaf c it info =>
          simp only [infoOf, tableNameOf] at htn
          simp only [scopeSkeleton] at gst
          simp only [skStart]
          cases hsc : info.scoping with
          | true =>
            simp only [hsc, if_true] at htn ⊢
            subst htn
            cases hnm : info.scopeName with
            | none => rw [hnm] at hbr; simpa [tnSk] using gst.trans hbr
            | some n => rw [hnm] at hbr; simpa [tnSk] using gst.trans hbr
          | false =>
            simp only [hsc, Bool.false_eq_true, if_false] at htn ⊢
            subst htn
            rw [skStart_plain hall]
            simpa [tnSk] using gst.trans hbr
        | node c ks =>
          simp only [infoOf, tableNameOf, Bool.false_eq_true, if_false] at htn
          subst htn
          simp only [skStart]
          simpa [tnSk] using gst.trans hbr
      · intro hS k hk
        rw [hcont] at hk
        simp only [List.mem_append, List.mem_reverse, List.mem_cons] at hk
        rcases hk with hk | rfl | hk
        · exact (hpre k hk).plain
        · exact hplt (hS sc (by simp [hst]))
        · exact pnew k hk

/-- `Main_Program0.match` returned a content tuple: one table with the fixed name -/
theorem main0Match_G (hd : Discipline env S) {f : F} (hf : FT env S f) {fuel : Nat} {cfg : Cfg}
    {scope : Name} {s : St} {content : List Tree} {s' : St}
    (hcls : ∀ c ∈ blockClasses env cfg, S c = false)
    (hhook : cfg.doHook = true → ∀ d ∈ cfg.start.toList, S d = false)
    (heq : main0Match env f fuel cfg scope s = (.tuple content, s')) (hB : B s' = B s) :
    Gain s s' [.mk scope (blockSk env.tbl cfg content)] := by
  have lall : LogExt s s' := by
    have := main0Match_rel (L env) hf.base.log fuel cfg scope s; rw [heq] at this; exact this
  unfold main0Match at heq
  have lp : LogExt s (ghostIf (s.sym.clashes scope) Ghost.nameClash s) := ghostIf_log _ _ _
  generalize hb : blockMatch env f fuel cfg
    ((ghostIf (s.sym.clashes scope) Ghost.nameClash s).enter scope) = br at heq
  obtain ⟨r0, s2⟩ := br
  have lb : LogExt ((ghostIf (s.sym.clashes scope) Ghost.nameClash s).enter scope) s2 := by
    have := blockMatch_rel (L env) hf.base.log fuel cfg
      ((ghostIf (s.sym.clashes scope) Ghost.nameClash s).enter scope)
    rw [hb] at this; exact this
  have le : LogExt (ghostIf (s.sym.clashes scope) Ghost.nameClash s)
      ((ghostIf (s.sym.clashes scope) Ghost.nameClash s).enter scope) := ⟨[Ev.enter scope], rfl⟩
  have mp := B_mono lp; have me := B_mono le; have mb := B_mono lb
  cases r0 with
  | raise e =>
    simp only at heq
    split at heq
    · simp at heq
    split at heq
    · split at heq
      · simp at heq
      · split at heq <;> simp at heq
    · simp at heq
  | none =>
    simp only at heq
    split at heq
    · simp at heq
    · split at heq <;> simp at heq
  | tuple c0 =>
    simp only at heq
    split at heq
    · simp at heq
    · rename_i s3 h3
      simp only [Prod.mk.injEq, MRes.tuple.injEq] at heq
      obtain ⟨rfl, rfl⟩ := heq
      have l3 : LogExt s2 s3 :=
        ⟨[Ev.exit], by have := St.exit_log s2; rw [h3] at this; simpa using this⟩
      have m3 := B_mono l3
      cases hc : s.sym.clashes scope with
      | true =>
        exfalso
        have : B (ghostIf (s.sym.clashes scope) Ghost.nameClash s) = B s + 1 := by
          rw [hc]; simp only [ghostIf, if_true]; exact B_ev_bad _ _ rfl
        omega
      | false =>
        simp only [hc, ghostIf, Bool.false_eq_true, if_false] at hb me mb
        obtain ⟨g, _⟩ := blockMatch_G hd hf hcls hhook hb (by omega)
        obtain ⟨s3', he3, g3⟩ := Gain.bracket (noclash_top hc) g
        rw [he3] at h3
        simp only [Prod.mk.injEq, true_and] at h3
        subst h3
        exact g3

end Fp.Block
