import FparserModel.Proofs.TreeShape
import Mathlib.Data.List.Nodup
/-!
# `copy.deepcopy` of a tree from its root (helper lemmas for C18)

The copies are allocated in pre-order: the copy of the `j`-th node of the pre-order `G` of
the tree gets the id `base + j`.
-/
namespace Fp.Tree

mutual
/-- rename the node ids in a child sequence -/
def mapItem (φ : Nat → Nat) : Item → Item
  | .node id => .node (φ id)
  | .tup xs => .tup (mapItems φ xs)
  | .lst xs => .lst (mapItems φ xs)
  | .str s => .str s
  | .none => .none
  | .other b => .other b
def mapItems (φ : Nat → Nat) : List Item → List Item
  | [] => []
  | x :: xs => mapItem φ x :: mapItems φ xs
end

/-- the copy of a node under the renaming `φ`: same class, same child sequence shape (same
    strings, `None`s, other objects, tuples, lists) with renamed nodes, renamed parent -/
def expNode (φ : Nat → Nat) (nd : Node) : Node :=
  { cls := nd.cls, children := mapItems φ nd.children, parent := nd.parent.map φ }

theorem memoGet_append (m : List (Nat × Nat)) (x y n : Nat) :
    memoGet (m ++ [(x, y)]) n
      = match memoGet m n with
        | some v => some v
        | none => if x = n then some y else none := by
  unfold memoGet
  induction m with
  | nil => simp [Registry.nGet]
  | cons p m ih =>
    obtain ⟨k', v⟩ := p
    simp only [List.cons_append, Registry.nGet]
    by_cases h : k' = n <;> simp [h, ih]

/-- `l` is the segment of `G` that starts at position `k` -/
def Seg (G : List Nat) (k : Nat) (l : List Nat) : Prop := ∀ i, i < l.length → G[k + i]? = l[i]?

theorem Seg.append {G : List Nat} {k : Nat} {l1 l2 : List Nat} (h : Seg G k (l1 ++ l2)) :
    Seg G k l1 ∧ Seg G (k + l1.length) l2 := by
  constructor
  · intro i hi
    have := h i (by simp; omega)
    rw [this, List.getElem?_append_left hi]
  · intro i hi
    have := h (l1.length + i) (by simp; omega)
    rw [Nat.add_assoc, this, List.getElem?_append_right (by omega)]
    simp

structure CInv (G : List Nat) (base k : Nat) (st : CopyState) : Prop where
  hit : ∀ j n, j < k → G[j]? = some n → memoGet st.memo n = some (base + j)
  miss : ∀ n, (∀ j, j < k → G[j]? ≠ some n) → memoGet st.memo n = none
  len : st.out.length = k

def Filled (a : Arena) (φ : Nat → Nat) (G : List Nat) (st : CopyState) (lo hi : Nat) : Prop :=
  ∀ i n nd, lo ≤ i → i < hi → G[i]? = some n → a[n]? = some nd → st.out[i]? = some (expNode φ nd)

def Frame (st st' : CopyState) (k : Nat) : Prop := ∀ i, i < k → st'.out[i]? = st.out[i]?

def Post (a : Arena) (φ : Nat → Nat) (G : List Nat) (base : Nat) (st st' : CopyState) (k m : Nat) : Prop :=
  CInv G base (k + m) st' ∧ Frame st st' k ∧ Filled a φ G st' k (k + m)

theorem Post.comp {a : Arena} {φ : Nat → Nat} {G : List Nat} {base : Nat} {st st1 st2 : CopyState}
    {k m1 m2 : Nat} (h1 : Post a φ G base st st1 k m1) (h2 : Post a φ G base st1 st2 (k + m1) m2) :
    Post a φ G base st st2 k (m1 + m2) := by
  obtain ⟨i1, f1, l1⟩ := h1
  obtain ⟨i2, f2, l2⟩ := h2
  refine ⟨by rw [← Nat.add_assoc]; exact i2, ?_, ?_⟩
  · intro i hi; rw [f2 i (by omega), f1 i hi]
  · intro i n nd hlo hhi hG hn
    by_cases hlt : i < k + m1
    · rw [f2 i hlt]; exact l1 i n nd hlo hlt hG hn
    · exact l2 i n nd (by omega) (by omega) hG hn

theorem Post.refl {a : Arena} {φ : Nat → Nat} {G : List Nat} {base : Nat} {st : CopyState} {k : Nat}
    (h : CInv G base k st) : Post a φ G base st st k 0 :=
  ⟨h, fun _ _ => rfl, fun i _ _ hlo hhi _ _ => by omega⟩

/-- what is assumed of the nodes of the tree being copied -/
def Good (facts : Nat → CopyFacts) (a : Arena) (l : List Nat) : Prop :=
  ∀ n ∈ l, ∀ nd, a[n]? = some nd →
    (facts nd.cls).ok = true ∧ ∀ m ∈ spList nd.children, parentOf a m = some n

theorem Good.append {facts : Nat → CopyFacts} {a : Arena} {l1 l2 : List Nat} (h : Good facts a (l1 ++ l2)) :
    Good facts a l1 ∧ Good facts a l2 :=
  ⟨fun n hn => h n (by simp [hn]), fun n hn => h n (by simp [hn])⟩

section
variable (facts : Nat → CopyFacts) (a : Arena) (base : Nat) (G : List Nat) (φ : Nat → Nat)

def CNode (fuel : Nat) : Prop :=
  ∀ h x t st k, absNode a h x = some t → Seg G k t.pre → CInv G base k st →
    (∀ p, parentOf a x = some p → ∃ j, j < k ∧ G[j]? = some p) →
    Good facts a t.pre → cost a 2 t.pre ≤ fuel →
    ∃ st', copyNode facts a base fuel x st = .ok (base + k, st') ∧ Post a φ G base st st' k t.pre.length

def CItems (fuel : Nat) : Prop :=
  ∀ h items ts st k, mapO (absNode a h) (spList items) = some ts → Seg G k (RTree.preL ts) →
    CInv G base k st →
    (∀ n ∈ spList items, ∃ p j, parentOf a n = some p ∧ j < k ∧ G[j]? = some p) →
    Good facts a (RTree.preL ts) → 1 + Item.sizeL items + cost a 2 (RTree.preL ts) ≤ fuel →
    ∃ st', copyItems facts a base fuel items st = .ok (mapItems φ items, st')
      ∧ Post a φ G base st st' k (RTree.preL ts).length

variable (hφ : ∀ j n, G[j]? = some n → φ n = base + j)
include hφ

theorem cnode_step (f : Nat) (ihI : CItems facts a base G φ f) : CNode facts a base G φ (f + 1) := by
  intro h x t st k ht hseg hinv hpar hgood hfuel
  obtain ⟨h', nd, kids, rfl, hx, hk, rfl⟩ := absNode_succ_some a h x t ht
  have hl := hinv.len
  subst hl
  have hGk : G[st.out.length]? = some x := by
    have := hseg 0 (by simp [RTree.pre])
    simpa [RTree.pre] using this
  have hmiss : memoGet st.memo x = none := hinv.miss x (fun j hj hjx => by
    have h1 := hφ j x hjx; have h2 := hφ _ x hGk; omega)
  obtain ⟨hok, hkidpar⟩ := hgood x (by simp [RTree.pre]) nd hx
  unfold CopyFacts.ok at hok
  have h1 : ((facts nd.cls).argsNeedString && !(facts nd.cls).hasString) = false := by
    cases h3 : (facts nd.cls).argsNeedString <;> cases h4 : (facts nd.cls).hasString <;> simp_all
  have h2 : (facts nd.cls).newAccepts = true := by
    cases h3 : (facts nd.cls).newAccepts <;> simp_all
  simp only [RTree.pre, cost_cons, kidItems, hx] at hfuel
  have hseg' : Seg G (st.out.length + 1) (RTree.preL kids) := by
    have := (Seg.append (l1 := [x]) (l2 := RTree.preL kids) (by simpa [RTree.pre] using hseg)).2
    simpa using this
  have hinv1 : CInv G base (st.out.length + 1)
      { memo := st.memo ++ [(x, base + st.out.length)], out := st.out ++ [{ cls := nd.cls }] } := by
    refine ⟨?_, ?_, by simp⟩
    · intro j n hj hGj
      rw [memoGet_append]
      by_cases hjk : j < st.out.length
      · rw [hinv.hit j n hjk hGj]
      · have : j = st.out.length := by omega
        subst this
        rw [hGk] at hGj; cases hGj
        rw [hmiss]; simp
    · intro n hn
      rw [memoGet_append, hinv.miss n (fun j hj => hn j (by omega))]
      have : x ≠ n := fun e => hn st.out.length (by omega) (by rw [hGk, e])
      simp [this]
  have hgoodk : Good facts a (RTree.preL kids) := fun n hn => hgood n (by simp [RTree.pre, hn])
  obtain ⟨st2, hc2, hpost2⟩ := ihI h' nd.children kids _ (st.out.length + 1) hk hseg' hinv1
    (fun n hn => ⟨x, st.out.length, hkidpar n hn, by omega, hGk⟩) hgoodk (by omega)
  have hlen2 : st2.out.length = st.out.length + 1 + (RTree.preL kids).length := hpost2.1.len
  rw [copyNode]
  simp only [hmiss, hx, h1, h2, hc2, Bool.not_true, Bool.false_eq_true, if_false]
  have hparent : parentOf a x = nd.parent := by simp [parentOf, hx]
  have fin : ∀ p' : Option Nat, p' = nd.parent.map φ →
      Post a φ G base st
        (CopyState.mk st2.memo (st2.out.modify (base + st.out.length - base)
            (fun _ => { cls := nd.cls, children := mapItems φ nd.children, parent := p' })))
        st.out.length (RTree.mk x kids).pre.length := by
    intro p' hp'
    have hkk : base + st.out.length - base = st.out.length := by omega
    rw [hkk]
    obtain ⟨i2, f2, l2⟩ := hpost2
    refine ⟨?_, ?_, ?_⟩
    · refine ⟨?_, ?_, ?_⟩
      · intro j n hj hGj; exact i2.hit j n (by simp [RTree.pre] at hj; omega) hGj
      · intro n hn; exact i2.miss n (fun j hj => hn j (by simp [RTree.pre]; omega))
      · simp [RTree.pre, List.length_modify, hlen2]; omega
    · intro i hi
      simp only [List.getElem?_modify]
      have hne : st.out.length ≠ i := by omega
      simp only [hne, if_false]
      rw [f2 i (by omega)]
      simp only [List.getElem?_append_left hi]
      cases st.out[i]? <;> rfl
    · intro i n nd' hlo hhi hGi hn'
      simp only [List.getElem?_modify]
      by_cases hik : st.out.length = i
      · subst hik
        rw [hGk] at hGi; cases hGi
        rw [hx] at hn'; cases hn'
        have : st.out.length < st2.out.length := by omega
        simp [List.getElem?_eq_getElem this, expNode, hp']
      · simp only [hik, if_false]
        have := l2 i n nd' (by omega) (by simp [RTree.pre] at hhi; omega) hGi hn'
        rw [this]; rfl
  cases hp : nd.parent with
  | none =>
    simp only []
    exact ⟨_, rfl, fin none (by simp [hp])⟩
  | some p =>
    obtain ⟨j, hj, hGj⟩ := hpar p (by rw [hparent, hp])
    have hf1 : ∃ f', f = f' + 1 := ⟨f - 1, by omega⟩
    obtain ⟨f', rfl⟩ := hf1
    have hhit : memoGet st2.memo p = some (base + j) := hpost2.1.hit j p (by omega) hGj
    have : copyNode facts a base (f' + 1) p st2 = .ok (base + j, st2) := by
      rw [copyNode]; simp only [hhit]
    simp only [this]
    exact ⟨_, rfl, fin (some (base + j)) (by simp [hp, hφ j p hGj])⟩

theorem citems_step (f : Nat) (ihN : CNode facts a base G φ f) (ihI : CItems facts a base G φ f) :
    CItems facts a base G φ (f + 1) := by
  intro h items ts st k hm hseg hinv hpar hgood hfuel
  cases items with
  | nil =>
    have := mapO_nil_iff _ _ (by simpa [spList] using hm)
    subst this
    rw [copyItems]
    exact ⟨st, rfl, Post.refl hinv⟩
  | cons it rest =>
    simp only [spList] at hm hpar
    obtain ⟨t1, t2, h1, h2, rfl⟩ := mapO_append _ _ _ _ hm
    rw [preL_append] at hseg hgood hfuel
    obtain ⟨hseg1, hseg2⟩ := Seg.append hseg
    obtain ⟨hgood1, hgood2⟩ := Good.append hgood
    rw [cost_append] at hfuel
    simp only [Item.sizeL] at hfuel
    have hs := size_pos it
    have tail : ∀ st1, Post a φ G base st st1 k (RTree.preL t1).length →
        ∃ st2, copyItems facts a base f rest st1 = .ok (mapItems φ rest, st2)
          ∧ Post a φ G base st st2 k (RTree.preL (t1 ++ t2)).length := by
      intro st1 hp1
      obtain ⟨st2, hc, hp2⟩ := ihI h rest t2 st1 (k + (RTree.preL t1).length) h2 hseg2 hp1.1
        (fun n hn => by
          obtain ⟨p, j, hp, hj, hGj⟩ := hpar n (by simp [hn])
          exact ⟨p, j, hp, by omega, hGj⟩) hgood2 (by omega)
      refine ⟨st2, hc, ?_⟩
      rw [preL_append, List.length_append]
      exact Post.comp hp1 hp2
    cases it with
    | node id =>
      simp only [spItem] at h1
      obtain ⟨t, ht, rfl⟩ := mapO_single _ _ _ h1
      simp only [RTree.preL, List.append_nil] at hseg1 hgood1 hfuel tail
      simp only [Item.size] at hfuel
      have hGk : G[k]? = some id := by
        have hid := absNode_id a h id t ht
        have hpos : 0 < t.pre.length := by cases t; simp [RTree.pre]
        have := hseg1 0 hpos
        cases t with
        | mk i ks => simp only [RTree.id] at hid; subst hid; simpa [RTree.pre] using this
      obtain ⟨st1, hc1, hp1⟩ := ihN h id t st k ht hseg1 hinv
        (fun p' hp' => by
          obtain ⟨p, j, hp, hj, hGj⟩ := hpar id (by simp [spItem])
          rw [hp] at hp'; cases hp'
          exact ⟨j, hj, hGj⟩) hgood1 (by omega)
      obtain ⟨st2, hc2, hp2⟩ := tail st1 hp1
      rw [copyItems]
      simp only [hc1, hc2]
      exact ⟨st2, by simp [mapItems, mapItem, hφ k id hGk], hp2⟩
    | tup xs =>
      simp only [spItem] at h1
      simp only [Item.size] at hfuel
      obtain ⟨st1, hc1, hp1⟩ := ihI h xs t1 st k h1 hseg1 hinv
        (fun n hn => hpar n (by simp [spItem, hn])) hgood1 (by omega)
      obtain ⟨st2, hc2, hp2⟩ := tail st1 hp1
      rw [copyItems]
      simp only [hc1, hc2]
      exact ⟨st2, by simp [mapItems, mapItem], hp2⟩
    | lst xs =>
      simp only [spItem] at h1
      simp only [Item.size] at hfuel
      obtain ⟨st1, hc1, hp1⟩ := ihI h xs t1 st k h1 hseg1 hinv
        (fun n hn => hpar n (by simp [spItem, hn])) hgood1 (by omega)
      obtain ⟨st2, hc2, hp2⟩ := tail st1 hp1
      rw [copyItems]
      simp only [hc1, hc2]
      exact ⟨st2, by simp [mapItems, mapItem], hp2⟩
    | str s =>
      have := mapO_nil_iff _ _ (by simpa [spItem] using h1)
      subst this
      obtain ⟨st2, hc2, hp2⟩ := tail st (Post.refl hinv)
      rw [copyItems]
      · simp only [hc2]
        exact ⟨st2, by simp [mapItems, mapItem], hp2⟩
      all_goals (intro _ hh; cases hh)
    | none =>
      have := mapO_nil_iff _ _ (by simpa [spItem] using h1)
      subst this
      obtain ⟨st2, hc2, hp2⟩ := tail st (Post.refl hinv)
      rw [copyItems]
      · simp only [hc2]
        exact ⟨st2, by simp [mapItems, mapItem], hp2⟩
      all_goals (intro _ hh; cases hh)
    | other b =>
      have := mapO_nil_iff _ _ (by simpa [spItem] using h1)
      subst this
      obtain ⟨st2, hc2, hp2⟩ := tail st (Post.refl hinv)
      rw [copyItems]
      · simp only [hc2]
        exact ⟨st2, by simp [mapItems, mapItem], hp2⟩
      all_goals (intro _ hh; cases hh)

theorem copy_all : ∀ f, CNode facts a base G φ f ∧ CItems facts a base G φ f := by
  intro f
  induction f with
  | zero =>
    constructor
    · intro h x t st k ht _ _ _ _ hfuel
      obtain ⟨h', nd, kids, rfl, hx, hk, rfl⟩ := absNode_succ_some a h x t ht
      simp only [RTree.pre, cost_cons] at hfuel; omega
    · intro h items ts st k _ _ _ _ _ hfuel; omega
  | succ f ih =>
    exact ⟨cnode_step facts a base G φ hφ f ih.2, citems_step facts a base G φ hφ f ih.1 ih.2⟩

end

end Fp.Tree
