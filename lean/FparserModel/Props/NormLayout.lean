import FparserModel.Proofs.NormLayoutFile
import FparserModel.Proofs.NormCase
import FparserModel.Proofs.NormFuel

/-!
# `lexF_layout` — the independent lexer is insensitive to free-form layout (full)

For every well-formed file `f` (`FparserModel/NormLayout.lean`: structured tokens — names,
numeric literals with fraction / exponent / kind, character literals with kind prefix and
doubled delimiters, BOZ literals, dotted operators with kind, one- and two-character operators,
labels — written with ANY layout: indentation, any number of blanks between tokens (none where
the first token accepts the first character of the second, `okAfter`), `&` continuations at
token boundaries with optional trailing comment, blank / comment lines in between and optional
leading `&`, trailing `!` comments, `;` or newline - or, for the last statement, the end of
the text - as statement end, blank / comment / `;`-only lines anywhere between statements) the lexer returns exactly the tokens: `lexF f.text = f.toks`.

`f.toks` does not look at any layout field, hence two files with the same tokens and different
layouts lex to the same token list (`lexF_layout_eq`), and have the same normal form
(`norm_layout`, `canon_layout`).

Not covered by `File` (so not by the theorem): a continuation *inside* a character literal, numeric kind prefixes of character
literals (`1_'a'`), the non-Fortran token `.` on its own.
-/
namespace Fp.Norm
open Fp

private def S' (s : String) : Str := s.toList

/-- `lexF_layout` (full): lexing the rendering of a well-formed file under any layout gives
    back exactly its tokens. -/
theorem lexF_layout (f : File) (h : f.ok = true) : lexF f.text = f.toks :=
  (Lexes.file f h).lexF

/-- … for every sufficient fuel, not only the one `lexF` picks (fuel independence on
    well-formed input) -/
theorem lexGo_layout (f : File) (h : f.ok = true) (n : Nat) (hn : f.text.length < n) :
    lexGo n .bol f.text = f.toks := Lexes.file f h n hn

/-- `lexF_fuel`: fuel independence on EVERY text (well formed or not) and in every mode: the
    fuel `s.length + 1` chosen by `lexF` is always sufficient, more fuel changes nothing - the
    lexer never truncates its output for lack of fuel. -/
theorem lexF_fuel (s : Str) (m : Mode) (n : Nat) (h : s.length < n) :
    lexGo n m s = lexGo (s.length + 1) m s :=
  lexGo_fuel s.length s (Nat.le_refl _) m n (s.length + 1) h (Nat.lt_succ_self _)

example : lexGo 1000 .bol (S' "x = 1 ! c\n") = lexF (S' "x = 1 ! c\n") := lexF_fuel _ _ _ (by decide)

/-- same tokens, different layout ⇒ same token list -/
theorem lexF_layout_eq (f g : File) (hf : f.ok = true) (hg : g.ok = true)
    (h : f.toks = g.toks) : lexF f.text = lexF g.text := by
  rw [lexF_layout f hf, lexF_layout g hg, h]

/-- `norm_layout` -/
theorem norm_layout (f : File) (h : f.ok = true) : norm (lexF f.text) = norm f.toks := by
  rw [lexF_layout f h]

/-- the comparison key `canon` (what `normeq` compares) does not depend on the layout -/
theorem canon_layout (f g : File) (hf : f.ok = true) (hg : g.ok = true) (h : f.toks = g.toks) :
    canon f.text = canon g.text := by
  unfold canon
  rw [lexF_layout_eq f g hf hg h]

/-! ## letter case outside character literals -/

/-- `canon_case_insensitive_outside_literals`: two texts whose token lists agree after
    upper-casing every token that is not a character literal (`upTok`: names, numbers, BOZ,
    dotted operators, FORMAT characters; operators and labels have no letters) have the same
    comparison key.  (That the case INSIDE literals does matter is `norm_literals_exact`.) -/
theorem canon_case_insensitive_outside_literals (s s' : Str)
    (h : (lexF s).map upTok = (lexF s').map upTok) : canon s = canon s' :=
  norm_fmtx_of_upTok_eq h

/-- token level, without the FORMAT expansion -/
theorem norm_case_insensitive_outside_literals (a b : List Tok)
    (h : a.map upTok = b.map upTok) : norm a = norm b := norm_of_upTok_eq h

/-- layout and case together: well-formed files with the same tokens up to case outside
    literals, whatever their layouts, have the same comparison key -/
theorem canon_layout_case (f g : File) (hf : f.ok = true) (hg : g.ok = true)
    (h : f.toks.map upTok = g.toks.map upTok) : canon f.text = canon g.text := by
  apply canon_case_insensitive_outside_literals
  rw [lexF_layout f hf, lexF_layout g hg, h]

/-! ## non-vacuity -/

/-- `10 x(1) = y**2.5e-3_dp.and..true._4 'it''s & "ok"'/=ck_"a""b"+z'FF'-1.eq..5 ; call t`
    with comment lines, a stray `;`, continuations (with comment, fill lines, leading `&`;
    and a bare one), glued and spaced tokens, trailing comment -/
def exFile : File where
  stmts := [
  { pre := [(2, .cmt (S' " hello")), (0, .nl), (1, .semi)], lead := 3,
    first := .label (S' "10"),
    rest := [(.blanks 0, .name (S' "x")), (.blanks 0, .op1 '('), (.blanks 1, .num {int := S' "1"}),
      (.blanks 0, .op1 ')'), (.blanks 0, .op1 '='),
      (.cont 1 2 (some (S' " c & x")) [(3, some (S' "z")), (0, none)] 2 (some 1), .name (S' "y")),
      (.blanks 0, .op2 '*' '*'),
      (.cont 0 0 none [] 0 none,
        .num {int := S' "2", frac := some (S' "5"), exp := some ('e', S' "-", S' "3"), kind := some (S' "dp")}),
      (.blanks 0, .dot (S' "and") none), (.blanks 0, .dot (S' "true") (some (S' "4"))),
      (.blanks 1, .chr [] '\'' (S' "it's & \"ok\"")), (.blanks 0, .op2 '/' '='),
      (.blanks 0, .chr (S' "ck_") '"' (S' "a\"b")), (.blanks 0, .op1 '+'),
      (.blanks 0, .boz 'z' '\'' (S' "FF")), (.blanks 0, .op1 '-'), (.blanks 0, .num {int := S' "1"}),
      (.blanks 0, .dot (S' "eq") none), (.blanks 0, .num {int := [], frac := some (S' "5")})],
    trail := 2, term := .semi },
  { lead := 1, first := .name (S' "call"), rest := [(.blanks 2, .name (S' "t"))],
    trail := 1, term := .nl (some (S' " bye")) }]
  post := [(0, .nl), (4, .cmt (S' "the end"))]

example : exFile.ok = true := by decide
set_option maxRecDepth 4000 in
example : exFile.text = S' ("  ! hello\n\n ;   10x( 1)= &  ! c & x\n   !z\n\n  & y**&\n" ++
    "2.5e-3_dp.and..true._4 'it''s & \"ok\"'/=ck_\"a\"\"b\"+z'FF'-1.eq..5  ; call  t ! bye\n\n    !the end\n") := by
  decide
example : lexF exFile.text = exFile.toks := lexF_layout exFile (by decide)
example : exFile.toks =
    [.label (S' "10"), .name (S' "x"), .op ['('], .num (S' "1"), .op [')'], .op ['='], .name (S' "y"),
     .op (S' "**"), .num (S' "2.5e-3_dp"), .dot (S' ".and."), .dot (S' ".true._4"),
     .chr (S' "'it''s & \"ok\"'"), .op (S' "/="), .chr (S' "ck_\"a\"\"b\""), .op ['+'],
     .boz (S' "z'FF'"), .op ['-'], .num (S' "1"), .dot (S' ".eq."), .num (S' ".5"), .eos,
     .name (S' "call"), .name (S' "t"), .eos] := by decide

/-- case: names, exponent letters, kind names, dotted operators, BOZ digits, FORMAT items are
    folded; character literals are not -/
example : canon (S' "Real(Dp) :: x\n y = 1.5e3_dp .And. z'ff'\n10 format(1pe10.3, 'Ab')\n")
    = canon (S' "REAL(dp) :: X\n Y = 1.5E3_DP .and. Z'FF'\n10 FORMAT(1PE10.3, 'Ab')\n") :=
  canon_case_insensitive_outside_literals _ _ (by decide +kernel)
example : (lexF (S' "x = 'Ab'\n")).map upTok ≠ (lexF (S' "x = 'AB'\n")).map upTok := by decide
example : canon (S' "x = 'Ab'\n") ≠ canon (S' "x = 'AB'\n") := by decide

/-- a last statement ended by the end of the text -/
example : lexF (S' "x=1;y = .5") = [.name (S' "x"), .op ['='], .num (S' "1"), .eos,
    .name (S' "y"), .op ['='], .num (S' ".5"), .eos] :=
  lexF_layout
    { stmts := [{ first := .name (S' "x"), rest := [(.blanks 0, .op1 '='), (.blanks 0, .num {int := S' "1"})],
                  term := .semi },
                { first := .name (S' "y"), rest := [(.blanks 1, .op1 '='),
                    (.blanks 1, .num {int := [], frac := some (S' "5")})], term := .eof }] }
    (by decide)
/-- … but only the last one -/
example : File.ok { stmts := [{ first := .name (S' "x"), term := .eof }, { first := .name (S' "y") }] }
    = false := by decide

/-- the side condition is necessary: `1` and `e5` glued are one token, `*` `*` glued are `**`,
    `x` and `'a'` glued are a BOZ literal -/
example : lexF (S' "x=1e5\n") = [.name (S' "x"), .op ['='], .num (S' "1e5"), .eos] := by decide
example : okAfter (.num {int := S' "1"}) (S' "e5") = false := by decide
example : okAfter (.op1 '*') (S' "*") = false := by decide
example : okAfter (.name (S' "x")) (S' "'a'") = false := by decide
example : okAfter (.num {int := S' "1"}) (S' ".eq.") = true := by decide
example : okAfter (.num {int := S' "1"}) (S' ".5") = false := by decide

end Fp.Norm
