import FparserModel.Proofs.SplitlineSrm2Main
/-!
The transport lemma behind "the expression text of every statement is carried over unchanged":
the mapped line is a token text (plain chunks and placeholder keys); `apply_map` of ANY piece cut
out of it between tokens is the token-wise expansion of that piece, i.e. the corresponding piece
of the restored line.  `srm_toks` provides the token description for the output of
`string_replace_map` (a re-run of the proof of `srm_core` that keeps its token list).
-/
namespace Fp.Splitline
open Fp

theorem KeyOK_shorten {k : Str} (x y : Str) (h : KeyOK k (x ++ y)) : KeyOK k x := by
  rcases h with h | h | ⟨n, hk, hd⟩
  · exact .inl h
  · exact .inr (.inl h)
  · refine .inr (.inr ⟨n, hk, ?_⟩)
    intro c hc
    apply hd c
    cases x with
    | nil => simp at hc
    | cons a x => simpa using hc

theorem WFk_append_right {m : Map} : ∀ a b, WFk m (a ++ b) → WFk m b
  | [], _, h => h
  | .chunk _ :: a, b, h => WFk_append_right a b h
  | .key _ _ :: a, b, h => WFk_append_right a b h.2.2

theorem WFk_append_left {m : Map} : ∀ a b, WFk m (a ++ b) → WFk m a
  | [], _, _ => trivial
  | .chunk _ :: a, b, h => WFk_append_left a b h
  | .key k v :: a, b, h => by
    refine ⟨?_, h.2.1, WFk_append_left a b h.2.2⟩
    have : KeyOK k (rawJoin (a ++ b)) := h.1
    rw [rawJoin_append] at this
    exact KeyOK_shorten _ _ this

theorem WF_append_left {m : Map} (a b : List Tok) (h : WF m (a ++ b)) : WF m a :=
  ⟨WFk_append_left a b h.1, by have := h.2; rw [valJoin_append] at this; exact Free_append_left _ _ this⟩

theorem WF_append_right {m : Map} (a b : List Tok) (h : WF m (a ++ b)) : WF m b :=
  ⟨WFk_append_right a b h.1, by have := h.2; rw [valJoin_append] at this; exact Free_append_right _ _ this⟩

/-- **piece_restores**: a piece `p` cut out of a well-formed token text between tokens, passed
    through `apply_map`, is the corresponding piece of the restored text. -/
theorem piece_restores {m : Map} (a p b : List Tok) (hw : WF m (a ++ p ++ b)) :
    applyMap m (rawJoin p) = valJoin p ∧
    applyMap m (rawJoin (a ++ p ++ b)) = valJoin a ++ valJoin p ++ valJoin b := by
  refine ⟨applyMap_toks p (WF_append_right a p (WF_append_left (a ++ p) b hw)), ?_⟩
  rw [applyMap_toks _ hw]; simp

/-- a chunk may be cut anywhere: the token description is stable under splitting a chunk -/
theorem WFk_split_chunk {m : Map} (s1 s2 : Str) :
    ∀ a b, WFk m (a ++ .chunk (s1 ++ s2) :: b) → WFk m (a ++ .chunk s1 :: .chunk s2 :: b)
  | [], _, h => h
  | .chunk _ :: a, b, h => WFk_split_chunk s1 s2 a b h
  | .key k v :: a, b, h => by
    refine ⟨?_, h.2.1, WFk_split_chunk s1 s2 a b h.2.2⟩
    have : KeyOK k (rawJoin (a ++ .chunk (s1 ++ s2) :: b)) := h.1
    show KeyOK k (rawJoin (a ++ .chunk s1 :: .chunk s2 :: b))
    simpa [rawJoin_append, Tok.raw] using this

theorem WF_split_chunk {m : Map} (s1 s2 : Str) (a b : List Tok)
    (h : WF m (a ++ .chunk (s1 ++ s2) :: b)) : WF m (a ++ .chunk s1 :: .chunk s2 :: b) :=
  ⟨WFk_split_chunk s1 s2 a b h.1, by have := h.2; simpa [valJoin_append, Tok.val] using this⟩

/-- `srm_core`, keeping the token list of the output text -/
theorem srm_core_toks (d : Discipline) (hd : d.lookupTrimmed = true) (hs : d.separateParenMap = true)
    (hf : d.foreignKeyRaises = false) (st2 : SrmState) (ts2 : List Tok) (hM : M2OK st2)
    (hw : WF st2.map ts2) (hc : Closed ts2) :
    ∃ mF tsOut, unnest d (phase3 d st2 (splitparen (rawJoin ts2))).1.map
        ((phase3 d st2 (splitparen (rawJoin ts2))).1.exprKeys ++
          (phase3 d st2 (splitparen (rawJoin ts2))).1.constKeys) = some mF ∧
      (phase3 d st2 (splitparen (rawJoin ts2))).2 = rawJoin tsOut ∧ WF mF tsOut ∧
      squeeze (valJoin tsOut) = squeeze (valJoin ts2) := by
  have inv0 : P3Inv st2.map st2 := by
    refine ⟨MapExt.refl _, fun k v h => .inl h, ?_, ?_, ?_⟩
    · intro t k h; rw [hM.revParen] at h; simp [Map.get?] at h
    · intro j v h; exact absurd rfl (closed_ne_expr (hM.closedKeys _ v h) j)
    · intro k hk; rw [hM.exprKeys] at hk; simp at hk
  obtain ⟨tsOut, ps, h1, h2, h3, h4, h5, h6, h7, h8, h9⟩ :=
    phase3_toks d hd hs st2.map hM.closedKeys (splitparen (rawJoin ts2)) st2 [] ts2 inv0
      (by simp [splitparen_join']) hw hc (fun s hs' => splitparen_shape _ s hs')
  generalize phase3 d st2 (splitparen (rawJoin ts2)) = r3 at *
  have hent : ∀ k v, r3.1.map.get? k = some v →
      st2.map.get? k = some v ∨ (∃ j, k = exprKey j ∧ HasToks st2.map v) := by
    intro k v h
    rcases h5.entries k v h with h | ⟨j, _, hj, ht⟩
    · exact .inl h
    · exact .inr ⟨j, hj, ht⟩
  have hinv : UInv st2.map r3.1.map r3.1.map := ⟨h5.base, fun k v h => .inl h⟩
  have hkeys : ∀ k ∈ r3.1.exprKeys ++ r3.1.constKeys, ∃ v, r3.1.map.get? k = some v := by
    intro k hk
    rcases List.mem_append.mp hk with hk | hk
    · exact h5.inMap k hk
    · rw [h7] at hk
      obtain ⟨v, hv⟩ := hM.constKeys k hk
      exact ⟨v, h6 k v hv⟩
  obtain ⟨mF, g1, g2, g3⟩ := unnest_spec d hf st2.map r3.1.map hM.closedKeys hM.valsFree hent
    _ r3.1.map hinv hkeys
  have hgood : GoodFinal st2.map r3.1.map mF := by
    refine ⟨g2.1, ?_⟩
    intro j raw hraw
    exact g3 (exprKey j) (.inl (List.mem_append_left _ (h5.listed j raw hraw))) j raw rfl hraw
  have hwF : WF mF tsOut := ⟨h8 mF hgood, h9⟩
  simp only [List.nil_append] at h1
  refine ⟨mF, tsOut, g1, h1, hwF, ?_⟩
  rw [← h3, ← h2]
  exact squeeze_pieces_nil ps h4

theorem srm_from_phase2_toks (d : Discipline) (hd : d.lookupTrimmed = true)
    (hs : d.separateParenMap = true) (hf : d.foreignKeyRaises = false) (l : Str) (lower : Bool)
    (ts2 : List Tok)
    (h2 : phase2 (phase1 d {} (splitquote l none lower).1).1 (phase1 d {} (splitquote l none lower).1).2
      = ((phase2 (phase1 d {} (splitquote l none lower).1).1
            (phase1 d {} (splitquote l none lower).1).2).1, rawJoin ts2))
    (hM : M2OK (phase2 (phase1 d {} (splitquote l none lower).1).1
            (phase1 d {} (splitquote l none lower).1).2).1)
    (hw : WF (phase2 (phase1 d {} (splitquote l none lower).1).1
            (phase1 d {} (splitquote l none lower).1).2).1.map ts2)
    (hc : Closed ts2) (hv : valJoin ts2 = foldOutsideLiterals lower l) :
    ∃ r ts, stringReplaceMapWith d l lower = some r ∧ r.text = rawJoin ts ∧ WF r.map ts ∧
      squeeze (valJoin ts) = squeeze (foldOutsideLiterals lower l) := by
  unfold stringReplaceMapWith
  simp only
  generalize phase2 (phase1 d {} (splitquote l none lower).1).1
    (phase1 d {} (splitquote l none lower).1).2 = r2 at *
  obtain ⟨st2, t2⟩ := r2
  simp only at h2 hM hw
  cases h2
  obtain ⟨mF, tsOut, g1, g2, g3, g4⟩ := srm_core_toks d hd hs hf st2 ts2 hM hw hc
  simp only
  rw [g1]
  exact ⟨_, tsOut, rfl, g2, g3, by rw [← hv]; exact g4⟩

/-- **srm_toks**: the output of `string_replace_map` is a well-formed token text over its own map
    whose expansion is the line (modulo the blanks just inside replaced groups, and the case
    folding outside literals) -/
theorem srm_toks (l : Str) (lower : Bool)
    (hF : Free (foldOutsideLiterals lower l))
    (hE : FoundsOK (expConsts (phase1Text discipline l lower))) :
    ∃ r ts, stringReplaceMap l lower = some r ∧ r.text = rawJoin ts ∧ WF r.map ts ∧
      squeeze (valJoin ts) = squeeze (foldOutsideLiterals lower l) := by
  have hd : discipline.lookupTrimmed = true := rfl
  have hs : discipline.separateParenMap = true := rfl
  have hf : discipline.foreignKeyRaises = false := rfl
  obtain ⟨ts, h1, h2, h3, h4, h5, _⟩ := phase1_M2OK discipline hd (splitquote l none lower).1 hF
  have hinv := P2Inv_of_phase1 discipline hd (splitquote l none lower).1 hF
  unfold phase1Text at hE
  rw [h1] at hE
  obtain ⟨ts', g1, g2, g3, g4, g5, _, g7, g8, _⟩ :=
    phase2_spec (phase1 discipline {} (splitquote l none lower).1).1 ts hinv h3 h4 hE
  rw [← h1] at g1 g3 g5 g7 g8
  apply srm_from_phase2_toks discipline hd hs hf l lower ts'
  · rw [← g1]
  · exact phase2_M2OK _ g5 (by rw [g7]; exact h5.exprKeys) (by rw [g8]; exact h5.revParen)
  · exact g3
  · exact g4
  · rw [g2]; exact h2

end Fp.Splitline
