import FparserModel.Proofs.Reader3TermDrain

/-!
# Reader3TermCheck — a decidable sufficient test for (H2) `NoSplit`, for concrete instances

`noSplitUpTo n r`: the first `n + 1` `_next` calls of the run from `r` deliver raw items without
top-level `;`, and after `n` calls the reader is exhausted (then every further call answers
`stop` and leaves the state unchanged: `next1_exhausted`).
-/
namespace Fp.Reader
open Fp

def Item.noSemiB (it : Item) : Bool :=
  match it.lineView with
  | none => true
  | some (text, _, _, _, _) => !(stringReplaceMap text true).1.contains ';'

theorem Item.noSemiB_sound (it : Item) (h : it.noSemiB = true) : NoSemi it := by
  intro text l n s e hv
  unfold Item.noSemiB at h
  rw [hv] at h
  simpa using h

/-- the raw item of the next `_next` call (if any) has no top-level `;` -/
def rawOk (r : Rd) : Bool :=
  match (nextRaw (nextRawFuel r) r).1 with
  | .ok it => it.noSemiB
  | _ => true

theorem rawOk_sound (r : Rd) (h : rawOk r = true) :
    ∀ it r', nextRaw (nextRawFuel r) r = (.ok it, r') → NoSemi it := by
  intro it r' hn
  unfold rawOk at h
  rw [hn] at h
  exact Item.noSemiB_sound it h

def noSplitUpTo : Nat → Rd → Bool
  | 0, r => exhausted [r]
  | k + 1, r => rawOk r && noSplitUpTo k (stepRd r)

/-- an exhausted reader answers `stop` for ever -/
theorem nextRaw_exhausted (r : Rd) (h : exhausted [r] = true) (n : Nat) :
    nextRaw (n + 1) r = (.stop, r) := by
  obtain ⟨src, closed, filo, fifo, lc, linesRev, isFree, ic, omp, dirs⟩ := r
  simp only [exhausted, Bool.and_eq_true, List.isEmpty_iff] at h
  obtain ⟨⟨h1, h2⟩, h3⟩ := h
  subst h1 h2 h3
  unfold nextRaw popOrRead getSourceItem getSingleLine
  simp

theorem next1_exhausted (r : Rd) (h : exhausted [r] = true) : next1 r = (.stop, r) := by
  have hr : nextRaw (nextRawFuel r) r = (.stop, r) := nextRaw_exhausted r h _
  rw [next1_of_nextRaw_other r (fun it => by rw [hr]; simp)]
  exact hr

theorem iterRd_exhausted (r : Rd) (h : exhausted [r] = true) : ∀ k, iterRd k r = r
  | 0 => rfl
  | k + 1 => by
    have : stepRd r = r := by simp [stepRd, next1_exhausted r h]
    simp only [iterRd, this]
    exact iterRd_exhausted r h k

theorem NoSplit.of_exhausted (r : Rd) (h : exhausted [r] = true) : NoSplit r := by
  intro k it r' hn
  rw [iterRd_exhausted r h k] at hn
  have hr : nextRaw (nextRawFuel r) r = (.stop, r) := nextRaw_exhausted r h _
  rw [hr] at hn
  cases hn

theorem NoSplit.cons {r : Rd} (h1 : ∀ it r', nextRaw (nextRawFuel r) r = (.ok it, r') → NoSemi it)
    (h2 : NoSplit (stepRd r)) : NoSplit r := by
  intro k
  cases k with
  | zero => exact h1
  | succ k => exact h2 k

theorem noSplitUpTo_sound : ∀ (n : Nat) (r : Rd), noSplitUpTo n r = true → NoSplit r
  | 0, r, h => NoSplit.of_exhausted r h
  | n + 1, r, h => by
    simp only [noSplitUpTo, Bool.and_eq_true] at h
    exact NoSplit.cons (rawOk_sound r h.1) (noSplitUpTo_sound n _ h.2)

end Fp.Reader
