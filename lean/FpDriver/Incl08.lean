import FparserModel.Wire
import FparserModel.Incl08
/-!
driver commands of the Incl08 slice (trusted glue, no theorems)

    incl08.rules                      → the overridden rule names (`overrideKinds`), then their match kinds
    incl08.match  std cls text        → unmodelled | nomatch | ok WORD      (Attr_Spec, Component_Attr_Spec; std = f2003|f2008)
    incl08.shape  kind text           → 0 | 1      kind = star (isStarItem) | concurrent (isConcurrent) | label (isLabel)
                                                   | procplain (ProcStmtPlain)
    incl08.kvkey  text                → none | some KEY RHS       (`kvKey`: what a keyword table looks up)
    incl08.lookup std table key       → none | some ClassName     table = connect | allocOpt (first row with that keyword)
    incl08.stop   text l3 alt         → own TEXT | via l3 | via alt | nomatch
                                        (`matchStopCode` with a child oracle that answers `ok`/`nomatch` as told:
                                         l3 = answer of Level_3_Expr, alt = answer of every fallback alternative)
-/
namespace FpDriver.Incl08
open Fp Fp.Wire Fp.IoStmt Fp.Incl08

def ok (fs : List String) : String := "\t".intercalate ("OK" :: fs)

def stdOf (s : String) : Option Std :=
  if s == "f2003" then some .f2003 else if s == "f2008" then some .f2008 else none

def bit (b : Bool) : String := if b then "1" else "0"

/-- children for `incl08.stop`: class 0 = Level_3_Expr, class 1 = an alternative -/
def stopOracle (l3 alt : Bool) : Oracle String :=
  { call := fun c _ => if c == 0 then (if l3 then .ok "l3" else .noMatch) else (if alt then .ok "alt" else .noMatch),
    str := fun n => n.toList, head := fun _ => none, rhsStr := fun n => n.toList, heads := fun _ => [],
    isDataEdit := fun _ => false }

def handle (cmd : String) (args : List String) : Option String :=
  match cmd, args with
  | "incl08.rules", _ =>
    some (ok (overrideKinds.map (fun p => enc p.1) ++ overrideKinds.map (fun p => enc (toString p.2))))
  | "incl08.match", [std, cls, text] =>
    match stdOf (dec std) with
    | none => some ("ERR\t" ++ enc "incl08.match: bad std")
    | some st =>
      let s := decL text
      let r : Option (Option Str) :=
        if dec cls == "Attr_Spec" then some (matchAttrSpec st s)
        else if dec cls == "Component_Attr_Spec" then some (matchComponentAttrSpec st s)
        else none
      match r with
      | none => some (ok [enc "unmodelled"])
      | some none => some (ok [enc "nomatch"])
      | some (some w) => some (ok [enc "ok", encL w])
  | "incl08.shape", [kind, text] =>
    let s := decL text
    match dec kind with
    | "star" => some (ok [enc (bit (isStarItem s))])
    | "concurrent" => some (ok [enc (bit (isConcurrent s))])
    | "label" => some (ok [enc (bit (isLabel s))])
    | "procplain" => some (ok [enc (bit (ProcStmtPlain s))])
    | _ => some ("ERR\t" ++ enc "incl08.shape: bad kind")
  | "incl08.kvkey", [text] =>
    match kvKey (decL text) with
    | none => some (ok [enc "none"])
    | some (k, r) => some (ok [enc "some", encL k, encL r])
  | "incl08.lookup", [std, table, key] =>
    match stdOf (dec std) with
    | none => some ("ERR\t" ++ enc "incl08.lookup: bad std")
    | some st =>
      let t := if dec table == "connect" then connectTable st else allocOptTable st
      match kvLookup (decL key) t with
      | none => some (ok [enc "none"])
      | some c => some (ok [enc "some", enc (clsNames.getD c "?")])
  | "incl08.stop", [text, l3, alt] =>
    match matchStopCode (stopOracle (dec l3 == "ok") (dec alt == "ok")) 0 [1] (decL text) with
    | .ok (.own s) => some (ok [enc "own", encL s])
    | .ok (.via n) => some (ok [enc "via", enc n])
    | .noMatch => some (ok [enc "nomatch"])
    | .raises _ => some (ok [enc "raises"])
  | _, _ => none

end FpDriver.Incl08
