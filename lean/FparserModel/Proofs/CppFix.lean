import FparserModel.Proofs.CppContent

/-! # Cpp slice: printing is stable (the printed node is classified to a node that prints the same) -/
namespace Fp.Cpp
open Fp

theorem boundary_sp (t : Str) : boundary (' ' :: t) = true := by
  show (!isWord ' ') = true; decide

theorem strip_ne_head {t r : Str} {c : Char} (h : strip t = c :: r) : lstrip (strip t) = strip t := by
  rw [h]; exact lstrip_cons_ns _ (by have := strip_head h; exact this)

/-- re-reading `#KW payload` -/
theorem fix_word_some {c : Cls} {w line : Str} (hw : w ∈ kwsOf c) (hne : strip line ≠ [])
    (hi : identArg w = true → absMacroName (strip line) = true) :
    matchCls c (('#' :: w) ++ ' ' :: strip line) = some (.word c ('#' :: w) (some (strip line))) := by
  have hk := allKws_KW w (kwsOf_allKws hw)
  have hs : shape (('#' :: w) ++ ' ' :: strip line) = some (w, ' ' :: strip line) := by
    have := shape_intro (a := []) (g := []) (rest := ' ' :: strip line) hk allSp_nil allSp_nil rfl
    simpa using this
  rw [matchCls_word_eval hs hw]
  obtain ⟨x, r, hx⟩ := List.exists_cons_of_ne_nil hne
  have hl : lstrip (' ' :: strip line) = strip line := by
    rw [lstrip_cons_sp _ (by decide)]; exact strip_ne_head hx
  have : wordTail ('#' :: w) (requireCls c) (argOf w) (' ' :: strip line)
      = some ('#' :: w, some (strip line)) := by
    apply wordTail_arg rfl
    · rw [hl]; exact hne
    · rw [hl]
      have := argOf_intro (w := w) (l := strip line) (by rw [strip_idem]; exact hne)
        (by rw [strip_idem]; exact hi)
      rw [strip_idem] at this; exact this
  rw [this]; rfl

theorem fix_word_none {c : Cls} {w : Str} (hw : w ∈ kwsOf c) (hr : requireCls c = false) :
    matchCls c ('#' :: w) = some (.word c ('#' :: w) none) := by
  have hk := allKws_KW w (kwsOf_allKws hw)
  have hs : shape ('#' :: w) = some (w, []) := by
    have := shape_intro (a := []) (g := []) (rest := []) hk allSp_nil allSp_nil rfl
    simpa using this
  rw [matchCls_word_eval hs hw, hr]
  rfl

theorem fix_word {c : Cls} {l : Str} {n : Node} (hc : kwsOf c ≠ []) (h : matchCls c l = some n) :
    matchCls c (render n) = some n := by
  obtain ⟨w, line, hw, _, hcase⟩ := word_result hc h
  rcases hcase with ⟨hn, hr, _⟩ | ⟨t, hn, ht, hne, hi⟩
  · rw [hn, render_word_none hr]; exact fix_word_none hw hr
  · rw [hn, render_word_some hc]
    subst ht
    exact fix_word_some hw hne hi

theorem getLast?_snoc (s : Str) (c : Char) : (s ++ [c]).getLast? = some c := by simp

theorem fix_include {l : Str} {n : Node} (h : matchCls .includeStmt l = some n) :
    matchCls .includeStmt (render n) = some n := by
  obtain ⟨f, hn, hf, _⟩ := include_result h
  subst hn
  rw [render_include]
  have hR : "#include \"".toList ++ f ++ ['"'] = '#' :: ([] ++ (kInclude ++ (' ' :: '"' :: (f ++ ['"'])))) := by
    have : "#include \"".toList = '#' :: (kInclude ++ [' ', '"']) := by decide
    rw [this]; simp
  have hstrip : strip ("#include \"".toList ++ f ++ ['"']) = "#include \"".toList ++ f ++ ['"'] := by
    apply strip_of_ends (c := '#') (z := '"') (r := (kInclude ++ (' ' :: '"' :: (f ++ ['"']))))
    · rw [hR]; rfl
    · decide
    · exact getLast?_snoc _ _
    · decide
  rw [matchInclude_eq _ (by rw [hR]; simp), hstrip, hR,
    hashKw_intro KW_include allSp_nil (boundary_sp _)]
  simp only
  have hs2 : strip (' ' :: '"' :: (f ++ ['"'])) = '"' :: (f ++ ['"']) := by
    rw [show ' ' :: '"' :: (f ++ ['"']) = [' '] ++ ('"' :: (f ++ ['"'])) from rfl,
      strip_allSp_append _ (by intro c hc; simp at hc; subst hc; decide)]
    apply strip_of_ends (c := '"') (z := '"') rfl (by decide) _ (by decide)
    rw [show '"' :: (f ++ ['"']) = ('"' :: f) ++ ['"'] from rfl]; exact getLast?_snoc _ _
  rw [hs2]
  have hfne := fileName_ne_nil hf
  have : includeArg ('"' :: (f ++ ['"'])) = some f := by
    unfold includeArg
    have hlen : ¬ ('"' :: (f ++ ['"'])).length < 3 := by
      have : 0 < f.length := List.length_pos_iff.mpr hfne
      simp; omega
    have hlast : ('"' :: (f ++ ['"'])).getLast? = some '"' := by
      rw [show '"' :: (f ++ ['"']) = ('"' :: f) ++ ['"'] from rfl]; exact getLast?_snoc _ _
    simp only [hlen, if_false, List.head?_cons, Option.getD_some, hlast]
    simp [includeFilename, hf]
  rw [this]; rfl

/-- the text after `#define ` in the printed node -/
def macroTail (name : Str) (pl d : Option Str) : Str :=
  name ++ pl.getD [] ++ (if d.isSome then [' '] else []) ++ d.getD []

theorem render_macro' (n : Str) (pl d : Option Str) :
    render (.macro n pl d) = '#' :: ([] ++ (kDefine ++ (' ' :: macroTail n pl d))) := by
  rw [render_macro]
  have : "#define ".toList = '#' :: (kDefine ++ [' ']) := by decide
  rw [this]; simp [macroTail]

/-- re-reading a printed `#define` whose tail `t` starts and ends with a non-blank -/
theorem fix_macro_core {t r : Str} {c z : Char} {n : Node} (h1 : t = c :: r) (hc : isSpace c = false)
    (h2 : t.getLast? = some z) (hz : isSpace z = false) (hm : MacroForm t n) :
    matchCls .macroStmt ('#' :: ([] ++ (kDefine ++ (' ' :: t)))) = some n := by
  have hne : t ≠ [] := by rw [h1]; simp
  have hstrip : strip ('#' :: ([] ++ (kDefine ++ (' ' :: t)))) = '#' :: ([] ++ (kDefine ++ (' ' :: t))) := by
    apply strip_of_ends (c := '#') (z := z) rfl (by decide) _ hz
    rw [show '#' :: ([] ++ (kDefine ++ (' ' :: t))) = ('#' :: (kDefine ++ [' '])) ++ t by simp,
      getLast?_append_ne hne]; exact h2
  rw [matchMacro_eq _ (by simp), hstrip, hashKw_intro KW_define allSp_nil (boundary_sp _)]
  simp only
  have : strip (' ' :: t) = t := by
    rw [show ' ' :: t = [' '] ++ t from rfl,
      strip_allSp_append _ (by intro c hc; simp at hc; subst hc; decide)]
    exact strip_of_ends h1 hc h2 hz
  rw [this]
  exact macroArg_intro hm

theorem absMacroName_ends {name : Str} (h : absMacroName name = true) :
    ∃ c r z, name = c :: r ∧ isSpace c = false ∧ name.getLast? = some z ∧ isSpace z = false := by
  obtain ⟨hk, _⟩ := absMacroName_word h
  obtain ⟨c, r, e, hc⟩ := KW_head hk
  exact ⟨c, r, _, e, hc, List.getLast?_eq_some_getLast hk.1,
    isWord_not_space (hk.2 _ (List.getLast_mem hk.1))⟩

theorem strip_ends {y : Str} (h : strip y ≠ []) :
    ∃ c r z, strip y = c :: r ∧ isSpace c = false ∧ (strip y).getLast? = some z ∧ isSpace z = false := by
  obtain ⟨c, r, e⟩ := List.exists_cons_of_ne_nil h
  have hl := List.getLast?_eq_some_getLast h
  exact ⟨c, r, _, e, strip_head e, hl, strip_getLast hl⟩

theorem strip_sp_strip (y : Str) : strip (' ' :: strip y) = strip y := by
  rw [show ' ' :: strip y = [' '] ++ strip y from rfl,
    strip_allSp_append _ (by intro c hc; simp at hc; subst hc; decide), strip_idem]

theorem fix_macro {l : Str} {n : Node} (h : matchCls .macroStmt l = some n) :
    matchCls .macroStmt (render n) = some n := by
  have hne := matchCls_ne_nil h
  rw [matchMacro_eq l hne] at h
  split at h
  · cases h
  · rename_i rest hr
    have hm := macroArg_elim h
    generalize strip rest = rhs at hm
    clear h hr
    induction hm with
    | bare name hn =>
      rw [render_macro']
      obtain ⟨c, r, z, e1, hc, e2, hz⟩ := absMacroName_ends hn
      have ht : macroTail name none none = name := by simp [macroTail]
      rw [ht]
      exact fix_macro_core e1 hc e2 hz (.bare name hn)
    | plain name defn hn hb hne' hp =>
      rw [render_macro', optTokens_strip]
      obtain ⟨c, r, z, e1, hc, e2, hz⟩ := absMacroName_ends hn
      by_cases hd : strip defn = []
      · simp only [hd, if_true]
        have ht : macroTail name none none = name := by simp [macroTail]
        rw [ht]
        exact fix_macro_core e1 hc e2 hz (.bare name hn)
      · simp only [hd, if_false]
        obtain ⟨c', r', z', e1', _, e2', hz'⟩ := strip_ends hd
        have ht : macroTail name none (some (strip defn)) = name ++ (' ' :: strip defn) := by
          simp [macroTail]
        rw [ht]
        have hform := MacroForm.plain name (' ' :: strip defn) hn rfl (by simp) (by simp)
        rw [strip_sp_strip, optTokens_strip, if_neg hd] at hform
        refine fix_macro_core (c := c) (r := r ++ (' ' :: strip defn)) (z := z') ?_ hc ?_ hz' hform
        · rw [e1]; rfl
        · rw [getLast?_append_ne (by simp),
            show ' ' :: strip defn = [' '] ++ strip defn from rfl, getLast?_append_ne hd]
          exact e2'
    | params name pl after hn hh hl hi =>
      rw [render_macro', optTokens_strip]
      obtain ⟨c, r, z, e1, hc, e2, hz⟩ := absMacroName_ends hn
      have hplne : pl ≠ [] := by intro h0; subst h0; cases hh
      by_cases hd : strip after = []
      · simp only [hd, if_true]
        have ht : macroTail name (some pl) none = name ++ (pl ++ []) := by simp [macroTail]
        rw [ht]
        have hform := MacroForm.params name pl [] hn hh hl hi
        rw [strip_nil] at hform
        have : optTokens [] = none := rfl
        rw [this] at hform
        refine fix_macro_core (c := c) (r := r ++ (pl ++ [])) (z := ')') ?_ hc ?_ (by decide) hform
        · rw [e1]; rfl
        · rw [List.append_nil, getLast?_append_ne hplne]; exact hl
      · simp only [hd, if_false]
        obtain ⟨c', r', z', e1', _, e2', hz'⟩ := strip_ends hd
        have ht : macroTail name (some pl) (some (strip after)) = name ++ (pl ++ (' ' :: strip after)) := by
          simp [macroTail]
        rw [ht]
        have hform := MacroForm.params name pl (' ' :: strip after) hn hh hl hi
        rw [strip_sp_strip, optTokens_strip, if_neg hd] at hform
        refine fix_macro_core (c := c) (r := r ++ (pl ++ (' ' :: strip after))) (z := z') ?_ hc ?_ hz' hform
        · rw [e1]; rfl
        · rw [getLast?_append_ne (by simp), getLast?_append_ne (by simp),
            show ' ' :: strip after = [' '] ++ strip after from rfl, getLast?_append_ne hd]
          exact e2'

theorem mem_of_contains {b : Str} {c : Char} (h : b.contains c = true) : b ≠ [] := by
  intro h0; subst h0; simp at h

/-- the printed line marker is a line marker that prints the same -/
theorem fix_linemarker {l : Str} {n : Node} (h : matchCls .linemarkerStmt l = some n) :
    ∃ n', matchCls .linemarkerStmt (render n) = some n' ∧ render n' = render n := by
  obtain ⟨hn, a, g, ds, g2, r3, hs⟩ := matchLinemarker_elim h
  have hbne : chompNl r3 ≠ [] := mem_of_contains hs.hquote
  have hr3 : r3 ≠ [] := by intro h0; subst h0; exact hbne rfl
  have hbb : chompNl (chompNl r3) = chompNl r3 := chompNl_of_last (noNl_last hs.hbody)
  -- the printed text
  have hR : render n = '#' :: (g ++ (ds ++ (g2 ++ '"' :: chompNl r3))) := by
    rw [hn, render_linemarker]
    have : l = (a ++ '#' :: (g ++ (ds ++ (g2 ++ ['"'])))) ++ r3 := by
      rw [hs.eq]; simp
    rw [this, chompNl_append hr3, List.append_assoc, lstrip_allSp_append _ hs.ha,
      List.cons_append, lstrip_cons_ns _ (by decide)]
    simp
  have hs' : LmShape (render n) [] g ds g2 (chompNl r3) :=
    { eq := by rw [hR]; rfl
      ha := allSp_nil, hg := hs.hg, hgne := hs.hgne, hds := hs.hds, hdsne := hs.hdsne
      hg2 := hs.hg2, hg2ne := hs.hg2ne
      hbody := by rw [hbb]; exact hs.hbody
      hquote := by rw [hbb]; exact hs.hquote }
  refine ⟨_, matchLinemarker_intro hs', ?_⟩
  rw [render_linemarker]
  have hlast : (render n).getLast? ≠ some '\n' := by
    rw [hR, show '#' :: (g ++ (ds ++ (g2 ++ '"' :: chompNl r3)))
        = ('#' :: (g ++ (ds ++ (g2 ++ ['"'])))) ++ chompNl r3 by simp, getLast?_append_ne hbne]
    exact noNl_last hs.hbody
  rw [chompNl_of_last hlast]
  rw [hR]; exact lstrip_cons_ns _ (by decide)

/-- per class: the printed node is accepted by the same class, and prints the same -/
theorem fix_cls {c : Cls} {l : Str} {n : Node} (h : matchCls c l = some n) :
    ∃ n', matchCls c (render n) = some n' ∧ render n' = render n := by
  cases c
  case elseStmt =>
    have := (matchElse_elim h).1
    refine ⟨n, ?_, rfl⟩
    subst this; exact h
  case endifStmt =>
    have := (matchEndif_elim h).1
    refine ⟨n, ?_, rfl⟩
    subst this; exact h
  case includeStmt => exact ⟨n, fix_include h, rfl⟩
  case macroStmt => exact ⟨n, fix_macro h, rfl⟩
  case linemarkerStmt => exact fix_linemarker h
  case nullStmt =>
    obtain ⟨_, hn⟩ := matchNull_iff.mp h
    subst hn
    exact ⟨.null, by decide, rfl⟩
  all_goals exact ⟨n, fix_word (by simp [kwsOf]) h, rfl⟩

/-- … and for every class but the line marker the node itself comes back -/
theorem fix_cls_same {c : Cls} {l : Str} {n : Node} (h : matchCls c l = some n)
    (hc : c ≠ .linemarkerStmt) : matchCls c (render n) = some n := by
  cases c
  case elseStmt =>
    have := (matchElse_elim h).1
    subst this; exact h
  case endifStmt =>
    have := (matchEndif_elim h).1
    subst this; exact h
  case includeStmt => exact fix_include h
  case macroStmt => exact fix_macro h
  case linemarkerStmt => exact absurd rfl hc
  case nullStmt =>
    obtain ⟨_, hn⟩ := matchNull_iff.mp h
    subst hn
    decide
  all_goals exact fix_word (by simp [kwsOf]) h

end Fp.Cpp
