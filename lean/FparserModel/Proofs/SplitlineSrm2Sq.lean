import FparserModel.Py

/-!
`squeeze`: remove the blanks just inside parentheses / brackets (after every opener, before every
closer).  Main results: `squeeze_group` (one group may lose the outer blanks of its interior without
changing the squeezed text) and `squeeze_pieces` (the same for a whole list of pieces).
-/

namespace Fp.Splitline
open Fp

def isOpenerC (c : Char) : Bool := c == '(' || c == '['
def isCloserC (c : Char) : Bool := c == ')' || c == ']'

/-- copy the text, dropping every run of blanks that immediately follows a character satisfying `p`
    (`skip` = "the previous kept character satisfied p, or we are still dropping") -/
def dropAfter (p : Char → Bool) : Bool → Str → Str
  | _, [] => []
  | skip, c :: cs => if skip && isSpace c then dropAfter p true cs else c :: dropAfter p (p c) cs

/-- remove the blanks just inside parentheses/brackets: after every `(`/`[` and before every `)`/`]` -/
def squeeze (s : Str) : Str :=
  (dropAfter isCloserC false (dropAfter isOpenerC false s).reverse).reverse

/-- the skip state of `dropAfter` after having consumed a text -/
def endState (p : Char → Bool) : Bool → Str → Bool
  | sk, [] => sk
  | sk, c :: cs => endState p (if sk && isSpace c then true else p c) cs

/-! ### blanks are not parentheses -/

theorem isSpace_cases {c : Char} (h : isSpace c = true) :
    c = ' ' ∨ c = '\t' ∨ c = '\n' ∨ c = '\r' ∨ c = '\x0b' ∨ c = '\x0c'
      ∨ c = '\x1c' ∨ c = '\x1d' ∨ c = '\x1e' ∨ c = '\x1f' := by
  simpa [isSpace, or_assoc] using h

theorem isSpace_not_paren {c : Char} (h : isSpace c = true) :
    isOpenerC c = false ∧ isCloserC c = false := by
  rcases isSpace_cases h with h | h | h | h | h | h | h | h | h | h <;> subst h <;> decide

theorem opener_not_space {c : Char} (h : isOpenerC c = true) : isSpace c = false := by
  cases hs : isSpace c with
  | false => rfl
  | true => rw [(isSpace_not_paren hs).1] at h; cases h

theorem closer_not_space {c : Char} (h : isCloserC c = true) : isSpace c = false := by
  cases hs : isSpace c with
  | false => rfl
  | true => rw [(isSpace_not_paren hs).2] at h; cases h

/-! ### `dropAfter` basics -/

@[simp] theorem dropAfter_nil (p : Char → Bool) (sk : Bool) : dropAfter p sk [] = [] := by
  cases sk <;> rfl

theorem dropAfter_cons (p : Char → Bool) (sk : Bool) (c : Char) (cs : Str) :
    dropAfter p sk (c :: cs)
      = if sk && isSpace c then dropAfter p true cs else c :: dropAfter p (p c) cs := by
  cases sk <;> rfl

/-- a non-blank is emitted whatever the skip state -/
theorem dropAfter_cons_nonspace (p : Char → Bool) (sk : Bool) {c : Char} (hc : isSpace c = false)
    (cs : Str) : dropAfter p sk (c :: cs) = c :: dropAfter p (p c) cs := by
  rw [dropAfter_cons]; simp [hc]

/-- (D1) -/
theorem dropAfter_append (p : Char → Bool) (sk : Bool) (A B : Str) :
    dropAfter p sk (A ++ B) = dropAfter p sk A ++ dropAfter p (endState p sk A) B := by
  induction A generalizing sk with
  | nil => simp [endState]
  | cons c cs ih =>
    rw [List.cons_append, dropAfter_cons, dropAfter_cons]
    by_cases h : (sk && isSpace c) = true
    · simp only [h, if_true, endState]
      exact ih true
    · simp only [h, if_false, endState, Bool.false_eq_true, List.cons_append]
      rw [ih (p c)]

/-- (D2) -/
theorem dropAfter_true_blanks (p : Char → Bool) (ws B : Str) (h : ∀ c ∈ ws, isSpace c = true) :
    dropAfter p true (ws ++ B) = dropAfter p true B := by
  induction ws with
  | nil => rfl
  | cons c cs ih =>
    have hc : isSpace c = true := h c (by simp)
    rw [List.cons_append, dropAfter_cons]
    simp only [hc, Bool.and_self, if_true]
    exact ih (fun d hd => h d (by simp [hd]))

theorem endState_true_blanks (p : Char → Bool) (ws : Str) (h : ∀ c ∈ ws, isSpace c = true) :
    endState p true ws = true := by
  induction ws with
  | nil => rfl
  | cons c cs ih =>
    have hc : isSpace c = true := h c (by simp)
    simp only [endState, hc, Bool.and_self, if_true]
    exact ih (fun d hd => h d (by simp [hd]))

/-- (D3) -/
theorem dropAfter_false_blanks (p : Char → Bool) (hp : ∀ c, isSpace c = true → p c = false)
    (ws B : Str) (h : ∀ c ∈ ws, isSpace c = true) :
    dropAfter p false (ws ++ B) = ws ++ dropAfter p false B := by
  induction ws with
  | nil => rfl
  | cons c cs ih =>
    have hc : isSpace c = true := h c (by simp)
    rw [List.cons_append, dropAfter_cons]
    simp only [Bool.false_and, Bool.false_eq_true, if_false, hp c hc, List.cons_append]
    rw [ih (fun d hd => h d (by simp [hd]))]

theorem endState_false_blanks (p : Char → Bool) (hp : ∀ c, isSpace c = true → p c = false)
    (ws : Str) (h : ∀ c ∈ ws, isSpace c = true) :
    endState p false ws = false := by
  induction ws with
  | nil => rfl
  | cons c cs ih =>
    have hc : isSpace c = true := h c (by simp)
    simp only [endState, Bool.false_and, Bool.false_eq_true, if_false, hp c hc]
    exact ih (fun d hd => h d (by simp [hd]))

/-! ### the two passes on a group -/

/-- forward pass in front of a non-blank `cl`: a blank run before it is kept or dropped as a whole -/
theorem dropAfter_blanks_then (p : Char → Bool) (hp : ∀ c, isSpace c = true → p c = false)
    (sk : Bool) (ws B : Str) (cl : Char) (hcl : isSpace cl = false)
    (h : ∀ c ∈ ws, isSpace c = true) :
    ∃ ws', (∀ c ∈ ws', isSpace c = true) ∧
      dropAfter p sk (ws ++ cl :: B) = ws' ++ cl :: dropAfter p (p cl) B := by
  cases sk with
  | true =>
    refine ⟨[], by simp, ?_⟩
    rw [dropAfter_true_blanks p ws _ h, dropAfter_cons_nonspace p true hcl]; rfl
  | false =>
    refine ⟨ws, h, ?_⟩
    rw [dropAfter_false_blanks p hp ws _ h, dropAfter_cons_nonspace p false hcl]

/-- forward pass: both texts become `P ++ ws' ++ cl :: Q` resp. `P ++ cl :: Q` -/
theorem forward_group (A B x ws1 ws2 : Str) (o cl : Char) (ho : isOpenerC o = true)
    (hcl : isCloserC cl = true) (h1 : ∀ c ∈ ws1, isSpace c = true)
    (h2 : ∀ c ∈ ws2, isSpace c = true) :
    ∃ P Q ws', (∀ c ∈ ws', isSpace c = true) ∧
      dropAfter isOpenerC false (A ++ o :: (ws1 ++ x ++ ws2 ++ cl :: B)) = P ++ (ws' ++ cl :: Q) ∧
      dropAfter isOpenerC false (A ++ o :: (x ++ cl :: B)) = P ++ cl :: Q := by
  have hos := opener_not_space ho
  have hcs := closer_not_space hcl
  have hp : ∀ c, isSpace c = true → isOpenerC c = false := fun c hc => (isSpace_not_paren hc).1
  obtain ⟨ws', hws', e⟩ :=
    dropAfter_blanks_then isOpenerC hp (endState isOpenerC true x) ws2 B cl hcs h2
  refine ⟨dropAfter isOpenerC false A ++ o :: dropAfter isOpenerC true x,
    dropAfter isOpenerC (isOpenerC cl) B, ws', hws', ?_, ?_⟩
  · rw [dropAfter_append, dropAfter_cons_nonspace _ _ hos, ho]
    rw [List.append_assoc, List.append_assoc, dropAfter_true_blanks _ ws1 _ h1]
    rw [dropAfter_append, e]
    simp
  · rw [dropAfter_append, dropAfter_cons_nonspace _ _ hos, ho]
    rw [dropAfter_append, dropAfter_cons_nonspace _ _ hcs]
    simp

/-- backward pass: a blank run right after a closer (in the reversed text) disappears -/
theorem backward_group (sk : Bool) (Qr Pr ws : Str) (cl : Char) (hcl : isCloserC cl = true)
    (h : ∀ c ∈ ws, isSpace c = true) :
    dropAfter isCloserC sk (Qr ++ cl :: (ws ++ Pr)) = dropAfter isCloserC sk (Qr ++ cl :: Pr) := by
  have hcs := closer_not_space hcl
  rw [dropAfter_append, dropAfter_append, dropAfter_cons_nonspace _ _ hcs,
    dropAfter_cons_nonspace _ _ hcs, hcl, dropAfter_true_blanks _ ws _ h]

/-! ### main results -/

/-- a group may lose the outer blanks of its interior without changing the squeezed text -/
theorem squeeze_group (A B x ws1 ws2 : Str) (o cl : Char) (ho : isOpenerC o = true)
    (hcl : isCloserC cl = true) (h1 : ∀ c ∈ ws1, isSpace c = true)
    (h2 : ∀ c ∈ ws2, isSpace c = true) :
    squeeze (A ++ o :: (ws1 ++ x ++ ws2 ++ cl :: B)) = squeeze (A ++ o :: (x ++ cl :: B)) := by
  obtain ⟨P, Q, ws', hws', e1, e2⟩ := forward_group A B x ws1 ws2 o cl ho hcl h1 h2
  unfold squeeze
  rw [e1, e2]
  congr 1
  have hr : ∀ c ∈ ws'.reverse, isSpace c = true := fun c hc => hws' c (List.mem_reverse.1 hc)
  have := backward_group false Q.reverse P.reverse ws'.reverse cl hcl hr
  simpa using this

/-- one piece of the line and its image after the round trip: identical, or a group whose interior lost its outer blanks -/
inductive SqPiece : Str → Str → Prop
  | same (s : Str) : SqPiece s s
  | group (o cl : Char) (ws1 x ws2 : Str) (ho : isOpenerC o = true) (hcl : isCloserC cl = true)
      (h1 : ∀ c ∈ ws1, isSpace c = true) (h2 : ∀ c ∈ ws2, isSpace c = true) :
      SqPiece (o :: (ws1 ++ x ++ ws2 ++ [cl])) (o :: (x ++ [cl]))

/-- one piece replaced by its image, in any context -/
theorem squeeze_piece {s t : Str} (h : SqPiece s t) (A B : Str) :
    squeeze (A ++ (t ++ B)) = squeeze (A ++ (s ++ B)) := by
  cases h with
  | same => rfl
  | group o cl ws1 x ws2 ho hcl h1 h2 =>
    have := squeeze_group A B x ws1 ws2 o cl ho hcl h1 h2
    simpa using this.symm

theorem squeeze_pieces : ∀ (ps : List (Str × Str)), (∀ p ∈ ps, SqPiece p.1 p.2) →
    ∀ Pre, squeeze (Pre ++ (ps.map (·.2)).flatten) = squeeze (Pre ++ (ps.map (·.1)).flatten) := by
  intro ps
  induction ps with
  | nil => intro _ Pre; rfl
  | cons p ps ih =>
    intro h Pre
    have hp : SqPiece p.1 p.2 := h p (by simp)
    have ih' := ih (fun q hq => h q (by simp [hq])) (Pre ++ p.1)
    simp only [List.map_cons, List.flatten_cons]
    rw [squeeze_piece hp Pre, ← List.append_assoc, ih', List.append_assoc]

theorem squeeze_pieces_nil (ps : List (Str × Str)) (h : ∀ p ∈ ps, SqPiece p.1 p.2) :
    squeeze (ps.map (·.2)).flatten = squeeze (ps.map (·.1)).flatten := by
  simpa using squeeze_pieces ps h []

/-! ### sanity / non-vacuity -/

example : squeeze "a( i+1 )".toList = "a(i+1)".toList := by decide
example : squeeze "f( (a + b) ) + [ 1, 2 ]".toList = "f((a + b)) + [1, 2]".toList := by decide
/-- idempotence on an example -/
example : squeeze (squeeze "f( (a + b) ) + [ 1, 2 ]".toList)
    = squeeze "f( (a + b) ) + [ 1, 2 ]".toList := by decide
/-- blanks outside the brackets are kept -/
example : squeeze "a  ( b )  c".toList = "a  (b)  c".toList := by decide

/-- a concrete instance of `squeeze_group` (hypotheses satisfiable, both sides non-trivial) -/
example : squeeze ("a".toList ++ '(' :: ("  ".toList ++ "i + 1".toList ++ " ".toList ++ ')' :: "*b".toList))
    = squeeze ("a".toList ++ '(' :: ("i + 1".toList ++ ')' :: "*b".toList)) :=
  squeeze_group _ _ _ _ _ _ _ (by decide) (by decide) (by decide) (by decide)

/-- a concrete instance of `squeeze_pieces` with both kinds of piece -/
example : squeeze ([("x = f".toList, "x = f".toList),
      ("( a + b  )".toList, "(a + b)".toList),
      (" + ".toList, " + ".toList),
      ("[ 1 ]".toList, "[1]".toList)].map (·.2)).flatten
    = squeeze ([("x = f".toList, "x = f".toList),
      ("( a + b  )".toList, "(a + b)".toList),
      (" + ".toList, " + ".toList),
      ("[ 1 ]".toList, "[1]".toList)].map (·.1)).flatten := by
  apply squeeze_pieces_nil
  intro p hp
  simp only [List.mem_cons, List.not_mem_nil, or_false] at hp
  rcases hp with rfl | rfl | rfl | rfl
  · exact SqPiece.same _
  · exact SqPiece.group '(' ')' " ".toList "a + b".toList "  ".toList
      (by decide) (by decide) (by decide) (by decide)
  · exact SqPiece.same _
  · exact SqPiece.group '[' ']' " ".toList "1".toList " ".toList
      (by decide) (by decide) (by decide) (by decide)

end Fp.Splitline

#print axioms Fp.Splitline.squeeze_group
#print axioms Fp.Splitline.squeeze_pieces
#print axioms Fp.Splitline.squeeze_pieces_nil
