import FparserModel.Splitline
/-! helper lemmas for `splitquote` : join, lengths, fuel independence -/
namespace Fp.Splitline
open Fp

def segsJoin (l : List Seg) : Str := (l.map Seg.str).flatten

@[simp] theorem segsJoin_nil : segsJoin [] = [] := rfl
@[simp] theorem segsJoin_cons (s : Seg) (l : List Seg) : segsJoin (s :: l) = s.str ++ segsJoin l := by
  simp [segsJoin]
@[simp] theorem segsJoin_append (a b : List Seg) : segsJoin (a ++ b) = segsJoin a ++ segsJoin b := by
  simp [segsJoin]

theorem spanPlain_join (l : Str) : (spanPlain l).1 ++ (spanPlain l).2 = l := by
  induction l with
  | nil => rfl
  | cons c cs ih =>
    unfold spanPlain
    split <;> simp [ih]

theorem spanPlain_length (l : Str) : (spanPlain l).2.length ≤ l.length := by
  have h := congrArg List.length (spanPlain_join l)
  simp at h; omega

theorem spanLit_join (q : Char) (l a b : Str) (h : spanLit q l = some (a, b)) : a ++ b = l := by
  fun_induction spanLit q l generalizing a b <;> simp_all
  all_goals grind

theorem spanLit_ne_nil (q : Char) (l a b : Str) (h : spanLit q l = some (a, b)) : a ≠ [] := by
  intro ha; subst ha
  fun_cases spanLit q l <;> simp_all [spanLit]

theorem spanLit_length (q : Char) (l a b : Str) (h : spanLit q l = some (a, b)) :
    b.length < l.length := by
  have h1 := congrArg List.length (spanLit_join q l a b h)
  have : 0 < a.length := List.length_pos_iff.mpr (spanLit_ne_nil q l a b h)
  simp at h1; omega

/-- one unfolding of the loop, with the case analysis made explicit -/
theorem splitLoop_succ (lower : Bool) (n : Nat) (l : Str) :
    splitLoop lower (n+1) l =
      if l.isEmpty then ([], none) else
      match spanPlain l with
      | (p, []) => ([.plain (lw lower p)], none)
      | (p, q :: body) =>
        match spanLit q body with
        | none => ((if p.isEmpty then [] else [Seg.plain (lw lower p)]) ++ [.quoted (q :: body)], some q)
        | some (lit, rest) =>
          ((if p.isEmpty then [] else [Seg.plain (lw lower p)]) ++ .quoted (q :: lit) :: (splitLoop lower n rest).1,
            (splitLoop lower n rest).2) := by
  rw [splitLoop]
  rfl

theorem pre_join (p : Str) : segsJoin (if p.isEmpty then [] else [Seg.plain (lw false p)]) = p := by
  cases p <;> simp [lw, Seg.str]

theorem splitLoop_join (fuel : Nat) (l : Str) (h : l.length < fuel) :
    segsJoin (splitLoop false fuel l).1 = l := by
  induction fuel generalizing l with
  | zero => omega
  | succ n ih =>
    rw [splitLoop_succ]
    by_cases hl : l.isEmpty
    · simp_all [List.isEmpty_iff]
    · simp only [hl]
      have hj := spanPlain_join l
      have hlen := spanPlain_length l
      rcases hsp : spanPlain l with ⟨p, r⟩
      rw [hsp] at hj hlen
      cases r with
      | nil => simpa [lw, Seg.str] using hj
      | cons q body =>
        simp only
        cases hlit : spanLit q body with
        | none =>
          simp only [Bool.false_eq_true, ↓reduceIte]
          simp only [segsJoin_append, segsJoin_cons, segsJoin_nil, pre_join, Seg.str]
          simpa using hj
        | some lr =>
          rcases lr with ⟨lit, rest⟩
          have h1 := spanLit_join _ _ _ _ hlit
          have h2 := spanLit_length _ _ _ _ hlit
          have : rest.length < n := by simp at hlen; omega
          simp only [Bool.false_eq_true, ↓reduceIte]
          simp only [segsJoin_append, segsJoin_cons, pre_join, Seg.str, ih rest this]
          simp only [List.cons_append, h1]; simpa using hj

theorem splitquote_join' (l : Str) (stop : Option Char) :
    segsJoin (splitquote l stop false).1 = l := by
  unfold splitquote
  split
  · exact splitLoop_join _ _ (by omega)
  · split
    · simp [Seg.str]
    · rename_i lit rest hlit
      have h1 := splitLoop_join (rest.length + 1) rest (by omega)
      have h2 := spanLit_join _ _ _ _ hlit
      simp [Seg.str, h1, h2]

end Fp.Splitline
