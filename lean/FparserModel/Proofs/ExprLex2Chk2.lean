import FparserModel.Proofs.ExprLex2Chk

/-! transfer of `segC` / `chkA` to other contexts -/
set_option linter.unusedSimpArgs false
set_option linter.unusedVariables false
namespace Fp.ExprLex
open Fp Fp.Expr

abbrev wordQ (q : Pat) (prev : Option Char) (k : TK) (m after : Str) : Bool :=
  if inCls k q then matchAt q prev (m ++ after) == some m.length
  else if tolerated k q then true
  else noHit q prev m after

theorem segC_word_mono {prev prev' : Option Char} {k : TK} {m after after' : Str}
    (h : segC prev (.word k m) after = true)
    (hq : ∀ q, wordQ q prev k m after = true → wordQ q prev' k m after' = true)
    (ht : tokAt (m ++ after) = some (k, m.length) → tokAt (m ++ after') = some (k, m.length)) :
    segC prev' (.word k m) after' = true := by
  unfold segC segOK at *
  simp only [Bool.and_eq_true, List.all_eq_true, beq_iff_eq] at h ⊢
  obtain ⟨⟨⟨⟨⟨⟨hne, hall⟩, hex⟩, htok⟩, hsb⟩, heb⟩, htk⟩ := h
  exact ⟨⟨⟨⟨⟨⟨hne, fun q hm => hq q (hall q hm)⟩, hex⟩, htok⟩, hsb⟩, heb⟩, ht htk⟩

theorem segC_gap_mono {prev prev' : Option Char} {s s' after after' : Str}
    (h : segC prev (.gap s) after = true)
    (hq : ∀ q, noHit q prev s after = true → noHit q prev' s' after' = true)
    (he : headIs (dropSp s) '=' = false → headIs (dropSp s') '=' = false)
    (ht : noTok s after = true → noTok s' after' = true) :
    segC prev' (.gap s') after' = true := by
  unfold segC segOK at *
  simp only [Bool.and_eq_true, List.all_eq_true, Bool.not_eq_true'] at h ⊢
  obtain ⟨⟨hall, hh⟩, htk⟩ := h
  exact ⟨⟨fun q hm => hq q (hall q hm), he hh⟩, ht htk⟩

theorem segC_word_parts {prev : Option Char} {k : TK} {m after : Str}
    (h : segC prev (.word k m) after = true) :
    segOK prev (.word k m) after = true ∧ tokAt (m ++ after) = some (k, m.length) := by
  unfold segC at h
  simp only [Bool.and_eq_true, beq_iff_eq] at h
  exact h

theorem segC_gap_parts {prev : Option Char} {s after : Str}
    (h : segC prev (.gap s) after = true) :
    segOK prev (.gap s) after = true ∧ noTok s after = true := by
  unfold segC at h
  simp only [Bool.and_eq_true] at h
  exact h

/-! ### cutting the text behind -/

theorem segC_cut {prev : Option Char} {x : Seg} {W y : Str} (h : segC prev x (W ++ y) = true)
    (hb : ∀ ch, (x.text ++ W).getLast? = some ch → bndc ch y) : segC prev x W = true := by
  cases x with
  | gap s =>
    exact segC_gap_mono h (fun q hq => noHit_cut q s prev W y hq hb) id (noTok_cut s W y)
  | word k m =>
    refine segC_word_mono h ?_ ?_
    · intro q hq
      unfold wordQ at hq ⊢
      by_cases hin : inCls k q = true
      · simp only [hin, ↓reduceIte, beq_iff_eq] at hq ⊢
        rw [← List.append_assoc] at hq
        exact matchAt_cut q prev _ y _ hq (by simp)
      · by_cases htl : tolerated k q = true
        · simp [hin, htl]
        · simp only [hin, htl, Bool.false_eq_true, ↓reduceIte] at hq ⊢
          exact noHit_cut q m prev W y hq hb
    · intro ht
      rw [← List.append_assoc] at ht
      exact tokAt_cut _ y k _ ht (by simp)

/-! ### forgetting the look-behind character -/

theorem segC_prev {c : Char} {x : Seg} {W : Str} (h : segC (some c) x W = true)
    (h1 : c = '*' → headIs (x.text ++ W) '*' = false) (h2 : c = '/' → headIs (x.text ++ W) '/' = false) :
    segC none x W = true := by
  cases x with
  | gap s => exact segC_gap_mono h (fun q hq => noHit_prev q c s W hq h1 h2) id id
  | word k m =>
    refine segC_word_mono h ?_ id
    intro q hq
    unfold wordQ at hq ⊢
    by_cases hin : inCls k q = true
    · simp only [hin, ↓reduceIte] at hq ⊢
      rw [← matchAt_prev q c (m ++ W) h1 h2]; exact hq
    · by_cases htl : tolerated k q = true
      · simp [hin, htl]
      · simp only [hin, htl, Bool.false_eq_true, ↓reduceIte] at hq ⊢
        exact noHit_prev q c m W hq h1 h2

theorem lastOr_of_ne {t : Str} (p p' : Option Char) (h : t ≠ []) : lastOr p t = lastOr p' t := by
  obtain ⟨c, hc⟩ := getLast_some_of_ne h
  simp [lastOr, hc]

theorem chkA_prev_none (c : Char) : ∀ (sg : List Seg) (after : Str), chkA (some c) sg after = true →
    (c = '*' → headIs (flat sg ++ after) '*' = false) → (c = '/' → headIs (flat sg ++ after) '/' = false) →
    chkA none sg after = true
  | [], _, _, _, _ => rfl
  | x :: rest, after, h, h1, h2 => by
    simp only [chkA, Bool.and_eq_true, flat_cons, List.append_assoc] at h h1 h2 ⊢
    refine ⟨segC_prev h.1 h1 h2, ?_⟩
    by_cases hx : x.text = []
    · rw [hx, lastOr_nil] at h ⊢
      rw [hx] at h1 h2
      exact chkA_prev_none c rest after h.2 h1 h2
    · rw [lastOr_of_ne none (some c) hx]; exact h.2

/-! ### trimming the first and the last gap -/

theorem allBlank_dropSp {a : Str} (b : Str) (h : allBlank a = true) : dropSp (a ++ b) = dropSp b := by
  unfold dropSp
  apply List.dropWhile_append_of_pos
  simpa [allBlank] using h

theorem chkA_lstrip {prev : Option Char} {a b : Str} {rest : List Seg} {after : Str}
    (h : chkA prev (.gap (a ++ b) :: rest) after = true) (ha : allBlank a = true) :
    chkA (lastOr prev a) (.gap b :: rest) after = true := by
  simp only [chkA, Bool.and_eq_true, Seg.text, lastOr_append] at h ⊢
  refine ⟨segC_gap_mono h.1 (fun q hq => noHit_suffix q a b prev _ hq) ?_ (noTok_suffix a b _), h.2⟩
  rw [allBlank_dropSp b ha]; exact id

theorem headIs_dropSp_prefix (a b : Str) (c : Char) (h : headIs (dropSp (a ++ b)) c = false) :
    headIs (dropSp a) c = false := by
  by_cases hd : dropSp a = []
  · rw [hd]; rfl
  · unfold dropSp at *
    rw [(dw_app_ne isSpace a b hd).1] at h
    exact headIs_app_false h

theorem chkA_rstrip_last {a b : Str} {y : Str} : ∀ (A : List Seg) (prev : Option Char),
    chkA prev (A ++ [.gap (a ++ b)]) y = true → chkA prev (A ++ [.gap a]) (b ++ y) = true := by
  intro A prev h
  rw [chkA_append] at h ⊢
  simp only [Bool.and_eq_true, flat_cons, flat_nil, Seg.text, List.append_nil, List.append_assoc] at h ⊢
  refine ⟨h.1, ?_⟩
  have h2 := h.2
  simp only [chkA, Bool.and_eq_true, flat_nil, List.nil_append, and_true] at h2 ⊢
  exact segC_gap_mono h2 (fun q hq => noHit_prefix q a b _ y hq) (headIs_dropSp_prefix a b '=')
    (noTok_prefix a b y)

end Fp.ExprLex
