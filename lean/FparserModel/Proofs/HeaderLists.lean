import FparserModel.Header
import FparserModel.Proofs.IoStmtLayoutCombi
/-!
The generic-combinator instances of the Header slice: the exec-generated `*_List` classes
(`SequenceBase.match(",", X, string)`), `Associate_Stmt` and the PASS(arg) attributes
(`CALLBase.match`): instances of the generic token theorems of `Proofs/IoStmtLayoutCombi.lean`.
-/
namespace Fp.Header
open Fp Fp.Splitline Fp.IoStmt

variable {Node : Type}

/-- Dummy_Arg_List / Dummy_Arg_Name_List / Type_Attr_Spec_List: commas re-spaced, tokens kept -/
theorem l_list_tostr_match_tokens (o : Oracle Node) (ho : OracleTok o) (elem : ClassId) (s : Str)
    (items : List (Item Node))
    (hm : (combiPlan (specList elem) s).bind (runSlots o) = .ok items) (hs : SrmOK s) :
    ∃ t, combiStr o (specList elem) items = .ok t ∧ toks t = toks s ∧
      ((∀ n, Item.node n ∈ items → net (o.str n) = 0) → net t = 0) :=
  seq_tostr_match_tokens o ho elem s items hm hs

/-- Associate_Stmt: `ASSOCIATE(list)`; under the two hypotheses of every CALLBase class -/
theorem l_associate_tostr_match_tokens_partial (o : Oracle Node) (ho : OracleTok o) (s : Str)
    (items : List (Item Node))
    (hm : (combiPlan specAssociate s).bind (runSlots o) = .ok items)
    (hs : SrmOK s) (hend : CallEndOK s) :
    ∃ t, combiStr o specAssociate items = .ok t ∧ toks t = toks s ∧
      ((∀ n, Item.node n ∈ items → net (o.str n) = 0) → net t = 0) :=
  callkw_tostr_match_tokens_partial o ho "ASSOCIATE".toList C.Association_List true false s items
    (by decide) hm hs hend

/-- Binding_PASS_Arg_Name / Proc_Component_PASS_Arg_Name: `PASS(arg)` -/
theorem l_pass_tostr_match_tokens_partial (o : Oracle Node) (ho : OracleTok o) (s : Str)
    (items : List (Item Node))
    (hm : (combiPlan specBindingPass s).bind (runSlots o) = .ok items)
    (hs : SrmOK s) (hend : CallEndOK s) :
    ∃ t, combiStr o specBindingPass items = .ok t ∧ toks t = toks s ∧
      ((∀ n, Item.node n ∈ items → net (o.str n) = 0) → net t = 0) :=
  callkw_tostr_match_tokens_partial o ho "PASS".toList C.Arg_Name true false s items
    (by decide) hm hs hend

end Fp.Header
