import FparserModel.Proofs.SplitlineBalance
import FparserModel.Proofs.SplitlineQuote
/-! helper lemmas for `string_replace_map`: case folding, verbatim copy of plain items -/
namespace Fp.Splitline
open Fp

/-- what `lower=True` does to one segment: plain text is folded, a `String` is untouched -/
def Seg.fold : Seg → Seg
  | .plain s => .plain (Fp.lower s)
  | .quoted s => .quoted s

theorem splitLoop_lower (fuel : Nat) (l : Str) :
    splitLoop true fuel l = ((splitLoop false fuel l).1.map Seg.fold, (splitLoop false fuel l).2) := by
  induction fuel generalizing l with
  | zero => rfl
  | succ n ih =>
    rw [splitLoop_succ, splitLoop_succ]
    by_cases hl : l.isEmpty
    · simp [hl]
    · simp only [hl]
      rcases spanPlain l with ⟨p, r⟩
      cases r with
      | nil => simp [lw, Seg.fold]
      | cons q body =>
        simp only
        cases spanLit q body with
        | none => cases p <;> simp [lw, Seg.fold]
        | some lr =>
          rcases lr with ⟨lit, rest⟩
          simp only [ih rest]
          cases p <;> simp [lw, Seg.fold]

/-- phase 3 copies plain items verbatim and never changes the state on them -/
theorem phase3_append (d : Discipline) (st : SrmState) (a b : List PItem) :
    (phase3 d st (a ++ b)).2 = (phase3 d st a).2 ++ (phase3 d (phase3 d st a).1 b).2 ∧
    (phase3 d st (a ++ b)).1 = (phase3 d (phase3 d st a).1 b).1 := by
  induction a generalizing st with
  | nil => simp [phase3]
  | cons x a ih => simp [phase3, ih]

theorem phase3_plain (d : Discipline) (st : SrmState) (t : Str) :
    phase3 d st [.plain t] = (st, t) := by
  simp [phase3, phase3Step]

end Fp.Splitline
