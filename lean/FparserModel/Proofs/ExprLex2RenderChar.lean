import FparserModel.Proofs.ExprLex2RenderDef
import FparserModel.Proofs.ExprLex2Canon

/-!
Character classes and quiet text for `lex_render`: a character outside `.*/+-=<>` starts no
operator match and no operator word.
-/
namespace Fp.ExprLex
open Fp Fp.Expr

/-- the characters an operator match / operator word can begin with -/
def opChar (c : Char) : Bool :=
  c == '.' || c == '*' || c == '/' || c == '+' || c == '-' || c == '=' || c == '<' || c == '>'

theorem opChar_ne {c : Char} (h : opChar c = false) :
    c ≠ '.' ∧ c ≠ '*' ∧ c ≠ '/' ∧ c ≠ '+' ∧ c ≠ '-' ∧ c ≠ '=' ∧ c ≠ '<' ∧ c ≠ '>' := by
  simpa [opChar, and_assoc] using h

theorem opChar_cases {c : Char} (h : opChar c = true) :
    c = '.' ∨ c = '*' ∨ c = '/' ∨ c = '+' ∨ c = '-' ∨ c = '=' ∨ c = '<' ∨ c = '>' := by
  simpa [opChar, or_assoc] using h

theorem opChar_not_space {c : Char} (h : opChar c = true) : isSpace c = false := by
  rcases opChar_cases h with rfl | rfl | rfl | rfl | rfl | rfl | rfl | rfl <;> decide

theorem opChar_not_alpha {c : Char} (h : opChar c = true) : isAlpha c = false := by
  rcases opChar_cases h with rfl | rfl | rfl | rfl | rfl | rfl | rfl | rfl <;> decide

theorem space_quiet {c : Char} (h : isSpace c = true) : opChar c = false := by
  cases ho : opChar c with
  | false => rfl
  | true => rw [opChar_not_space ho] at h; cases h

theorem alpha_quiet {c : Char} (h : isAlpha c = true) : opChar c = false := by
  cases ho : opChar c with
  | false => rfl
  | true => rw [opChar_not_alpha ho] at h; cases h

theorem alpha_not_space {c : Char} (h : isAlpha c = true) : isSpace c = false := by
  cases hs : isSpace c with
  | false => rfl
  | true =>
    exfalso
    simp only [isSpace, Bool.or_eq_true, beq_iff_eq] at hs
    rcases hs with ((((((((rfl | rfl) | rfl) | rfl) | rfl) | rfl) | rfl) | rfl) | rfl) | rfl <;>
      exact absurd h (by decide)

theorem plain_quiet {c : Char} (h : plainChar c = true) : opChar c = false := by
  simp only [plainChar, Bool.and_eq_true, Bool.not_eq_true'] at h
  exact h.1

theorem plain_not_space {c : Char} (h : plainChar c = true) : isSpace c = false := by
  simp only [plainChar, Bool.and_eq_true, Bool.not_eq_true'] at h
  exact h.2

/-- all characters are outside `.*/+-=<>` -/
def quietS (s : Str) : Bool := s.all fun c => !opChar c

theorem quietS_append (a b : Str) : quietS (a ++ b) = (quietS a && quietS b) := by
  simp [quietS]

theorem quietS_blank : quietS [' '] = true := by decide

theorem quietS_plain {s : Str} (h : s.all plainChar = true) : quietS s = true := by
  simp only [quietS, List.all_eq_true, Bool.not_eq_true'] at h ⊢
  exact fun c hc => plain_quiet (h c hc)

theorem quietS_alpha {s : Str} (h : s.all isAlpha = true) : quietS s = true := by
  simp only [quietS, List.all_eq_true, Bool.not_eq_true'] at h ⊢
  exact fun c hc => alpha_quiet (h c hc)

/-! ### nothing starts at a quiet character -/

theorem tokAt_quiet {c : Char} (h : opChar c = false) (s : Str) : tokAt (c :: s) = none := by
  obtain ⟨h1, h2, h3, h4, h5, h6, h7, h8⟩ := opChar_ne h
  unfold tokAt
  split <;> simp_all

theorem dotWord_quiet {c : Char} (h : opChar c = false) (s : Str) : dotWord (c :: s) = none := by
  obtain ⟨h1, _⟩ := opChar_ne h
  unfold dotWord
  split <;> simp_all

theorem matchAt_quiet {c : Char} (h : opChar c = false) (q : Pat) (prev : Option Char) (s : Str) :
    matchAt q prev (c :: s) = none := by
  obtain ⟨h1, h2, h3, h4, h5, h6, h7, h8⟩ := opChar_ne h
  have hd : dotWord (c :: s) = none := dotWord_quiet h s
  cases q <;> simp only [matchAt, dotIn, hd]
  all_goals (first | rfl | (split <;> simp_all))

theorem noHit_quiet (q : Pat) : ∀ (s : Str) (prev : Option Char) (after : Str), quietS s = true →
    noHit q prev s after = true
  | [], _, _, _ => rfl
  | c :: t, prev, after, h => by
    simp only [quietS, List.all_cons, Bool.and_eq_true, Bool.not_eq_true'] at h
    simp only [noHit, List.cons_append, matchAt_quiet h.1, Option.isNone_none, Bool.true_and]
    exact noHit_quiet q t _ after (by simpa [quietS] using h.2)

theorem noTok_quiet : ∀ (s : Str) (after : Str), quietS s = true → noTok s after = true
  | [], _, _ => rfl
  | c :: t, after, h => by
    simp only [quietS, List.all_cons, Bool.and_eq_true, Bool.not_eq_true'] at h
    simp only [noTok, List.cons_append, tokAt_quiet h.1, Option.isNone_none, Bool.true_and]
    exact noTok_quiet t after (by simpa [quietS] using h.2)

theorem noHit_append (q : Pat) : ∀ (a : Str) (prev : Option Char) (b after : Str),
    noHit q prev (a ++ b) after = (noHit q prev a (b ++ after) && noHit q (lastOr prev a) b after)
  | [], _, _, _ => by simp [noHit, lastOr_nil]
  | c :: t, prev, b, after => by
    simp only [List.cons_append, noHit, noHit_append q t (some c) b after, lastOr_cons,
      List.append_assoc, Bool.and_assoc]

theorem headEq_dropSp_quiet : ∀ (s : Str), quietS s = true → headIs (dropSp s) '=' = false
  | [], _ => rfl
  | c :: t, h => by
    simp only [quietS, List.all_cons, Bool.and_eq_true, Bool.not_eq_true'] at h
    simp only [dropSp, List.dropWhile_cons]
    split
    · exact headEq_dropSp_quiet t (by simpa [quietS] using h.2)
    · simp only [headIs, beq_eq_false_iff_ne, ne_eq]
      exact (opChar_ne h.1).2.2.2.2.2.1

/-- a gap of quiet characters passes every check -/
theorem segC_gap_quiet (prev : Option Char) (s after : Str) (h : quietS s = true) :
    segC prev (.gap s) after = true := by
  simp only [segC, segOK, Bool.and_eq_true, Bool.not_eq_true', List.all_eq_true]
  exact ⟨⟨fun q _ => noHit_quiet q s prev after h, headEq_dropSp_quiet s h⟩, noTok_quiet s after h⟩

/-! ### quiet contexts -/

def quietP (prev : Option Char) : Bool := match prev with | none => true | some c => !opChar c
def quietA (after : Str) : Bool := match after with | [] => true | c :: _ => !opChar c

theorem quietP_ne {prev : Option Char} (h : quietP prev = true) :
    (prev == some '*') = false ∧ (prev == some '/') = false := by
  cases prev with
  | none => simp
  | some c =>
    simp only [quietP, Bool.not_eq_true'] at h
    obtain ⟨h1, h2, h3, h4, h5, h6, h7, h8⟩ := opChar_ne h
    simp [h2, h3]

theorem quietP_lastOr {s : Str} (prev : Option Char) (hq : quietS s = true) (hne : s ≠ []) :
    quietP (lastOr prev s) = true := by
  simp only [lastOr]
  cases hl : s.getLast? with
  | none => simp [List.getLast?_eq_none_iff] at hl; exact absurd hl hne
  | some c =>
    have hm : c ∈ s := List.mem_of_getLast? hl
    simp only [quietS, List.all_eq_true] at hq
    simpa [quietP] using hq c hm

end Fp.ExprLex
