import FparserModel.Block

/-!
# M-D proofs, part 6: more fuel never changes a completed result

`eval env n c pc st` with outcome other than `raise outOfFuel` is also the value of
`eval env m c pc st` for every `m ≥ n`.
-/
namespace Fp.Block

def FLe (f f' : F) : Prop := ∀ c s, (f c s).1 ≠ .raise .outOfFuel → f' c s = f c s
def GLe (g g' : G) : Prop := ∀ c pc s, (g c pc s).1 ≠ .raise .outOfFuel → g' c pc s = g c pc s

theorem fresh_le {g g' : G} (h : GLe g g') : FLe (fresh g) (fresh g') := by
  intro c s hne
  unfold fresh at hne ⊢
  rw [h c [] s hne]

variable {env : Env}

theorem addCID_mono {k : Nat} {rc : List Tree} {s : St} {r : Except Exc (List Tree)} {s' : St}
    (heq : addCID env k rc s = (r, s')) (hr : r ≠ .error .outOfFuel) :
    addCID env (k + 1) rc s = (r, s') := by
  induction k generalizing rc s with
  | zero =>
    simp only [addCID, Prod.mk.injEq] at heq
    exact absurd heq.1.symm hr
  | succ k ih =>
    simp only [addCID] at heq
    generalize hm : k + 1 = m
    simp only [addCID]
    subst hm
    split at heq
    · exact ih heq
    · exact heq
    · exact heq

theorem callCatch_mono {f f' : F} (hle : FLe f f') {c : Cls} {s : St} {o : Outcome} {s' : St}
    (heq : callCatch f c s = (o, s')) (ho : o ≠ .raise .outOfFuel) :
    callCatch f' c s = (o, s') := by
  unfold callCatch at heq ⊢
  have : (f c s).1 ≠ .raise .outOfFuel := by
    intro h
    split at heq
    · rename_i s1 h1; rw [h1] at h; cases h
    · rename_i hne
      rw [heq] at h
      exact ho h
  rw [hle c s this]
  exact heq

theorem doHook_mono {f f' : F} (hle : FLe f f') {fuel : Nat} {cfg : Cfg} {v : LoopVars} {s : St}
    {r : HookRes} {s' : St} (heq : doHook env f fuel cfg v s = (r, s'))
    (hr : r ≠ .raise .outOfFuel) : doHook env f' (fuel + 1) cfg v s = (r, s') := by
  unfold doHook at heq ⊢
  split
  · rename_i hd
    rw [if_pos hd] at heq
    generalize hl : hookLead env fuel s = lr at heq
    obtain ⟨r0, s0⟩ := lr
    have hl' : hookLead env (fuel + 1) s = (r0, s0) := by
      unfold hookLead at hl ⊢
      split
      · rename_i hq
        rw [if_pos hq] at hl
        apply addCID_mono hl
        intro h; subst h
        simp only [Prod.mk.injEq] at heq
        exact hr heq.1.symm
      · rename_i hq; rw [if_neg hq] at hl; exact hl
    rw [hl']
    cases r0 with
    | error e => exact heq
    | ok lead =>
      simp only at heq ⊢
      split
      · rename_i hs; simp only [hs] at heq; exact heq
      · rename_i sc hs
        simp only [hs] at heq
        have : (f sc s0).1 ≠ .raise .outOfFuel := by
          intro h
          split at heq
          · rename_i e s1 h1
            rw [h1] at h
            simp only [Outcome.raise.injEq] at h
            subst h
            simp only [Prod.mk.injEq] at heq
            exact hr heq.1.symm
          · rename_i s1 h1; rw [h1] at h; cases h
          · rename_i t s1 h1; rw [h1] at h; cases h
        rw [hle sc s0 this]
        exact heq
  · rename_i hd
    rw [if_neg hd] at heq
    exact heq

theorem blockLoop_mono {f f' : F} (hle : FLe f f') {cfg : Cfg} {classes : List Cls}
    {startT : Option Tree} {sn : Option (Option Name)} {k i : Nat} {v : LoopVars} {s : St}
    {res : LoopRes} {s' : St}
    (heq : blockLoop env f cfg classes startT sn k i v s = (res, s'))
    (hr : res ≠ .raise .outOfFuel) :
    blockLoop env f' cfg classes startT sn (k + 1) i v s = (res, s') := by
  induction k generalizing i v s with
  | zero =>
    simp only [blockLoop, Prod.mk.injEq] at heq
    exact absurd heq.1.symm hr
  | succ k ih =>
    simp only [blockLoop] at heq
    generalize hm : k + 1 = m
    simp only [blockLoop]
    subst hm
    split at heq
    · exact heq
    · rename_i cls hc
      split at heq
      · rename_i e s1 h1
        have he : e ≠ .outOfFuel := by
          intro h; subst h
          simp only [Prod.mk.injEq] at heq; exact hr heq.1.symm
        rw [doHook_mono hle h1 (by intro h; injection h with h; exact he h)]
        exact heq
      · rename_i ts s1 h1
        rw [doHook_mono hle h1 (by intro h; cases h)]
        exact ih heq
      · rename_i sa h1
        rw [doHook_mono hle h1 (by intro h; cases h)]
        simp only
        split at heq
        · rename_i e sb h2
          have he : e ≠ .outOfFuel := by
            intro h; subst h
            simp only [Prod.mk.injEq] at heq; exact hr heq.1.symm
          rw [callCatch_mono hle h2 (by intro h; injection h with h; exact he h)]
          exact heq
        · rename_i sb h2
          rw [callCatch_mono hle h2 (by intro h; cases h)]
          exact ih heq
        · rename_i t sb h2
          rw [callCatch_mono hle h2 (by intro h; cases h)]
          simp only
          split at heq
          · exact heq
          · exact heq
          · exact heq
          · exact ih heq

theorem blockStart_mono {f f' : F} (hle : FLe f f') {fuel : Nat} {cfg : Cfg} {s : St}
    {r : StartRes} {s' : St} (heq : blockStart env f fuel cfg s = (r, s'))
    (hr : r ≠ .ret (.raise .outOfFuel)) : blockStart env f' (fuel + 1) cfg s = (r, s') := by
  unfold blockStart at heq ⊢
  split
  · rename_i hs; simp only [hs] at heq; exact heq
  · rename_i sc hs
    simp only [hs] at heq
    split at heq
    · rename_i e sa h1
      have he : e ≠ .outOfFuel := by
        intro h; subst h
        simp only [Prod.mk.injEq] at heq; exact hr heq.1.symm
      rw [addCID_mono h1 (by intro h; injection h with h; exact he h)]
      exact heq
    · rename_i rc0 sa h1
      rw [addCID_mono h1 (by intro h; cases h)]
      simp only
      split at heq
      · rename_i e sb h2
        have he : e ≠ .outOfFuel := by
          intro h; subst h
          simp only [Prod.mk.injEq] at heq; exact hr heq.1.symm
        rw [callCatch_mono hle h2 (by intro h; injection h with h; exact he h)]
        exact heq
      · rename_i sb h2
        rw [callCatch_mono hle h2 (by intro h; cases h)]
        exact heq
      · rename_i t sb h2
        rw [callCatch_mono hle h2 (by intro h; cases h)]
        exact heq

/-- `blockFinish` passes a fuel exhaustion on unchanged -/
theorem blockFinish_oof (cfg : Cfg) (startT : Option Tree) (tn : Option Name) (sL : St) :
    (blockFinish env cfg startT tn (.raise .outOfFuel) sL).1 = .raise .outOfFuel := by
  unfold blockFinish
  simp

theorem blockMatch_mono {f f' : F} (hle : FLe f f') {fuel : Nat} {cfg : Cfg} {s : St} {r : MRes}
    {s' : St} (heq : blockMatch env f fuel cfg s = (r, s')) (hr : r ≠ .raise .outOfFuel) :
    blockMatch env f' (fuel + 1) cfg s = (r, s') := by
  unfold blockMatch at heq ⊢
  split at heq
  · rename_i r0 s1 h1
    simp only [Prod.mk.injEq] at heq
    obtain ⟨rfl, rfl⟩ := heq
    rw [blockStart_mono hle h1 (by intro h; injection h with h; exact hr h)]
  · rename_i rc0 startT tn sl sn s1 h1
    rw [blockStart_mono hle h1 (by intro h; cases h)]
    simp only at heq ⊢
    generalize hlr : blockLoop env f cfg (blockClasses env cfg) startT sn fuel 0
      (loopVars0 cfg rc0 sl) s1 = lr at heq
    obtain ⟨res, sL⟩ := lr
    have hres : res ≠ .raise .outOfFuel := by
      intro h; subst h
      simp only at heq
      have := blockFinish_oof (env := env) cfg startT tn sL
      rw [heq] at this
      exact hr this
    rw [blockLoop_mono hle hlr hres]
    exact heq

theorem manyLoop_mono {f f' : F} (hle : FLe f f') {c : Cls} {k : Nat} {rc : List Tree} {s : St}
    {r : MRes} {s' : St} (heq : manyLoop f c k rc s = (r, s')) (hr : r ≠ .raise .outOfFuel) :
    manyLoop f' c (k + 1) rc s = (r, s') := by
  induction k generalizing rc s with
  | zero =>
    simp only [manyLoop, Prod.mk.injEq] at heq
    exact absurd heq.1.symm hr
  | succ k ih =>
    simp only [manyLoop] at heq
    generalize hm : k + 1 = m
    simp only [manyLoop]
    subst hm
    split at heq
    · rename_i e s1 h1
      have he : e ≠ .outOfFuel := by
        intro h; subst h
        simp only [Prod.mk.injEq] at heq; exact hr heq.1.symm
      rw [callCatch_mono hle h1 (by intro h; injection h with h; exact he h)]
      exact heq
    · rename_i s1 h1
      rw [callCatch_mono hle h1 (by intro h; cases h)]
      exact heq
    · rename_i t s1 h1
      rw [callCatch_mono hle h1 (by intro h; cases h)]
      exact ih heq

theorem seqNR_mono {f f' : F} (hle : FLe f f') {q : Quirks} {cs : List Cls} {rc : List Tree}
    {s : St} {r : MRes} {s' : St} (heq : seqNR q f cs rc s = (r, s'))
    (hr : r ≠ .raise .outOfFuel) : seqNR q f' cs rc s = (r, s') := by
  induction cs generalizing rc s with
  | nil => simp only [seqNR] at heq ⊢; exact heq
  | cons c cs ih =>
    simp only [seqNR] at heq ⊢
    split
    · rename_i hq
      rw [if_pos hq] at heq
      split at heq
      · rename_i e s1 h1
        have he : e ≠ .outOfFuel := by
          intro h; subst h
          simp only [Prod.mk.injEq] at heq; exact hr heq.1.symm
        rw [callCatch_mono hle h1 (by intro h; injection h with h; exact he h)]
        exact heq
      · rename_i s1 h1
        rw [callCatch_mono hle h1 (by intro h; cases h)]
        exact heq
      · rename_i t s1 h1
        rw [callCatch_mono hle h1 (by intro h; cases h)]
        exact ih heq
    · rename_i hq
      rw [if_neg hq] at heq
      have : (f c s).1 ≠ .raise .outOfFuel := by
        intro h
        split at heq
        · rename_i e s1 h1
          rw [h1] at h
          simp only [Outcome.raise.injEq] at h
          subst h
          simp only [Prod.mk.injEq] at heq; exact hr heq.1.symm
        · rename_i s1 h1; rw [h1] at h; cases h
        · rename_i t s1 h1; rw [h1] at h; cases h
      rw [hle c s this]
      split at heq
      · exact heq
      · exact heq
      · exact ih heq

theorem main0Match_mono {f f' : F} (hle : FLe f f') {fuel : Nat} {cfg : Cfg} {scope : Name}
    {s : St} {r : MRes} {s' : St} (heq : main0Match env f fuel cfg scope s = (r, s'))
    (hr : r ≠ .raise .outOfFuel) : main0Match env f' (fuel + 1) cfg scope s = (r, s') := by
  unfold main0Match at heq ⊢
  generalize hb : blockMatch env f fuel cfg ((ghostIf (s.sym.clashes scope) Ghost.nameClash s).enter scope) = br at heq
  obtain ⟨r0, s2⟩ := br
  have h0 : r0 ≠ .raise .outOfFuel := by
    intro h; subst h
    simp only [beq_self_eq_true, if_true, Prod.mk.injEq] at heq
    exact hr heq.1.symm
  rw [blockMatch_mono hle hb h0]
  exact heq

def UOk (u : UnitStep) : Prop := ∀ rc', u ≠ .stop (.fail rc' .outOfFuel)

theorem unitStep_mono {f f' : F} (hle : FLe f f') {fuel : Nat} {unit main0 : Cls}
    {rc : List Tree} {s : St} {u : UnitStep} {s' : St}
    (heq : unitStep env f fuel unit main0 rc s = (u, s')) (hu : UOk u) :
    unitStep env f' (fuel + 1) unit main0 rc s = (u, s') := by
  unfold unitStep at heq ⊢
  have hne : (f unit s).1 ≠ .raise .outOfFuel := by
    intro h
    split at heq
    · rename_i e s1 h1
      rw [h1] at h
      simp only [Outcome.raise.injEq] at h
      subst h
      simp only [beq_iff_eq, Bool.and_eq_true] at heq
      rw [if_neg (by simp)] at heq
      simp only [Prod.mk.injEq] at heq
      exact hu _ heq.1.symm
    · rename_i o s1 hno h1
      rw [h1] at h
      exact hno _ h
  rw [hle unit s hne]
  split at heq
  · rename_i e s1 h1
    split at heq
    · rename_i hc
      rw [if_pos hc]
      generalize hb : blockMatch env f fuel (fallbackCfg main0) (s1.ev (Ev.ghost Ghost.fallback))
        = br at heq
      obtain ⟨r2, s2⟩ := br
      have hr2 : r2 ≠ .raise .outOfFuel := by
        intro h; subst h
        simp only [Prod.mk.injEq] at heq
        exact hu _ heq.1.symm
      rw [blockMatch_mono hle hb hr2]
      exact heq
    · rename_i hc
      rw [if_neg hc]
      exact heq
  · exact heq

theorem programLoop_mono {f f' : F} (hle : FLe f f') {unit main0 : Cls} {fuel k : Nat}
    {rc : List Tree} {s : St} {r : PRes} {s' : St}
    (heq : programLoop env f unit main0 fuel k rc s = (r, s'))
    (hr : ∀ rc', r ≠ .fail rc' .outOfFuel) :
    programLoop env f' unit main0 (fuel + 1) (k + 1) rc s = (r, s') := by
  induction k generalizing rc s with
  | zero =>
    simp only [programLoop, Prod.mk.injEq] at heq
    exact absurd heq.1.symm (hr _)
  | succ k ih =>
    simp only [programLoop] at heq
    generalize hm : k + 1 = m
    simp only [programLoop]
    subst hm
    generalize hus : unitStep env f fuel unit main0 rc s = us at heq
    obtain ⟨u, s1⟩ := us
    have hu : UOk u := by
      intro rc' h; subst h
      simp only [Prod.mk.injEq] at heq
      exact hr _ heq.1.symm
    rw [unitStep_mono hle hus hu]
    cases u with
    | stop r1 => exact heq
    | go rc1 =>
      simp only at heq ⊢
      split at heq
      · rename_i e s2 h2
        have he : e ≠ .outOfFuel := by
          intro h; subst h
          simp only [Prod.mk.injEq] at heq; exact hr _ heq.1.symm
        rw [addCID_mono h2 (by intro h; injection h with h; exact he h)]
        exact heq
      · rename_i rc2 s2 h2
        rw [addCID_mono h2 (by intro h; cases h)]
        simp only
        split at heq
        · exact heq
        · exact ih heq

theorem programMatch_mono {f f' : F} (hle : FLe f f') {fuel : Nat} {unit main0 : Cls} {s : St}
    {r : MRes} {s' : St} (heq : programMatch env f fuel unit main0 s = (r, s'))
    (hr : r ≠ .raise .outOfFuel) : programMatch env f' (fuel + 1) unit main0 s = (r, s') := by
  unfold programMatch at heq ⊢
  split at heq
  · rename_i e s1 h1
    have he : e ≠ .outOfFuel := by
      intro h; subst h
      simp only [Prod.mk.injEq] at heq; exact hr heq.1.symm
    rw [addCID_mono h1 (by intro h; injection h with h; exact he h)]
    exact heq
  · rename_i rc0 s1 h1
    rw [addCID_mono h1 (by intro h; cases h)]
    simp only
    split at heq
    · rename_i rc s2 h2
      rw [programLoop_mono hle h2 (by intro rc' h; cases h)]
      exact heq
    · rename_i s2 h2
      rw [programLoop_mono hle h2 (by intro rc' h; cases h)]
      exact heq
    · rename_i rc e s2 h2
      have he : e ≠ .outOfFuel := by
        intro h; subst h
        simp only [beq_iff_eq, Bool.and_eq_true] at heq
        rw [if_neg (by simp)] at heq
        simp only [Prod.mk.injEq] at heq; exact hr heq.1.symm
      rw [programLoop_mono hle h2 (by intro rc' h; injection h with _ h; exact he h)]
      simp only
      split at heq
      · rename_i hc; rw [if_pos hc]; exact blockMatch_mono hle heq hr
      · rename_i hc; rw [if_neg hc]; exact heq

theorem altLoop_mono {g g' : G} (hle : GLe g g') {ds pc : List Cls} {s : St} {o : Outcome}
    {pc' : List Cls} {s' : St} (heq : altLoop env g ds pc s = (o, pc', s'))
    (ho : o ≠ .raise .outOfFuel) : altLoop env g' ds pc s = (o, pc', s') := by
  induction ds generalizing pc s with
  | nil => simp only [altLoop] at heq ⊢; exact heq
  | cons d ds ih =>
    simp only [altLoop] at heq ⊢
    split
    · rename_i hc; rw [if_pos hc] at heq; exact ih heq
    · rename_i hc
      rw [if_neg hc] at heq
      have : (g d pc s).1 ≠ .raise .outOfFuel := by
        intro h
        split at heq
        · rename_i t pc1 s1 h1; rw [h1] at h; cases h
        · rename_i pc1 s1 h1; rw [h1] at h; cases h
        · rename_i pc1 s1 h1; rw [h1] at h; cases h
        · rename_i e pc1 s1 _ h1
          rw [h1] at h
          simp only [Outcome.raise.injEq] at h
          subst h
          simp only [Prod.mk.injEq] at heq; exact ho heq.1.symm
      rw [hle d pc s this]
      split at heq
      · exact heq
      · exact ih heq
      · exact ih heq
      · exact heq

theorem finish_mono {g g' : G} (hle : GLe g g') {c : Cls} {subs : List Cls} {r : MRes × St}
    {pc : List Cls} {o : Outcome} {pc' : List Cls} {s' : St}
    (heq : finish env g c subs r pc = (o, pc', s')) (ho : o ≠ .raise .outOfFuel) :
    finish env g' c subs r pc = (o, pc', s') ∧ r.1 ≠ .raise .outOfFuel := by
  unfold finish at heq ⊢
  split at heq
  · exact ⟨heq, by simp⟩
  · exact ⟨altLoop_mono hle heq ho, by simp⟩
  · exact ⟨altLoop_mono hle heq ho, by simp⟩
  · rename_i e s1 hne
    refine ⟨heq, ?_⟩
    simp only [Prod.mk.injEq] at heq
    intro h
    simp only [MRes.raise.injEq] at h
    subst h
    exact ho heq.1.symm

theorem eval_step_mono (env : Env) (n : Nat) : GLe (eval env n) (eval env (n + 1)) := by
  induction n with
  | zero =>
    intro c pc s h
    simp [eval] at h
  | succ n ih =>
    intro c pc s hne
    have hf : FLe (fresh (eval env n)) (fresh (eval env (n + 1))) := fresh_le ih
    rw [eval.eq_2] at hne
    rw [eval.eq_2, eval.eq_2]
    simp only at hne ⊢
    split at hne
    · rfl
    · rename_i subs _
      exact altLoop_mono ih (o := (altLoop env (eval env n) subs _ s).1)
        (pc' := (altLoop env (eval env n) subs _ s).2.1)
        (s' := (altLoop env (eval env n) subs _ s).2.2) rfl hne
    · rename_i cfg subs _
      generalize hb : blockMatch env (fresh (eval env n)) n cfg s = br at hne ⊢
      have hfin := finish_mono ih (c := c) (subs := subs) (r := br)
        (pc := if pc.contains c = true then pc else pc ++ [c]) rfl hne
      obtain ⟨r, s1⟩ := br
      rw [blockMatch_mono hf hb hfin.2]
      exact hfin.1
    · rename_i item subs _
      generalize hb : manyLoop (fresh (eval env n)) item n [] s = br at hne ⊢
      have hfin := finish_mono ih (c := c) (subs := subs) (r := br)
        (pc := if pc.contains c = true then pc else pc ++ [c]) rfl hne
      obtain ⟨r, s1⟩ := br
      rw [manyLoop_mono hf hb hfin.2]
      exact hfin.1
    · rename_i cs subs _
      generalize hb : seqNR env.tbl.quirks (fresh (eval env n)) cs [] s = br at hne ⊢
      have hfin := finish_mono ih (c := c) (subs := subs) (r := br)
        (pc := if pc.contains c = true then pc else pc ++ [c]) rfl hne
      obtain ⟨r, s1⟩ := br
      rw [seqNR_mono hf hb hfin.2]
      exact hfin.1
    · rename_i cfg scope subs _
      generalize hb : main0Match env (fresh (eval env n)) n cfg scope s = br at hne ⊢
      have hfin := finish_mono ih (c := c) (subs := subs) (r := br)
        (pc := if pc.contains c = true then pc else pc ++ [c]) rfl hne
      obtain ⟨r, s1⟩ := br
      rw [main0Match_mono hf hb hfin.2]
      exact hfin.1
    · rename_i unit main0 subs _
      generalize hb : programMatch env (fresh (eval env n)) n unit main0 s = br at hne ⊢
      have hne' : (finish env (eval env n) c subs br [c]).1 ≠ .raise .outOfFuel := by
        intro h; rw [h] at hne; simp [programConvert] at hne
      have hfin := finish_mono ih (c := c) (subs := subs) (r := br) (pc := [c]) rfl hne'
      obtain ⟨r, s1⟩ := br
      rw [programMatch_mono hf hb hfin.2]
      have h1 : finish env (eval env (n + 1)) c subs (r, s1) [c]
          = finish env (eval env n) c subs (r, s1) [c] := hfin.1
      rw [h1]
    · rfl
    · rfl
    · rfl

/-- more fuel never changes a completed result -/
theorem eval_mono (env : Env) {n m : Nat} (hnm : n ≤ m) (c : Cls) (pc : List Cls) (s : St)
    (h : (eval env n c pc s).1 ≠ .raise .outOfFuel) : eval env m c pc s = eval env n c pc s := by
  induction hnm with
  | refl => rfl
  | step hle ih =>
    rename_i k
    rw [← ih]
    exact eval_step_mono env k c pc s (by rw [ih]; exact h)

end Fp.Block
