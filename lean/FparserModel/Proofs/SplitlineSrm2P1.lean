import FparserModel.Proofs.SplitlineSrm2Tok
/-!
Phase 1 of `string_replace_map` (character literals → `_F2PY_STRING_CONSTANT_n_`) as a token list.
-/
namespace Fp.Splitline
open Fp

/-- `item[-1]` as a string -/
def lastOf (s : Str) : Str := match s.getLast? with | some c => [c] | none => []

theorem rewrap_eq (s key : Str) : rewrap s key = s.take 1 ++ key ++ lastOf s := rfl

theorem rewrap_interior (s : Str) (h : interior s ≠ []) : s.take 1 ++ interior s ++ lastOf s = s := by
  cases s with
  | nil => simp [interior] at h
  | cons a t =>
    cases t with
    | nil => simp [interior] at h
    | cons b u =>
      have h1 : (a :: b :: u).getLast? = (b :: u).getLast? := List.getLast?_cons_cons
      have h2 : (b :: u).getLast? = some ((b :: u).getLast (by simp)) := List.getLast?_eq_some_getLast (by simp)
      have h3 := List.dropLast_concat_getLast (l := b :: u) (by simp)
      simp only [lastOf, h1, h2, interior, List.drop_succ_cons, List.drop_zero, List.take_succ_cons,
        List.take_zero]
      simp only [List.cons_append, List.nil_append, List.append_assoc]
      rw [h3]

theorem interior_sub (s : Str) : ∀ c ∈ interior s, c ∈ s := by
  intro c hc
  unfold interior at hc
  exact List.mem_of_mem_drop (List.dropLast_subset _ hc)

theorem take1_sub (s : Str) : ∀ c ∈ s.take 1, c ∈ s := fun _ hc => List.mem_of_mem_take hc

theorem lastOf_sub (s : Str) : ∀ c ∈ lastOf s, c ∈ s := by
  intro c hc
  unfold lastOf at hc
  split at hc
  · rename_i x hx
    simp at hc; subst hc
    exact List.mem_of_getLast? hx
  · simp at hc

theorem not_simple_ne_nil (t : Str) (h : isSimple t = false) : t ≠ [] := by
  intro ht; subst ht; simp [isSimple] at h

/-- invariant of the first loop -/
structure P1Inv (st : SrmState) : Prop where
  keys : ∀ k v, st.map.get? k = some v → ∃ j, j ≤ st.strIdx ∧ k = strKey j
  rev : ∀ t k, st.rev.get? t = some k → st.map.get? k = some t

theorem P1Inv_init : P1Inv {} := by
  constructor <;> intro a b h <;> simp [Map.get?] at h

def MapExt (m m' : Map) : Prop := ∀ k v, m.get? k = some v → m'.get? k = some v

theorem MapExt.refl (m : Map) : MapExt m m := fun _ _ h => h
theorem MapExt.trans {a b c : Map} (h1 : MapExt a b) (h2 : MapExt b c) : MapExt a c :=
  fun k v h => h2 k v (h1 k v h)

/-- the fields the first loop never touches -/
def SameAux (st st' : SrmState) : Prop :=
  st'.revParen = st.revParen ∧ st'.constIdx = st.constIdx ∧ st'.parensIdx = st.parensIdx ∧
  st'.constKeys = st.constKeys ∧ st'.exprKeys = st.exprKeys

theorem SameAux.refl (st : SrmState) : SameAux st st := ⟨rfl, rfl, rfl, rfl, rfl⟩
theorem SameAux.trans {a b c : SrmState} (h1 : SameAux a b) (h2 : SameAux b c) : SameAux a c := by
  obtain ⟨a1, a2, a3, a4, a5⟩ := h1
  obtain ⟨b1, b2, b3, b4, b5⟩ := h2
  exact ⟨b1.trans a1, b2.trans a2, b3.trans a3, b4.trans a4, b5.trans a5⟩

/-- what one iteration of the first loop does -/
theorem phase1Step_spec (d : Discipline) (hd : d.lookupTrimmed = true) (st : SrmState)
    (seg : Seg) (inv : P1Inv st) :
    P1Inv (phase1Step d st seg).1 ∧ MapExt st.map (phase1Step d st seg).1.map ∧
    SameAux st (phase1Step d st seg).1 ∧
    (((phase1Step d st seg).2 = seg.str ∧
        ∀ s, seg = .quoted s → isSimple (interior s) = true) ∨
     (∃ s j, seg = .quoted s ∧ isSimple (interior s) = false ∧
        (phase1Step d st seg).2 = s.take 1 ++ strKey j ++ lastOf s ∧
        (phase1Step d st seg).1.map.get? (strKey j) = some (interior s))) := by
  cases seg with
  | plain s =>
    refine ⟨inv, MapExt.refl _, SameAux.refl _, .inl ⟨rfl, ?_⟩⟩
    intro s' h; cases h
  | quoted s =>
    unfold phase1Step
    by_cases hs : isSimple (interior s) = true
    · simp only [hs, Bool.not_true, Bool.false_eq_true, if_false]
      refine ⟨inv, MapExt.refl _, SameAux.refl _, .inl ⟨rfl, ?_⟩⟩
      intro s' h; cases h; exact hs
    · have hs' : isSimple (interior s) = false := by simpa using hs
      simp only [hs', Bool.not_false, if_true, hd]
      cases hrev : st.rev.get? (interior s) with
      | some key =>
        simp only
        have hm := inv.rev _ _ hrev
        obtain ⟨j, _, hj⟩ := inv.keys _ _ hm
        subst hj
        exact ⟨inv, MapExt.refl _, SameAux.refl _, .inr ⟨s, j, rfl, hs', rfl, hm⟩⟩
      | none =>
        simp only
        have hfresh : ∀ k v, st.map.get? k = some v → strKey (st.strIdx + 1) ≠ k := by
          intro k v h hk
          obtain ⟨j, hj, rfl⟩ := inv.keys k v h
          have := strKey_inj hk
          omega
        refine ⟨⟨?_, ?_⟩, ?_, ⟨rfl, rfl, rfl, rfl, rfl⟩, .inr ⟨s, st.strIdx + 1, rfl, hs', rfl, ?_⟩⟩
        · intro k v h
          by_cases hk : strKey (st.strIdx + 1) = k
          · exact ⟨st.strIdx + 1, Nat.le_refl _, hk.symm⟩
          · simp only at h
            rw [Map.get?_set_ne _ _ _ _ hk] at h
            obtain ⟨j, hj, rfl⟩ := inv.keys k v h
            exact ⟨j, by simp only; omega, rfl⟩
        · intro t k h
          simp only at h ⊢
          by_cases ht : interior s = t
          · subst ht
            rw [Map.get?_set_self] at h
            cases h
            exact Map.get?_set_self _ _ _
          · rw [Map.get?_set_ne _ _ _ _ ht] at h
            have hm := inv.rev t k h
            rw [Map.get?_set_ne _ _ _ _ (hfresh k t hm)]
            exact hm
        · intro k v h
          show Map.get? (Map.set st.map _ _) k = some v
          rw [Map.get?_set_ne _ _ _ _ (hfresh k v h)]
          exact h
        · exact Map.get?_set_self _ _ _

theorem phase1_cons (d : Discipline) (st : SrmState) (seg : Seg) (segs : List Seg) :
    phase1 d st (seg :: segs) =
      ((phase1 d (phase1Step d st seg).1 segs).1,
        (phase1Step d st seg).2 ++ (phase1 d (phase1Step d st seg).1 segs).2) := rfl

/-- **phase 1 as a token list** -/
theorem phase1_spec (d : Discipline) (hd : d.lookupTrimmed = true) :
    ∀ (segs : List Seg) (st : SrmState), P1Inv st →
    ∃ ts, (phase1 d st segs).2 = rawJoin ts ∧ valJoin ts = segsJoin segs ∧
      WFk (phase1 d st segs).1.map ts ∧ P1Inv (phase1 d st segs).1 ∧
      MapExt st.map (phase1 d st segs).1.map ∧ SameAux st (phase1 d st segs).1 ∧
      (∀ s, Seg.quoted s ∈ segs → isSimple (interior s) = false →
        ∃ n, (phase1 d st segs).1.map.get? (strKey n) = some (interior s))
  | [], st, inv =>
    ⟨[], rfl, rfl, trivial, inv, MapExt.refl _, SameAux.refl _, by intro s h; simp at h⟩
  | seg :: segs, st, inv => by
    obtain ⟨inv1, ext1, aux1, hstep⟩ := phase1Step_spec d hd st seg inv
    obtain ⟨ts, h1, h2, h3, h4, h5, h6, h7⟩ := phase1_spec d hd segs _ inv1
    rw [phase1_cons]
    simp only
    have hlit : ∀ s, Seg.quoted s ∈ seg :: segs → isSimple (interior s) = false →
        ∃ n, (phase1 d (phase1Step d st seg).1 segs).1.map.get? (strKey n) = some (interior s) := by
      intro s hs hns
      rcases List.mem_cons.mp hs with hs | hs
      · rcases hstep with ⟨_, hsim⟩ | ⟨s', j, hseg, _, _, hget⟩
        · have := hsim s hs.symm
          rw [this] at hns; cases hns
        · rw [← hs] at hseg; cases hseg
          exact ⟨j, h5 _ _ hget⟩
      · exact h7 s hs hns
    rcases hstep with ⟨htxt, _⟩ | ⟨s, j, hseg, hns, htxt, hget⟩
    · refine ⟨.chunk seg.str :: ts, ?_, ?_, h3, h4, ext1.trans h5, aux1.trans h6, hlit⟩
      · rw [htxt, h1]; simp [Tok.raw]
      · rw [segsJoin_cons, ← h2]; simp [Tok.val]
    · subst hseg
      have hs : s.take 1 ++ interior s ++ lastOf s = s := rewrap_interior s (not_simple_ne_nil _ hns)
      refine ⟨.chunk (s.take 1) :: .key (strKey j) (interior s) :: .chunk (lastOf s) :: ts, ?_, ?_,
        ⟨.inl ⟨j, rfl⟩, h5 _ _ hget, h3⟩, h4, ext1.trans h5, aux1.trans h6, hlit⟩
      · rw [htxt, h1]; simp [Tok.raw]
      · rw [segsJoin_cons, ← h2]
        simp only [valJoin_cons, Tok.val, Seg.str]
        conv => rhs; rw [← hs]
        simp

/-- `item[1:-1]` is a substring of the item -/
theorem interior_infix (s : Str) : ∃ a b, s = a ++ (interior s ++ b) := by
  by_cases h : interior s = []
  · exact ⟨s, [], by simp [h]⟩
  · exact ⟨s.take 1, lastOf s, by have := rewrap_interior s h; simpa using this.symm⟩

end Fp.Splitline
