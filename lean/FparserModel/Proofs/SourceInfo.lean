import FparserModel.SourceInfo
/-! helper lemmas for the free/fixed heuristic -/
namespace Fp.SourceInfo
open Fp

/-- a line that takes part in the vote: non-blank after `rstrip`, not a `!` comment -/
def counted (line : Str) : Bool :=
  match rstrip line with
  | [] => false
  | c :: _ => c != '!'

/-- the line votes "free" -/
def votesFree (line : Str) : Bool := counted line && freeLine (rstrip line)

theorem detectLoop_cons (l : Str) (ls : List Str) (t : Nat) :
    detectLoop (l :: ls) (t+1) =
      if counted l then (if freeLine (rstrip l) then true else detectLoop ls t)
      else detectLoop ls (t+1) := by
  rw [detectLoop]
  unfold counted
  cases h : rstrip l with
  | nil => simp
  | cons c cs =>
    by_cases hc : c = '!' <;> simp [hc]

/-- no voting line votes free ⇒ fixed -/
theorem detectLoop_false (ls : List Str) (t : Nat) (h : ∀ l ∈ ls, votesFree l = false) :
    detectLoop ls t = false := by
  induction ls generalizing t with
  | nil => simp [detectLoop]
  | cons l ls ih =>
    cases t with
    | zero => simp [detectLoop]
    | succ t =>
      rw [detectLoop_cons]
      have hl := h l (by simp)
      have hr : ∀ l' ∈ ls, votesFree l' = false := fun l' hl' => h l' (by simp [hl'])
      unfold votesFree at hl
      by_cases hc : counted l
      · simp [hc] at hl; simp [hc, hl, ih _ hr]
      · simp [hc, ih _ hr]

/-- a free vote within the first `t` voting lines ⇒ free -/
theorem detectLoop_true (pre : List Str) (l : Str) (post : List Str) (t : Nat)
    (hcount : (pre.filter counted).length < t) (hl : votesFree l = true) :
    detectLoop (pre ++ l :: post) t = true := by
  induction pre generalizing t with
  | nil =>
    cases t with
    | zero => simp at hcount
    | succ t =>
      simp only [List.nil_append]
      rw [detectLoop_cons]
      simp [votesFree] at hl
      simp [hl]
  | cons p pre ih =>
    cases t with
    | zero => simp at hcount
    | succ t =>
      simp only [List.cons_append]
      rw [detectLoop_cons]
      by_cases hc : counted p
      · simp [hc] at hcount ⊢
        by_cases hf : freeLine (rstrip p)
        · simp [hf]
        · simp [hf]; exact ih t (by omega)
      · simp [hc] at hcount ⊢
        exact ih (t+1) (by omega)

theorem dropWhile_head_not (p : Char → Bool) (l : Str) (d : Char) (r : Str)
    (h : l.dropWhile p = d :: r) : p d = false ∧ d ∈ l := by
  induction l with
  | nil => simp at h
  | cons c cs ih =>
    rw [List.dropWhile_cons] at h
    by_cases hc : p c
    · simp [hc] at h; have := ih h; exact ⟨this.1, by simp [this.2]⟩
    · simp [hc] at h; rcases h with ⟨rfl, _⟩; exact ⟨by simpa using hc, by simp⟩

/-- a 5-column window made of blanks and digits only never matches `_FREE_FORMAT_START` -/
theorem freeStart_label_field (w : Str) (h : ∀ c ∈ w, isSpace c = true ∨ isDigit c = true) :
    freeStart w = false := by
  unfold freeStart
  cases w with
  | nil => rfl
  | cons c rest =>
    simp only
    split
    · rfl
    · split
      · rfl
      · rename_i d r hd
        have := dropWhile_head_not isSpace rest d r hd
        have hd' := h d (by simp [this.2])
        simp [this.1] at hd' ⊢
        simp [hd']

theorem freeStart_comment (c : Char) (rest : Str)
    (h : c = 'c' ∨ c = 'C' ∨ c = '*' ∨ c = '!') : freeStart (c :: rest) = false := by
  unfold freeStart
  rcases h with rfl | rfl | rfl | rfl <;> simp

end Fp.SourceInfo
